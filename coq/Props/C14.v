(* C14 — property theorems only.  Each is closed by [exact] of a lemma from
   Proofs/NameServer.v, instantiated at core.NAMESERVER_NAME as generated from the source,
   followed by Print Assumptions.  [spec_run] is the simple map; [mem_run] / [sql_run] are the
   NameServer class over MemoryStorage / SqlStorage; [quirks_none] is the behaviour without the
   three known deviations (which are refuted separately below). *)
From Coq Require Import List NArith Arith Bool.
Import ListNotations.
From V Require Import Model.Bytes Model.NameServer Proofs.NameServer Gen.GenNameServer.

(* Every history on the in-memory back-end answers exactly like the map and leaves exactly the map. *)
Theorem C14_mem_refines_spec : forall h s, dict_ok s ->
  mem_run ns_name quirks_none s h = spec_run ns_name s h /\ dict_ok (fst (spec_run ns_name s h)).
Proof. exact (mem_run_spec ns_name). Qed.
Print Assumptions C14_mem_refines_spec.

(* Every history on the sqlite back-end: the table invariant is kept, the join of the two tables is
   exactly the map, and every answer is the map's answer. *)
Theorem C14_sql_refines_spec : forall h t, inv t ->
  inv (fst (sql_run ns_name quirks_none t h)) /\
  abs (fst (sql_run ns_name quirks_none t h)) = fst (spec_run ns_name (abs t) h) /\
  snd (sql_run ns_name quirks_none t h) = snd (spec_run ns_name (abs t) h).
Proof. exact (sql_run_spec ns_name). Qed.
Print Assumptions C14_sql_refines_spec.

(* The two back-ends, started on the same map, give the same answers to every history and end in the same map. *)
Theorem C14_backends_indistinguishable : forall h t, inv t ->
  snd (mem_run ns_name quirks_none (abs t) h) = snd (sql_run ns_name quirks_none t h) /\
  fst (mem_run ns_name quirks_none (abs t) h) = abs (fst (sql_run ns_name quirks_none t h)).
Proof. exact (backends_same ns_name). Qed.
Print Assumptions C14_backends_indistinguishable.

Theorem C14_backends_indistinguishable_fresh : forall h,
  snd (mem_run ns_name quirks_none [] h) = snd (sql_run ns_name quirks_none tables_empty h) /\
  fst (mem_run ns_name quirks_none [] h) = abs (fst (sql_run ns_name quirks_none tables_empty h)).
Proof. exact (backends_same_fresh ns_name). Qed.
Print Assumptions C14_backends_indistinguishable_fresh.

(* The name server's own entry is never removed, whatever the history (map, memory, sqlite). *)
Theorem C14_ns_entry_kept : forall h s, d_has ns_name s = true -> d_has ns_name (fst (spec_run ns_name s h)) = true.
Proof. exact (spec_run_ns_entry_kept ns_name). Qed.
Print Assumptions C14_ns_entry_kept.
Theorem C14_ns_entry_kept_mem : forall h s, dict_ok s -> d_has ns_name s = true ->
  d_has ns_name (fst (mem_run ns_name quirks_none s h)) = true.
Proof. exact (mem_ns_entry_kept ns_name). Qed.
Print Assumptions C14_ns_entry_kept_mem.
Theorem C14_ns_entry_kept_sql : forall h t, inv t -> d_has ns_name (abs t) = true ->
  d_has ns_name (abs (fst (sql_run ns_name quirks_none t h))) = true.
Proof. exact (sql_ns_entry_kept ns_name). Qed.
Print Assumptions C14_ns_entry_kept_sql.

(* remove answers the number of entries that really disappeared; the others are untouched;
   a remove that raises changes nothing. *)
Theorem C14_removal_count_exact : forall s name prefix rx, dict_ok s ->
  let r := spec_step ns_name s (OpRemove name prefix rx) in
  match snd r with
  | OCount c => Nlen s = (Nlen (fst r) + c)%N /\ forall n, d_find n (fst r) = d_find n s \/ d_find n (fst r) = None
  | _ => fst r = s
  end.
Proof. exact (spec_removal_count ns_name). Qed.
Print Assumptions C14_removal_count_exact.

(* Prefixes are literal prefixes, compared code point by code point (no wildcard, no case folding). *)
Theorem C14_prefix_literal : forall s x p wm n v, dict_ok s ->
  snd (spec_step ns_name s (OpList (Some (x :: p)) None wm)) = ODict (view wm (keep (prefixb (x :: p)) s)) /\
  (In (n, v) (keep (prefixb (x :: p)) s) <-> In (n, v) s /\ exists rest, n = (x :: p) ++ rest).
Proof. exact (spec_list_prefix_literal ns_name). Qed.
Print Assumptions C14_prefix_literal.

(* Names are matched literally. *)
Theorem C14_lookup_literal : forall s n u m, dict_ok s ->
  snd (spec_step ns_name s (OpLookup n true)) = OUri u (Some m) <-> In (n, (u, m)) s.
Proof. exact (spec_lookup_literal ns_name). Qed.
Print Assumptions C14_lookup_literal.

(* Failure atomicity on the sqlite back-end, for every variant of the model, every database, every
   operation and every failure point k: if statement k is one the operation executes, the operation
   raises the storage error and the database is unchanged; otherwise the failure point is never
   reached and the operation behaves exactly as without it. *)
Theorem C14_failure_atomic : forall q t op k,
  ((k < sql_nstmts ns_name q t op)%nat -> sql_step ns_name q (Some k) t op = (t, OStorageError)) /\
  ((sql_nstmts ns_name q t op <= k)%nat -> sql_step ns_name q (Some k) t op = sql_step ns_name q None t op).
Proof. exact (sql_failure_atomic ns_name). Qed.
Print Assumptions C14_failure_atomic.

(* Reopening the database between two parts of a history changes nothing (the model has no state
   besides the tables; sqlite's durability is the trusted part, exercised by the harness). *)
Theorem C14_reopen_same_map : forall q h1 h2 t,
  sql_run ns_name q t (h1 ++ h2) =
  let (t1, o1) := sql_run ns_name q t h1 in let (t2, o2) := sql_run ns_name q (reopen t1) h2 in (t2, o1 ++ o2).
Proof. exact (sql_reopen_same ns_name). Qed.
Print Assumptions C14_reopen_same_map.

(* The statement structure of SqlStorage, as extracted from the source on this run (helper calls followed), is
   the one the model and C14_failure_atomic rely on: the three writing methods run exactly the modelled
   statements with the commit last, the reading methods contain nothing but SELECTs. *)
Theorem C14_sql_statements_as_modelled : sql_shape_ok sql_methods = true.
Proof. vm_compute. reflexivity. Qed.
Print Assumptions C14_sql_statements_as_modelled.

(* The three known deviations violate the property (witnesses replayed on the code by the harness). *)
Definition reg (n : text) (tags : option (list text)) : ns_op := OpRegister n [80; 89; 82; 79; 58; 111; 64; 104; 58; 49]%N false tags.
Theorem C14_sql_like_prefix_refuted : exists h,
  snd (sql_run ns_name {| q_sql_like_prefix := true; q_sql_meta_all_dups := false; q_remove_empty_name := false |} tables_empty h)
  <> snd (spec_run ns_name [] h).
Proof. exists [reg [97; 98; 99]%N None; OpList (Some [65]%N) None false]. vm_compute. discriminate. Qed.
Print Assumptions C14_sql_like_prefix_refuted.
Theorem C14_sql_meta_all_dups_refuted : exists h,
  snd (sql_run ns_name {| q_sql_like_prefix := false; q_sql_meta_all_dups := true; q_remove_empty_name := false |} tables_empty h)
  <> snd (spec_run ns_name [] h).
Proof. exists [reg [120]%N (Some [[116]%N]); OpYp (Some [[116]%N; [116]%N]) None false]. vm_compute. discriminate. Qed.
Print Assumptions C14_sql_meta_all_dups_refuted.
Theorem C14_remove_empty_name_refuted : exists h,
  snd (mem_run ns_name {| q_sql_like_prefix := false; q_sql_meta_all_dups := false; q_remove_empty_name := true |} [] h)
  <> snd (spec_run ns_name [] h).
Proof. exists [reg [] None; OpRemove (Some []) None None]. vm_compute. discriminate. Qed.
Print Assumptions C14_remove_empty_name_refuted.

(* non-vacuity: a history with case pairs, wildcard characters and the name server's own entry;
   an operation whose 4th statement fails *)
Example C14_nonvacuous_history :
  snd (sql_run ns_name quirks_none tables_empty
        [reg ns_name None; reg [97; 98; 99]%N (Some [[116]; [116]; [84]]%N); reg [65; 98; 99]%N None; reg [97; 37]%N None;
         OpList (Some [97]%N) None false; OpRemove None (Some [97]%N) None; OpRemove (Some ns_name) (Some [80]%N) None; OpCount;
         OpYp (Some [[116]; [116]]%N) None true])
  = [OOk; OOk; OOk; OOk;
     ODict [([97; 98; 99]%N, ([80; 89; 82; 79; 58; 111; 64; 104; 58; 49]%N, None)); ([97; 37]%N, ([80; 89; 82; 79; 58; 111; 64; 104; 58; 49]%N, None))];
     OCount 2; OCount 0; OCount 2; ODict []].
Proof. vm_compute. reflexivity. Qed.
Example C14_nonvacuous_invariant : inv tables_empty /\ dict_ok [].
Proof. exact (conj inv_empty dict_ok_empty). Qed.
Example C14_nonvacuous_failure :
  let t := fst (sql_run ns_name quirks_none tables_empty [reg [97]%N (Some [[116]]%N)]) in
  sql_nstmts ns_name quirks_none t (reg [97]%N (Some [[117]; [118]]%N)) = 8%nat /\
  sql_step ns_name quirks_none (Some 5%nat) t (reg [97]%N (Some [[117]; [118]]%N)) = (t, OStorageError) /\
  snd (sql_step ns_name quirks_none (Some 8%nat) t (reg [97]%N (Some [[117]; [118]]%N))) = OOk.
Proof. vm_compute. repeat split. Qed.
