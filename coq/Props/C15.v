(* C15 — name-server operations are atomic under concurrent clients.  Property theorems only. *)
From Coq Require Import List NArith Arith Bool.
Import ListNotations.
From V Require Import Model.Bytes Model.Atomic Model.NsAtomic Gen.GenLocks Proofs.Atomic Proofs.NsAtomic.

(* Tie to the source (regenerated from nameserver.py on every run): every access of the storage
   made by every NameServer method lies inside one single `with self.lock:` region.  This is what
   licenses modelling each operation as ONE critical section ([compile]). *)
Theorem C15_source_all_locked : ns_all_locked = true.
Proof. reflexivity. Qed.
Print Assumptions C15_source_all_locked.

(* Generic: whatever the threads' critical sections do, for EVERY schedule (arbitrary list of
   thread ids, one shared access per step) the state, the registers (= operation results) and
   the remaining code equal those of executing whole critical sections atomically, in the order
   [lin] in which they were released. *)
Theorem C15_locked_ops_atomic :
  forall (S R : Type) (c0 : config S R) (sched : list nat),
  quiescent S R c0 ->
  owner (run sched c0) = None ->
  shared (run sched c0) = shared (arun (lin sched c0) c0) /\
  forall i, threads (run sched c0) i = threads (arun (lin sched c0) c0) i.
Proof. exact locked_ops_atomic. Qed.
Print Assumptions C15_locked_ops_atomic.

(* ... and each operation's linearisation point lies between its call and its return: the atomic
   order is the subsequence of the schedule consisting of the release steps. *)
Theorem C15_linearisation_points_within_operations :
  forall (S R : Type) (sched : list nat) (c : config S R), subseq (lin sched c) sched.
Proof. exact lin_subseq. Qed.
Print Assumptions C15_linearisation_points_within_operations.

(* The name server: any number of client threads, any operation lists, any initial store, any schedule. *)
Theorem C15_ns_ops_atomic :
  forall (nsn : name) (s0 : store) (progs : list (list nsop)) (sched : list nat),
  let c0 := init (compile nsn) s0 progs in
  owner (run sched c0) = None ->
  shared (run sched c0) = shared (arun (lin sched c0) c0) /\
  forall i, threads (run sched c0) i = threads (arun (lin sched c0) c0) i.
Proof. exact ns_ops_atomic. Qed.
Print Assumptions C15_ns_ops_atomic.

(* Of any number of concurrent safe registrations of one (absent) name exactly one succeeds —
   its value is the one stored — and all others get a naming error; for every schedule under
   which all of them have returned. *)
Theorem C15_safe_register_once :
  forall (nsn n : name) (vals : list val) (s0 : store) (sched : list nat),
  let c := run sched (init (compile nsn) s0 (reg_progs n vals)) in
  vals <> [] ->
  s_mem n s0 = false ->
  owner c = None ->
  (forall i, i < length vals -> todo (threads c i) = []) ->
  exists w vw, nth_error vals w = Some vw /\
    r_results (tregs (threads c w)) = [ROk] /\
    s_get n (shared c) = Some vw /\
    forall i, i < length vals -> i <> w -> r_results (tregs (threads c i)) = [RNamingError].
Proof. exact safe_register_once. Qed.
Print Assumptions C15_safe_register_once.

(* k concurrent removals of one registered name (not the name server's own entry): exactly one
   reports 1, all others report 0, none fails with an internal error, and the name is gone. *)
Theorem C15_remove_total_one :
  forall (nsn n : name) (k : nat),
  name_eqb n nsn = false ->
  forall (s0 : store) (sched : list nat),
  let c := run sched (init (compile nsn) s0 (rem_progs n k)) in
  0 < k ->
  s_mem n s0 = true -> uniq s0 = true ->
  owner c = None ->
  (forall i, i < k -> todo (threads c i) = []) ->
  s_mem n (shared c) = false /\
  exists w, w < k /\ r_results (tregs (threads c w)) = [RCount 1] /\
    forall i, i < k -> i <> w -> r_results (tregs (threads c i)) = [RCount 0].
Proof. exact remove_total_one. Qed.
Print Assumptions C15_remove_total_one.

(* The code as it was at the pinned commit (membership test of remove() outside the lock) violates
   the property: a concrete two-thread schedule ends with an internal error (KeyError). *)
Theorem C15_unlocked_remove_refuted :
  let c := run refute_sched (init (compile_unlocked [78%N]) refute_store refute_progs) in
  owner c = None /\ results_of c 0 = [RCount 1] /\ results_of c 1 = [RInternalError].
Proof. exact unlocked_remove_refuted. Qed.
Print Assumptions C15_unlocked_remove_refuted.

(* non-vacuity: the hypotheses of the two race theorems are met by concrete complete schedules *)
Example C15_nonvacuous_register :
  let c := run [0;1;2;0;0;0;1;1;1;1;2;2;2;2] (init (compile [78%N]) [] (reg_progs [110%N] [1%N; 2%N; 3%N])) in
  owner c = None /\ (forallb (fun i => match todo (threads c i) with [] => true | _ => false end) [0;1;2] = true)
  /\ results_of c 0 = [ROk] /\ results_of c 1 = [RNamingError].
Proof. vm_compute. repeat split. Qed.
Example C15_nonvacuous_remove :
  let c := run [1;0;1;1;1;0;0;0] (init (compile [78%N]) [([120%N], 11%N)] (rem_progs [120%N] 2)) in
  owner c = None /\ results_of c 1 = [RCount 1] /\ results_of c 0 = [RCount 0].
Proof. vm_compute. repeat split. Qed.
