From V Require Import Model.NsAtomic.
