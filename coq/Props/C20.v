(* C20 — the HTTP gateway forwards only authorised requests, and forwards them faithfully.
   Property theorems only; each is closed by [exact] of a lemma of Proofs/Gateway.v, instantiated at the
   routing constants generated from Pyro5/utils/httpgateway.py (gen_consts), for an arbitrary regex oracle. *)
From Coq Require Import List NArith Bool String.
Import ListNotations.
From V Require Import Model.Gateway Proofs.Gateway Gen.GenGateway Harness.H20.

Definition gw (matches : text -> text -> bool) := route matches gen_consts.

(* A call request /pyro/<object>/<member> is exactly that split of the path (so "the named object" and
   "the named member" below are the ones the client wrote). *)
Theorem C20_target_is_path_split : forall rq obj member,
  call_target gen_consts rq = Some (obj, member) ->
  exists tail, lstrip_slash (rq_path rq) = k_prefix gen_consts ++ obj ++ slash :: member ++ tail /\
               obj <> [] /\ member <> [] /\ ~ In newline obj /\ ~ In newline member /\
               (tail = [] \/ exists t', tail = newline :: t').
Proof. exact (target_is_path_split gen_consts). Qed.
Print Assumptions C20_target_is_path_split.

(* Any contact with the name server or a Pyro object for a call request implies: GET/POST, the configured key
   was presented (if one is configured), and the object name matches the expose pattern.  All quirk settings. *)
Theorem C20_no_traffic_unless_authorised : forall matches q cfg be rq obj member,
  call_target gen_consts rq = Some (obj, member) ->
  snd (gw matches q cfg be rq) <> [] ->
  authorised matches gen_consts cfg rq obj.
Proof. exact (fun m => no_traffic_unless_authorised m gen_consts). Qed.
Print Assumptions C20_no_traffic_unless_authorised.

(* Every other call request is refused (403; 405 for other methods; the CORS preflight answers 200 without
   doing anything) and causes no backend action. *)
Theorem C20_refusal_status : forall matches q cfg be rq obj member,
  q_multi_key_crash q = false ->
  call_target gen_consts rq = Some (obj, member) ->
  ~ authorised matches gen_consts cfg rq obj ->
  snd (gw matches q cfg be rq) = [] /\
  exists st b, fst (gw matches q cfg be rq) = Resp st b false /\
               (st = 403 \/ st = 405 \/ (st = 200 /\ b = BPreflight))%N.
Proof. exact (fun m => refusal_status m gen_consts). Qed.
Print Assumptions C20_refusal_status.

(* Requests that are neither a call request nor the index page never reach the backend (302/404/405/preflight). *)
Theorem C20_non_call_no_traffic : forall matches q cfg be rq,
  call_target gen_consts rq = None -> is_index gen_consts rq = false ->
  snd (gw matches q cfg be rq) = [] /\ refusal (fst (gw matches q cfg be rq)).
Proof. exact (fun m => non_call_no_traffic m gen_consts). Qed.
Print Assumptions C20_non_call_no_traffic.

(* The keyless exception: the index page lists the name server with the configured pattern and looks up / binds
   only registered names that match it. *)
Theorem C20_index_only_exposed : forall matches q cfg be rq a,
  is_index gen_consts rq = true ->
  In a (snd (gw matches q cfg be rq)) -> index_action matches cfg be a.
Proof. exact (fun m => index_only_exposed m gen_consts). Qed.
Print Assumptions C20_index_only_exposed.

(* A forwarded request touches only the named object: one look-up of exactly that name, a proxy for exactly the
   URI it is registered under, and a call of exactly the named member with exactly the query parameters. *)
Theorem C20_forward_faithful : forall matches q cfg be rq obj member a,
  q_proxy_local q = false ->
  call_target gen_consts rq = Some (obj, member) -> authorised matches gen_consts cfg rq obj ->
  In a (snd (gw matches q cfg be rq)) ->
  faithful_action gen_consts cfg be rq obj member a.
Proof. exact (fun m => forward_faithful m gen_consts). Qed.
Print Assumptions C20_forward_faithful.

(* ... at most once (one look-up, one remote call), whatever the quirk settings. *)
Theorem C20_forward_once : forall matches q cfg be rq obj member,
  call_target gen_consts rq = Some (obj, member) ->
  (remote_calls (snd (gw matches q cfg be rq)) <= 1)%nat /\
  (List.length (filter is_lookup (snd (gw matches q cfg be rq))) <= 1)%nat.
Proof. exact (fun m => forward_once m gen_consts). Qed.
Print Assumptions C20_forward_once.

(* The HTTP client receives that call's raw result (200), its remote exception (500), nothing for a oneway call,
   the metadata for $meta without any call, or a 500 error report; never a success without the call. *)
Theorem C20_forward_result : forall matches q cfg be rq obj member,
  q_proxy_local q = false ->
  call_target gen_consts rq = Some (obj, member) -> authorised matches gen_consts cfg rq obj ->
  faithful_result gen_consts be member (gw matches q cfg be rq).
Proof. exact (fun m => forward_result_faithful m gen_consts). Qed.
Print Assumptions C20_forward_result.

(* Liveness: an authorised request for an existing method of a registered object IS invoked, once, with exactly
   the parameters (minus the key parameter when a key is configured), and its reply is what the client gets. *)
Theorem C20_forward_method_invoked : forall matches q cfg be rq obj member uri md,
  call_target gen_consts rq = Some (obj, member) -> authorised matches gen_consts cfg rq obj ->
  be_ns_ok be = true -> assoc obj (be_registry be) = Some uri -> rq_corr rq <> CorrInvalid ->
  be_meta be = Some md -> teqb member (k_meta gen_consts) = false ->
  mem member (md_attrs md) = false -> mem member (md_methods md) = true ->
  mem py_self (map fst (rq_params rq)) = false ->
  let ow := mem (k_oneway gen_consts) (split_on (k_sep gen_consts) (rq_options rq)) || mem member (md_oneway md) in
  snd (gw matches q cfg be rq) =
    [AGetNS; ALookup obj; ANewProxy uri; AGetMeta uri; AInvoke uri member (forwarded_params gen_consts cfg rq) ow; ARelease uri] /\
  fst (gw matches q cfg be rq) =
    (if ow then Resp 200 BEmpty true else
       match be_reply be with
       | RRaise c => Resp 500 (BError (EBackend c)) false
       | ROk d => Resp 200 (BRaw d) true
       | RExc d => Resp 500 (BRaw d) false
       end).
Proof. exact (fun m => forward_method_invoked m gen_consts). Qed.
Print Assumptions C20_forward_method_invoked.

(* The structural facts read from the source on this run: in process_pyro_request both guards come before every
   statement that mentions the name server / proxy machinery, and both refuse by returning. *)
Theorem C20_guards_precede_backend :
  guards_precede_backend && key_guard_refuses_by_return && pattern_guard_refuses_by_return = true.
Proof. vm_compute. reflexivity. Qed.
Print Assumptions C20_guards_precede_backend.

(* The two defects found (DESIGN section 7 row 11), as behaviour of the model with the quirk switched on:
   a repeated key parameter makes the unauthorised request crash instead of being refused ... *)
Theorem C20_multi_key_refuted :
  exists cfg be rq obj member,
    call_target gen_consts rq = Some (obj, member) /\
    ~ authorised w_all gen_consts cfg rq obj /\
    fst (gw w_all {| q_multi_key_crash := true; q_proxy_local := false |} cfg be rq) = Crash.
Proof. exact multi_key_refuted. Qed.
Print Assumptions C20_multi_key_refuted.

(* ... and a member name that is an attribute of the gateway's own proxy object is answered 200 without any call. *)
Theorem C20_proxy_local_refuted :
  exists cfg be rq obj member,
    call_target gen_consts rq = Some (obj, member) /\
    authorised w_all gen_consts cfg rq obj /\
    ~ faithful_result gen_consts be member
        (gw w_all {| q_multi_key_crash := false; q_proxy_local := true |} cfg be rq).
Proof. exact proxy_local_refuted. Qed.
Print Assumptions C20_proxy_local_refuted.

(* non-vacuity: an authorised request that is forwarded; a denied one; the two witnesses after the repair *)
Example C20_nonvacuous_forwarded :
  gw w_all quirks_none w_cfg_key w_be
     {| rq_method := Some (t "POST"); rq_path := t "/pyro/http.obj/echo";
        rq_params := [(t "msg", [t "hi"]); (t "$key", [t "secret"]); (t "n", [t "1"; t "2"])];
        rq_keyhdr := []; rq_options := []; rq_corr := CorrNone |}
  = (Resp 200 (BRaw [49%N]) true,
     [AGetNS; ALookup (t "http.obj"); ANewProxy (t "PYRO:o0@h:400"); AGetMeta (t "PYRO:o0@h:400");
      AInvoke (t "PYRO:o0@h:400") (t "echo") [(t "msg", One (t "hi")); (t "n", Many [t "1"; t "2"])] false;
      ARelease (t "PYRO:o0@h:400")]).
Proof. vm_compute. reflexivity. Qed.
Example C20_nonvacuous_denied :
  gw (fun _ _ => false) quirks_none w_cfg_nokey w_be w_rq_local = (Resp 403 BForbiddenObject false, []).
Proof. vm_compute. reflexivity. Qed.
Example C20_nonvacuous_repaired :
  gw w_all quirks_none w_cfg_key w_be w_rq_multikey = (Resp 403 BForbiddenKey false, []) /\
  fst (gw w_all quirks_none w_cfg_nokey w_be w_rq_local) = Resp 500 (BError EAttribute) false.
Proof. exact witnesses_repaired. Qed.
