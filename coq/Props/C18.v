(* C18 — thread pool: property theorems (statements in full; proofs in Proofs/Pool.v). *)
From Coq Require Import List Arith Bool.
Import ListNotations.
From V Require Import Model.Pool Proofs.Pool Gen.GenPool Harness.H18.

(* the source under test takes count_lock around process, notify_done and both phases of close
   (recomputed from Pyro5/svr_threads.py on every run) *)
Theorem C18_source_fully_locked : all_locked gen_locks = true.
Proof. exact (eq_refl true). Qed.
Print Assumptions C18_source_fully_locked.

Theorem C18_pool_invariants_partial :
  forall (c : cfg) (sched : list (nat * nat)),
  all_locked (lk c) = true -> wf_cfg c ->
  let s := run c sched (init c) in
  NoDup (idle s ++ busy s)
  /\ (forall x, In x (idle s ++ busy s) -> x < nw s)
  /\ length (idle s) + length (busy s) <= size c
  /\ (m_pc (mn s) = MRelRefuse -> idle s = [] /\ length (busy s) = size c)
  /\ (m_pc (mn s) = MPop -> idle s <> [])
  /\ (forall i j, i < nw s -> w_slot (ws s i) = Some j -> closed s = false -> In i (busy s) /\ ~ In i (idle s))
  /\ (forall i, In i (idle s) -> w_slot (ws s i) = None).
Proof. exact pool_invariants. Qed.
Print Assumptions C18_pool_invariants_partial.

Theorem C18_lock_discipline :
  forall (c : cfg) (sched : list (nat * nat)),
  all_locked (lk c) = true -> wf_cfg c ->
  let s := run c sched (init c) in
  (mcs (m_pc (mn s)) = true -> lock s = Some 0)
  /\ (forall i, i < nw s -> wcs (w_pc (ws s i)) = true -> lock s = Some (S i))
  /\ (forall i, i < nw s -> mcs (m_pc (mn s)) = true -> wcs (w_pc (ws s i)) = true -> False)
  /\ (forall i k, i < nw s -> k < nw s -> wcs (w_pc (ws s i)) = true -> wcs (w_pc (ws s k)) = true -> i = k).
Proof. exact pool_lock_discipline. Qed.
Print Assumptions C18_lock_discipline.

Theorem C18_unlocked_bookkeeping_refuted :
  exists c sched, wf_cfg c /\ all_locked (lk c) = false /\
    let s := run c sched (init c) in size c < length (idle s) + length (busy s).
Proof. exact pool_unlocked_refuted. Qed.
Print Assumptions C18_unlocked_bookkeeping_refuted.

Example C18_nonvacuous :
  let c := mk_cfg 2 1 3 true (mk_lockcfg true true true true) in
  let s := run c (concat (repeat [(0,0); (0,1); (1,0); (2,0); (0,0); (1,0); (0,2); (2,0)] 30)) (init c) in
  all_locked (lk c) = true /\ wf_cfg c /\ started s = [0; 1] /\ ended s = [0; 1] /\ refused s = [2] /\ closed s = true /\ nw s = 2
  /\ w_pc (ws s 0) = WExit /\ w_pc (ws s 1) = WExit /\ m_pc (mn s) = MDone.
Proof. exact pool_nonvacuous. Qed.
