(* C18 — thread pool: property theorems (statements in full; proofs in Proofs/Pool*.v).
   Machine: Model/Pool.v, one step per instrumented primitive; c ranges over all pool
   configurations (size, minw, njobs, do_close) and lock configurations, sched over all
   lists of (thread, pop-choice); s is the state after ANY such schedule. *)
From Coq Require Import List Arith Bool.
Import ListNotations.
From V Require Import Model.Pool Model.PoolRace Proofs.Pool Proofs.PoolLock Proofs.PoolWake Proofs.PoolJobs Proofs.PoolFinal Proofs.PoolRace Gen.GenPool Harness.H18.

(* the source under test takes count_lock around process, notify_done and both phases of close
   (recomputed from Pyro5/svr_threads.py on every run) *)
Theorem C18_source_fully_locked : all_locked gen_locks = true.
Proof. exact (eq_refl true). Qed.
Print Assumptions C18_source_fully_locked.

(* Worker.run clears the job slot and calls notify_done AFTER the try statement around self.job(), and the handler
   catches Exception without leaving the loop: a job that ends by raising is handed back exactly like one that returns.
   This is what entitles the model to have a single job-end step (WJobEnd) for both outcomes. *)
Theorem C18_source_worker_hands_back : worker_handback_unconditional = true.
Proof. exact (eq_refl true). Qed.
Print Assumptions C18_source_worker_hands_back.

(* the accept loop puts COMMTIMEOUT on the accepted socket BEFORE it submits the connection, so the refusal handshake
   (which runs in the accept-loop thread) cannot wait forever for a silent peer: the model's refusal step is always enabled *)
Theorem C18_source_refusal_has_timeout : accept_timeout_before_submit = true.
Proof. exact (eq_refl true). Qed.
Print Assumptions C18_source_refusal_has_timeout.

(* workers stay bounded; idle/busy bookkeeping; a refusal is decided only with no idle worker and SIZE busy ones *)
Theorem C18_pool_invariants :
  forall (c : cfg) (sched : list (nat * nat)),
  all_locked (lk c) = true -> wf_cfg c ->
  let s := run c sched (init c) in
  NoDup (idle s ++ busy s)
  /\ (forall x, In x (idle s ++ busy s) -> x < nw s)
  /\ length (idle s) + length (busy s) <= size c
  /\ (m_pc (mn s) = MRelRefuse -> idle s = [] /\ length (busy s) = size c)
  /\ (m_pc (mn s) = MPop -> idle s <> [])
  /\ (forall i j, i < nw s -> w_slot (ws s i) = Some j -> closed s = false -> In i (busy s) /\ ~ In i (idle s))
  /\ (forall i, In i (idle s) -> w_slot (ws s i) = None).
Proof. exact pool_invariants. Qed.
Print Assumptions C18_pool_invariants.

Theorem C18_lock_discipline :
  forall (c : cfg) (sched : list (nat * nat)),
  all_locked (lk c) = true -> wf_cfg c ->
  let s := run c sched (init c) in
  (mcs (m_pc (mn s)) = true -> lock s = Some 0)
  /\ (forall i, i < nw s -> wcs (w_pc (ws s i)) = true -> lock s = Some (S i))
  /\ (forall i, i < nw s -> mcs (m_pc (mn s)) = true -> wcs (w_pc (ws s i)) = true -> False)
  /\ (forall i k, i < nw s -> k < nw s -> wcs (w_pc (ws s i)) = true -> wcs (w_pc (ws s k)) = true -> i = k).
Proof. exact pool_lock_discipline. Qed.
Print Assumptions C18_lock_discipline.

(* every connection is accounted for exactly once: refused | held by exactly one worker, not yet started |
   running on exactly one worker | ended; never run twice; never dropped while close has not begun *)
Theorem C18_job_accounting :
  forall (c : cfg) (sched : list (nat * nat)),
  all_locked (lk c) = true -> wf_cfg c ->
  let s := run c sched (init c) in
  poolclosed s = [] /\ NoDup (started s) /\ NoDup (ended s) /\ NoDup (refused s)
  /\ (forall j, jended s j -> In j (started s))
  /\ (forall j, In j (started s) -> j < sub s /\ ~ jrefused s j /\ (jended s j \/ running s j))
  /\ (forall j, jrefused s j -> j < sub s)
  /\ (forall j, held s j -> j < sub s)
  /\ (forall j, jrefused s j -> ~ held s j /\ ~ running s j /\ ~ jended s j)
  /\ (forall j, held s j -> ~ In j (started s) /\ ~ running s j /\ ~ jended s j)
  /\ (forall j, running s j -> In j (started s) /\ ~ jended s j)
  /\ (forall i k j, i < nw s -> k < nw s -> w_slot (ws s i) = Some j -> w_slot (ws s k) = Some j -> i = k)
  /\ (forall i k j, i < nw s -> k < nw s -> w_cur (ws s i) = Some j -> w_cur (ws s k) = Some j -> i = k)
  /\ (quiet s -> forall j, j < sub s -> jrefused s j \/ held s j \/ running s j \/ jended s j).
Proof. exact pool_job_accounting. Qed.
Print Assumptions C18_job_accounting.

(* a worker waiting with an unset event holds no job (except the one instant between the accept loop's slot
   write and its Event.set), is never waiting like that once the pool is closed, and otherwise is an idle member *)
Theorem C18_no_lost_wakeup :
  forall (c : cfg) (sched : list (nat * nat)),
  all_locked (lk c) = true -> wf_cfg c ->
  let s := run c sched (init c) in
  forall i, i < nw s -> w_pc (ws s i) = WWait ->
  (forall j, w_slot (ws s i) = Some j -> w_ev (ws s i) = true \/ (i = m_w (mn s) /\ m_pc (mn s) = MEvSet))
  /\ (closed s = true -> w_ev (ws s i) = true)
  /\ (w_ev (ws s i) = false -> (i = m_w (mn s) /\ mtarget (m_pc (mn s)) = true) \/ (In i (idle s) /\ closed s = false)).
Proof. exact pool_no_lost_wakeup. Qed.
Print Assumptions C18_no_lost_wakeup.

(* served until it starts: the holder of a job, run alone, starts it within four of its own steps *)
Theorem C18_served_until_end :
  forall (c : cfg) (sched : list (nat * nat)),
  all_locked (lk c) = true -> wf_cfg c ->
  let s := run c sched (init c) in
  forall i j, i < nw s -> w_slot (ws s i) = Some j -> wpre (w_pc (ws s i)) = true ->
  ~ (i = m_w (mn s) /\ m_pc (mn s) = MEvSet) ->
  In j (started (run c (repeat (S i, 0) 4) s)).
Proof. exact pool_served_until_end. Qed.
Print Assumptions C18_served_until_end.

(* close: once the flag is set no slot holds a job and no job ever starts again *)
Theorem C18_close_no_new_job :
  forall (c : cfg) (sched : list (nat * nat)),
  all_locked (lk c) = true -> wf_cfg c ->
  let s := run c sched (init c) in
  closed s = true ->
  (forall i, i < nw s -> w_slot (ws s i) = None) /\
  forall more, closed (run c more s) = true /\ started (run c more s) = started s.
Proof. exact pool_close_no_new_job. Qed.
Print Assumptions C18_close_no_new_job.

(* close: every own step of a worker brings it strictly closer to its exit (at most 13 steps, the end of its
   current job included); it is never blocked on its event, only at count_lock while another thread holds it *)
Theorem C18_close_worker_progress :
  forall (c : cfg) (sched : list (nat * nat)),
  all_locked (lk c) = true -> wf_cfg c ->
  let s := run c sched (init c) in
  closed s = true -> forall i, i < nw s -> w_pc (ws s i) <> WExit ->
  match worker_step c i s with
  | Some s' => exit_dist (w_pc (ws s' i)) < exit_dist (w_pc (ws s i)) /\ exit_dist (w_pc (ws s i)) <= 13
  | None => w_pc (ws s i) = WAcq /\ exists t, lock s = Some t /\ t <> S i
  end.
Proof. exact pool_close_worker_progress. Qed.
Print Assumptions C18_close_worker_progress.

(* no deadlock: some thread is enabled (in particular the holder of count_lock always is) unless the accept loop
   is done and every worker has exited or waits for a job; after close that means: every worker has exited *)
Theorem C18_no_deadlock :
  forall (c : cfg) (sched : list (nat * nat)),
  all_locked (lk c) = true -> wf_cfg c ->
  let s := run c sched (init c) in
  (quiescent s \/ exists t, forall ch, step_opt c t ch s <> None)
  /\ (closed s = true -> quiescent s -> forall i, i < nw s -> w_pc (ws s i) = WExit).
Proof. exact pool_no_deadlock. Qed.
Print Assumptions C18_no_deadlock.

(* ---- racing closer (Model/PoolRace.v): Pool.close() runs in a second thread while the accept loop (do_close c = false)
   is still submitting; r is the state after ANY schedule of accept loop (0), closer (1) and workers (2+i) ---- *)
Theorem C18_race_pool_invariants :
  forall (c : cfg) (sched : list (nat * nat)),
  all_locked (lk c) = true -> wf_cfg c -> do_close c = false ->
  let r := rrun c sched (rinit c) in let s := base r in
  NoDup (idle s ++ busy s)
  /\ (forall x, In x (idle s ++ busy s) -> x < nw s)
  /\ length (idle s) + length (busy s) <= size c
  /\ (m_pc (mn s) = MRelRefuse -> idle s = [] /\ length (busy s) = size c)
  /\ (forall i j, i < nw s -> w_slot (ws s i) = Some j -> closed s = false -> In i (busy s) /\ ~ In i (idle s))
  /\ (forall i, In i (idle s) -> w_slot (ws s i) = None).
Proof. exact race_pool_invariants. Qed.
Print Assumptions C18_race_pool_invariants.

Theorem C18_race_lock_discipline :
  forall (c : cfg) (sched : list (nat * nat)),
  all_locked (lk c) = true -> wf_cfg c -> do_close c = false ->
  let r := rrun c sched (rinit c) in let s := base r in
  (mcs (m_pc (mn s)) = true -> lock s = Some 0)
  /\ (mcs (m_pc (kl r)) = true -> lock s = Some 0)
  /\ (mcs (m_pc (mn s)) = true -> mcs (m_pc (kl r)) = true -> False)
  /\ (forall i, i < nw s -> wcs (w_pc (ws s i)) = true -> lock s = Some (S i))
  /\ (forall i, i < nw s -> wcs (w_pc (ws s i)) = true -> mcs (m_pc (mn s)) = false /\ mcs (m_pc (kl r)) = false)
  /\ (forall i k, i < nw s -> k < nw s -> wcs (w_pc (ws s i)) = true -> wcs (w_pc (ws s k)) = true -> i = k).
Proof. exact race_lock_discipline. Qed.
Print Assumptions C18_race_lock_discipline.

(* once the closing thread has written closed (inside its first locked region): no submit is past its `closed` test,
   no slot holds a job, and under any continuation the flag stays set and no job ever starts *)
Theorem C18_race_close_cutoff :
  forall (c : cfg) (sched : list (nat * nat)),
  all_locked (lk c) = true -> wf_cfg c -> do_close c = false ->
  let r := rrun c sched (rinit c) in let s := base r in
  closed s = true ->
  mpast (m_pc (mn s)) = false
  /\ (forall i, i < nw s -> w_slot (ws s i) = None)
  /\ mafter (m_pc (kl r)) = true
  /\ forall more, closed (base (rrun c more r)) = true /\ started (base (rrun c more r)) = started s.
Proof. exact race_close_cutoff. Qed.
Print Assumptions C18_race_close_cutoff.

(* a submit that tests `closed` after that is refused with PoolError and touches nothing else *)
Theorem C18_race_submit_after_close_refused :
  forall (c : cfg) (sched : list (nat * nat)),
  all_locked (lk c) = true ->
  let r := rrun c sched (rinit c) in let s := base r in
  forall ch, closed s = true -> m_pc (mn s) = MClosedRd ->
  exists r', accept_step c ch r = Some r'
    /\ poolclosed (base r') = poolclosed s ++ [m_next (mn s)]
    /\ m_pc (mn (base r')) = MRelClosed
    /\ started (base r') = started s /\ refused (base r') = refused s /\ ws (base r') = ws s /\ idle (base r') = idle s /\ busy (base r') = busy s.
Proof. exact race_submit_after_close_refused. Qed.
Print Assumptions C18_race_submit_after_close_refused.

Theorem C18_unlocked_bookkeeping_refuted :
  exists c sched, wf_cfg c /\ all_locked (lk c) = false /\
    let s := run c sched (init c) in size c < length (idle s) + length (busy s).
Proof. exact pool_unlocked_refuted. Qed.
Print Assumptions C18_unlocked_bookkeeping_refuted.

Example C18_nonvacuous :
  let c := mk_cfg 2 1 3 true (mk_lockcfg true true true true) in
  let s := run c (concat (repeat [(0,0); (0,1); (1,0); (2,0); (0,0); (1,0); (0,2); (2,0)] 30)) (init c) in
  all_locked (lk c) = true /\ wf_cfg c /\ started s = [0; 1] /\ ended s = [0; 1] /\ refused s = [2] /\ closed s = true /\ nw s = 2
  /\ w_pc (ws s 0) = WExit /\ w_pc (ws s 1) = WExit /\ m_pc (mn s) = MDone.
Proof. exact pool_nonvacuous. Qed.

Example C18_nonvacuous_held :
  let c := mk_cfg 1 1 1 false (mk_lockcfg true true true true) in
  let s := run c (repeat (0, 0) 8) (init c) in
  all_locked (lk c) = true /\ wf_cfg c /\ quiet s /\ held s 0 /\ sub s = 1 /\ 0 < nw s /\
  w_slot (ws s 0) = Some 0 /\ wpre (w_pc (ws s 0)) = true /\ ~ (0 = m_w (mn s) /\ m_pc (mn s) = MEvSet) /\
  started s = [] /\ started (run c (repeat (1, 0) 4) s) = [0].
Proof. exact pool_held_nonvacuous. Qed.

Example C18_nonvacuous_close :
  let c := mk_cfg 2 1 3 true (mk_lockcfg true true true true) in
  let s := run c (concat (repeat [(0,0); (0,1); (1,0); (2,0); (0,0); (1,0); (0,2); (2,0)] 15)) (init c) in
  all_locked (lk c) = true /\ wf_cfg c /\ closed s = true /\ 0 < nw s /\ w_pc (ws s 0) = WRead1 /\ w_pc (ws s 0) <> WExit /\
  started s = [0; 1] /\ refused s = [2].
Proof. exact pool_close_nonvacuous. Qed.

Example C18_nonvacuous_race :
  let c := mk_cfg 1 1 2 false (mk_lockcfg true true true true) in
  let r1 := rrun c (repeat (0,0) 8 ++ repeat (1,0) 8 ++ [(0,0)]) (rinit c) in
  let r2 := rrun c [(0,0)] r1 in
  all_locked (lk c) = true /\ wf_cfg c /\ do_close c = false /\
  closed (base r1) = true /\ m_pc (mn (base r1)) = MClosedRd /\ m_pc (kl r1) = CAcq2 /\
  poolclosed (base r2) = [1] /\ started (base r2) = [] /\ w_slot (ws (base r2) 0) = None.
Proof. exact race_nonvacuous. Qed.
