(* C07 — lemmas about Model/Excs.v. *)
From Coq Require Import List NArith ZArith Arith Bool Lia.
Import ListNotations.
From V Require Import Model.Excs.

Lemma text_eqb_eq : forall a b, text_eqb a b = true -> a = b.
Proof.
  induction a as [|x a IH]; destruct b as [|y b]; simpl; intros H; try discriminate; auto.
  apply andb_prop in H. destruct H as [H1 H2]. apply N.eqb_eq in H1. subst. f_equal. auto.
Qed.

Lemma text_eqb_refl : forall a, text_eqb a a = true.
Proof. induction a; simpl; auto. rewrite N.eqb_refl. auto. Qed.

(* ---------------------------------------------------------------- envelope facts *)
Definition envelope (qn : text) (args : list xval) (attrs : list (text * xval)) : list (text * xval) :=
  [(k_class, XStr qn); (k_exception, XBool true); (k_args, XList args); (k_attributes, XDict attrs)].

Lemma ctd_full : forall T e, wf_tables T = true ->
  class_to_dict T e = XDict (envelope (qname (e_cls e)) (e_args e) (e_attrs e)).
Proof.
  intros T e H. unfold wf_tables in H.
  apply andb_prop in H; destruct H as [H He].
  apply andb_prop in H; destruct H as [H Hd].
  apply andb_prop in H; destruct H as [H Hc].
  apply andb_prop in H; destruct H as [Ha Hb].
  unfold class_to_dict, opt_entry, envelope.
  rewrite Ha, Hb, Hc, Hd. reflexivity.
Qed.

Lemma wf_restores : forall T, wf_tables T = true -> t_restores_attrs T = true.
Proof. intros T H. unfold wf_tables in H. apply andb_prop in H. tauto. Qed.

(* whatever the exception object carried under that name, afterwards it holds the new value *)
Lemma assoc_set_attr : forall k v d, assoc k (set_attr k v d) = Some v.
Proof.
  induction d as [|[k' v'] d IH]; simpl.
  - rewrite text_eqb_refl. reflexivity.
  - destruct (text_eqb k k') eqn:E; simpl; rewrite ?text_eqb_refl, ?E; auto.
Qed.

Lemma forallb_set_attr : forall (P : text * xval -> bool) k v d,
  forallb P d = true -> P (k, v) = true -> forallb P (set_attr k v d) = true.
Proof.
  induction d as [|[k' v'] d IH]; simpl; intros Hd Hv.
  - rewrite Hv. reflexivity.
  - apply andb_prop in Hd. destruct Hd as [H1 H2].
    destruct (text_eqb k k'); simpl.
    + rewrite Hv, H2. reflexivity.
    + rewrite H1. simpl. auto.
Qed.

Lemma plain_envelope : forall qn args attrs,
  forallb plain args = true ->
  forallb (fun kv : text * xval => match kv with (_, x) => plain x end) attrs = true ->
  plain (XDict (envelope qn args attrs)) = true.
Proof.
  intros. unfold envelope. cbn [plain forallb]. rewrite H, H0. reflexivity.
Qed.

Lemma plain_wrap : forall v, plain v = true -> plain (wrap v) = true.
Proof. intros v H. unfold wrap. cbn [plain forallb]. rewrite H. reflexivity. Qed.

Section Decode.
  Variable T : tables.
  Variable ctor : text -> list xval -> option (list xval).

  Lemma dtc_envelope : forall qn args attrs,
    wf_tables T = true ->
    decide T qn true = DMake qn ->
    ctor qn args = Some args ->
    dict_to_class T ctor (envelope qn args attrs) = CExc qn args attrs.
  Proof.
    intros qn args attrs Hwf Hdec Hctor.
    unfold dict_to_class.
    change (assoc k_class (envelope qn args attrs)) with (Some (XStr qn)).
    change (assoc k_exception (envelope qn args attrs)) with (Some (XBool true)).
    cbv beta iota zeta. rewrite Hdec. unfold make_exception.
    change (assoc k_args (envelope qn args attrs)) with (Some (XList args)).
    cbv beta iota. rewrite Hctor.
    change (assoc k_attributes (envelope qn args attrs)) with (Some (XDict attrs)).
    rewrite (wf_restores T Hwf). reflexivity.
  Qed.

  (* whatever the constructor does, a whitelisted envelope decodes to that class or fails with TypeError *)
  Lemma dtc_envelope_any : forall qn args attrs,
    wf_tables T = true ->
    decide T qn true = DMake qn ->
    (exists a', dict_to_class T ctor (envelope qn args attrs) = CExc qn a' attrs) \/
    dict_to_class T ctor (envelope qn args attrs) = CFail c_TypeError.
  Proof.
    intros qn args attrs Hwf Hdec.
    unfold dict_to_class.
    change (assoc k_class (envelope qn args attrs)) with (Some (XStr qn)).
    change (assoc k_exception (envelope qn args attrs)) with (Some (XBool true)).
    cbv beta iota zeta. rewrite Hdec. unfold make_exception.
    change (assoc k_args (envelope qn args attrs)) with (Some (XList args)).
    cbv beta iota. destruct (ctor qn args) as [a'|]; [left|right; reflexivity].
    change (assoc k_attributes (envelope qn args attrs)) with (Some (XDict attrs)).
    rewrite (wf_restores T Hwf). exists a'. reflexivity.
  Qed.

  Definition nodict (v : xval) : bool := match v with XDict _ => false | _ => true end.

  Lemma decode_nodict : forall v, nodict v = true -> decode_item T ctor v = IVal.
  Proof. destruct v; simpl; intros; try reflexivity; discriminate. Qed.

  Lemma first_bad_app : forall b r, forallb nodict b = true ->
    first_bad (map (decode_item T ctor) (b ++ r)) = first_bad (map (decode_item T ctor) r).
  Proof.
    induction b as [|v b IH]; simpl; intros r H; auto.
    apply andb_prop in H. destruct H as [H1 H2].
    rewrite (decode_nodict v H1). simpl. auto.
  Qed.

  Lemma until_wrap_app : forall b r n, forallb nodict b = true ->
    until_wrap (map (decode_item T ctor) (b ++ r)) n = until_wrap (map (decode_item T ctor) r) (n + length b).
  Proof.
    induction b as [|v b IH]; simpl; intros r n H.
    - rewrite Nat.add_0_r. reflexivity.
    - apply andb_prop in H. destruct H as [H1 H2].
      rewrite (decode_nodict v H1). simpl. rewrite IH by assumption. f_equal. lia.
  Qed.

  Lemma decode_wrapper : forall qn args attrs,
    wf_tables T = true -> decide T qn true = DMake qn -> ctor qn args = Some args ->
    decode_item T ctor (wrap (XDict (envelope qn args attrs))) = IWrap qn args attrs.
  Proof.
    intros qn args attrs Hwf Hdec Hctor.
    unfold wrap, decode_item.
    change (has_class [(k_class, XStr wrapper_class); (k_wrapped, XDict (envelope qn args attrs))]) with true.
    cbv iota.
    change (assoc k_class [(k_class, XStr wrapper_class); (k_wrapped, XDict (envelope qn args attrs))])
      with (Some (XStr wrapper_class)).
    cbv iota. rewrite text_eqb_refl.
    change (assoc k_wrapped [(k_class, XStr wrapper_class); (k_wrapped, XDict (envelope qn args attrs))])
      with (Some (XDict (envelope qn args attrs))).
    cbv iota.
    change (has_class (envelope qn args attrs)) with true. cbv iota.
    rewrite (dtc_envelope qn args attrs Hwf Hdec Hctor). reflexivity.
  Qed.
End Decode.

(* ---------------------------------------------------------------- the call *)
Definition single_kind (k : kind) : bool := match k with KBatch _ => false | _ => true end.

Section Call.
  Variable T : tables.
  Variable F : facts.
  Variable codec : ser -> xval -> option xval.
  Variable serr : ser -> xval -> cinfo.
  Variable ctor : text -> list xval -> option (list xval).
  Hypothesis codec_plain : forall s v, plain v = true -> codec s v = Some v.

  Lemma run_single : forall Q s k e tbv, single_kind k = true ->
    (is_marshal s && q_marshal_none_kwargs Q = false) ->
    run Q T F codec serr ctor s k e tbv = single T F codec serr ctor s e tbv.
  Proof. intros Q s k e tbv Hk Hq. destruct k; simpl in *; try reflexivity; try discriminate. rewrite Hq. reflexivity. Qed.

  Lemma with_tb_fields : forall e tbv,
    e_cls (with_tb e tbv) = e_cls e /\ e_args (with_tb e tbv) = e_args e /\
    e_attrs (with_tb e tbv) = set_attr k_traceback tbv (e_attrs e).
  Proof. intros. repeat split. Qed.

  Lemma payload_plain : forall s e tbv,
    wf_tables T = true -> f_send_sets_tb F = true ->
    core_list (e_args e) = true -> core_attrs (e_attrs e) = true -> plain tbv = true ->
    exc_payload T F codec serr s e tbv =
    PExc (XDict (envelope (qname (e_cls e)) (e_args e) (set_attr k_traceback tbv (e_attrs e)))).
  Proof.
    intros s e tbv Hwf Htb Ha Hat Hp.
    unfold exc_payload. rewrite Htb. rewrite (ctd_full T _ Hwf).
    destruct (with_tb_fields e tbv) as [E1 [E2 E3]]. rewrite E1, E2, E3.
    rewrite codec_plain; [reflexivity|].
    apply plain_envelope.
    - unfold core_list in Ha. apply andb_prop in Ha. tauto.
    - unfold core_attrs in Hat. apply andb_prop in Hat. destruct Hat as [H1 _].
      apply forallb_set_attr; assumption.
  Qed.

  (* exc_roundtrip, single-message kinds *)
  Lemma roundtrip_single : forall s e tbv,
    wf_tables T = true -> f_send_sets_tb F = true ->
    route F (e_cls e) = ReplyKeep ->
    decide T (qname (e_cls e)) true = DMake (qname (e_cls e)) ->
    ctor (qname (e_cls e)) (e_args e) = Some (e_args e) ->
    core_list (e_args e) = true -> core_attrs (e_attrs e) = true -> plain tbv = true ->
    single T F codec serr ctor s e tbv =
    mk 0 (ORaised (qname (e_cls e)) (e_args e) (set_attr k_traceback tbv (e_attrs e))) true
       (negb (releases T F (qname (e_cls e)))).
  Proof.
    intros s e tbv Hwf Htb Hr Hd Hc Ha Hat Hp.
    unfold single. rewrite Hr.
    rewrite (payload_plain s e tbv Hwf Htb Ha Hat Hp).
    rewrite (dtc_envelope T ctor _ _ _ Hwf Hd Hc). reflexivity.
  Qed.

  (* exc_roundtrip, batch member *)
  Lemma roundtrip_batch : forall Q s before e tbv,
    wf_tables T = true -> f_batch_tb F = true ->
    isa (e_cls e) (f_batch_catch F) = true ->
    is_marshal s && q_marshal_shallow Q = false ->
    decide T (qname (e_cls e)) true = DMake (qname (e_cls e)) ->
    ctor (qname (e_cls e)) (e_args e) = Some (e_args e) ->
    isa (find_class T (qname (e_cls e))) c_StopIteration = false ->
    forallb plain before = true -> forallb nodict before = true ->
    core_list (e_args e) = true -> core_attrs (e_attrs e) = true -> plain tbv = true ->
    batch Q T F codec serr ctor s before e tbv =
    mk (length before) (ORaised (qname (e_cls e)) (e_args e) (set_attr k_traceback tbv (e_attrs e))) true true.
  Proof.
    intros Q s before e tbv Hwf Htb Hisa Hq Hd Hc Hsi Hpb Hnb Ha Hat Hp.
    unfold batch. rewrite Hisa. cbv [negb]. cbv iota. rewrite Htb, Hq.
    rewrite (ctd_full T _ Hwf).
    destruct (with_tb_fields e tbv) as [E1 [E2 E3]]. rewrite E1, E2, E3.
    set (env := envelope (qname (e_cls e)) (e_args e) (set_attr k_traceback tbv (e_attrs e))).
    assert (Hplain : plain (XList (before ++ [wrap (XDict env)])) = true).
    { change (plain (XList (before ++ [wrap (XDict env)]))) with (forallb plain (before ++ [wrap (XDict env)])).
      rewrite forallb_app, Hpb.
      change (forallb plain [wrap (XDict env)]) with (plain (wrap (XDict env)) && true).
      rewrite plain_wrap; [reflexivity|].
      apply plain_envelope.
      - unfold core_list in Ha. apply andb_prop in Ha. tauto.
      - unfold core_attrs in Hat. apply andb_prop in Hat. destruct Hat as [H1 _].
        apply forallb_set_attr; assumption. }
    rewrite (codec_plain s _ Hplain).
    rewrite first_bad_app by assumption.
    rewrite until_wrap_app by assumption.
    cbn [map].
    unfold env. rewrite (decode_wrapper T ctor _ _ _ Hwf Hd Hc).
    cbn [first_bad until_wrap]. rewrite Hsi. reflexivity.
  Qed.

  (* exc_fallback: serialisation of the exception fails with an error the fallback's `except` catches, the
     class is one that gets a reply *)
  Lemma fallback_single : forall s e tbv,
    f_fallback F = true ->
    (route F (e_cls e) = ReplyKeep \/ route F (e_cls e) = ReplyClose) ->
    codec s (class_to_dict T (if f_send_sets_tb F then with_tb e tbv else e)) = None ->
    isa_any (serr s (class_to_dict T (if f_send_sets_tb F then with_tb e tbv else e))) (f_fallback_catch F) = true ->
    r_out (single T F codec serr ctor s e tbv) = OFallback (f_fallback_class F) (qname (e_cls e)) (f_fallback_tb F).
  Proof.
    intros s e tbv Hf Hr Hn Hc. unfold single, exc_payload. rewrite Hn, Hf, Hc.
    destruct Hr as [Hr|Hr]; rewrite Hr; reflexivity.
  Qed.

  (* ... and when the `except` does not catch it, nothing is sent at all *)
  Lemma fallback_missed : forall s e tbv,
    (route F (e_cls e) = ReplyKeep \/ route F (e_cls e) = ReplyClose) ->
    codec s (class_to_dict T (if f_send_sets_tb F then with_tb e tbv else e)) = None ->
    isa_any (serr s (class_to_dict T (if f_send_sets_tb F then with_tb e tbv else e))) (f_fallback_catch F) = false ->
    r_out (single T F codec serr ctor s e tbv) = OConnLost.
  Proof.
    intros s e tbv Hr Hn Hc. unfold single, exc_payload. rewrite Hn, Hc, andb_false_r.
    destruct Hr as [Hr|Hr]; rewrite Hr; reflexivity.
  Qed.

  (* proxy_usable_after, single-message kinds: a class routed to reply-and-keep whose arrival does not make the
     client release leaves both ends connected, whatever the content and whatever the constructor does *)
  Hypothesis codec_opaque : forall s v, plain v = false -> codec s v = None.
  Hypothesis serr_caught : forall s v, isa_any (serr s v) (f_fallback_catch F) = true.

  Lemma conn_single : forall s e tbv,
    wf_tables T = true -> f_send_sets_tb F = true -> f_fallback F = true ->
    route F (e_cls e) = ReplyKeep ->
    decide T (qname (e_cls e)) true = DMake (qname (e_cls e)) ->
    releases T F (qname (e_cls e)) = false ->
    releases T F (f_fallback_class F) = false ->
    releases T F c_TypeError = false ->
    r_conn (single T F codec serr ctor s e tbv) = conn_ok.
  Proof.
    intros s e tbv Hwf Htb Hfb Hr Hd Hr1 Hr2 Hr3.
    unfold single. rewrite Hr. unfold exc_payload. rewrite Htb, Hfb.
    rewrite (ctd_full T _ Hwf).
    destruct (with_tb_fields e tbv) as [E1 [E2 E3]]. rewrite E1, E2, E3.
    set (env := envelope _ _ _).
    destruct (plain (XDict env)) eqn:Hp.
    - rewrite (codec_plain s _ Hp).
      destruct (dtc_envelope_any T ctor (qname (e_cls e)) (e_args e) (set_attr k_traceback tbv (e_attrs e)) Hwf Hd)
        as [[a' H]|H]; fold env in H; rewrite H; unfold mk; cbn [r_conn]; [rewrite Hr1|rewrite Hr3]; reflexivity.
    - rewrite (codec_opaque s _ Hp), serr_caught. unfold mk; cbn [andb r_conn]. rewrite Hr2. reflexivity.
  Qed.
End Call.

(* std_codec / std_ctor satisfy the hypotheses (non-vacuity of the parameters) *)
Lemma std_codec_plain : forall s v, plain v = true -> std_codec s v = Some v.
Proof. intros. unfold std_codec. rewrite H. reflexivity. Qed.
Lemma std_codec_opaque : forall s v, plain v = false -> std_codec s v = None.
Proof. intros. unfold std_codec. rewrite H. reflexivity. Qed.

(* lifting a computed table check *)
Lemma forallb_In : forall {A} (f : A -> bool) l x, forallb f l = true -> In x l -> f x = true.
Proof. intros A f l x H Hin. rewrite forallb_forall in H. auto. Qed.
