(* C13 — lemmas about Model/Cleanup.v. *)
From Coq Require Import List Arith Bool Lia.
Import ListNotations.
From V Require Import Model.Cleanup.

(* ---------------------------------------------------------------- lists of outputs *)
Lemma count_app o a b : count o (a ++ b) = count o a + count o b.
Proof. unfold count. rewrite filter_app, app_length. reflexivity. Qed.
Lemma for_conn_app c a b : for_conn c (a ++ b) = for_conn c a ++ for_conn c b.
Proof. apply filter_app. Qed.
Lemma out_eqb_tag a b : out_eqb a b = true -> tag a = tag b.
Proof.
  destruct a, b; simpl; try discriminate; rewrite ?andb_true_iff, ?Nat.eqb_eq; intuition.
Qed.
Lemma count_for_conn o tr : count o tr = count o (for_conn (tag o) tr).
Proof.
  unfold count, for_conn. induction tr as [|a tr IH]; simpl; [reflexivity|].
  destruct (out_eqb o a) eqn:E.
  - pose proof (out_eqb_tag _ _ E) as T. rewrite <- T, Nat.eqb_refl. simpl. rewrite E. simpl. f_equal. exact IH.
  - destruct (Nat.eqb (tag a) (tag o)); simpl; [rewrite E|]; exact IH.
Qed.
Lemma for_conn_all c l : Forall (fun o => tag o = c) l -> for_conn c l = l.
Proof.
  induction 1 as [|x l H _ IH]; simpl; [reflexivity|].
  rewrite H, Nat.eqb_refl, IH. reflexivity.
Qed.
Lemma for_conn_none c c' l : c' <> c -> Forall (fun o => tag o = c) l -> for_conn c' l = [].
Proof.
  intros N. induction 1 as [|x l H _ IH]; simpl; [reflexivity|].
  rewrite H. destruct (Nat.eqb_spec c c'); [congruence|]. exact IH.
Qed.

(* ---------------------------------------------------------------- one cleanup sequence *)
Lemma run_acts_cons c s a t :
  run_acts c s (a :: t) =
  (fst (run_acts c (fst (do_act c s a)) t), snd (do_act c s a) ++ snd (run_acts c (fst (do_act c s a)) t)).
Proof. simpl. destruct (do_act c s a). simpl. destruct (run_acts c c0 t). reflexivity. Qed.

Lemma do_act_tag c s a : Forall (fun o => tag o = c) (snd (do_act c s a)).
Proof.
  destruct a; simpl; repeat constructor.
  - destruct (c_slot s); simpl; repeat constructor.
  - destruct (c_open s); simpl; repeat constructor.
  - apply Forall_forall. intros x Hx. apply in_map_iff in Hx. destruct Hx as [r [<- _]]. reflexivity.
Qed.
Lemma run_acts_tag c l : forall s, Forall (fun o => tag o = c) (snd (run_acts c s l)).
Proof.
  induction l as [|a l IH]; intros s; [constructor|].
  rewrite run_acts_cons. simpl. apply Forall_app. split; [apply do_act_tag | apply IH].
Qed.
Lemma do_act_fixed c s a :
  c_acc (fst (do_act c s a)) = c_acc s /\ c_ended (fst (do_act c s a)) = c_ended s.
Proof. destruct a; simpl; try (split; reflexivity); [destruct (c_slot s) | destruct (c_open s)]; split; reflexivity. Qed.
Lemma run_acts_fixed c l : forall s,
  c_acc (fst (run_acts c s l)) = c_acc s /\ c_ended (fst (run_acts c s l)) = c_ended s.
Proof.
  induction l as [|a l IH]; intros s; [split; reflexivity|].
  rewrite run_acts_cons. simpl. destruct (IH (fst (do_act c s a))) as [A B].
  destruct (do_act_fixed c s a) as [A' B']. split; congruence.
Qed.

Lemma nacts_cons x a l : nacts x (a :: l) = (if act_eqb x a then 1 else 0) + nacts x l.
Proof. unfold nacts. simpl. destruct (act_eqb x a); reflexivity. Qed.

Lemma count_map_res_other o c T :
  (forall r, out_eqb o (ResClose c r) = false) -> count o (map (ResClose c) T) = 0.
Proof.
  intros H. unfold count. induction T as [|r T IH]; simpl; [reflexivity|]. rewrite H. exact IH.
Qed.

(* the hook runs once per AHook in the sequence *)
Lemma run_acts_hook c l : forall s, count (DisconnectHook c) (snd (run_acts c s l)) = nacts AHook l.
Proof.
  induction l as [|a l IH]; intros s; [reflexivity|].
  rewrite run_acts_cons, nacts_cons. simpl snd. rewrite count_app, IH. f_equal.
  destruct a; simpl; try reflexivity.
  - unfold count. simpl. rewrite Nat.eqb_refl. reflexivity.
  - destruct (c_slot s); reflexivity.
  - destruct (c_open s); reflexivity.
  - apply count_map_res_other. reflexivity.
Qed.

(* the socket is closed by the first ASock, and only if it was open *)
Lemma run_acts_sock c l : forall s,
  count (SockClosed c) (snd (run_acts c s l)) = (if c_open s && (0 <? nacts ASock l) then 1 else 0) /\
  c_open (fst (run_acts c s l)) = c_open s && negb (0 <? nacts ASock l).
Proof.
  induction l as [|a l IH]; intros s.
  - unfold nacts. simpl. rewrite andb_false_r, andb_true_r. split; reflexivity.
  - rewrite run_acts_cons, nacts_cons. simpl fst; simpl snd. rewrite count_app.
    destruct (IH (fst (do_act c s a))) as [A B]. rewrite A, B. clear A B IH.
    destruct a; simpl; try (split; reflexivity).
    + destruct (c_slot s); simpl; split; reflexivity.
    + destruct (c_open s) eqn:E; simpl; rewrite ?E.
      * unfold count. simpl. rewrite Nat.eqb_refl. simpl. split; reflexivity.
      * split; reflexivity.
    + rewrite count_map_res_other by reflexivity. split; reflexivity.
Qed.
Lemma run_acts_slot c l : forall s,
  count (SlotReleased c) (snd (run_acts c s l)) = (if c_slot s && (0 <? nacts ASlot l) then 1 else 0) /\
  c_slot (fst (run_acts c s l)) = c_slot s && negb (0 <? nacts ASlot l).
Proof.
  induction l as [|a l IH]; intros s.
  - unfold nacts. simpl. rewrite andb_false_r, andb_true_r. split; reflexivity.
  - rewrite run_acts_cons, nacts_cons. simpl fst; simpl snd. rewrite count_app.
    destruct (IH (fst (do_act c s a))) as [A B]. rewrite A, B. clear A B IH.
    destruct a; simpl; try (split; reflexivity).
    + destruct (c_slot s) eqn:E; simpl; rewrite ?E.
      * unfold count. simpl. rewrite Nat.eqb_refl. simpl. split; reflexivity.
      * split; reflexivity.
    + destruct (c_open s); simpl; split; reflexivity.
    + rewrite count_map_res_other by reflexivity. split; reflexivity.
Qed.
Lemma run_acts_inst c l : forall s,
  c_inst (fst (run_acts c s l)) = c_inst s && negb (0 <? nacts ADropInst l).
Proof.
  induction l as [|a l IH]; intros s.
  - unfold nacts. simpl. rewrite andb_true_r. reflexivity.
  - rewrite run_acts_cons, nacts_cons. simpl fst. rewrite IH. clear IH.
    destruct a; simpl; try reflexivity.
    + destruct (c_slot s); reflexivity.
    + destruct (c_open s); reflexivity.
    + rewrite andb_false_r. reflexivity.
Qed.

(* resources: with the discipline checked by [res_auto], every resource in the tracked set at the start
   is closed as often as it occurs there (once: the set has no duplicates), and the set ends empty *)
Definition occ (r : res) (T : list res) : nat := length (filter (Nat.eqb r) T).
Lemma count_map_res c r T : count (ResClose c r) (map (ResClose c) T) = occ r T.
Proof.
  unfold count, occ. induction T as [|x T IH]; simpl; [reflexivity|].
  rewrite Nat.eqb_refl. simpl. destruct (Nat.eqb r x); simpl; rewrite IH; reflexivity.
Qed.
Lemma do_act_tracked c s a :
  a <> AClearRes -> c_tracked (fst (do_act c s a)) = c_tracked s.
Proof. destruct a; simpl; intros H; try reflexivity; [destruct (c_slot s) | destruct (c_open s) | congruence]; reflexivity. Qed.
Lemma do_act_nores c s a r :
  a <> ACloseRes -> count (ResClose c r) (snd (do_act c s a)) = 0.
Proof. destruct a; simpl; intros H; try reflexivity; [destruct (c_slot s) | destruct (c_open s) | congruence]; reflexivity. Qed.

Lemma run_acts_res c r l : forall q s,
  res_auto q l = Some RCleared ->
  (q = RCleared -> c_tracked s = []) ->
  c_tracked (fst (run_acts c s l)) = [] /\
  count (ResClose c r) (snd (run_acts c s l)) = match q with RFresh => occ r (c_tracked s) | _ => 0 end.
Proof.
  induction l as [|a l IH]; intros q s HA HQ.
  - simpl in HA. injection HA as ->. simpl. split; [apply HQ; reflexivity | reflexivity].
  - rewrite run_acts_cons. simpl fst; simpl snd. rewrite count_app.
    assert (Hgen : a <> ACloseRes -> a <> AClearRes ->
      c_tracked (fst (run_acts c (fst (do_act c s a)) l)) = [] /\
      count (ResClose c r) (snd (do_act c s a)) + count (ResClose c r) (snd (run_acts c (fst (do_act c s a)) l)) =
      match q with RFresh => occ r (c_tracked s) | _ => 0 end).
    { intros N1 N2. assert (HA' : res_auto q l = Some RCleared) by (destruct a; simpl in HA; congruence).
      rewrite do_act_nores by exact N1. destruct (IH q (fst (do_act c s a)) HA') as [A B].
      - rewrite do_act_tracked by exact N2. exact HQ.
      - split; [exact A | rewrite B, do_act_tracked by exact N2; reflexivity]. }
    destruct a; try (apply Hgen; discriminate); clear Hgen.
    + (* ACloseRes *)
      simpl do_act. simpl fst; simpl snd. rewrite count_map_res.
      destruct q; simpl in HA.
      * destruct (IH RClosed s HA) as [A B]; [discriminate|]. split; [exact A | rewrite B; lia].
      * discriminate.
      * destruct (IH RCleared s HA HQ) as [A B]. split; [exact A|].
        rewrite B, (HQ eq_refl). reflexivity.
    + (* AClearRes *)
      simpl do_act. simpl fst; simpl snd.
      destruct q; simpl in HA; [discriminate| |];
        (destruct (IH RCleared (set_tracked s []) HA) as [A B]; [reflexivity|]; split; [exact A | rewrite B; reflexivity]).
Qed.

Lemma occ_nodup r T : NoDup T -> occ r T = if mem r T then 1 else 0.
Proof.
  unfold occ, mem. induction 1 as [|x T Hx _ IH]; simpl; [reflexivity|].
  destruct (Nat.eqb_spec r x) as [->|N]; simpl.
  - assert (E : existsb (Nat.eqb x) T = false).
    { apply not_true_is_false. intros E. apply existsb_exists in E. destruct E as [y [Hy Ey]].
      apply Nat.eqb_eq in Ey. subst. contradiction. }
    rewrite E in IH. rewrite IH. reflexivity.
  - exact IH.
Qed.

(* summary: a well-formed cleanup sequence on a connection that still has its socket and slot *)
Lemma run_acts_ok c l s :
  acts_ok l = true -> c_open s = true -> c_slot s = true -> NoDup (c_tracked s) ->
  let s' := fst (run_acts c s l) in let o := snd (run_acts c s l) in
  count (DisconnectHook c) o = 1 /\ count (SockClosed c) o = 1 /\ count (SlotReleased c) o = 1 /\
  (forall r, count (ResClose c r) o = if mem r (c_tracked s) then 1 else 0) /\
  c_open s' = false /\ c_slot s' = false /\ c_inst s' = false /\ c_tracked s' = [].
Proof.
  unfold acts_ok. rewrite !andb_true_iff. intros [[[[H1 H2] H3] H4] H5] Ho Hs Hn. simpl.
  apply Nat.eqb_eq in H1.
  destruct (res_auto RFresh l) as [[| |]|] eqn:HA; try discriminate.
  destruct (run_acts_sock c l s) as [S1 S2]. destruct (run_acts_slot c l s) as [L1 L2].
  rewrite run_acts_hook, S1, S2, L1, L2, run_acts_inst, Ho, Hs, H2, H3, H4. simpl.
  rewrite andb_false_r.
  repeat split; auto.
  - intros r. destruct (run_acts_res c r l RFresh s HA) as [_ B]; [discriminate|].
    rewrite B. apply occ_nodup. exact Hn.
  - destruct (run_acts_res c 0 l RFresh s HA) as [A _]; [discriminate|]. exact A.
Qed.

(* ---------------------------------------------------------------- the user hook may raise *)
Lemma run_acts_h_end hr sk c s t : run_acts_h hr sk c s (AGuardEnd :: t) = run_acts_h hr false c s t.
Proof. reflexivity. Qed.
Lemma run_acts_h_cons hr sk c s a t :
  a <> AGuardEnd ->
  run_acts_h hr sk c s (a :: t) =
  if sk then run_acts_h hr true c s t
  else (fst (run_acts_h hr (match a with AHook => hr | _ => false end) c (fst (do_act c s a)) t),
        snd (do_act c s a) ++ snd (run_acts_h hr (match a with AHook => hr | _ => false end) c (fst (do_act c s a)) t)).
Proof.
  intros N. destruct a; try congruence; cbn [run_acts_h]; (destruct sk; [reflexivity|]);
    (destruct (do_act c s _) as [s1 o1]; simpl fst; simpl snd;
     match goal with |- context [run_acts_h ?h ?k c s1 t] => destruct (run_acts_h h k c s1 t) end; reflexivity).
Qed.
Lemma act_guard_dec (a : act) : {a = AGuardEnd} + {a <> AGuardEnd}.
Proof. destruct a; (left; reflexivity) || (right; discriminate). Qed.

Lemma run_acts_h_tag hr c l : forall sk s, Forall (fun o => tag o = c) (snd (run_acts_h hr sk c s l)).
Proof.
  induction l as [|a l IH]; intros sk s; [constructor|].
  destruct (act_guard_dec a) as [->|N]; [rewrite run_acts_h_end; apply IH|].
  rewrite run_acts_h_cons by exact N. destruct sk; [apply IH|].
  simpl. apply Forall_app. split; [apply do_act_tag | apply IH].
Qed.
Lemma run_acts_h_fixed hr c l : forall sk s,
  c_acc (fst (run_acts_h hr sk c s l)) = c_acc s /\ c_ended (fst (run_acts_h hr sk c s l)) = c_ended s.
Proof.
  induction l as [|a l IH]; intros sk s; [split; reflexivity|].
  destruct (act_guard_dec a) as [->|N]; [rewrite run_acts_h_end; apply IH|].
  rewrite run_acts_h_cons by exact N. destruct sk; [apply IH|].
  simpl. destruct (IH (match a with AHook => hr | _ => false end) (fst (do_act c s a))) as [A B].
  destruct (do_act_fixed c s a) as [A' B']. split; congruence.
Qed.
Lemma do_act_nodup c s a : NoDup (c_tracked s) -> NoDup (c_tracked (fst (do_act c s a))).
Proof.
  intros H. destruct a; simpl; try exact H; [destruct (c_slot s) | destruct (c_open s) | constructor]; exact H.
Qed.
Lemma run_acts_h_nodup hr c l : forall sk s,
  NoDup (c_tracked s) -> NoDup (c_tracked (fst (run_acts_h hr sk c s l))).
Proof.
  induction l as [|a l IH]; intros sk s H; [exact H|].
  destruct (act_guard_dec a) as [->|N]; [rewrite run_acts_h_end; apply IH, H|].
  rewrite run_acts_h_cons by exact N. destruct sk; [apply IH, H|].
  simpl. apply IH, do_act_nodup, H.
Qed.
(* a hook that does not raise: the plain sequence *)
Lemma run_acts_h_noraise c l : forall s, run_acts_h false false c s l = run_acts c s l.
Proof.
  induction l as [|a l IH]; intros s; [reflexivity|].
  destruct (act_guard_dec a) as [->|N].
  - rewrite run_acts_h_end, run_acts_cons, IH. simpl. destruct (run_acts c s l); reflexivity.
  - rewrite run_acts_h_cons by exact N. rewrite run_acts_cons.
    assert (E : (match a with AHook => false | _ => false end) = false) by (destruct a; reflexivity).
    rewrite E, IH. reflexivity.
Qed.
(* with the guard discipline, a raising hook skips nothing: the cleanup run is identical either way *)
Lemma run_acts_h_guard c l : forall sk s,
  guard_ok_from sk l = true -> run_acts_h true sk c s l = run_acts_h false false c s l.
Proof.
  induction l as [|a l IH]; intros sk s G; [reflexivity|].
  destruct (act_guard_dec a) as [->|N].
  - rewrite !run_acts_h_end. apply IH. exact G.
  - assert (K : sk = false /\ guard_ok_from (match a with AHook => true | _ => false end) l = true).
    { destruct a; simpl in G; try congruence; apply andb_true_iff in G; destruct G as [G1 G2];
        apply negb_true_iff in G1; auto. }
    destruct K as [-> K]. rewrite !run_acts_h_cons by exact N.
    assert (E : (match a with AHook => false | _ => false end) = false) by (destruct a; reflexivity).
    rewrite E, (IH _ (fst (do_act c s a)) K). reflexivity.
Qed.
Lemma cleanup_run_eq sh c s :
  guard_ok_from false (sh_cleanup sh) = true -> cleanup_run sh c s = run_acts c s (sh_cleanup sh).
Proof.
  intros G. unfold cleanup_run. destruct (sh_hook_raises sh c).
  - rewrite run_acts_h_guard by exact G. apply run_acts_h_noraise.
  - apply run_acts_h_noraise.
Qed.
Lemma cleanup_run_tag sh c s : Forall (fun o => tag o = c) (snd (cleanup_run sh c s)).
Proof. apply run_acts_h_tag. Qed.
Lemma cleanup_run_fixed sh c s :
  c_acc (fst (cleanup_run sh c s)) = c_acc s /\ c_ended (fst (cleanup_run sh c s)) = c_ended s.
Proof. apply run_acts_h_fixed. Qed.
Lemma cleanup_run_nodup sh c s : NoDup (c_tracked s) -> NoDup (c_tracked (fst (cleanup_run sh c s))).
Proof. apply run_acts_h_nodup. Qed.

(* ---------------------------------------------------------------- states *)
Lemma upd_same st c s : conns (upd st c s) c = s.
Proof. simpl. rewrite Nat.eqb_refl. reflexivity. Qed.
Lemma upd_other st c s c' : c' <> c -> conns (upd st c s) c' = conns st c'.
Proof. intros N. simpl. destruct (Nat.eqb_spec c' c); [contradiction|reflexivity]. Qed.
Lemma active_set_ended s : active (set_ended s) = false.
Proof. unfold active. simpl. apply andb_false_r. Qed.
Lemma touch_fixed s t :
  c_acc (touch s t) = c_acc s /\ c_ended (touch s t) = c_ended s /\ c_open (touch s t) = c_open s /\
  c_slot (touch s t) = c_slot s.
Proof.
  destruct t as [[r|]| |[r|]]; simpl; try destruct (c_inst s); simpl; repeat split; reflexivity.
Qed.
Lemma active_serve s t a : active (serve s t a) = active s.
Proof.
  destruct (touch_fixed s t) as [A [E _]]. unfold active, serve. destruct a; simpl; rewrite A, E; reflexivity.
Qed.
Lemma ended_serve s t a : c_ended (serve s t a) = c_ended s.
Proof. destruct (touch_fixed s t) as [_ [E _]]. unfold serve. destruct a; simpl; exact E. Qed.
Lemma known_in st c : known st c = true <-> In c (dom st).
Proof.
  unfold known. rewrite existsb_exists. split.
  - intros [x [H E]]. apply Nat.eqb_eq in E. subst. exact H.
  - intros H. exists c. split; [exact H | apply Nat.eqb_refl].
Qed.
Lemma pre_end_serve s ev : pre_end s ev = s \/ exists t a, pre_end s ev = serve s t a.
Proof.
  destruct ev; simpl; auto.
  - right. exists t, Nop. reflexivity.
  - destruct e; auto. destruct served as [[t a]|]; auto. right. exists t, a. reflexivity.
Qed.
Lemma active_pre_end s ev : active (pre_end s ev) = active s.
Proof. destruct (pre_end_serve s ev) as [->|[t [a ->]]]; [reflexivity | apply active_serve]. Qed.

(* ---------------------------------------------------------------- ending one / several connections *)
Lemma end_conn_inactive sh st c : active (conns st c) = false -> end_conn sh st c = (st, []).
Proof. unfold end_conn. intros ->. reflexivity. Qed.
Lemma end_conn_active sh st c :
  active (conns st c) = true ->
  conns (fst (end_conn sh st c)) c = set_ended (fst (cleanup_run sh c (conns st c))) /\
  for_conn c (snd (end_conn sh st c)) = snd (cleanup_run sh c (conns st c)).
Proof.
  unfold end_conn. intros ->. pose proof (cleanup_run_tag sh c (conns st c)) as T.
  destruct (cleanup_run sh c (conns st c)) as [s o]. simpl in *.
  rewrite Nat.eqb_refl. split; [reflexivity | apply for_conn_all; exact T].
Qed.
Lemma end_conn_other sh st c c' :
  c' <> c -> conns (fst (end_conn sh st c)) c' = conns st c' /\ for_conn c' (snd (end_conn sh st c)) = [].
Proof.
  intros N. unfold end_conn. destruct (active (conns st c)); [|split; reflexivity].
  pose proof (cleanup_run_tag sh c (conns st c)) as T.
  destruct (cleanup_run sh c (conns st c)) as [s o]. simpl in *.
  destruct (Nat.eqb_spec c' c); [contradiction|]. split; [reflexivity | eapply for_conn_none; eauto].
Qed.
Lemma end_conn_dom sh st c : dom (fst (end_conn sh st c)) = dom st.
Proof.
  unfold end_conn. destruct (active (conns st c)); [|reflexivity].
  destruct (cleanup_run sh c (conns st c)). reflexivity.
Qed.

Lemma end_all_cons sh st v t :
  end_all sh st (v :: t) =
  (fst (end_all sh (fst (end_conn sh st v)) t), snd (end_conn sh st v) ++ snd (end_all sh (fst (end_conn sh st v)) t)).
Proof. simpl. destruct (end_conn sh st v). simpl. destruct (end_all sh s t). reflexivity. Qed.
Lemma end_all_dom sh vs : forall st, dom (fst (end_all sh st vs)) = dom st.
Proof.
  induction vs as [|v vs IH]; intros st; [reflexivity|].
  rewrite end_all_cons. simpl. rewrite IH. apply end_conn_dom.
Qed.
Lemma end_all_inactive sh vs : forall st c,
  active (conns st c) = false ->
  conns (fst (end_all sh st vs)) c = conns st c /\ for_conn c (snd (end_all sh st vs)) = [].
Proof.
  induction vs as [|v vs IH]; intros st c H; [split; reflexivity|].
  rewrite end_all_cons. simpl fst; simpl snd. rewrite for_conn_app.
  destruct (Nat.eq_dec c v) as [->|N].
  - rewrite (end_conn_inactive sh st v H). simpl. apply IH. exact H.
  - destruct (end_conn_other sh st v c N) as [E1 E2]. rewrite E2. simpl.
    destruct (IH (fst (end_conn sh st v)) c) as [I1 I2]; [rewrite E1; exact H|].
    split; [rewrite I1; exact E1 | exact I2].
Qed.
Lemma end_all_notin sh vs : forall st c,
  ~ In c vs ->
  conns (fst (end_all sh st vs)) c = conns st c /\ for_conn c (snd (end_all sh st vs)) = [].
Proof.
  induction vs as [|v vs IH]; intros st c H; [split; reflexivity|].
  rewrite end_all_cons. simpl fst; simpl snd. rewrite for_conn_app.
  assert (N : c <> v) by (intros ->; apply H; left; reflexivity).
  destruct (end_conn_other sh st v c N) as [E1 E2]. rewrite E2. simpl.
  destruct (IH (fst (end_conn sh st v)) c) as [I1 I2]; [intros X; apply H; right; exact X|].
  split; [rewrite I1; exact E1 | exact I2].
Qed.
Lemma end_all_active sh vs : forall st c,
  active (conns st c) = true -> In c vs ->
  conns (fst (end_all sh st vs)) c = set_ended (fst (cleanup_run sh c (conns st c))) /\
  for_conn c (snd (end_all sh st vs)) = snd (cleanup_run sh c (conns st c)).
Proof.
  induction vs as [|v vs IH]; intros st c H I; [destruct I|].
  rewrite end_all_cons. simpl fst; simpl snd. rewrite for_conn_app.
  destruct (Nat.eq_dec c v) as [->|N].
  - destruct (end_conn_active sh st v H) as [E1 E2].
    destruct (end_all_inactive sh vs (fst (end_conn sh st v)) v) as [I1 I2].
    { rewrite E1. apply active_set_ended. }
    rewrite I1, I2, E1, E2, app_nil_r. split; reflexivity.
  - destruct I as [->|I]; [contradiction N; reflexivity|].
    destruct (end_conn_other sh st v c N) as [E1 E2]. rewrite E2. simpl.
    destruct (IH (fst (end_conn sh st v)) c) as [I1 I2]; [rewrite E1; exact H | exact I |].
    rewrite E1 in I1, I2. split; assumption.
Qed.

(* ---------------------------------------------------------------- what one event does to one connection *)
Inductive view (sh : shape) (st st' : state) (ev : event) (o : list out) (c : conn) : Prop :=
| VSame : conns st' c = conns st c -> for_conn c o = [] -> view sh st st' ev o c
| VServed t a : active (conns st c) = true -> ev_conn ev = c -> conns st' c = serve (conns st c) t a ->
    for_conn c o = [] -> view sh st st' ev o c
| VEnded : active (conns st c) = true -> (ev_conn ev = c \/ exists c0 k, ev = Timeout c0 k) ->
    conns st' c = set_ended (fst (cleanup_run sh c (pre_end (conns st c) ev))) ->
    for_conn c o = snd (cleanup_run sh c (pre_end (conns st c) ev)) -> view sh st st' ev o c
| VNewOk ok : ev = Connect c ok -> known st c = false -> conns st' c = mkc true true false [] false true ->
    for_conn c o = [] -> view sh st st' ev o c
| VNewRej ok : ev = Connect c ok -> known st c = false -> c_acc (conns st' c) = false ->
    c_ended (conns st' c) = true -> NoDup (c_tracked (conns st' c)) -> view sh st st' ev o c.

Lemma run_acts_nodup c l : forall s, NoDup (c_tracked s) -> NoDup (c_tracked (fst (run_acts c s l))).
Proof.
  induction l as [|a l IH]; intros s H; [exact H|].
  rewrite run_acts_cons. simpl. apply IH.
  destruct a; simpl; try exact H; [destruct (c_slot s) | destruct (c_open s) | constructor]; exact H.
Qed.

(* the tail shared by Raise and End: serve the request part, then possibly leave the loop *)
Lemma view_serve_end sh st ev c0 (b : bool) c :
  ev_conn ev = c0 -> active (conns st c0) = true ->
  let st2 := upd st c0 (pre_end (conns st c0) ev) in
  let r := if b then end_conn sh st2 c0 else (st2, []) in
  view sh st (fst r) ev (snd r) c.
Proof.
  intros HE HA st2 r. destruct (Nat.eq_dec c c0) as [->|N].
  - assert (A2 : active (conns st2 c0) = true).
    { unfold st2. rewrite upd_same, active_pre_end. exact HA. }
    unfold r. destruct b.
    + destruct (end_conn_active sh st2 c0 A2) as [E1 E2]. unfold st2 in E1, E2. rewrite upd_same in E1, E2.
      apply VEnded; auto.
    + simpl. unfold st2. destruct (pre_end_serve (conns st c0) ev) as [E|[t [a E]]].
      * apply VSame; [rewrite upd_same; exact E | reflexivity].
      * apply (VServed _ _ _ _ _ _ t a); auto. rewrite upd_same. exact E.
  - unfold r. destruct b.
    + destruct (end_conn_other sh st2 c0 c N) as [E1 E2]. apply VSame; [|exact E2].
      rewrite E1. unfold st2. apply upd_other. exact N.
    + simpl. apply VSame; [unfold st2; apply upd_other; exact N | reflexivity].
Qed.

Lemma step_view cf st ev c :
  view (cf_shape cf) st (fst (step cf st ev)) ev (snd (step cf st ev)) c.
Proof.
  destruct ev as [c0 ok | c0 t a | c0 t f | c0 e | c0 k]; simpl step.
  - (* Connect *)
    destruct (known st c0) eqn:K; [apply VSame; reflexivity|].
    set (st1 := mks (conns st) (dom st ++ [c0])).
    destruct (ok && has_free_slot cf st1).
    + simpl. destruct (Nat.eqb_spec c c0) as [->|N].
      * apply (VNewOk _ _ _ _ _ _ ok); auto. simpl. rewrite Nat.eqb_refl. reflexivity.
      * apply VSame; [|reflexivity]. simpl. destruct (Nat.eqb_spec c c0); [contradiction|reflexivity].
    + pose proof (run_acts_tag c0 (sh_reject (cf_shape cf)) (mkc false true false [] false false)) as T.
      pose proof (run_acts_fixed c0 (sh_reject (cf_shape cf)) (mkc false true false [] false false)) as [F1 _].
      pose proof (run_acts_nodup c0 (sh_reject (cf_shape cf)) (mkc false true false [] false false) (NoDup_nil _)) as F2.
      destruct (run_acts c0 (mkc false true false [] false false) (sh_reject (cf_shape cf))) as [s o]. simpl in *.
      destruct (Nat.eqb_spec c c0) as [->|N].
      * apply (VNewRej _ _ _ _ _ _ ok); auto; simpl; rewrite Nat.eqb_refl; simpl; auto.
      * apply VSame; [|eapply for_conn_none; eauto].
        simpl. destruct (Nat.eqb_spec c c0); [contradiction|reflexivity].
  - (* Req *)
    destruct (active (conns st c0)) eqn:A; [|apply VSame; reflexivity]. simpl.
    destruct (Nat.eqb_spec c c0) as [->|N].
    + apply (VServed _ _ _ _ _ _ t a); auto. simpl. rewrite Nat.eqb_refl. reflexivity.
    + apply VSame; [|reflexivity]. apply upd_other. exact N.
  - (* Raise *)
    destruct (active (conns st c0)) eqn:A; [|apply VSame; reflexivity].
    apply (view_serve_end (cf_shape cf) st (Raise c0 t f) c0
             (escapes (cf_shape cf) f && sh_ends (cf_shape cf) (exc_of_failure f)) c); auto.
  - (* End *)
    destruct (active (conns st c0)) eqn:A; [|apply VSame; reflexivity].
    apply (view_serve_end (cf_shape cf) st (End c0 e) c0 (sh_ends (cf_shape cf) (exc_of_ending e)) c); auto.
  - (* Timeout *)
    destruct (sh_ends (cf_shape cf) XTimeout); [|apply VSame; reflexivity].
    match goal with |- context [end_all _ st ?V] => set (vs := V) end.
    destruct (active (conns st c)) eqn:A.
    + destruct (in_dec Nat.eq_dec c vs) as [I|I].
      * destruct (end_all_active (cf_shape cf) vs st c A I) as [E1 E2].
        apply VEnded; auto. right. eauto.
      * destruct (end_all_notin (cf_shape cf) vs st c I) as [E1 E2]. apply VSame; auto.
    + destruct (end_all_inactive (cf_shape cf) vs st c A) as [E1 E2]. apply VSame; auto.
Qed.

(* ---------------------------------------------------------------- invariant *)
Definition good (s : cst) : Prop :=
  (active s = true -> c_open s = true /\ c_slot s = true) /\ NoDup (c_tracked s).
Definition inv (st : state) : Prop :=
  forall c, good (conns st c) /\ (c_acc (conns st c) = true \/ c_ended (conns st c) = true -> In c (dom st)).

Lemma mem_in r l : mem r l = true <-> In r l.
Proof.
  unfold mem. rewrite existsb_exists. split.
  - intros [x [H E]]. apply Nat.eqb_eq in E. subst. exact H.
  - intros H. exists r. split; [exact H | apply Nat.eqb_refl].
Qed.
Lemma nodup_add_res r l : NoDup l -> NoDup (add_res r l).
Proof.
  intros H. unfold add_res. destruct (mem r l) eqn:M; [exact H|].
  constructor; [|exact H]. intros X. apply mem_in in X. congruence.
Qed.
Lemma nodup_touch s t : NoDup (c_tracked s) -> NoDup (c_tracked (touch s t)).
Proof.
  intros H. destruct t as [[r|]| |[r|]]; simpl; try destruct (c_inst s); simpl; auto using nodup_add_res.
Qed.
Lemma good_serve s t a : good s -> good (serve s t a).
Proof.
  intros [G1 G2]. split.
  - rewrite active_serve. intros A. destruct (G1 A) as [O S].
    destruct (touch_fixed s t) as [_ [_ [O' S']]]. unfold serve. destruct a; simpl; rewrite O', S'; auto.
  - pose proof (nodup_touch s t G2) as T. unfold serve. destruct a; simpl; auto using nodup_add_res.
    apply NoDup_filter. exact T.
Qed.
Lemma good_pre_end s ev : good s -> good (pre_end s ev).
Proof. intros G. destruct (pre_end_serve s ev) as [->|[t [a ->]]]; [exact G | apply good_serve; exact G]. Qed.
Lemma inv_init : inv init.
Proof. intros c. split; [split; [discriminate | constructor] | intros [H|H]; discriminate]. Qed.

Lemma step_dom cf st ev :
  incl (dom st) (dom (fst (step cf st ev))) /\
  (forall c ok, ev = Connect c ok -> In c (dom (fst (step cf st ev)))).
Proof.
  destruct ev as [c0 ok | c0 t a | c0 t f | c0 e | c0 k]; simpl step.
  - destruct (known st c0) eqn:K.
    + split; [apply incl_refl|]. intros c ok' E. injection E as -> _. apply known_in. exact K.
    + destruct (ok && has_free_slot cf (mks (conns st) (dom st ++ [c0]))).
      * simpl. split; [apply incl_appl, incl_refl|]. intros c ok' E. injection E as -> _.
        apply in_or_app. right. left. reflexivity.
      * destruct (run_acts c0 (mkc false true false [] false false) (sh_reject (cf_shape cf))) as [s0 o0]. simpl.
        split; [apply incl_appl, incl_refl|]. intros c ok' E. injection E as -> _.
        apply in_or_app. right. left. reflexivity.
  - split; [|discriminate]. destruct (active (conns st c0)); apply incl_refl.
  - split; [|discriminate]. destruct (active (conns st c0)); [|apply incl_refl].
    destruct (escapes (cf_shape cf) f && sh_ends (cf_shape cf) (exc_of_failure f)); [rewrite end_conn_dom|]; apply incl_refl.
  - split; [|discriminate]. destruct (active (conns st c0)); [|apply incl_refl].
    destruct (sh_ends (cf_shape cf) (exc_of_ending e)); [rewrite end_conn_dom|]; apply incl_refl.
  - split; [|discriminate]. destruct (sh_ends (cf_shape cf) XTimeout); [rewrite end_all_dom|]; apply incl_refl.
Qed.

Lemma active_acc s : active s = true -> c_acc s = true /\ c_ended s = false.
Proof. unfold active. rewrite andb_true_iff, negb_true_iff. auto. Qed.

Lemma step_inv cf st ev : inv st -> inv (fst (step cf st ev)).
Proof.
  intros I c. destruct (step_dom cf st ev) as [D1 D2]. destruct (I c) as [G K].
  destruct (step_view cf st ev c) as [E _ | t a A _ E _ | A _ E _ | ok E _ E2 _ | ok E _ E2 E3 E4].
  - rewrite E. split; [exact G | intros X; apply D1, K, X].
  - rewrite E. split; [apply good_serve; exact G|]. intros _. apply D1, K. left. apply active_acc in A. tauto.
  - rewrite E. split.
    + split; [rewrite active_set_ended; discriminate|]. simpl.
      change (NoDup (c_tracked (fst (cleanup_run (cf_shape cf) c (pre_end (conns st c) ev))))).
      apply cleanup_run_nodup. apply good_pre_end. exact G.
    + intros _. apply D1, K. left. apply active_acc in A. tauto.
  - rewrite E2. split; [split; [auto | constructor] | intros _; eapply D2; eauto].
  - split; [split; [|exact E4] | intros _; eapply D2; eauto].
    unfold active. rewrite E2. discriminate.
Qed.

(* ---------------------------------------------------------------- consequences of the view, per step *)
Lemma step_frozen cf st ev c :
  inv st -> c_ended (conns st c) = true ->
  conns (fst (step cf st ev)) c = conns st c /\ for_conn c (snd (step cf st ev)) = [].
Proof.
  intros I H. destruct (I c) as [_ K].
  destruct (step_view cf st ev c) as [E F | t a A _ _ _ | A _ _ _ | ok _ E _ _ | ok _ E _ _ _].
  - auto.
  - apply active_acc in A. destruct A; congruence.
  - apply active_acc in A. destruct A; congruence.
  - assert (X : known st c = true) by (apply known_in, K; auto). congruence.
  - assert (X : known st c = true) by (apply known_in, K; auto). congruence.
Qed.
Lemma step_quiet cf st ev c :
  c_ended (conns (fst (step cf st ev)) c) = false -> for_conn c (snd (step cf st ev)) = [].
Proof.
  intros H. destruct (step_view cf st ev c) as [_ F | t a _ _ _ F | _ _ E _ | ok _ _ _ F | ok _ _ _ E _]; auto.
  - rewrite E in H. discriminate.
  - congruence.
Qed.
Lemma step_ending cf st ev c :
  c_ended (conns st c) = false -> c_ended (conns (fst (step cf st ev)) c) = true ->
  c_acc (conns (fst (step cf st ev)) c) = true ->
  active (conns st c) = true /\
  conns (fst (step cf st ev)) c = set_ended (fst (cleanup_run (cf_shape cf) c (pre_end (conns st c) ev))) /\
  for_conn c (snd (step cf st ev)) = snd (cleanup_run (cf_shape cf) c (pre_end (conns st c) ev)).
Proof.
  intros H0 H1 H2.
  destruct (step_view cf st ev c) as [E _ | t a _ _ E _ | A _ E F | ok _ _ E _ | ok _ _ E _ _]; auto.
  - congruence.
  - rewrite E, ended_serve in H1. congruence.
  - rewrite E in H1. discriminate.
  - congruence.
Qed.
Lemma step_frame cf st ev c :
  ev_conn ev <> c -> c_ended (conns (fst (step cf st ev)) c) = false ->
  conns (fst (step cf st ev)) c = conns st c.
Proof.
  intros N H. destruct (step_view cf st ev c) as [E _ | t a _ X _ _ | _ _ E _ | ok X _ _ _ | ok X _ _ _ _]; auto.
  - contradiction.
  - rewrite E in H. discriminate.
  - subst ev. contradiction N. reflexivity.
  - subst ev. contradiction N. reflexivity.
Qed.

(* ---------------------------------------------------------------- runs *)
Lemma run_from_cons cf st ev t :
  run_from cf st (ev :: t) =
  (fst (run_from cf (fst (step cf st ev)) t), snd (step cf st ev) ++ snd (run_from cf (fst (step cf st ev)) t)).
Proof. simpl. destruct (step cf st ev). simpl. destruct (run_from cf s t). reflexivity. Qed.
Lemma run_from_inv cf evs : forall st, inv st -> inv (fst (run_from cf st evs)).
Proof.
  induction evs as [|ev t IH]; intros st I; [exact I|].
  rewrite run_from_cons. simpl. apply IH, step_inv, I.
Qed.
Lemma run_from_frozen cf evs : forall st c,
  inv st -> c_ended (conns st c) = true ->
  conns (fst (run_from cf st evs)) c = conns st c /\ for_conn c (snd (run_from cf st evs)) = [].
Proof.
  induction evs as [|ev t IH]; intros st c I H; [split; reflexivity|].
  rewrite run_from_cons. simpl fst; simpl snd. rewrite for_conn_app.
  destruct (step_frozen cf st ev c I H) as [E F].
  destruct (IH (fst (step cf st ev)) c (step_inv cf st ev I)) as [E2 F2]; [rewrite E; exact H|].
  rewrite F, F2, E2, E. split; reflexivity.
Qed.
Lemma run_from_quiet cf evs : forall st c,
  inv st -> c_ended (conns (fst (run_from cf st evs)) c) = false ->
  for_conn c (snd (run_from cf st evs)) = [].
Proof.
  induction evs as [|ev t IH]; intros st c I H; [reflexivity|].
  rewrite run_from_cons in *. simpl fst in H; simpl snd. rewrite for_conn_app.
  destruct (c_ended (conns (fst (step cf st ev)) c)) eqn:E.
  - destruct (run_from_frozen cf t (fst (step cf st ev)) c (step_inv cf st ev I) E) as [X _]. congruence.
  - rewrite (step_quiet cf st ev c E), (IH _ c (step_inv cf st ev I) H). reflexivity.
Qed.

Lemma run_from_ended cf evs : forall st c,
  inv st -> c_ended (conns st c) = false ->
  c_ended (conns (fst (run_from cf st evs)) c) = true ->
  c_acc (conns (fst (run_from cf st evs)) c) = true ->
  exists evs1 ev evs2, evs = evs1 ++ ev :: evs2 /\
    inv (fst (run_from cf st evs1)) /\
    active (conns (fst (run_from cf st evs1)) c) = true /\
    conns (fst (run_from cf st evs)) c =
      set_ended (fst (cleanup_run (cf_shape cf) c (pre_end (conns (fst (run_from cf st evs1)) c) ev))) /\
    for_conn c (snd (run_from cf st evs)) =
      snd (cleanup_run (cf_shape cf) c (pre_end (conns (fst (run_from cf st evs1)) c) ev)).
Proof.
  induction evs as [|ev t IH]; intros st c I H0 H1 H2; [simpl in H1; congruence|].
  rewrite run_from_cons in *. simpl fst in *; simpl snd in *.
  pose proof (step_inv cf st ev I) as I1.
  destruct (c_ended (conns (fst (step cf st ev)) c)) eqn:E.
  - destruct (run_from_frozen cf t _ c I1 E) as [X F].
    rewrite X in H2. destruct (step_ending cf st ev c H0 E H2) as [A [S O]].
    exists [], ev, t. simpl.
    split; [reflexivity|]. split; [exact I|]. split; [exact A|]. split.
    + rewrite X. exact S.
    + rewrite for_conn_app, F, app_nil_r. exact O.
  - destruct (IH _ c I1 E H1 H2) as [evs1 [ev' [evs2 [-> [J [A [S O]]]]]]].
    exists (ev :: evs1), ev', evs2. rewrite run_from_cons. simpl fst.
    split; [reflexivity|]. split; [exact J|]. split; [exact A|]. split; [exact S|].
    rewrite for_conn_app, (step_quiet cf st ev c E). exact O.
Qed.

(* ---------------------------------------------------------------- the property *)
Lemma shape_ok_ends sh : shape_ok sh = true -> forall x, sh_ends sh x = true.
Proof.
  unfold shape_ok. rewrite !andb_true_iff. intros [[[[_ _] H] _] _] x.
  rewrite forallb_forall in H. apply H. destruct x; simpl; auto 10.
Qed.

Theorem cleanup_exactly_once cf :
  shape_ok (cf_shape cf) = true ->
  forall evs c,
  let st := fst (run cf evs) in let tr := snd (run cf evs) in
  c_acc (conns st c) = true -> c_ended (conns st c) = true ->
  exists evs1 ev evs2, evs = evs1 ++ ev :: evs2 /\
    let s := pre_end (conns (fst (run cf evs1)) c) ev in
    active s = true /\
    for_conn c tr = snd (run_acts c s (sh_cleanup (cf_shape cf))) /\
    count (DisconnectHook c) tr = 1 /\ count (SockClosed c) tr = 1 /\ count (SlotReleased c) tr = 1 /\
    (forall r, count (ResClose c r) tr = if mem r (c_tracked s) then 1 else 0) /\
    c_inst (conns st c) = false /\ c_slot (conns st c) = false /\ c_open (conns st c) = false /\
    c_tracked (conns st c) = [].
Proof.
  intros OK evs c st tr HA HE. unfold st, tr, run in *.
  destruct (run_from_ended cf evs init c inv_init eq_refl HE HA) as [evs1 [ev [evs2 [-> [J [A [S O]]]]]]].
  exists evs1, ev, evs2. split; [reflexivity|]. unfold run. simpl.
  set (s := pre_end (conns (fst (run_from cf init evs1)) c) ev) in *.
  assert (As : active s = true) by (unfold s; rewrite active_pre_end; exact A).
  destruct (J c) as [G _]. apply (good_pre_end _ ev) in G. fold s in G. destruct G as [G1 G2].
  destruct (G1 As) as [Go Gs].
  assert (AO : acts_ok (sh_cleanup (cf_shape cf)) = true /\ guard_ok_from false (sh_cleanup (cf_shape cf)) = true).
  { unfold shape_ok in OK. rewrite !andb_true_iff in OK. tauto. }
  destruct AO as [AO GO]. rewrite (cleanup_run_eq _ c _ GO) in S, O.
  destruct (run_acts_ok c (sh_cleanup (cf_shape cf)) s AO Go Gs G2) as [C1 [C2 [C3 [C4 [C5 [C6 [C7 C8]]]]]]].
  split; [exact As|]. split; [exact O|].
  rewrite (count_for_conn (DisconnectHook c)), (count_for_conn (SockClosed c)), (count_for_conn (SlotReleased c)).
  simpl tag. rewrite O, S. simpl. repeat split; auto.
  intros r. rewrite (count_for_conn (ResClose c r)). simpl tag. rewrite O. apply C4.
Qed.

Theorem others_untouched cf evs c :
  c_ended (conns (fst (run cf evs)) c) = false -> for_conn c (snd (run cf evs)) = [].
Proof. apply run_from_quiet, inv_init. Qed.

Theorem every_ending_ends cf st ev c :
  shape_ok (cf_shape cf) = true -> inv st -> active (conns st c) = true -> is_ending ev c = true ->
  c_ended (conns (fst (step cf st ev)) c) = true.
Proof.
  intros OK I A H. pose proof (shape_ok_ends _ OK) as EN.
  assert (ES : sh_escapes_security (cf_shape cf) = true /\ sh_escapes_callback (cf_shape cf) = true).
  { unfold shape_ok in OK. rewrite !andb_true_iff in OK. tauto. }
  assert (Gen : forall ev', ev_conn ev' = c ->
     c_ended (conns (fst (end_conn (cf_shape cf) (upd st c (pre_end (conns st c) ev')) c)) c) = true).
  { intros ev' _. destruct (end_conn_active (cf_shape cf) (upd st c (pre_end (conns st c) ev')) c) as [E _].
    - rewrite upd_same, active_pre_end. exact A.
    - rewrite E. reflexivity. }
  destruct ev as [c0 ok | c0 t a | c0 t f | c0 e | c0 k]; simpl in H; try discriminate.
  - destruct f; try discriminate; apply Nat.eqb_eq in H; subst c0; simpl step; rewrite A; simpl escapes;
      destruct ES as [ES1 ES2]; rewrite ?ES1, ?ES2, EN; simpl;
      [apply (Gen (Raise c t FSecurity)) | apply (Gen (Raise c t FCallback))]; reflexivity.
  - apply Nat.eqb_eq in H; subst c0. simpl step. rewrite A, EN. apply (Gen (End c e)). reflexivity.
  - apply andb_true_iff in H. destruct H as [H1 H2]. apply Nat.eqb_eq in H1. subst c0.
    simpl step. rewrite EN.
    match goal with |- context [end_all _ st ?V] => set (vs := V) end.
    assert (In c vs).
    { apply filter_In. split.
      - destruct (I c) as [_ K]. apply K. left. apply active_acc in A. tauto.
      - rewrite Nat.eqb_refl, H2. apply orb_true_r. }
    destruct (end_all_active (cf_shape cf) vs st c A H) as [E _]. rewrite E. reflexivity.
Qed.

(* reachable states satisfy the invariant (used to instantiate [every_ending_ends] and [step] theorems on runs) *)
Lemma run_inv cf evs : inv (fst (run cf evs)).
Proof. apply run_from_inv, inv_init. Qed.
