(* C18 — fourth layer: per-connection accounting (exactly once, never dropped outside close),
   and the phases of close (once close starts clearing, no slot holds a job any more). *)
From Coq Require Import List Arith Bool Lia.
Import ListNotations.
From V Require Import Model.Pool Proofs.Pool Proofs.PoolTac Proofs.PoolLock Proofs.PoolWake.

Definition mhanded (p : mpc) : bool := match p with MEvSet | MRelOk => true | _ => false end.
(* number of connections whose fate has been decided (handed to a worker or refused) *)
Definition sub (s : st) : nat := if mhanded (m_pc (mn s)) then S (m_next (mn s)) else m_next (mn s).
(* worker has not yet started the job in its slot *)
Definition wpre (p : wpc) : bool := match p with WWait | WClear | WRead1 | WRead2 => true | _ => false end.
Definition mallnone (p : mpc) : bool := match p with CIterIdle | CSlot2 | CEv2 | CClosedWr => true | _ => false end.

Record InvC (c : cfg) (s : st) : Prop := mk_InvC {
  c_ns : NoDup (started s);
  c_ne : NoDup (ended s);
  c_nr : NoDup (refused s);
  c_es : forall j, In j (ended s) -> In j (started s);
  c_sb : forall j, In j (started s) -> j < sub s;
  c_rf : forall j, In j (refused s) -> j < m_next (mn s) /\ ~ In j (started s);
  c_slot : forall i j, i < nw s -> w_slot (ws s i) = Some j ->
           j < sub s /\ ~ In j (refused s) /\
           ((wpre (w_pc (ws s i)) = true /\ ~ In j (started s)) \/
            ((w_pc (ws s i) = WJobEnd \/ w_pc (ws s i) = WSlotClr) /\ In j (started s)));
  c_uniq : forall i k j, i < nw s -> k < nw s -> w_slot (ws s i) = Some j -> w_slot (ws s k) = Some j -> i = k;
  c_cur : forall i j, i < nw s -> w_cur (ws s i) = Some j -> w_pc (ws s i) = WJobEnd /\ In j (started s) /\ ~ In j (ended s);
  c_curu : forall i k j, i < nw s -> k < nw s -> w_cur (ws s i) = Some j -> w_cur (ws s k) = Some j -> i = k;
  c_acc : forall j, In j (started s) -> In j (ended s) \/ exists i, i < nw s /\ w_cur (ws s i) = Some j;
  c_nodrop : closed s = false -> mnotify (m_pc (mn s)) = false -> forall j, j < sub s ->
             In j (refused s) \/ In j (started s) \/ exists i, i < nw s /\ w_slot (ws s i) = Some j /\ wpre (w_pc (ws s i)) = true;
  c_none : closed s = true \/ mallnone (m_pc (mn s)) = true -> forall i, i < nw s -> w_slot (ws s i) = None;
  c_norc : m_pc (mn s) <> MRelClosed;
  c_p1 : forall i j, i < nw s -> w_slot (ws s i) = Some j ->
         (m_pc (mn s) = CSlot1 -> In i (m_snap (mn s))) /\ (m_pc (mn s) = CEv1 -> In i (tl (m_snap (mn s))))
}.

Section Locked.
Variable c : cfg.
Hypothesis Hl : all_locked (lk c) = true.
Hypothesis Hwf : wf_cfg c.

Lemma initC : InvC c (init c).
Proof.
  constructor; cbn; intros; try constructor; try tauto; try discriminate; try lia.
  2: { unfold main_start. destruct (after_submit_cases c Hl 0) as [E|[E|E]]; rewrite E; discriminate. }
  exfalso. unfold sub in H1. cbn in H1. unfold main_start in H1.
  destruct (after_submit_cases c Hl 0) as [E|[E|E]]; rewrite E in H1; cbn in H1; lia.
Qed.

Ltac oldA HA :=
  pose proof (a_l3 _ _ HA) as Al3; pose proof (a_closed _ _ HA) as Acl; pose proof (a_pc _ _ HA) as Apc;
  pose proof (a_rm _ _ HA) as Arm; pose proof (a_crash _ _ HA) as Acr.
Ltac oldB HB :=
  pose proof (b_tgt _ _ HB) as Btgt; pose proof (b_idle _ _ HB) as Bidle; pose proof (b_ev _ _ HB) as Bev;
  pose proof (b_wait _ _ HB) as Bwait; pose proof (b_wcs _ _ HB) as Bwcs.
Ltac oldC HC :=
  pose proof (c_ns _ _ HC) as Cns; pose proof (c_ne _ _ HC) as Cne; pose proof (c_nr _ _ HC) as Cnr;
  pose proof (c_es _ _ HC) as Ces; pose proof (c_sb _ _ HC) as Csb; pose proof (c_rf _ _ HC) as Crf;
  pose proof (c_slot _ _ HC) as Cslot; pose proof (c_uniq _ _ HC) as Cuniq; pose proof (c_cur _ _ HC) as Ccur;
  pose proof (c_curu _ _ HC) as Ccuru; pose proof (c_acc _ _ HC) as Cacc; pose proof (c_nodrop _ _ HC) as Cnd;
  pose proof (c_none _ _ HC) as Cnone; pose proof (c_p1 _ _ HC) as Cp1; pose proof (c_norc _ _ HC) as Cnorc.

Lemma main_stepC ch s s' : Inv c s -> InvA c s -> InvB c s -> InvC c s -> main_step c ch s = Some s' -> InvC c s'.
Proof.
  intros HI HA HB HC H. old HI. oldA HA. oldB HB. oldC HC. unfold sub in *. main_cases c Hl s H.
  all: try (exfalso; specialize (Acl eq_refl); discriminate Acl).
  all: try (exfalso; destruct (Om eq_refl) as [_ OM]; unfold MCS in OM; rewrite Hpc in OM; congruence).
  all: try (exfalso; apply Cnorc; reflexivity).
  all: cbn [mhanded mnotify mallnone mtarget m2] in *.
  all: constructor; unfold sub; projs; realign.
  all: try rewrite ?Hclosed.
  all: try match goal with |- context [after_submit c ?n] => destruct (after_submit_cases c Hl n) as [Eas|[Eas|Eas]]; rewrite ?Eas end.
  all: cbn [mhanded mnotify mallnone].
  all: try solve [assumption | reflexivity | discriminate | intros; discriminate].
  (* c_sb *)
  all: try solve [intros j Hj; specialize (Csb j Hj); lia].
  (* c_rf *)
  all: try solve [intros j Hj; rewrite ?In_snoc in Hj; destruct Hj as [Hj| ->]; [destruct (Crf j Hj); split; [lia|assumption] | split; [lia|intros X; specialize (Csb _ X); lia]]].
  all: try solve [intros j Hj; destruct (Crf j Hj); split; [lia|assumption]].
  (* c_nr at MDeny *)
  all: try solve [apply NoDup_snoc; [assumption|intros X; destruct (Crf _ X); lia]].
  (* c_slot, c_uniq, c_cur, c_curu: worker records *)
  all: try solve [intros i j Hi Hs; updw_cases; unfold worker0 in *; projs; try discriminate;
                  match goal with Hs' : w_slot (ws _ ?x) = Some _ |- _ =>
                    assert (Hx : x < nw s) by (assumption || lia);
                    destruct (Cslot x _ Hx Hs') as (A & B & C'); split; [lia|]; split; [|exact C'];
                    rewrite ?In_snoc; intros [X|X]; [tauto|lia] || exact B end].
  (* c_p1 *)
  all: try solve [intros i j Hi Hs; split; intros X; discriminate X].
  all: try solve [intros i j Hi Hs; updw_cases; unfold worker0 in *; projs; try discriminate; split; intros X; try discriminate X; cbn [tl];
                  match goal with Hs' : w_slot (ws _ ?x) = Some ?y |- _ =>
                    assert (Hx : x < nw s) by (assumption || lia);
                    destruct (Cp1 x y Hx Hs') as [P1 P2];
                    try solve [ exact (P2 eq_refl) ];
                    try solve [ destruct (P1 eq_refl) as [Y|Y]; [congruence|exact Y] ];
                    try solve [ destruct (closed s) eqn:Ec; [specialize (Acl eq_refl); discriminate Acl|]; eapply Oslot; eauto ] end].
  (* c_none *)
  all: try solve [intros [X|X]; [apply Cnone; left; exact X | discriminate X]].
  all: try solve [intros P i Hi; updw_cases; unfold worker0 in *; projs; try reflexivity;
                  match goal with |- w_slot (ws _ ?x) = None =>
                    assert (Hx : x < nw s) by (assumption || lia);
                    destruct (w_slot (ws s x)) as [y|] eqn:Es; [exfalso|reflexivity];
                    try solve [ rewrite (Cnone (or_intror eq_refl) x Hx) in Es; discriminate Es ];
                    try solve [ destruct P as [P|P]; [|discriminate P]; rewrite (Cnone (or_introl P) x Hx) in Es; discriminate Es ];
                    try solve [ destruct (Cp1 x y Hx Es) as [P1 P2]; first [destruct (P1 eq_refl) | destruct (P2 eq_refl)] ];
                    try solve [ destruct (closed s) eqn:Ec; [specialize (Acl eq_refl); discriminate Acl|];
                                pose proof (Oslot x y Hx Es eq_refl) as X; destruct X ] end].
  (* c_slot for the worker that has just been handed the job *)
  all: try solve [intros i j Hi Hs; updw_cases; projs; try discriminate;
                  [ injection Hs as <-; destruct (Btgt eq_refl) as (T1 & T2 & T3 & T4); split; [lia|]; split;
                    [ intros X; destruct (Crf _ X); lia | left; split; [rewrite T1; reflexivity | intros X; specialize (Csb _ X); lia] ]
                  | destruct (Cslot i j Hi Hs) as (A & B & C'); split; [lia|]; split; assumption ]].
  (* c_uniq *)
  all: try solve [intros i k j Hi Hk Hsi Hsk; updw_cases; unfold worker0 in *; projs; try discriminate; try reflexivity;
                  try solve [eapply Cuniq; eauto; lia];
                  try solve [exfalso; injection Hsi as <-; destruct (Cslot _ _ Hk Hsk) as (A & _); lia];
                  try solve [exfalso; injection Hsk as <-; destruct (Cslot _ _ Hi Hsi) as (A & _); lia]].
  (* c_cur / c_curu *)
  all: try solve [intros i j Hi Hc'; updw_cases; unfold worker0 in *; projs; try discriminate; apply Ccur; [lia|assumption]].
  all: try solve [intros i k j Hi Hk Hci Hck; updw_cases; unfold worker0 in *; projs; try discriminate; try reflexivity; eapply Ccuru; eauto; lia].
  (* c_acc *)
  all: try solve [intros j Hj; destruct (Cacc j Hj) as [X|(i & Hi & Hc')]; [left; exact X|]; right; exists i; split; [lia|];
                  updw_cases; projs; try assumption; exfalso; lia].
  (* c_nodrop *)
  all: try solve [intros Hc Hn j Hj; destruct (Cnd Hc eq_refl j ltac:(lia)) as [X|[X|(i & Hi & Hs & Hp)]]; [left; rewrite ?In_snoc; tauto | right; left; exact X|];
                  right; right; exists i; split; [lia|]; updw_cases; projs; try (split; assumption); exfalso; lia].
  all: try solve [intros Hc Hn j Hj; destruct (Nat.eq_dec j (m_next (mn s))) as [->|Hne];
                  [ left; apply In_snoc; right; reflexivity
                  | destruct (Cnd Hc eq_refl j ltac:(lia)) as [X|[X|X]]; [left; apply In_snoc; left; exact X | right; left; exact X | right; right; exact X] ]].
  all: try solve [intros Hc Hn j Hj; destruct (Btgt eq_refl) as (T1 & T2 & T3 & T4); destruct (Nat.eq_dec j (m_next (mn s))) as [->|Hne];
                  [ right; right; exists (m_w (mn s)); split; [exact T3|]; unfold updw; rewrite Nat.eqb_refl; projs; split; [reflexivity|rewrite T1; reflexivity]
                  | destruct (Cnd Hc eq_refl j ltac:(lia)) as [X|[X|(i & Hi & Hs & Hp)]]; [left; exact X | right; left; exact X|];
                    right; right; exists i; split; [exact Hi|]; updw_cases; projs; [|split; assumption];
                    exfalso; destruct (Om eq_refl) as [_ OM]; unfold MCS, PM in OM; rewrite Hpc in OM; destruct OM as [[P1 _] _]; congruence ]].
  all: try solve [intros i j Hi Hs; updw_cases; unfold worker0 in *; projs; try discriminate;
                  match goal with Hs' : w_slot (ws _ ?x) = Some ?y |- _ =>
                    assert (Hx : x < nw s) by (assumption || lia);
                    destruct (Cslot x y Hx Hs') as (A & B & C');
                    (split; [lia|]); (split; [|exact C']);
                    first [ exact B | rewrite In_snoc; intros [X|X]; [tauto|lia] ] end].
  all: try solve [intros i j Hi Hc'; updw_cases; unfold worker0 in *; projs; try discriminate; (apply Ccur; [lia|assumption])].
  all: try solve [intros [X|X]; [|discriminate X]; exfalso; specialize (Acl X); discriminate Acl].
Qed.

Lemma worker_stepC k s s' : Inv c s -> InvA c s -> InvB c s -> InvC c s -> k < nw s -> worker_step c k s = Some s' -> InvC c s'.
Proof.
  intros HI HA HB HC Hk H. old HI. oldA HA. oldB HB. oldC HC. pose proof (Bwcs k Hk) as Wk. unfold WB in Wk. worker_cases c Hl s k H.
  all: try (exfalso; apply Hmem; apply Arm; assumption).
  all: try (rewrite (Acr k Hk) in Hcrash; discriminate Hcrash).
  (* facts about the job this worker starts / ends *)
  all: try (destruct (Cslot k _ Hk Hslot) as (Sa & Sb & Sc); rewrite Hpc in Sc; cbn [wpre] in Sc;
            destruct Sc as [[_ Sc]|[[Sc|Sc] _]]; try discriminate Sc).
  all: try (destruct (Ccur k _ Hk Hcur) as (Ka & Kb & Kc)).
  all: constructor; unfold sub; projs; realign.
  all: try rewrite ?Hclosed.
  all: try solve [assumption | reflexivity].
  all: try solve [apply NoDup_snoc; assumption].
  (* lists *)
  all: try solve [intros j Hj; rewrite ?In_snoc in *; first [ left; apply Ces; assumption | destruct Hj as [Hj| ->]; [apply Ces; assumption|assumption] ]].
  all: try solve [intros j Hj; rewrite In_snoc in Hj; destruct Hj as [Hj| ->]; [apply Csb; assumption|assumption]].
  all: try solve [intros j Hj; destruct (Crf j Hj) as [R1 R2]; split; [assumption|]; rewrite In_snoc; intros [X| ->]; tauto].
  (* c_uniq, c_p1 *)
  all: try solve [intros i k0 j Hi Hk0 Hsi Hsk; updw_cases; projs; try discriminate; try reflexivity;
                  try solve [eapply Cuniq; eauto];
                  try solve [injection Hsi as <-; eapply Cuniq; eauto];
                  try solve [injection Hsk as <-; eapply Cuniq; eauto]].
  all: try solve [intros i j Hi Hs; updw_cases; projs; try discriminate; eapply Cp1; eauto].
  (* c_none *)
  all: try solve [intros P i Hi; updw_cases; projs; try reflexivity; try solve [apply Cnone; assumption];
                  pose proof (Cnone P k Hk) as X; congruence].
  (* c_curu *)
  all: try solve [intros i k0 j Hi Hk0 Hci Hck; updw_cases; projs; try discriminate; try reflexivity;
                  try solve [eapply Ccuru; eauto];
                  try solve [exfalso; injection Hci as <-; destruct (Ccur _ _ Hk0 Hck) as (_ & X & _); tauto];
                  try solve [exfalso; injection Hck as <-; destruct (Ccur _ _ Hi Hci) as (_ & X & _); tauto]].
  (* c_cur *)
  all: try solve [intros i j Hi Hc'; updw_cases; projs; try discriminate;
                  try solve [destruct (Ccur _ _ Hi Hc') as (X1 & X2 & X3); rewrite ?In_snoc; split; [assumption|]; split; [tauto|];
                             first [ exact X3 | intros [Y| ->]; [tauto|]; match goal with n0 : _ <> _ |- _ => apply n0 end; eapply Ccuru; eauto ]];
                  try solve [destruct (Ccur _ _ Hk Hc') as (X1 & _); congruence];
                  try solve [injection Hc' as <-; split; [reflexivity|]; split; [apply In_snoc; right; reflexivity|]; intros X; apply Sc; apply Ces; exact X]].
  (* c_slot *)
  all: try solve [intros i j Hi Hs; updw_cases; projs; try discriminate;
     try solve [destruct (Cslot _ _ Hi Hs) as (A & B & C'); split; [assumption|]; split; [assumption|]; rewrite ?In_snoc;
                destruct C' as [[C1 C2]|[C1 C2]];
                [ left; split; [assumption|]; first [assumption | intros [Y| ->]; [tauto|]; match goal with n0 : _ <> _ |- _ => apply n0 end; eapply Cuniq; eauto]
                | right; split; [assumption|tauto] ]];
     try solve [destruct (Cslot _ _ Hk Hs) as (A & B & C'); split; [assumption|]; split; [assumption|]; rewrite ?In_snoc;
                destruct C' as [[C1 C2]|[C1 C2]]; rewrite Hpc in C1; cbn [wpre] in C1;
                first [ discriminate C1 | solve [destruct C1 as [C1|C1]; discriminate C1]
                      | left; split; [reflexivity|assumption]
                      | right; split; [first [left; reflexivity|right; reflexivity]|tauto] ]];
     try solve [exfalso; rewrite (Opost k Hk) in Hs; [discriminate Hs | rewrite Hpc; reflexivity]];
     try solve [exfalso; rewrite Wk in Hs; discriminate Hs];
     try solve [exfalso; congruence];
     try solve [injection Hs as <-; split; [assumption|]; split; [assumption|]; right; split; [left; reflexivity|apply In_snoc; right; reflexivity]] ].
  (* c_acc *)
  all: try solve [intros j Hj; rewrite ?In_snoc in Hj;
     try solve [destruct Hj as [Hj| ->]; [| right; exists k; split; [assumption|]; unfold updw; rewrite Nat.eqb_refl; reflexivity];
                destruct (Cacc j Hj) as [X|(i & Hi & Hc')]; [left; assumption|]; right; exists i; split; [assumption|]; updw_cases; projs; [|assumption];
                exfalso; destruct (Ccur _ _ Hk Hc') as (Y & _); congruence];
     try solve [destruct (Cacc j Hj) as [X|(i & Hi & Hc')]; [left; apply In_snoc; left; assumption|];
                destruct (Nat.eq_dec i k) as [->|Hne]; [left; apply In_snoc; right; congruence|];
                right; exists i; split; [assumption|]; updw_cases; projs; assumption];
     try solve [destruct (Cacc j Hj) as [X|(i & Hi & Hc')]; [left; assumption|]; right; exists i; split; [assumption|]; updw_cases; projs; assumption] ].
  (* c_nodrop *)
  all: try solve [intros Hc Hn j Hj; destruct (Cnd Hc Hn j Hj) as [X|[X|(i & Hi & Hs & Hp)]]; [left; assumption | right; left; rewrite ?In_snoc; tauto |];
     destruct (Nat.eq_dec i k) as [->|Hne];
     [ rewrite Hpc in Hp; cbn [wpre] in Hp; try discriminate Hp;
       first [ solve [right; left; apply In_snoc; right; congruence]
             | solve [right; right; exists k; split; [assumption|]; unfold updw; rewrite Nat.eqb_refl; projs; split; [assumption|reflexivity]]
             | solve [exfalso; congruence] ]
     | right; right; exists i; split; [assumption|]; unfold updw; destruct (Nat.eqb_spec i k); [congruence|]; split; assumption ] ].
Qed.

End Locked.
