(* C02 — lemmas about the exposure gate model (Model/Expose.v). *)
From Coq Require Import List NArith Arith Bool Lia.
Import ListNotations.
From V Require Import Model.StrFun Model.Expose.

(* ---------- text equality ---------- *)
Lemma text_eqb_eq : forall a b, text_eqb a b = true -> a = b.
Proof.
  induction a as [|x a IH]; destruct b as [|y b]; simpl; intros H; try discriminate; auto.
  apply andb_true_iff in H. destruct H as [H1 H2].
  apply N.eqb_eq in H1. subst. f_equal. auto.
Qed.

Lemma text_eqb_refl : forall a, text_eqb a a = true.
Proof. induction a; simpl; auto. rewrite N.eqb_refl. auto. Qed.

(* ---------- lookups ---------- *)
Lemma class_lookup_some : forall s n m,
  class_lookup s n = Some m -> In m (s_members s) /\ is_class_member m = true /\ m_name m = n.
Proof.
  unfold class_lookup. intros s n m H.
  destruct (find (in_class Sub n) (s_members s)) eqn:E1.
  - inversion H; subst. apply find_some in E1. destruct E1 as [Hin Hp].
    unfold in_class in Hp. repeat (apply andb_true_iff in Hp; destruct Hp as [Hp ?]).
    split; [auto|]. split; [auto|]. apply text_eqb_eq; auto.
  - apply find_some in H. destruct H as [Hin Hp].
    unfold in_class in Hp. repeat (apply andb_true_iff in Hp; destruct Hp as [Hp ?]).
    split; [auto|]. split; [auto|]. apply text_eqb_eq; auto.
Qed.

Lemma inst_attr_some : forall s n m,
  inst_attr s n = Some m -> In m (s_members s) /\ is_class_member m = false /\ m_name m = n.
Proof.
  unfold inst_attr. intros s n m H. apply find_some in H. destruct H as [Hin Hp].
  apply andb_true_iff in Hp. destruct Hp as [H1 H2].
  split; [auto|]. split. { apply negb_true_iff in H1. auto. } apply text_eqb_eq; auto.
Qed.

Lemma inst_lookup_some : forall s n m,
  inst_lookup s n = Some m -> In m (s_members s) /\ m_name m = n.
Proof.
  unfold inst_lookup. intros s n m H.
  destruct (class_lookup s n) as [c|] eqn:E.
  - destruct (is_prop c).
    + inversion H; subst. apply class_lookup_some in E. tauto.
    + destruct (inst_attr s n) as [a|] eqn:Ea.
      * inversion H; subst. apply inst_attr_some in Ea. tauto.
      * inversion H; subst. apply class_lookup_some in E. tauto.
  - apply inst_attr_some in H. tauto.
Qed.

(* getattr(obj, n) yields a property only if the class lookup yields that property *)
Lemma inst_lookup_prop : forall s n m,
  inst_lookup s n = Some m -> is_prop m = true -> class_lookup s n = Some m.
Proof.
  unfold inst_lookup. intros s n m H Hp.
  destruct (class_lookup s n) as [c|] eqn:E.
  - destruct (is_prop c) eqn:Ec; [auto|].
    destruct (inst_attr s n) as [a|] eqn:Ea.
    + inversion H; subst. apply inst_attr_some in Ea. destruct Ea as [_ [Ea _]].
      unfold is_prop in Hp. unfold is_class_member in Ea. destruct (m_kind m); discriminate.
    + inversion H; subst. congruence.
  - apply inst_attr_some in H. destruct H as [_ [H _]].
    unfold is_prop in Hp. unfold is_class_member in H. destruct (m_kind m); discriminate.
Qed.

Lemma is_method_not_inst : forall m, is_method m = true -> is_class_member m = true.
Proof. intros m. unfold is_method, is_class_member. destruct (m_kind m); auto; discriminate. Qed.

Lemma find_hook_some : forall s h m,
  find_hook s h = Some m -> In m (s_members s) /\ exists h', m_kind m = KHook h'.
Proof.
  unfold find_hook. intros s h m H.
  assert (K : forall c, find (fun m0 => is_hook h m0 && cls_eqb (m_in m0) c) (s_members s) = Some m ->
              In m (s_members s) /\ exists h', m_kind m = KHook h').
  { intros c Hf. apply find_some in Hf. destruct Hf as [Hin Hp]. apply andb_true_iff in Hp. destruct Hp as [Hp _].
    split; [auto|]. unfold is_hook in Hp. destruct (m_kind m); try discriminate. eauto. }
  destruct (find (fun m0 => is_hook h m0 && cls_eqb (m_in m0) Sub) (s_members s)) eqn:E.
  - inversion H; subst. eapply K; eauto.
  - eapply K; eauto.
Qed.

Lemma hook_effect_in : forall q s h m a,
  In (m, a) (hook_effect q s h) ->
  hooks_on q = true /\ a = AHook /\ In m (s_members s) /\ exists h', m_kind m = KHook h'.
Proof.
  unfold hook_effect. intros q s h m a H.
  assert (F : hook_flag q h = true -> hooks_on q = true).
  { unfold hook_flag, hooks_on. destruct h; intros X; rewrite X; auto using orb_true_r. }
  destruct (hook_flag q h); [|destruct H]. specialize (F eq_refl).
  destruct (find_hook s h) as [m0|] eqn:E; [|destruct H].
  destruct H as [H|[]]. inversion H; subst. apply find_hook_some in E. tauto.
Qed.

Section Gate.
Variable is_private : text -> bool.
Notation get_attribute := (get_attribute is_private).
Notation serve_call := (serve_call is_private).
Notation serve_batch := (serve_batch is_private).
Notation serve_attr := (serve_attr is_private).
Notation serve := (serve is_private).
Notation exposed := (exposed is_private).
Notation explicitly_exposed := (explicitly_exposed is_private).
Notation exposed_by_rule := (exposed_by_rule is_private).
Notation may_serve := (may_serve is_private).
Notation legit := (legit is_private).
Notation allowed := (allowed is_private).
Notation helper_boundary := (helper_boundary is_private).
Notation hook_boundary := (hook_boundary is_private).

Lemma own_decisive_requested : forall m, own_decisive m = true -> own_requested m = true.
Proof.
  unfold own_decisive, own_requested. intros m.
  destruct (m_kind m) as [| | |g st d| | | | |]; intros H; try (rewrite H; reflexivity).
  destruct (m_mark m); [reflexivity|]. simpl.
  destruct g as [[og pg]|]; simpl in *.
  - rewrite orb_false_r in H. rewrite H. reflexivity.
  - destruct st as [[os ps]|]; simpl in *.
    + rewrite orb_false_r in H. rewrite H. reflexivity.
    + destruct d as [[od pd]|]; simpl in *; [|discriminate]. rewrite orb_false_r in H. auto.
Qed.

Lemma first_pre_any : forall m, first_pre m = true -> any_pre m = true.
Proof.
  unfold first_pre, any_pre. intros m. destruct (m_kind m) as [| | |g st d| | | | |]; auto.
  destruct g as [[og pg]|]; simpl; [intros H; rewrite H; reflexivity|].
  destruct st as [[os ps]|]; simpl; [intros H; rewrite H; reflexivity|].
  destruct d as [[od pd]|]; simpl; auto.
Qed.

Lemma exposed_explicit : forall s m, exposed s m = true -> explicitly_exposed s m /\ markable m = true.
Proof.
  unfold Expose.exposed, Expose.explicitly_exposed, own_ok, class_marked. intros s m H.
  apply andb_true_iff in H. destruct H as [Hm H]. split; [|auto].
  apply orb_true_iff in H. destruct H as [H|H]; [apply orb_true_iff in H; destruct H as [H|H]|].
  - apply andb_true_iff in H; destruct H as [H1 H2].
    left. split; [apply own_decisive_requested; auto|]. apply negb_true_iff; auto.
  - apply andb_true_iff in H; destruct H as [H1 H2].
    right. left. apply andb_true_iff in H1. tauto.
  - right. right. apply first_pre_any. auto.
Qed.

Lemma rule_exposed : forall s m,
  exposed_by_rule s m -> markable m = true -> is_private (m_name m) = false -> exposed s m = true.
Proof.
  unfold Expose.exposed, Expose.exposed_by_rule, own_ok, class_marked. intros s m [[H1 H2]|[[H H']|H]] Hm Hp; rewrite Hm; simpl.
  - rewrite H1, H2. reflexivity.
  - rewrite H, Hp. simpl. apply orb_true_iff. left. apply orb_true_iff. right.
    destruct (m_kind m) as [| | |g st d| | | | |]; try reflexivity.
    destruct g; [reflexivity|]. destruct st; [reflexivity|]. destruct d; [reflexivity|]. destruct H'.
  - rewrite H. apply orb_true_r.
Qed.

(* ---------- _get_attribute, for every variant in which the two repairs are in place ---------- *)
Lemma get_attribute_sound : forall q s n e r,
  repaired q -> get_attribute q s n = (e, r) ->
  (forall m a, In (m, a) e ->
     hooks_on q = true /\ a = AHook /\ In m (s_members s) /\ (exists h, m_kind m = KHook h) /\
     exists t, n = NStr t /\ is_private t = false) /\
  (forall m, r = ResMethod m ->
     exists t, n = NStr t /\ is_private t = false /\ inst_lookup s t = Some m /\ is_method m = true /\ exposed s m = true) /\
  (forall m, r = ResHelper m ->
     q_helper_served q = true /\
     exists t, n = NStr t /\ is_private t = false /\ inst_lookup s t = Some m /\ m_kind m = KHelper true true).
Proof.
  intros q s n e r Hq H. unfold repaired in Hq. destruct Hq as [Hq1 [Hq2 Hq3]]. unfold Expose.get_attribute in H.
  assert (TRIV : forall (e0 : list effect), e0 = [] -> forall m a, In (m, a) e0 -> False) by (intros; subst; auto).
  destruct n as [t|]; [|inversion H; repeat split; intros; try discriminate; exfalso; eauto].
  destruct (is_private t) eqn:Ep; [inversion H; repeat split; intros; try discriminate; exfalso; eauto|].
  rewrite Hq1 in H. cbn [negb andb] in H.
  destruct (match class_lookup s t with Some m => is_prop m | None => false end) eqn:Eb;
    [inversion H; repeat split; intros; try discriminate; exfalso; eauto|].
  assert (HOOKS : forall h m a, In (m, a) (hook_effect q s h) ->
     hooks_on q = true /\ a = AHook /\ In m (s_members s) /\ (exists h', m_kind m = KHook h') /\
     exists t0, NStr t = NStr t0 /\ is_private t0 = false).
  { intros h m a Hin. apply hook_effect_in in Hin. destruct Hin as [A [B [C D]]]. repeat split; auto. exists t. auto. }
  destruct (inst_lookup s t) as [m0|] eqn:El.
  - destruct (m_kind m0) eqn:Ek; inversion H; subst; clear H.
    + (* method *) split; [intros m a Hin; eapply HOOKS; eauto|]. split; intros m Hr.
      * destruct (exposed s m0) eqn:Ee; inversion Hr; subst. exists t. unfold is_method. rewrite Ek. auto.
      * destruct (exposed s m0); discriminate.
    + split; [intros m a Hin; eapply HOOKS; eauto|]. split; intros m Hr.
      * destruct (exposed s m0) eqn:Ee; inversion Hr; subst. exists t. unfold is_method. rewrite Ek. auto.
      * destruct (exposed s m0); discriminate.
    + split; [intros m a Hin; eapply HOOKS; eauto|]. split; intros m Hr.
      * destruct (exposed s m0) eqn:Ee; inversion Hr; subst. exists t. unfold is_method. rewrite Ek. auto.
      * destruct (exposed s m0); discriminate.
    + (* property: impossible, the class lookup would have blocked it *)
      exfalso. assert (Hp : is_prop m0 = true) by (unfold is_prop; rewrite Ek; reflexivity).
      rewrite (inst_lookup_prop _ _ _ El Hp), Hp in Eb. discriminate.
    + split; [intros m a Hin; eapply HOOKS; eauto|]. split; intros; discriminate.
    + split; [intros m a Hin; eapply HOOKS; eauto|]. split; intros; discriminate.
    + (* helper *) split; [intros m a Hin; eapply HOOKS; eauto|]. split; intros m Hr.
      * destruct class_exposed, callable, (q_helper_served q); discriminate.
      * destruct class_exposed, callable; try discriminate.
        destruct (q_helper_served q) eqn:Eq; inversion Hr; subst. split; [reflexivity|]. exists t. auto.
    + (* hook as a function *) split; [intros m a Hin; eapply HOOKS; eauto|]. split; intros m Hr.
      * destruct (exposed s m0) eqn:Ee; inversion Hr; subst. exists t. unfold is_method. rewrite Ek. auto.
      * destruct (exposed s m0); discriminate.
    + (* raiser: a plain value *) split; [intros m a Hin; eapply HOOKS; eauto|]. split; intros; discriminate.
  - remember (t_mem t implicit_attrs) as imp eqn:Eimp. clear Eimp.
    inversion H; subst; clear H. split; [|split; intros; discriminate].
    intros m a Hin. apply in_app_or in Hin. destruct Hin as [Hin|Hin]; [eapply HOOKS; eauto|].
    destruct imp; [exfalso; exact Hin|eapply HOOKS; eauto].
Qed.

Lemma serve_call_sound : forall q s n k m a,
  repaired q -> k = RCall \/ k = RBatch ->
  In (m, a) (fst (serve_call q s n)) -> allowed q s k [n] m a.
Proof.
  intros q s n k m a Hq Hk Hin. unfold Expose.serve_call in Hin.
  destruct (get_attribute q s n) as [e r] eqn:E.
  destruct (get_attribute_sound q s n e r Hq E) as [He [Hm Hh]].
  assert (HOOK : In (m, a) e -> allowed q s k [n] m a).
  { intros Hi. destruct (He m a Hi) as [A [B [C [D [t [Hn Hp]]]]]].
    right. right. split; [auto|]. split; [auto|]. unfold Expose.hook_boundary.
    split; [auto|]. split; [auto|]. split; [auto|]. exists t. subst n. split; [left; auto|auto]. }
  destruct r as [|m0|m0|]; simpl in Hin; auto.
  - apply in_app_or in Hin. destruct Hin as [Hin|[Hin|[]]]; [auto|]. inversion Hin; subst m0 a.
    destruct (Hm m eq_refl) as [t [Hn [Hp [Hl [Hme Hex]]]]].
    apply inst_lookup_some in Hl. destruct Hl as [Hi Hname].
    left. unfold Expose.legit. subst n. rewrite Hname.
    split; [auto|]. split; [left; auto|]. split; [auto|]. split; [simpl; auto|].
    apply exposed_explicit in Hex. tauto.
  - apply in_app_or in Hin. destruct Hin as [Hin|[Hin|[]]]; [auto|]. inversion Hin; subst m0 a.
    destruct (Hh m eq_refl) as [Hq3 [t [Hn [Hp [Hl Hkind]]]]].
    apply inst_lookup_some in Hl. destruct Hl as [Hi Hname].
    right. left. split; [auto|]. split; [auto|]. unfold Expose.helper_boundary. subst n. rewrite Hname.
    split; [auto|]. split; [auto|]. split; [left; auto|]. split; auto.
Qed.

Lemma allowed_widen : forall q s k l l' m a,
  allowed q s k l m a -> (forall x, In x l -> In x l') -> allowed q s k l' m a.
Proof.
  unfold Expose.allowed, Expose.legit, Expose.helper_boundary, Expose.hook_boundary.
  intros q s k l l' m a H Hs. destruct H as [H|[H|H]].
  - left. intuition.
  - right. left. intuition.
  - right. right. destruct H as [A [B [C [D [E [t [F G]]]]]]]. repeat split; auto. exists t. auto.
Qed.

Lemma serve_batch_sound : forall q s names m a,
  repaired q -> In (m, a) (fst (serve_batch q s names)) -> allowed q s RBatch names m a.
Proof.
  intros q s names m a Hq. revert m a. induction names as [|n rest IH]; simpl; intros m a Hin; [tauto|].
  destruct (serve_call q s n) as [e ok] eqn:E.
  assert (Hc : forall m a, In (m, a) e -> allowed q s RBatch [n] m a).
  { intros m' a' H'. apply (serve_call_sound q s n RBatch m' a' Hq); [auto|]. rewrite E. auto. }
  destruct ok; simpl in Hin.
  - apply in_app_or in Hin. destruct Hin as [Hin|Hin].
    + eapply allowed_widen; [apply Hc; eauto|]. intros x [Hx|[]]. left; auto.
    + eapply allowed_widen; [apply IH; eauto|]. intros x Hx. right; auto.
  - eapply allowed_widen; [apply Hc; eauto|]. intros x [Hx|[]]. left; auto.
Qed.

(* ---------- property get / set ---------- *)
Lemma serve_attr_cases : forall q s a n,
  repaired q ->
  (serve_attr q s a n = ([], false)) \/
  (exists t m g st d, n = NStr t /\ serve_attr q s a n = ([(m, a)], true) /\
     is_private t = false /\ class_lookup s t = Some m /\ m_kind m = KProp g st d /\
     (match a with AGet => present g | ASet => present st | _ => false end) = true /\ exposed s m = true).
Proof.
  intros q s a n Hq. unfold repaired in Hq. destruct Hq as [_ [Hq _]]. unfold Expose.serve_attr, Expose.serve_attr_oe.
  destruct n as [t|]; [|left; reflexivity].
  rewrite Hq. simpl. destruct (is_private t) eqn:Ep; [left; reflexivity|].
  destruct (class_lookup s t) as [m|] eqn:El; [|left; reflexivity].
  destruct (m_kind m) eqn:Ek; try (left; reflexivity).
  destruct (match a with AGet => present g | ASet => present st | _ => false end) eqn:Ea; [|left; reflexivity].
  destruct (exposed s m) eqn:Ee; [|left; reflexivity].
  right. exists t, m, g, st, d. simpl. auto 10.
Qed.

Lemma present_some : forall o, present o = true -> exists b, o = Some b.
Proof. destruct o; simpl; intros; [eauto|discriminate]. Qed.

Lemma serve_attr_sound : forall q s a n k m a',
  repaired q -> (a = AGet /\ k = RGet) \/ (a = ASet /\ k = RSet) ->
  In (m, a') (fst (serve_attr q s a n)) -> legit s k [n] m a'.
Proof.
  intros q s a n k m a' Hq Hk Hin.
  destruct (serve_attr_cases q s a n Hq) as [H|[t [m0 [g [st [d [Hn [H [Hp [Hl [Hkind [Hacc He]]]]]]]]]]]]; rewrite H in Hin; simpl in Hin; [tauto|].
  destruct Hin as [Hin|[]]. inversion Hin; subst m0 a'.
  apply class_lookup_some in Hl. destruct Hl as [Hi [_ Hname]].
  unfold Expose.legit. subst n. rewrite Hname.
  split; [auto|]. split; [left; auto|]. split; [auto|]. split.
  - destruct Hk as [[Ha Hk]|[Ha Hk]]; subst a k; simpl; (split; [reflexivity|]);
      apply present_some in Hacc; destruct Hacc as [b Hb]; subst.
    + exists b, st, d. auto.
    + exists g, b, d. auto.
  - apply exposed_explicit in He. tauto.
Qed.

Lemma first_name_in : forall r t, first_name r = NStr t -> In (NStr t) (r_names r).
Proof. unfold first_name. intros r t. destruct (r_names r); [discriminate|]. intros H; subst. left; auto. Qed.

Lemma first_name_in' : forall r x, In x [first_name r] -> x <> NOther -> In x (r_names r).
Proof.
  intros r x [H|[]] Hx. subst x. unfold first_name in *. destruct (r_names r); [congruence|left; auto].
Qed.

Lemma allowed_first : forall q s k r m a, allowed q s k [first_name r] m a -> allowed q s k (r_names r) m a.
Proof.
  unfold Expose.allowed, Expose.legit, Expose.helper_boundary, Expose.hook_boundary.
  intros q s k r m a H.
  assert (S : forall t, In (NStr t) [first_name r] -> In (NStr t) (r_names r)).
  { intros t Ht. apply first_name_in'; [auto|discriminate]. }
  destruct H as [H|[H|H]].
  - left. intuition.
  - right. left. intuition.
  - right. right. destruct H as [A [B [C [D [E [t [F G]]]]]]]. repeat split; auto. exists t. auto.
Qed.

Lemma fst_serve : forall q s r, fst (serve q s r) = fst (serve_core is_private q s r).
Proof. intros. unfold Expose.serve. destruct (serve_core is_private q s r). reflexivity. Qed.

Lemma attr_request_indexed : forall q s a r,
  indexed q -> attr_request is_private q s a r = if r_missing r then ([], false) else serve_attr q s a (first_name r).
Proof.
  intros q s a r Hq. unfold indexed in Hq. destruct Hq as [Hg Hs].
  unfold attr_request, form_of. destruct a; rewrite ?Hg, ?Hs; reflexivity.
Qed.

Lemma safe_bind : forall f r, safe_form f -> bind_only_exposed f r = Some true \/ bind_only_exposed f r = None.
Proof. intros f r [H|H]; subst f; simpl; [left; reflexivity|]. destruct (r_surplus r); auto. Qed.

Lemma form_safe : forall q a, repaired q -> safe_form (form_of q (match a with ASet => TSet | _ => TGet end)).
Proof. intros q a Hq. unfold repaired in Hq. destruct Hq as [_ [_ [Hg Hs]]]. unfold form_of. destruct a; auto. Qed.

(* with a safe call form an attribute request is the helper call on the indexed name, or an error *)
Lemma attr_request_safe : forall q s a r,
  repaired q -> attr_request is_private q s a r = ([], false) \/
                attr_request is_private q s a r = serve_attr q s a (first_name r).
Proof.
  intros q s a r Hq. unfold attr_request. destruct (r_missing r); [left; reflexivity|].
  destruct (safe_bind _ r (form_safe q a Hq)) as [X|X]; rewrite X; [right; reflexivity|left; reflexivity].
Qed.

(* gate soundness for every variant with the two repairs: whatever runs is allowed by the property, or lies
   exactly within the boundary of one of the two open deviations the variant has *)
Lemma gate_sound_gen : forall q s r m a,
  repaired q -> In (m, a) (fst (serve q s r)) -> allowed q s (r_kind r) (r_names r) m a.
Proof.
  intros q s r m a Hq. rewrite fst_serve. unfold serve_core.
  destruct (r_kind r) eqn:Ek; intros Hin.
  - apply allowed_first. eapply serve_call_sound; eauto.
  - apply serve_batch_sound; auto.
  - destruct (attr_request_safe q s AGet r Hq) as [Y|Y]; rewrite Y in Hin; [destruct Hin|].
    left. assert (L : legit s RGet [first_name r] m a) by (eapply serve_attr_sound; eauto).
    destruct (allowed_first q s RGet r m a (or_introl L)) as [X|[[_ [X _]]|[_ [X _]]]]; [auto| |];
      subst a; unfold Expose.legit, acc_fits in L; tauto.
  - destruct (attr_request_safe q s ASet r Hq) as [Y|Y]; rewrite Y in Hin; [destruct Hin|].
    left. assert (L : legit s RSet [first_name r] m a) by (eapply serve_attr_sound; eauto).
    destruct (allowed_first q s RSet r m a (or_introl L)) as [X|[[_ [X _]]|[_ [X _]]]]; [auto| |];
      subst a; unfold Expose.legit, acc_fits in L; tauto.
Qed.

Lemma repaired_none : repaired quirks_none.
Proof. repeat split; try reflexivity; left; reflexivity. Qed.
Lemma repaired_asis : repaired quirks_asis.
Proof. repeat split; try reflexivity; left; reflexivity. Qed.
Lemma indexed_none : indexed quirks_none.
Proof. split; reflexivity. Qed.
Lemma indexed_asis : indexed quirks_asis.
Proof. split; reflexivity. Qed.

(* the property's behaviour: only legitimate effects *)
Lemma gate_sound : forall s r m a,
  In (m, a) (fst (serve quirks_none s r)) -> legit s (r_kind r) (r_names r) m a.
Proof.
  intros s r m a H. apply (gate_sound_gen quirks_none s r m a repaired_none) in H.
  destruct H as [H|[[H _]|[H _]]]; [auto|discriminate|discriminate].
Qed.

(* today's code: legitimate effects, or exactly one of the two open deviations *)
Lemma gate_sound_asis : forall s r m a,
  In (m, a) (fst (serve quirks_asis s r)) ->
  legit s (r_kind r) (r_names r) m a \/
  (a = AHelper /\ helper_boundary s (r_kind r) (r_names r) m) \/
  (a = AHook /\ hook_boundary s (r_kind r) (r_names r) m).
Proof.
  intros s r m a H. apply (gate_sound_gen quirks_asis s r m a repaired_asis) in H.
  destruct H as [H|[[_ H]|[_ H]]]; auto.
Qed.

(* ---------- on plain shapes (no hooks, no callable exposed helper) every repaired variant is the property's behaviour ---------- *)
Lemma plain_no_hook : forall s h, plain_shape s = true -> find_hook s h = None.
Proof.
  intros s h Hp. destruct (find_hook s h) as [m|] eqn:E; [|reflexivity].
  apply find_hook_some in E. destruct E as [Hin [h' Hk]].
  unfold plain_shape in Hp. rewrite forallb_forall in Hp. specialize (Hp m Hin). rewrite Hk in Hp. discriminate.
Qed.

Lemma plain_get_attribute : forall q s n,
  repaired q -> plain_shape s = true -> get_attribute q s n = get_attribute quirks_none s n.
Proof.
  intros q s n Hq Hp. unfold repaired in Hq. destruct Hq as [Hq1 [Hq2 Hq3]]. unfold Expose.get_attribute, hook_effect.
  rewrite !(plain_no_hook s _ Hp). rewrite Hq1. simpl.
  destruct n as [t|]; [|reflexivity].
  destruct (is_private t); [reflexivity|].
  destruct (match class_lookup s t with Some m => is_prop m | None => false end); [reflexivity|].
  assert (E0 : forall b : bool, (if b then @nil effect else []) = []) by (intros b; destruct b; reflexivity).
  rewrite !E0.
  destruct (inst_lookup s t) as [m|] eqn:El.
  - destruct (m_kind m) eqn:Ek; try reflexivity.
    destruct class_exposed, callable; try reflexivity.
    exfalso. apply inst_lookup_some in El. destruct El as [Hin _].
    unfold plain_shape in Hp. rewrite forallb_forall in Hp. specialize (Hp m Hin). rewrite Ek in Hp. discriminate.
  - destruct (t_mem t implicit_attrs); reflexivity.
Qed.

Lemma plain_serve_call : forall q s n,
  repaired q -> plain_shape s = true -> serve_call q s n = serve_call quirks_none s n.
Proof. intros. unfold Expose.serve_call. rewrite plain_get_attribute; auto. Qed.

Lemma plain_serve_batch : forall q s names,
  repaired q -> plain_shape s = true -> serve_batch q s names = serve_batch quirks_none s names.
Proof.
  intros q s names Hq Hp. induction names as [|n rest IH]; simpl; [reflexivity|].
  rewrite plain_serve_call, IH; auto.
Qed.

Lemma plain_agrees : forall q s r,
  repaired q -> indexed q -> plain_shape s = true -> serve q s r = serve quirks_none s r.
Proof.
  intros q s r Hq Hi Hp. unfold Expose.serve, serve_core.
  assert (A : forall a, attr_request is_private q s a r = attr_request is_private quirks_none s a r).
  { intros a. rewrite !attr_request_indexed by auto using indexed_none.
    unfold Expose.serve_attr, Expose.serve_attr_oe. unfold repaired in Hq. destruct Hq as [_ [Hq _]]. rewrite Hq. reflexivity. }
  destruct (r_kind r); rewrite ?plain_serve_call, ?plain_serve_batch, ?A; auto.
Qed.

(* ---------- the property's behaviour: dichotomy, completeness, batches ---------- *)
Lemma serve_call_cases : forall s n,
  (serve_call quirks_none s n = ([], false)) \/
  (exists t m, n = NStr t /\ serve_call quirks_none s n = ([(m, ACall)], true) /\
     is_private t = false /\ inst_lookup s t = Some m /\ is_method m = true /\ exposed s m = true).
Proof.
  intros s n. unfold Expose.serve_call.
  destruct (get_attribute quirks_none s n) as [e r] eqn:E.
  destruct (get_attribute_sound quirks_none s n e r repaired_none E) as [He [Hm Hh]].
  assert (e = []).
  { destruct e as [|[m a] e']; [reflexivity|]. destruct (He m a (or_introl eq_refl)) as [X _]. discriminate. }
  subst e.
  destruct r as [|m|m|]; [left; reflexivity| | |left; reflexivity].
  - destruct (Hm m eq_refl) as [t [Hn [Hp [Hl [Hme Hex]]]]]. right. exists t, m. simpl. auto 10.
  - destruct (Hh m eq_refl) as [X _]. discriminate.
Qed.

Lemma single_dichotomy : forall s k ow n,
  k <> RBatch ->
  let r := (mkreq k ow [n]) in
  serve quirks_none s r = ([], reply_refused ow) \/
  exists m a, serve quirks_none s r = ([(m, a)], reply_ok ow).
Proof.
  intros s k ow n Hk r. unfold Expose.serve, serve_core, attr_request, first_name, reply_refused, reply_ok. simpl.
  change (serve_attr_oe is_private quirks_none s AGet n true) with (serve_attr quirks_none s AGet n).
  change (serve_attr_oe is_private quirks_none s ASet n true) with (serve_attr quirks_none s ASet n).
  destruct k; try congruence.
  - destruct (serve_call_cases s n) as [H|[t [m [_ [H _]]]]]; rewrite H; [left|right; exists m, ACall]; destruct ow; reflexivity.
  - destruct (serve_attr_cases quirks_none s AGet n repaired_none) as [H|[t [m [g [st [d [_ [H _]]]]]]]]; rewrite H; [left|right; exists m, AGet]; destruct ow; reflexivity.
  - destruct (serve_attr_cases quirks_none s ASet n repaired_none) as [H|[t [m [g [st [d [_ [H _]]]]]]]]; rewrite H; [left|right; exists m, ASet]; destruct ow; reflexivity.
Qed.

(* completeness: a request the property allows is served, exactly once, with a normal result *)
Lemma exposed_served : forall s k ow t m a,
  k <> RBatch -> may_serve s k t m a ->
  serve quirks_none s (mkreq k ow [NStr t]) = ([(m, a)], reply_ok ow).
Proof.
  intros s k ow t m a Hk [Hd [Hp [Hf He]]].
  unfold Expose.serve, serve_core, attr_request, first_name, reply_ok. simpl.
  destruct k; try congruence; simpl in Hd.
  - (* call *)
    destruct a; simpl in Hf; try (destruct Hf as [Hf _]; first [discriminate | destruct Hf; discriminate]); try tauto.
    destruct Hf as [_ Hm].
    pose proof (inst_lookup_some _ _ _ Hd) as [_ Hname].
    assert (Hx : exposed s m = true).
    { apply rule_exposed; auto. unfold markable. rewrite Hm. reflexivity. rewrite Hname. auto. }
    assert (Hb : match class_lookup s t with Some m0 => is_prop m0 | None => false end = false).
    { destruct (class_lookup s t) as [c|] eqn:Ec; [|reflexivity].
      destruct (is_prop c) eqn:Epc; [|reflexivity].
      unfold inst_lookup in Hd. rewrite Ec, Epc in Hd. inversion Hd; subst c.
      unfold is_prop in Epc. unfold is_method in Hm. destruct (m_kind m); discriminate. }
    unfold Expose.serve_call, Expose.get_attribute, hook_effect. simpl. rewrite Hp, Hb, Hd. simpl.
    unfold is_method in Hm. destruct (m_kind m); try discriminate; rewrite Hx; destruct ow; reflexivity.
  - (* get *)
    destruct a; simpl in Hf; try (destruct Hf as [Hf _]; first [discriminate | destruct Hf; discriminate]); try tauto.
    destruct Hf as [_ [b [st [d Hkind]]]].
    pose proof (class_lookup_some _ _ _ Hd) as [_ [_ Hname]].
    assert (Hx : exposed s m = true).
    { apply rule_exposed; auto. unfold markable, is_prop. rewrite Hkind. apply orb_true_r. rewrite Hname. auto. }
    unfold Expose.serve_attr_oe. simpl. rewrite Hp, Hd, Hkind, Hx. destruct ow; reflexivity.
  - (* set *)
    destruct a; simpl in Hf; try (destruct Hf as [Hf _]; first [discriminate | destruct Hf; discriminate]); try tauto.
    destruct Hf as [_ [g [b [d Hkind]]]].
    pose proof (class_lookup_some _ _ _ Hd) as [_ [_ Hname]].
    assert (Hx : exposed s m = true).
    { apply rule_exposed; auto. unfold markable, is_prop. rewrite Hkind. apply orb_true_r. rewrite Hname. auto. }
    unfold Expose.serve_attr_oe. simpl. rewrite Hp, Hd, Hkind, Hx. destruct ow; reflexivity.
Qed.

(* the batch loop, for every variant: the effects of the attempted members in order; it succeeds iff all are served *)
Lemma batch_as_calls : forall q s names,
  fst (serve_batch q s names) = flat_map (fun n => fst (serve_call q s n)) (tried is_private q s names) /\
  snd (serve_batch q s names) = forallb (call_ok is_private q s) names.
Proof.
  intros q s names. induction names as [|n rest [IH1 IH2]]; simpl; [auto|].
  unfold call_ok at 1 2.
  destruct (serve_call q s n) as [e ok] eqn:E. destruct ok; simpl.
  - rewrite IH1, IH2. auto.
  - rewrite app_nil_r. auto.
Qed.

(* under the property's behaviour a member that is not served contributes no effect at all *)
Lemma refused_call_no_effect : forall s n,
  call_ok is_private quirks_none s n = false -> fst (serve_call quirks_none s n) = [].
Proof.
  intros s n H. unfold call_ok in H.
  destruct (serve_call_cases s n) as [H0|[t [m [_ [H0 _]]]]]; rewrite H0 in *; [reflexivity|discriminate].
Qed.

Lemma serve_result_core : forall q s k n e,
  serve q s (mkreq k false [n]) = (e, RepResult) ->
  serve_core is_private q s (mkreq k false [n]) = (e, true).
Proof.
  intros q s k n e. unfold Expose.serve.
  destruct (serve_core is_private q s (mkreq k false [n])) as [e' ok].
  simpl. destruct ok; intros H; inversion H; reflexivity.
Qed.

(* ---------- the shape of the request beyond the names ---------- *)
(* surplus positional arguments and keyword arguments never change what the gate decides *)
Lemma surplus_ignored : forall q s r,
  indexed q -> serve q s r = serve q s (strip_surplus r).
Proof.
  intros q s r Hq. unfold Expose.serve, serve_core.
  change (r_kind (strip_surplus r)) with (r_kind r). change (r_names (strip_surplus r)) with (r_names r).
  change (r_oneway (strip_surplus r)) with (r_oneway r). change (first_name (strip_surplus r)) with (first_name r).
  rewrite !attr_request_indexed by auto. reflexivity.
Qed.

Lemma attr_request_strip : forall q s a r,
  repaired q ->
  attr_request is_private q s a (strip_surplus r) = if r_missing r then ([], false) else serve_attr q s a (first_name r).
Proof.
  intros q s a r Hq. unfold attr_request.
  change (r_missing (strip_surplus r)) with (r_missing r). change (first_name (strip_surplus r)) with (first_name r).
  destruct (r_missing r); [reflexivity|].
  pose proof (form_safe q a Hq) as F. destruct F as [F|F]; rewrite F; reflexivity.
Qed.

(* ... and with any safe call form (arguments by index, with or without an argument-count check) surplus arguments
   are ignored or make the request an error: they never widen access *)
Lemma surplus_never_widens : forall q s r,
  repaired q ->
  serve q s r = serve q s (strip_surplus r) \/ serve q s r = ([], reply_refused (r_oneway r)).
Proof.
  intros q s r Hq.
  assert (C : serve_core is_private q s r = serve_core is_private q s (strip_surplus r) \/
              serve_core is_private q s r = ([], false)).
  { unfold serve_core. change (r_kind (strip_surplus r)) with (r_kind r). change (r_names (strip_surplus r)) with (r_names r).
    change (first_name (strip_surplus r)) with (first_name r).
    destruct (r_kind r); auto; rewrite attr_request_strip by auto.
    - destruct (attr_request_safe q s AGet r Hq) as [X|X]; [auto|]. unfold attr_request in *. destruct (r_missing r); auto.
    - destruct (attr_request_safe q s ASet r Hq) as [X|X]; [auto|]. unfold attr_request in *. destruct (r_missing r); auto. }
  unfold Expose.serve. change (r_oneway (strip_surplus r)) with (r_oneway r).
  destruct C as [C|C]; rewrite C; [left; reflexivity|right].
  unfold reply_refused. destruct (r_oneway r); reflexivity.
Qed.

(* an attribute request that lacks its name (or its value) is refused, in every variant *)
Lemma missing_refused : forall q s r,
  r_missing r = true -> r_kind r = RGet \/ r_kind r = RSet ->
  serve q s r = ([], reply_refused (r_oneway r)).
Proof.
  intros q s r Hm Hk. unfold Expose.serve, serve_core, attr_request, reply_refused.
  destruct Hk as [Hk|Hk]; rewrite Hk, Hm; destruct (r_oneway r); reflexivity.
Qed.

(* ---------- metadata ---------- *)
Lemma class_names_in : forall s n m, class_lookup s n = Some m -> In n (class_names s).
Proof.
  intros s n m H. apply class_lookup_some in H. destruct H as [Hi [Hc Hn]].
  unfold class_names. subst n. apply in_map. apply filter_In. auto.
Qed.

Lemma no_shadow_inst : forall s n m,
  no_shadow s = true -> class_lookup s n = Some m -> inst_attr s n = None.
Proof.
  intros s n m Hs Hc. destruct (inst_attr s n) as [a|] eqn:Ea; [|reflexivity].
  apply inst_attr_some in Ea. destruct Ea as [Hi [Hnc Hn]].
  unfold no_shadow in Hs. rewrite forallb_forall in Hs. specialize (Hs a Hi).
  rewrite Hnc, Hn, Hc in Hs. discriminate.
Qed.

Lemma no_shadow_lookup : forall s n m,
  no_shadow s = true -> class_lookup s n = Some m -> inst_lookup s n = Some m.
Proof.
  intros s n m Hs Hc. unfold inst_lookup. rewrite Hc.
  destruct (is_prop m); [reflexivity|]. rewrite (no_shadow_inst s n m Hs Hc). reflexivity.
Qed.

Lemma no_shadow_lookup_rev : forall s n m,
  inst_lookup s n = Some m -> is_class_member m = true -> class_lookup s n = Some m.
Proof.
  unfold inst_lookup. intros s n m H Hc.
  destruct (class_lookup s n) as [c|] eqn:E.
  - destruct (is_prop c); [auto|]. destruct (inst_attr s n) as [a|] eqn:Ea; [|auto].
    inversion H; subst. apply inst_attr_some in Ea. destruct Ea as [_ [Ea _]]. congruence.
  - apply inst_attr_some in H. destruct H as [_ [H _]]. congruence.
Qed.

Definition runs_call (q : quirks) (s : shape) (n : text) : Prop :=
  exists m, serve q s (mkreq RCall false [NStr n]) = ([(m, ACall)], RepResult).
Definition runs_attr (q : quirks) (s : shape) (k : rkind) (a : acc) (n : text) : Prop :=
  exists m, serve q s (mkreq k false [NStr n]) = ([(m, a)], RepResult).

Lemma exposed_rule_of : forall s m, exposed s m = true -> exposed_by_rule s m.
Proof.
  unfold Expose.exposed, Expose.exposed_by_rule, own_ok, class_marked. intros s m H.
  apply andb_true_iff in H. destruct H as [_ H].
  apply orb_true_iff in H. destruct H as [H|H]; [apply orb_true_iff in H; destruct H as [H|H]|].
  - apply andb_true_iff in H; destruct H as [H1 H2]. left. split; [auto|apply negb_true_iff; auto].
  - apply andb_true_iff in H; destruct H as [H1 H2].
    right. left. apply andb_true_iff in H1. destruct H1 as [H1 _]. split; [auto|].
    destruct (m_kind m) as [| | |g st d| | | | |]; auto. destruct g, st, d; simpl in H2; auto; discriminate.
  - right. right. auto.
Qed.

(* a property accessor runs only under Pyro5's rule: the property's deciding (first) accessor function carries an
   explicit mark — put there for this property, or because that function is exposed in its own right — or its class is exposed *)
Lemma accessor_rule : forall q s r m a,
  repaired q -> In (m, a) (fst (serve q s r)) -> a = AGet \/ a = ASet -> exposed_by_rule s m.
Proof.
  intros q s r m a Hq Hin Ha.
  pose proof (gate_sound_gen q s r m a Hq Hin) as G.
  assert (K : r_kind r = RGet \/ r_kind r = RSet).
  { destruct G as [G|[[_ [G _]]|[_ [G _]]]]; [|destruct Ha; congruence|destruct Ha; congruence].
    unfold Expose.legit, acc_fits in G. destruct Ha; subst a; tauto. }
  rewrite fst_serve in Hin. unfold serve_core in Hin.
  assert (F : forall a0, In (m, a) (fst (attr_request is_private q s a0 r)) -> exposed_by_rule s m).
  { intros a0 H0. destruct (attr_request_safe q s a0 r Hq) as [Y|Y]; rewrite Y in H0; [destruct H0|].
    destruct (serve_attr_cases q s a0 (first_name r) Hq) as [Z|[t [m0 [g [st [d [_ [Z [_ [_ [_ [_ He]]]]]]]]]]]]; rewrite Z in H0; [destruct H0|].
    destruct H0 as [H0|[]]. inversion H0; subst. apply exposed_rule_of; auto. }
  destruct K as [K|K]; rewrite K in Hin; eapply F; eauto.
Qed.

Lemma meta_methods_exact : forall s n,
  no_shadow s = true -> (In n (meta_methods is_private s) <-> runs_call quirks_none s n).
Proof.
  intros s n Hs. unfold meta_methods, runs_call. rewrite filter_In. unfold advertised. split.
  - intros [Hin H]. apply andb_true_iff in H. destruct H as [Hp H]. apply negb_true_iff in Hp.
    destruct (class_lookup s n) as [m|] eqn:El; [|discriminate].
    apply andb_true_iff in H. destruct H as [Hm He].
    exists m. apply (exposed_served s RCall false n m ACall); [discriminate|].
    unfold Expose.may_serve. simpl. split; [apply no_shadow_lookup; auto|]. split; [auto|]. split; [auto|].
    apply exposed_rule_of; auto.
  - intros [m H]. apply serve_result_core in H. change (serve_call quirks_none s (NStr n) = ([(m, ACall)], true)) in H.
    destruct (serve_call_cases s (NStr n)) as [H0|[t [m0 [Hn [H0 [Hp [Hl [Hm He]]]]]]]]; rewrite H0 in H; [discriminate|].
    inversion Hn; subst t. inversion H; subst m0.
    assert (Hc : class_lookup s n = Some m) by (apply no_shadow_lookup_rev; auto using is_method_not_inst).
    split; [eapply class_names_in; eauto|]. rewrite Hp, Hc, Hm, He. reflexivity.
Qed.

Lemma meta_attrs_exact : forall s n,
  props_have_accessor s = true ->
  (In n (meta_attrs is_private s) <-> runs_attr quirks_none s RGet AGet n \/ runs_attr quirks_none s RSet ASet n).
Proof.
  intros s n Hpa. unfold meta_attrs, runs_attr. rewrite filter_In. unfold advertised. split.
  - intros [Hin H]. apply andb_true_iff in H. destruct H as [Hp H]. apply negb_true_iff in Hp.
    destruct (class_lookup s n) as [m|] eqn:El; [|discriminate].
    apply andb_true_iff in H. destruct H as [Hm He].
    pose proof (class_lookup_some _ _ _ El) as [Hi _].
    unfold props_have_accessor in Hpa. rewrite forallb_forall in Hpa. specialize (Hpa m Hi).
    unfold is_prop in Hm. destruct (m_kind m) as [| | |g st d| | | | |] eqn:Ek; try discriminate.
    pose proof (exposed_rule_of _ _ He) as Hx.
    destruct g as [bg|].
    + left. exists m. apply (exposed_served s RGet false n m AGet); [discriminate|].
      unfold Expose.may_serve. simpl. split; [auto|]. split; [auto|]. split; [|auto]. split; [auto|]. exists bg, st, d. auto.
    + destruct st as [bs|]; [|discriminate].
      right. exists m. apply (exposed_served s RSet false n m ASet); [discriminate|].
      unfold Expose.may_serve. simpl. split; [auto|]. split; [auto|]. split; [|auto]. split; [auto|]. exists None, bs, d. auto.
  - assert (K : forall a k, (a = AGet /\ k = RGet) \/ (a = ASet /\ k = RSet) ->
       (exists m, serve quirks_none s (mkreq k false [NStr n]) = ([(m, a)], RepResult)) ->
       In n (class_names s) /\ negb (is_private n) && match class_lookup s n with Some m => is_prop m && exposed s m | None => false end = true).
    { intros a k Hk [m H]. apply serve_result_core in H.
      assert (H' : serve_attr quirks_none s a (NStr n) = ([(m, a)], true)).
      { destruct Hk as [[? ?]|[? ?]]; subst a k; exact H. }
      destruct (serve_attr_cases quirks_none s a (NStr n) repaired_none) as [H0|[t [m0 [g [st [d [Hn [H0 [Hp [Hl [Hkind [Hacc He]]]]]]]]]]]]; rewrite H0 in H'; [discriminate|].
      inversion Hn; subst t. inversion H'; subst m0.
      split; [eapply class_names_in; eauto|]. rewrite Hp, Hl, He. unfold is_prop. rewrite Hkind. reflexivity. }
    intros [H|H]; [apply (K AGet RGet)|apply (K ASet RSet)]; auto.
Qed.

Lemma meta_oneway_methods : forall s, incl (meta_oneway is_private s) (meta_methods is_private s).
Proof.
  intros s n. unfold meta_oneway, meta_methods. rewrite !filter_In. unfold advertised.
  intros [Hin H]. split; [auto|].
  apply andb_true_iff in H. destruct H as [Hp H]. rewrite Hp. simpl.
  destruct (class_lookup s n); [|discriminate].
  apply andb_true_iff in H. destruct H as [H He]. apply andb_true_iff in H. destruct H as [Hm _].
  rewrite Hm, He. reflexivity.
Qed.

(* the same for today's code on plain shapes *)
Lemma meta_methods_exact_asis : forall s n,
  plain_shape s = true -> no_shadow s = true -> (In n (meta_methods is_private s) <-> runs_call quirks_asis s n).
Proof.
  intros s n Hp Hs. unfold runs_call. rewrite (plain_agrees quirks_asis s _ repaired_asis indexed_asis Hp). apply meta_methods_exact; auto.
Qed.

(* ---------- the metadata cache over a history of get_metadata calls on several registered objects ---------- *)
Definition injective (key : nat -> nat) : Prop := forall a b, key a = key b -> a = b.
Definition cache_ok (key : nat -> nat) (classes : list shape) (st : mstate) : Prop :=
  forall cid md, cache_find (key cid) (ms_cache st) = Some md -> md = meta_of is_private (nth cid classes empty_shape).
(* an answer, when one is given, is the member list of the class asked about *)
Definition answer_ok (classes : list shape) (cid : nat) (a : option metadata) : Prop :=
  match a with Some md => md = meta_of is_private (nth cid classes empty_shape) | None => True end.

Lemma scan_store_ok : forall key classes st cid,
  injective key -> cache_ok key classes st ->
  answer_ok classes cid (fst (scan_store is_private key classes st cid)) /\
  cache_ok key classes (snd (scan_store is_private key classes st cid)).
Proof.
  intros key classes st cid Hinj Hc. unfold scan_store. simpl. split; [reflexivity|].
  intros cid' md'. simpl. destruct (Nat.eqb (key cid') (key cid)) eqn:Ek.
  - apply Nat.eqb_eq in Ek. apply Hinj in Ek. subst cid'. intros H. inversion H. reflexivity.
  - apply Hc.
Qed.

Lemma get_metadata_ok : forall key classes st cid,
  injective key -> cache_ok key classes st ->
  answer_ok classes cid (fst (get_metadata is_private key classes st cid)) /\
  cache_ok key classes (snd (get_metadata is_private key classes st cid)).
Proof.
  intros key classes st cid Hinj Hc. unfold get_metadata.
  destruct (cache_find (key cid) (ms_cache st)) as [md|] eqn:E.
  - simpl. split; [apply Hc; auto|auto].
  - destruct (raiser_of (nth cid classes empty_shape)) as [[| |]|].
    + destruct (existsb (Nat.eqb cid) (ms_fired st)); [apply scan_store_ok; auto|].
      simpl. split; [exact I|]. exact Hc.
    + simpl. split; [exact I|exact Hc].
    + apply scan_store_ok; auto.
    + apply scan_store_ok; auto.
Qed.

Lemma run_metadata_ok : forall key classes hist st,
  injective key -> cache_ok key classes st ->
  Forall2 (answer_ok classes) hist (run_metadata is_private key classes st hist).
Proof.
  intros key classes hist. induction hist as [|cid rest IH]; intros st Hinj Hc; simpl; [constructor|].
  pose proof (get_metadata_ok key classes st cid Hinj Hc) as [Ha Hc'].
  destruct (get_metadata is_private key classes st cid) as [a st']. simpl in *.
  constructor; [auto|]. apply IH; auto.
Qed.

(* without raising attributes every call is answered *)
Definition no_raisers (classes : list shape) : Prop := forall cid, raiser_of (nth cid classes empty_shape) = None.

Lemma run_metadata_exact : forall key classes hist st,
  injective key -> cache_ok key classes st -> no_raisers classes ->
  run_metadata is_private key classes st hist =
  map (fun cid => Some (meta_of is_private (nth cid classes empty_shape))) hist.
Proof.
  intros key classes hist. induction hist as [|cid rest IH]; intros st Hinj Hc Hn; simpl; [reflexivity|].
  pose proof (get_metadata_ok key classes st cid Hinj Hc) as [Ha Hc'].
  unfold get_metadata in *. rewrite (Hn cid) in *.
  destruct (cache_find (key cid) (ms_cache st)) as [md|] eqn:E; simpl in *.
  - rewrite Ha. f_equal. apply IH; auto.
  - f_equal. apply IH; auto.
Qed.

Lemma empty_cache_ok : forall key classes, cache_ok key classes ms_empty.
Proof. intros key classes cid md H. discriminate. Qed.

(* every answer given in any history over any registered objects is the member list of the asked object's class —
   also when scans are aborted by raising attributes or re-entered from inside a scan *)
Lemma metadata_history_exact : forall key classes objs hist,
  injective key ->
  Forall2 (fun o a => match a with Some md => md = meta_of is_private (shape_of classes objs o) | None => True end)
          hist (run_metadata is_private key classes ms_empty (map (class_of objs) hist)).
Proof.
  intros key classes objs hist Hinj.
  pose proof (run_metadata_ok key classes (map (class_of objs) hist) ms_empty Hinj (empty_cache_ok key classes)) as H.
  remember (run_metadata is_private key classes ms_empty (map (class_of objs) hist)) as out. clear Heqout.
  revert out H. induction hist as [|o rest IH]; intros out H; inversion H; subst; constructor; auto.
Qed.

Lemma metadata_history_answered : forall key classes objs hist,
  injective key -> no_raisers classes ->
  run_metadata is_private key classes ms_empty (map (class_of objs) hist) =
  map (fun o => Some (meta_of is_private (shape_of classes objs o))) hist.
Proof.
  intros key classes objs hist Hinj Hn. rewrite run_metadata_exact; auto using empty_cache_ok.
  rewrite map_map. reflexivity.
Qed.

Lemma id_injective : injective (fun k => k).
Proof. intros a b H. exact H. Qed.

(* a private name is never served and never advertised, whatever the shape *)
Lemma private_never_served : forall s r m a,
  In (m, a) (fst (serve quirks_none s r)) -> is_private (m_name m) = false.
Proof. intros s r m a H. apply gate_sound in H. unfold Expose.legit in H. tauto. Qed.

(* ... and in today's code no private name is ever the name on whose behalf anything runs *)
Lemma private_never_served_asis : forall s r m a,
  In (m, a) (fst (serve quirks_asis s r)) -> a <> AHook -> is_private (m_name m) = false.
Proof.
  intros s r m a H Ha. apply gate_sound_asis in H. destruct H as [H|[[_ H]|[H _]]].
  - unfold Expose.legit in H. tauto.
  - unfold Expose.helper_boundary in H. tauto.
  - congruence.
Qed.

Lemma private_never_advertised : forall s n,
  is_private n = true ->
  ~ In n (meta_methods is_private s) /\ ~ In n (meta_attrs is_private s) /\ ~ In n (meta_oneway is_private s).
Proof.
  intros s n Hp. unfold meta_methods, meta_attrs, meta_oneway.
  repeat split; rewrite filter_In; unfold advertised; rewrite Hp; simpl; intros [_ H]; discriminate.
Qed.

End Gate.
