(* C02 — lemmas about the exposure gate model (Model/Expose.v). *)
From Coq Require Import List NArith Arith Bool Lia.
Import ListNotations.
From V Require Import Model.StrFun Model.Expose.

(* ---------- text equality ---------- *)
Lemma text_eqb_eq : forall a b, text_eqb a b = true -> a = b.
Proof.
  induction a as [|x a IH]; destruct b as [|y b]; simpl; intros H; try discriminate; auto.
  apply andb_true_iff in H. destruct H as [H1 H2].
  apply N.eqb_eq in H1. subst. f_equal. auto.
Qed.

Lemma text_eqb_refl : forall a, text_eqb a a = true.
Proof. induction a; simpl; auto. rewrite N.eqb_refl. auto. Qed.

(* ---------- lookups ---------- *)
Lemma class_lookup_some : forall s n m,
  class_lookup s n = Some m -> In m (s_members s) /\ is_class_member m = true /\ m_name m = n.
Proof.
  unfold class_lookup. intros s n m H.
  destruct (find (in_class Sub n) (s_members s)) eqn:E1.
  - inversion H; subst. apply find_some in E1. destruct E1 as [Hin Hp].
    unfold in_class in Hp. repeat (apply andb_true_iff in Hp; destruct Hp as [Hp ?]).
    split; [auto|]. split; [auto|]. apply text_eqb_eq; auto.
  - apply find_some in H. destruct H as [Hin Hp].
    unfold in_class in Hp. repeat (apply andb_true_iff in Hp; destruct Hp as [Hp ?]).
    split; [auto|]. split; [auto|]. apply text_eqb_eq; auto.
Qed.

Lemma inst_attr_some : forall s n m,
  inst_attr s n = Some m -> In m (s_members s) /\ is_class_member m = false /\ m_name m = n.
Proof.
  unfold inst_attr. intros s n m H. apply find_some in H. destruct H as [Hin Hp].
  apply andb_true_iff in Hp. destruct Hp as [H1 H2].
  split; [auto|]. split. { apply negb_true_iff in H1. auto. } apply text_eqb_eq; auto.
Qed.

Lemma inst_lookup_some : forall s n m,
  inst_lookup s n = Some m -> In m (s_members s) /\ m_name m = n.
Proof.
  unfold inst_lookup. intros s n m H.
  destruct (class_lookup s n) as [c|] eqn:E.
  - destruct (is_prop c).
    + inversion H; subst. apply class_lookup_some in E. tauto.
    + destruct (inst_attr s n) as [a|] eqn:Ea.
      * inversion H; subst. apply inst_attr_some in Ea. tauto.
      * inversion H; subst. apply class_lookup_some in E. tauto.
  - apply inst_attr_some in H. tauto.
Qed.

Lemma is_method_not_inst : forall m, is_method m = true -> is_class_member m = true.
Proof. intros m. unfold is_method, is_class_member. destruct (m_kind m); auto; discriminate. Qed.

Section Gate.
Variable is_private : text -> bool.
Notation get_attribute := (get_attribute is_private).
Notation serve_call := (serve_call is_private).
Notation serve_batch := (serve_batch is_private).
Notation serve_attr := (serve_attr is_private).
Notation serve := (serve is_private).
Notation exposed := (exposed is_private).
Notation explicitly_exposed := (explicitly_exposed is_private).
Notation may_serve := (may_serve is_private).

Lemma exposed_explicit : forall s m, exposed s m = true -> explicitly_exposed s m /\ markable m = true.
Proof.
  unfold Expose.exposed, Expose.explicitly_exposed, own_mark_ok. intros s m H.
  apply andb_true_iff in H. destruct H as [Hm H]. split; [|auto].
  apply orb_true_iff in H. destruct H as [H|H]; apply andb_true_iff in H; destruct H as [H1 H2].
  - left. split; auto. apply negb_true_iff; auto.
  - right. auto.
Qed.

Lemma explicit_exposed : forall s m,
  explicitly_exposed s m -> markable m = true -> is_private (m_name m) = false -> exposed s m = true.
Proof.
  unfold Expose.exposed, Expose.explicitly_exposed, own_mark_ok. intros s m [[H1 H2]|H] Hm Hp; rewrite Hm; simpl.
  - rewrite H1, H2. reflexivity.
  - rewrite H, Hp. simpl. apply orb_true_r.
Qed.

(* ---------- _get_attribute, repaired variant ---------- *)
Lemma get_attribute_none : forall s n e r,
  get_attribute quirks_none s n = (e, r) ->
  e = [] /\ forall m, r = ResMethod m ->
     exists t, n = NStr t /\ is_private t = false /\ inst_lookup s t = Some m /\ is_method m = true /\ exposed s m = true.
Proof.
  intros s n e r H. unfold Expose.get_attribute in H.
  destruct n as [t|]; [|inversion H; split; [auto|intros; discriminate]].
  destruct (is_private t) eqn:Ep; [inversion H; split; [auto|intros; discriminate]|].
  destruct (inst_lookup s t) as [m0|] eqn:El; [|inversion H; split; [auto|intros; discriminate]].
  destruct (m_kind m0) eqn:Ek; simpl in H; inversion H; subst; (split; [reflexivity|]); intros m Hr; try discriminate.
  - destruct (exposed s m0) eqn:Ee; inversion Hr; subst. exists t. unfold is_method. rewrite Ek. auto.
  - destruct (exposed s m0) eqn:Ee; inversion Hr; subst. exists t. unfold is_method. rewrite Ek. auto.
  - destruct (exposed s m0) eqn:Ee; inversion Hr; subst. exists t. unfold is_method. rewrite Ek. auto.
  - destruct helper_class_exposed; discriminate.
Qed.

Lemma serve_call_cases : forall s n,
  (serve_call quirks_none s n = ([], false)) \/
  (exists t m, n = NStr t /\ serve_call quirks_none s n = ([(m, ACall)], true) /\
     is_private t = false /\ inst_lookup s t = Some m /\ is_method m = true /\ exposed s m = true).
Proof.
  intros s n. unfold Expose.serve_call.
  destruct (get_attribute quirks_none s n) as [e r] eqn:E.
  apply get_attribute_none in E. destruct E as [He Hr]. subst e.
  destruct r as [|m|]; [left; reflexivity| |left; reflexivity].
  destruct (Hr m eq_refl) as [t [Hn [Hp [Hl [Hm He]]]]].
  right. exists t, m. simpl. auto 10.
Qed.

(* a legitimate effect of a call: the shared conclusion *)
Definition legit (s : shape) (k : rkind) (names : list reqname) (m : member) (a : acc) : Prop :=
  In m (s_members s) /\ In (NStr (m_name m)) names /\ is_private (m_name m) = false /\
  acc_fits k a m /\ explicitly_exposed s m.

Lemma serve_call_sound : forall s n k m a,
  k = RCall \/ k = RBatch ->
  In (m, a) (fst (serve_call quirks_none s n)) -> legit s k [n] m a.
Proof.
  intros s n k m a Hk Hin.
  destruct (serve_call_cases s n) as [H|[t [m0 [Hn [H [Hp [Hl [Hm He]]]]]]]]; rewrite H in Hin; simpl in Hin; [tauto|].
  destruct Hin as [Hin|[]]. inversion Hin; subst m0 a.
  apply inst_lookup_some in Hl. destruct Hl as [Hi Hname].
  unfold legit. subst n. rewrite Hname.
  split; [auto|]. split; [left; auto|]. split; [auto|]. split.
  - simpl. auto.
  - apply exposed_explicit in He. tauto.
Qed.

Lemma serve_batch_sound : forall s names m a,
  In (m, a) (fst (serve_batch quirks_none s names)) -> legit s RBatch names m a.
Proof.
  intros s names. induction names as [|n rest IH]; simpl; intros m a Hin; [tauto|].
  destruct (serve_call quirks_none s n) as [e ok] eqn:E.
  assert (Hc : forall m a, In (m, a) e -> legit s RBatch [n] m a).
  { intros m' a' H'. apply (serve_call_sound s n RBatch m' a'); [auto|]. rewrite E. auto. }
  assert (widen : forall l m a, legit s RBatch l m a -> (forall x, In x l -> In x (n :: rest)) -> legit s RBatch (n :: rest) m a).
  { unfold legit. intros l m' a' H Hs. intuition. }
  destruct ok; simpl in Hin.
  - apply in_app_or in Hin. destruct Hin as [Hin|Hin].
    + eapply widen; [apply Hc; eauto|]. intros x [Hx|[]]. left; auto.
    + eapply widen; [apply IH; eauto|]. intros x Hx. right; auto.
  - eapply widen; [apply Hc; eauto|]. intros x [Hx|[]]. left; auto.
Qed.

(* ---------- property get / set, repaired variant ---------- *)
Lemma serve_attr_cases : forall s a n,
  (serve_attr quirks_none s a n = ([], false)) \/
  (exists t m g st, n = NStr t /\ serve_attr quirks_none s a n = ([(m, a)], true) /\
     is_private t = false /\ class_lookup s t = Some m /\ m_kind m = KProp g st /\
     (match a with AGet => g | ASet => st | ACall => false end) = true /\ exposed s m = true).
Proof.
  intros s a n. unfold Expose.serve_attr.
  destruct n as [t|]; [|left; reflexivity].
  simpl. destruct (is_private t) eqn:Ep; [left; reflexivity|].
  destruct (class_lookup s t) as [m|] eqn:El; [|left; reflexivity].
  destruct (m_kind m) eqn:Ek; try (left; reflexivity).
  destruct (match a with AGet => has_get | ASet => has_set | ACall => false end) eqn:Ea; [|left; reflexivity].
  destruct (exposed s m) eqn:Ee; [|left; reflexivity].
  right. exists t, m, has_get, has_set. simpl. auto 10.
Qed.

Lemma serve_attr_sound : forall s a n k m a',
  (a = AGet /\ k = RGet) \/ (a = ASet /\ k = RSet) ->
  In (m, a') (fst (serve_attr quirks_none s a n)) -> legit s k [n] m a'.
Proof.
  intros s a n k m a' Hk Hin.
  destruct (serve_attr_cases s a n) as [H|[t [m0 [g [st [Hn [H [Hp [Hl [Hkind [Hacc He]]]]]]]]]]]; rewrite H in Hin; simpl in Hin; [tauto|].
  destruct Hin as [Hin|[]]. inversion Hin; subst m0 a'.
  apply class_lookup_some in Hl. destruct Hl as [Hi [_ Hname]].
  unfold legit. subst n. rewrite Hname.
  split; [auto|]. split; [left; auto|]. split; [auto|]. split.
  - destruct Hk as [[Ha Hk]|[Ha Hk]]; subst a k; simpl; (split; [reflexivity|]); subst.
    + exists st. auto.
    + exists g. auto.
  - apply exposed_explicit in He. tauto.
Qed.

Lemma first_name_in : forall r t, first_name r = NStr t -> In (NStr t) (r_names r).
Proof. unfold first_name. intros r t. destruct (r_names r); [discriminate|]. intros H; subst. left; auto. Qed.

Lemma legit_first : forall s k r m a, legit s k [first_name r] m a -> legit s k (r_names r) m a.
Proof.
  unfold legit. intros s k r m a [H1 [H2 H3]]. split; [auto|]. split; [|auto].
  destruct H2 as [H2|[]]. apply first_name_in. auto.
Qed.

Lemma fst_serve : forall q s r, fst (serve q s r) = fst (serve_core is_private q s r).
Proof. intros. unfold Expose.serve. destruct (serve_core is_private q s r). reflexivity. Qed.

(* gate soundness: whatever ran was named by the request, is a method or property accessor of the fitting
   kind, is explicitly exposed and is not private *)
Lemma gate_sound : forall s r m a,
  In (m, a) (fst (serve quirks_none s r)) -> legit s (r_kind r) (r_names r) m a.
Proof.
  intros s r m a. rewrite fst_serve. unfold serve_core.
  destruct (r_kind r) eqn:Ek; intros Hin.
  - apply legit_first. eapply serve_call_sound; eauto.
  - apply serve_batch_sound; auto.
  - apply legit_first. eapply serve_attr_sound; eauto.
  - apply legit_first. eapply serve_attr_sound; eauto.
Qed.

(* every single-name request is either refused without any effect, or runs exactly one member and succeeds *)
Lemma single_dichotomy : forall s k ow n,
  k <> RBatch ->
  let r := {| r_kind := k; r_oneway := ow; r_names := [n] |} in
  serve quirks_none s r = ([], reply_refused ow) \/
  exists m a, serve quirks_none s r = ([(m, a)], reply_ok ow).
Proof.
  intros s k ow n Hk r. unfold Expose.serve, serve_core, first_name, reply_refused, reply_ok. simpl.
  destruct k; try congruence.
  - destruct (serve_call_cases s n) as [H|[t [m [_ [H _]]]]]; rewrite H; [left|right; exists m, ACall]; destruct ow; reflexivity.
  - destruct (serve_attr_cases s AGet n) as [H|[t [m [g [st [_ [H _]]]]]]]; rewrite H; [left|right; exists m, AGet]; destruct ow; reflexivity.
  - destruct (serve_attr_cases s ASet n) as [H|[t [m [g [st [_ [H _]]]]]]]; rewrite H; [left|right; exists m, ASet]; destruct ow; reflexivity.
Qed.

(* completeness: a request the property allows is served, exactly once, with a normal result *)
Lemma exposed_served : forall s k ow t m a,
  k <> RBatch -> may_serve s k t m a ->
  serve quirks_none s {| r_kind := k; r_oneway := ow; r_names := [NStr t] |} = ([(m, a)], reply_ok ow).
Proof.
  intros s k ow t m a Hk [Hd [Hp [Hf He]]].
  unfold Expose.serve, serve_core, first_name, reply_ok. simpl.
  destruct k; try congruence; simpl in Hd.
  - (* call *)
    destruct a; simpl in Hf; try (destruct Hf as [Hf _]; discriminate).
    destruct Hf as [_ Hm].
    pose proof (inst_lookup_some _ _ _ Hd) as [_ Hname].
    assert (Hx : exposed s m = true).
    { apply explicit_exposed; auto. unfold markable. rewrite Hm. reflexivity. rewrite Hname. auto. }
    unfold Expose.serve_call, Expose.get_attribute. rewrite Hp, Hd.
    unfold is_method in Hm. destruct (m_kind m); try discriminate; rewrite Hx; destruct ow; reflexivity.
  - (* get *)
    destruct a; simpl in Hf; try (destruct Hf as [Hf _]; first [discriminate | destruct Hf; discriminate]).
    destruct Hf as [_ [st Hkind]].
    pose proof (class_lookup_some _ _ _ Hd) as [_ [_ Hname]].
    assert (Hx : exposed s m = true).
    { apply explicit_exposed; auto. unfold markable, is_prop. rewrite Hkind. apply orb_true_r. rewrite Hname. auto. }
    unfold Expose.serve_attr. simpl. rewrite Hp, Hd, Hkind, Hx. destruct ow; reflexivity.
  - (* set *)
    destruct a; simpl in Hf; try (destruct Hf as [Hf _]; first [discriminate | destruct Hf; discriminate]).
    destruct Hf as [_ [g Hkind]].
    pose proof (class_lookup_some _ _ _ Hd) as [_ [_ Hname]].
    assert (Hx : exposed s m = true).
    { apply explicit_exposed; auto. unfold markable, is_prop. rewrite Hkind. apply orb_true_r. rewrite Hname. auto. }
    unfold Expose.serve_attr. simpl. rewrite Hp, Hd, Hkind, Hx. destruct ow; reflexivity.
Qed.

(* the batch loop is the sequence of single calls, cut after the longest prefix of names that are served *)
Lemma batch_as_calls : forall s names,
  fst (serve_batch quirks_none s names) =
    flat_map (fun n => fst (serve_call quirks_none s n)) (ok_prefix is_private s names) /\
  snd (serve_batch quirks_none s names) = forallb (call_ok is_private s) names.
Proof.
  intros s names. induction names as [|n rest [IH1 IH2]]; simpl; [auto|].
  assert (Hc : call_ok is_private s n = snd (serve_call quirks_none s n)) by reflexivity.
  rewrite Hc.
  destruct (serve_call_cases s n) as [H|[t [m [_ [H _]]]]]; rewrite H; simpl; [auto|].
  rewrite ?H. simpl. rewrite IH1, IH2. auto.
Qed.

Lemma serve_result_core : forall q s k n e,
  serve q s {| r_kind := k; r_oneway := false; r_names := [n] |} = (e, RepResult) ->
  serve_core is_private q s {| r_kind := k; r_oneway := false; r_names := [n] |} = (e, true).
Proof.
  intros q s k n e. unfold Expose.serve.
  destruct (serve_core is_private q s {| r_kind := k; r_oneway := false; r_names := [n] |}) as [e' ok].
  simpl. destruct ok; intros H; inversion H; reflexivity.
Qed.

(* ---------- metadata ---------- *)
Lemma class_names_in : forall s n m, class_lookup s n = Some m -> In n (class_names s).
Proof.
  intros s n m H. apply class_lookup_some in H. destruct H as [Hi [Hc Hn]].
  unfold class_names. subst n. apply in_map. apply filter_In. auto.
Qed.

Lemma no_shadow_inst : forall s n m,
  no_shadow s = true -> class_lookup s n = Some m -> inst_attr s n = None.
Proof.
  intros s n m Hs Hc. destruct (inst_attr s n) as [a|] eqn:Ea; [|reflexivity].
  apply inst_attr_some in Ea. destruct Ea as [Hi [Hnc Hn]].
  unfold no_shadow in Hs. rewrite forallb_forall in Hs. specialize (Hs a Hi).
  rewrite Hnc, Hn, Hc in Hs. discriminate.
Qed.

Lemma no_shadow_lookup : forall s n m,
  no_shadow s = true -> class_lookup s n = Some m -> inst_lookup s n = Some m.
Proof.
  intros s n m Hs Hc. unfold inst_lookup. rewrite Hc.
  destruct (is_prop m); [reflexivity|]. rewrite (no_shadow_inst s n m Hs Hc). reflexivity.
Qed.

Lemma no_shadow_lookup_rev : forall s n m,
  inst_lookup s n = Some m -> is_class_member m = true -> class_lookup s n = Some m.
Proof.
  unfold inst_lookup. intros s n m H Hc.
  destruct (class_lookup s n) as [c|] eqn:E.
  - destruct (is_prop c); [auto|]. destruct (inst_attr s n) as [a|] eqn:Ea; [|auto].
    inversion H; subst. apply inst_attr_some in Ea. destruct Ea as [_ [Ea _]]. congruence.
  - apply inst_attr_some in H. destruct H as [_ [H _]]. congruence.
Qed.

Definition runs_call (s : shape) (n : text) : Prop :=
  exists m, serve quirks_none s {| r_kind := RCall; r_oneway := false; r_names := [NStr n] |} = ([(m, ACall)], RepResult).
Definition runs_attr (s : shape) (k : rkind) (a : acc) (n : text) : Prop :=
  exists m, serve quirks_none s {| r_kind := k; r_oneway := false; r_names := [NStr n] |} = ([(m, a)], RepResult).

Lemma meta_methods_exact : forall s n,
  no_shadow s = true -> (In n (meta_methods is_private s) <-> runs_call s n).
Proof.
  intros s n Hs. unfold meta_methods, runs_call. rewrite filter_In. unfold advertised. split.
  - intros [Hin H]. apply andb_true_iff in H. destruct H as [Hp H]. apply negb_true_iff in Hp.
    destruct (class_lookup s n) as [m|] eqn:El; [|discriminate].
    apply andb_true_iff in H. destruct H as [Hm He].
    exists m. apply (exposed_served s RCall false n m ACall); [discriminate|].
    unfold Expose.may_serve. simpl. split; [apply no_shadow_lookup; auto|]. split; [auto|]. split; [auto|].
    apply exposed_explicit in He. tauto.
  - intros [m H]. apply serve_result_core in H. change (serve_call quirks_none s (NStr n) = ([(m, ACall)], true)) in H.
    destruct (serve_call_cases s (NStr n)) as [H0|[t [m0 [Hn [H0 [Hp [Hl [Hm He]]]]]]]]; rewrite H0 in H; [discriminate|].
    inversion Hn; subst t. inversion H; subst m0.
    assert (Hc : class_lookup s n = Some m) by (apply no_shadow_lookup_rev; auto using is_method_not_inst).
    split; [eapply class_names_in; eauto|]. rewrite Hp, Hc, Hm, He. reflexivity.
Qed.

Lemma meta_attrs_exact : forall s n,
  props_have_accessor s = true ->
  (In n (meta_attrs is_private s) <-> runs_attr s RGet AGet n \/ runs_attr s RSet ASet n).
Proof.
  intros s n Hpa. unfold meta_attrs, runs_attr. rewrite filter_In. unfold advertised. split.
  - intros [Hin H]. apply andb_true_iff in H. destruct H as [Hp H]. apply negb_true_iff in Hp.
    destruct (class_lookup s n) as [m|] eqn:El; [|discriminate].
    apply andb_true_iff in H. destruct H as [Hm He].
    pose proof (class_lookup_some _ _ _ El) as [Hi _].
    unfold props_have_accessor in Hpa. rewrite forallb_forall in Hpa. specialize (Hpa m Hi).
    unfold is_prop in Hm. destruct (m_kind m) as [| | |g st| | |] eqn:Ek; try discriminate.
    pose proof (exposed_explicit _ _ He) as [Hx _].
    destruct g.
    + left. exists m. apply (exposed_served s RGet false n m AGet); [discriminate|].
      unfold Expose.may_serve. simpl. split; [auto|]. split; [auto|]. split; [|auto]. split; [auto|]. exists st. auto.
    + destruct st; [|discriminate].
      right. exists m. apply (exposed_served s RSet false n m ASet); [discriminate|].
      unfold Expose.may_serve. simpl. split; [auto|]. split; [auto|]. split; [|auto]. split; [auto|]. exists false. auto.
  - assert (K : forall a k, (a = AGet /\ k = RGet) \/ (a = ASet /\ k = RSet) ->
       (exists m, serve quirks_none s {| r_kind := k; r_oneway := false; r_names := [NStr n] |} = ([(m, a)], RepResult)) ->
       In n (class_names s) /\ negb (is_private n) && match class_lookup s n with Some m => is_prop m && exposed s m | None => false end = true).
    { intros a k Hk [m H]. apply serve_result_core in H.
      assert (H' : serve_attr quirks_none s a (NStr n) = ([(m, a)], true)).
      { destruct Hk as [[? ?]|[? ?]]; subst a k; exact H. }
      destruct (serve_attr_cases s a (NStr n)) as [H0|[t [m0 [g [st [Hn [H0 [Hp [Hl [Hkind [Hacc He]]]]]]]]]]]; rewrite H0 in H'; [discriminate|].
      inversion Hn; subst t. inversion H'; subst m0.
      split; [eapply class_names_in; eauto|]. rewrite Hp, Hl, He. unfold is_prop. rewrite Hkind. reflexivity. }
    intros [H|H]; [apply (K AGet RGet)|apply (K ASet RSet)]; auto.
Qed.

Lemma meta_oneway_methods : forall s, incl (meta_oneway is_private s) (meta_methods is_private s).
Proof.
  intros s n. unfold meta_oneway, meta_methods. rewrite !filter_In. unfold advertised.
  intros [Hin H]. split; [auto|].
  apply andb_true_iff in H. destruct H as [Hp H]. rewrite Hp. simpl.
  destruct (class_lookup s n); [|discriminate].
  apply andb_true_iff in H. destruct H as [H He]. apply andb_true_iff in H. destruct H as [Hm _].
  rewrite Hm, He. reflexivity.
Qed.

(* a private name is never served and never advertised, whatever the shape *)
Lemma private_never_served : forall s r m a,
  In (m, a) (fst (serve quirks_none s r)) -> is_private (m_name m) = false.
Proof. intros s r m a H. apply gate_sound in H. unfold legit in H. tauto. Qed.

Lemma private_never_advertised : forall s n,
  is_private n = true ->
  ~ In n (meta_methods is_private s) /\ ~ In n (meta_attrs is_private s) /\ ~ In n (meta_oneway is_private s).
Proof.
  intros s n Hp. unfold meta_methods, meta_attrs, meta_oneway.
  repeat split; rewrite filter_In; unfold advertised; rewrite Hp; simpl; intros [_ H]; discriminate.
Qed.

End Gate.
