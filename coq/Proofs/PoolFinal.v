(* C18 — the property-level theorems about the locked pool: per-connection accounting,
   no lost wake-up, bounded progress of a job holder, safety and progress of close. *)
From Coq Require Import List Arith Bool Lia.
Import ListNotations.
From V Require Import Model.Pool Proofs.Pool Proofs.PoolTac Proofs.PoolLock Proofs.PoolWake Proofs.PoolJobs.

Definition Reach (c : cfg) (s : st) : Prop := Inv c s /\ InvA c s /\ InvB c s /\ InvC c s.

(* the four ways a submitted connection can be accounted for *)
Definition held (s : st) (j : nat) : Prop :=
  exists i, i < nw s /\ w_slot (ws s i) = Some j /\ wpre (w_pc (ws s i)) = true.
Definition running (s : st) (j : nat) : Prop := exists i, i < nw s /\ w_cur (ws s i) = Some j.
Definition jrefused (s : st) (j : nat) : Prop := In j (refused s).
Definition jended (s : st) (j : nat) : Prop := In j (ended s).
(* close has not begun to overwrite job slots *)
Definition quiet (s : st) : Prop := closed s = false /\ mnotify (m_pc (mn s)) = false.

Definition exit_dist (p : wpc) : nat :=
  match p with
  | WExit => 0 | WRead1 => 1 | WClear => 2 | WWait => 3 | WRel => 4 | WRetEv => 5 | WRetSlot => 6 | WClosedRd => 7
  | WRemove => 8 | WContains => 9 | WAcq => 10 | WSlotClr => 11 | WJobEnd => 12 | WRead2 => 13 | WLenIdle => 7 | WIdleAdd => 7
  end.
Definition quiescent (s : st) : Prop :=
  m_pc (mn s) = MDone /\ forall i, i < nw s -> w_pc (ws s i) = WExit \/ (w_pc (ws s i) = WWait /\ w_ev (ws s i) = false).

Section Locked.
Variable c : cfg.
Hypothesis Hl : all_locked (lk c) = true.
Hypothesis Hwf : wf_cfg c.

Lemma reach_init : Reach c (init c).
Proof. split; [|split; [|split]]; [apply init_inv|apply initA|apply initB|apply initC]; assumption. Qed.

Lemma reach_main ch s s' : Reach c s -> main_step c ch s = Some s' -> Reach c s'.
Proof.
  intros (HI & HA & HB & HC) H. split; [|split; [|split]].
  - eapply main_step_inv; eauto.
  - eapply main_stepA; eauto.
  - eapply main_stepB; eauto.
  - eapply main_stepC; eauto.
Qed.
Lemma reach_worker k s s' : Reach c s -> k < nw s -> worker_step c k s = Some s' -> Reach c s'.
Proof.
  intros (HI & HA & HB & HC) Hk H. split; [|split; [|split]].
  - eapply worker_step_inv; eauto.
  - eapply worker_stepA; eauto.
  - eapply worker_stepB; eauto.
  - eapply worker_stepC; eauto.
Qed.
Lemma reach_step tc s : Reach c s -> Reach c (step c tc s).
Proof.
  intros HR. unfold step, step_opt. destruct tc as [t ch]. cbn [fst snd]. destruct t as [|i].
  - destruct (main_step c ch s) eqn:E; [eapply reach_main; eauto|exact HR].
  - destruct (Nat.ltb_spec i (nw s)); [|exact HR].
    destruct (worker_step c i s) eqn:E; [eapply reach_worker; eauto|exact HR].
Qed.
Lemma reach_run sched : forall s, Reach c s -> Reach c (run c sched s).
Proof.
  induction sched as [|tc sched IH]; intros s HR; [exact HR|]. cbn [run fold_left]. apply IH. apply reach_step. exact HR.
Qed.
Lemma run_app (a b : list (nat * nat)) s : run c (a ++ b) s = run c b (run c a s).
Proof. unfold run. apply fold_left_app. Qed.

(* ------------------------------------------------------------ (a) accounting *)
Lemma wpre_not_late p : wpre p = true -> p = WJobEnd \/ p = WSlotClr -> False.
Proof. destruct p; cbn; intros H [E|E]; congruence. Qed.

Theorem accounting s : Reach c s ->
  poolclosed s = [] /\ NoDup (started s) /\ NoDup (ended s) /\ NoDup (refused s)
  /\ (forall j, jended s j -> In j (started s))
  /\ (forall j, In j (started s) -> j < sub s /\ ~ jrefused s j /\ (jended s j \/ running s j))
  /\ (forall j, jrefused s j -> j < sub s)
  /\ (forall j, held s j -> j < sub s)
  (* pairwise exclusion *)
  /\ (forall j, jrefused s j -> ~ held s j /\ ~ running s j /\ ~ jended s j)
  /\ (forall j, held s j -> ~ In j (started s) /\ ~ running s j /\ ~ jended s j)
  /\ (forall j, running s j -> In j (started s) /\ ~ jended s j)
  (* at most one worker *)
  /\ (forall i k j, i < nw s -> k < nw s -> w_slot (ws s i) = Some j -> w_slot (ws s k) = Some j -> i = k)
  /\ (forall i k j, i < nw s -> k < nw s -> w_cur (ws s i) = Some j -> w_cur (ws s k) = Some j -> i = k)
  (* never dropped while close has not begun *)
  /\ (quiet s -> forall j, j < sub s -> jrefused s j \/ held s j \/ running s j \/ jended s j).
Proof.
  intros (HI & HA & HB & HC).
  assert (Hrun_started : forall j, running s j -> In j (started s) /\ ~ jended s j).
  { intros j (i & Hi & Hc). destruct (c_cur _ _ HC i j Hi Hc) as (_ & A & B). split; assumption. }
  assert (Hheld : forall j, held s j -> ~ In j (started s) /\ ~ jrefused s j /\ j < sub s).
  { intros j (i & Hi & Hs & Hp). destruct (c_slot _ _ HC i j Hi Hs) as (A & B & [[_ C']|[C1 _]]).
    - repeat split; assumption.
    - exfalso. eapply wpre_not_late; eauto. }
  split; [apply (a_pc _ _ HA)|]. split; [apply (c_ns _ _ HC)|]. split; [apply (c_ne _ _ HC)|]. split; [apply (c_nr _ _ HC)|].
  split; [apply (c_es _ _ HC)|].
  split. { intros j Hj. split; [apply (c_sb _ _ HC); exact Hj|]. split.
           - intros Hr. destruct (c_rf _ _ HC j Hr). tauto.
           - destruct (c_acc _ _ HC j Hj) as [X|X]; [left; exact X|right; exact X]. }
  split. { intros j Hr. destruct (c_rf _ _ HC j Hr) as [A _]. unfold sub. destruct (mhanded (m_pc (mn s))); lia. }
  split. { intros j Hh. apply Hheld. exact Hh. }
  split. { intros j Hr. destruct (c_rf _ _ HC j Hr) as [_ B]. repeat split.
           - intros Hh. destruct (Hheld j Hh) as (_ & X & _). tauto.
           - intros Hn. destruct (Hrun_started j Hn). tauto.
           - intros He. apply B. apply (c_es _ _ HC). exact He. }
  split. { intros j Hh. destruct (Hheld j Hh) as (A & _ & _). repeat split; [exact A| |].
           - intros Hn. destruct (Hrun_started j Hn). tauto.
           - intros He. apply A. apply (c_es _ _ HC). exact He. }
  split; [exact Hrun_started|].
  split; [apply (c_uniq _ _ HC)|]. split; [apply (c_curu _ _ HC)|].
  intros [Q1 Q2] j Hj. destruct (c_nodrop _ _ HC Q1 Q2 j Hj) as [X|[X|X]].
  - left; exact X.
  - destruct (c_acc _ _ HC j X) as [Y|Y]; [right; right; right; exact Y|right; right; left; exact Y].
  - right; left; exact X.
Qed.

(* ------------------------------------------------------------ (b) no lost wake-up *)
Theorem no_lost_wakeup s : Reach c s ->
  forall i, i < nw s -> w_pc (ws s i) = WWait ->
  (forall j, w_slot (ws s i) = Some j -> w_ev (ws s i) = true \/ (i = m_w (mn s) /\ m_pc (mn s) = MEvSet))
  /\ (closed s = true -> w_ev (ws s i) = true)
  /\ (w_ev (ws s i) = false -> (i = m_w (mn s) /\ mtarget (m_pc (mn s)) = true) \/ (In i (idle s) /\ closed s = false)).
Proof.
  intros (HI & HA & HB & HC) i Hi Hp.
  assert (W : w_ev (ws s i) = false -> (i = m_w (mn s) /\ mtarget (m_pc (mn s)) = true) \/ (In i (idle s) /\ closed s = false)).
  { intros He. destruct (b_wait _ _ HB i Hi Hp He) as [X|(A & B & _)]; [left; exact X|right; split; assumption]. }
  split; [|split; [|exact W]].
  - intros j Hs. destruct (w_ev (ws s i)) eqn:He; [left; reflexivity|]. right.
    destruct (W eq_refl) as [[E T]|[Hin _]].
    + split; [exact E|]. pose proof (i_m _ _ HI) as Om. unfold MCS, PM in Om.
      destruct (m_pc (mn s)) eqn:Hm; try discriminate T; [| |reflexivity];
        destruct (Om eq_refl) as [_ OM]; destruct OM as [[P1 _] _]; subst i; congruence.
    + destruct (i_idle _ _ HI i Hin) as [X _]. congruence.
  - intros Hc. destruct (w_ev (ws s i)) eqn:He; [reflexivity|]. exfalso.
    destruct (W eq_refl) as [[_ T]|[_ X]]; [|congruence].
    pose proof (a_closed _ _ HA Hc) as M. destruct (m_pc (mn s)); discriminate.
Qed.

(* ------------------------------------------------------------ frames of one step *)
Lemma main_step_frame ch s s' : main_step c ch s = Some s' ->
  started s' = started s /\ ended s' = ended s /\ (closed s = true -> closed s' = true).
Proof.
  intros H. main_cases c Hl s H; projs; repeat split; auto; intros; discriminate.
Qed.
Lemma worker_step_frame k s s' : worker_step c k s = Some s' ->
  closed s' = closed s /\ mn s' = mn s /\ nw s' = nw s /\ (forall j, In j (started s) -> In j (started s')) /\
  (w_slot (ws s k) = None -> started s' = started s).
Proof.
  intros H. worker_cases c Hl s k H; projs; repeat split; auto; try (intros; apply In_snoc; tauto); intros; congruence.
Qed.
Lemma step_started_mono tc s j : In j (started s) -> In j (started (step c tc s)).
Proof.
  intros Hj. unfold step, step_opt. destruct tc as [t ch]. cbn [fst snd]. destruct t as [|i].
  - destruct (main_step c ch s) eqn:E; [|exact Hj]. destruct (main_step_frame _ _ _ E) as (A & _). rewrite A. exact Hj.
  - destruct (Nat.ltb i (nw s)); [|exact Hj]. destruct (worker_step c i s) eqn:E; [|exact Hj].
    destruct (worker_step_frame _ _ _ E) as (_ & _ & _ & A & _). apply A. exact Hj.
Qed.
Lemma run_started_mono sched : forall s j, In j (started s) -> In j (started (run c sched s)).
Proof.
  induction sched as [|tc sched IH]; intros s j Hj; [exact Hj|]. cbn [run fold_left]. apply IH. apply step_started_mono. exact Hj.
Qed.

(* ------------------------------------------------------------ (c) bounded progress of a holder *)
Definition wrank (p : wpc) : nat := match p with WWait => 3 | WClear => 2 | WRead1 => 1 | _ => 0 end.

Lemma served_step s i j : Reach c s -> i < nw s -> w_slot (ws s i) = Some j -> wpre (w_pc (ws s i)) = true ->
  ~ (i = m_w (mn s) /\ m_pc (mn s) = MEvSet) ->
  let s' := step c (S i, 0) s in
  In j (started s') \/
  (w_slot (ws s' i) = Some j /\ wpre (w_pc (ws s' i)) = true /\ wrank (w_pc (ws s' i)) < wrank (w_pc (ws s i)) /\ mn s' = mn s /\ nw s' = nw s).
Proof.
  intros HR Hi Hs Hp Hex. cbn zeta. unfold step, step_opt. cbn [fst snd].
  rewrite (proj2 (Nat.ltb_lt _ _) Hi). unfold worker_step.
  destruct (w_pc (ws s i)) eqn:Hpc; try discriminate Hp.
  - (* WWait *)
    destruct (no_lost_wakeup s HR i Hi Hpc) as (W1 & _ & _). destruct (W1 j Hs) as [He|X]; [|tauto]. rewrite He.
    right. unfold set_w, set_pc, updw. cbn. rewrite Nat.eqb_refl. cbn. repeat split; auto.
  - right. unfold set_w, set_pc, set_ev, updw. cbn. rewrite Nat.eqb_refl. cbn. repeat split; auto.
  - rewrite Hs. right. unfold set_w, set_pc, updw. cbn. rewrite Nat.eqb_refl. cbn. repeat split; auto.
  - rewrite Hs. left. cbn. apply In_snoc. right. reflexivity.
Qed.

Lemma served_n n : forall s i j, Reach c s -> i < nw s -> w_slot (ws s i) = Some j -> wpre (w_pc (ws s i)) = true ->
  ~ (i = m_w (mn s) /\ m_pc (mn s) = MEvSet) -> wrank (w_pc (ws s i)) < n ->
  In j (started (run c (repeat (S i, 0) n) s)).
Proof.
  induction n as [|n IH]; intros s i j HR Hi Hs Hp Hex Hr; [lia|].
  cbn [repeat run fold_left].
  destruct (served_step s i j HR Hi Hs Hp Hex) as [X|(A & B & C' & D & E)].
  - apply run_started_mono. exact X.
  - apply IH; auto.
    + apply reach_step. exact HR.
    + rewrite E. exact Hi.
    + rewrite D. exact Hex.
    + lia.
Qed.

Theorem served_until_end s i j : Reach c s -> i < nw s -> w_slot (ws s i) = Some j -> wpre (w_pc (ws s i)) = true ->
  ~ (i = m_w (mn s) /\ m_pc (mn s) = MEvSet) ->
  In j (started (run c (repeat (S i, 0) 4) s)).
Proof.
  intros. apply served_n; auto. destruct (w_pc (ws s i)); cbn; lia.
Qed.

(* ------------------------------------------------------------ (d) close *)
Lemma closed_step tc s : Reach c s -> closed s = true -> closed (step c tc s) = true /\ started (step c tc s) = started s.
Proof.
  intros HR Hc. unfold step, step_opt. destruct tc as [t ch]. cbn [fst snd]. destruct t as [|i].
  - destruct (main_step c ch s) eqn:E; [|tauto]. destruct (main_step_frame _ _ _ E) as (A & _ & B). split; [apply B; exact Hc|exact A].
  - destruct (Nat.ltb_spec i (nw s)); [|tauto]. destruct (worker_step c i s) eqn:E; [|tauto].
    destruct (worker_step_frame _ _ _ E) as (A & _ & _ & _ & B). split; [congruence|]. apply B.
    destruct HR as (_ & _ & _ & HC). apply (c_none _ _ HC); [left; exact Hc|assumption].
Qed.

Theorem close_no_new_job sched : forall s, Reach c s -> closed s = true ->
  closed (run c sched s) = true /\ started (run c sched s) = started s /\ (forall i, i < nw s -> w_slot (ws s i) = None).
Proof.
  induction sched as [|tc sched IH]; intros s HR Hc.
  - split; [exact Hc|]. split; [reflexivity|]. destruct HR as (_ & _ & _ & HC). intros i Hi. apply (c_none _ _ HC); [left; exact Hc|exact Hi].
  - cbn [run fold_left]. destruct (closed_step tc s HR Hc) as [A B].
    destruct (IH (step c tc s) (reach_step tc s HR) A) as (X & Y & _). split; [exact X|]. split; [transitivity (started (step c tc s)); [exact Y|exact B]|].
    destruct HR as (_ & _ & _ & HC). intros i Hi. apply (c_none _ _ HC); [left; exact Hc|exact Hi].
Qed.

(* once the flag is set every own step of a worker brings it strictly closer to its exit, and it is never
   disabled except at the lock acquisition while another thread holds the lock *)
Theorem close_worker_progress s i : Reach c s -> closed s = true -> i < nw s -> w_pc (ws s i) <> WExit ->
  match worker_step c i s with
  | Some s' => exit_dist (w_pc (ws s' i)) < exit_dist (w_pc (ws s i)) /\ exit_dist (w_pc (ws s i)) <= 13
  | None => w_pc (ws s i) = WAcq /\ exists t, lock s = Some t /\ t <> S i
  end.
Proof.
  intros HR Hc Hi Hne. pose proof HR as (HI & HA & HB & HC).
  assert (Hslot : w_slot (ws s i) = None) by (apply (c_none _ _ HC); [left; exact Hc|exact Hi]).
  pose proof (a_crash _ _ HA i Hi) as Hcr. pose proof (b_wcs _ _ HB i Hi) as Wb. unfold WB in Wb.
  unfold worker_step, notify_exit. rewrite (lkn c Hl), Hslot, Hcr, Hc.
  destruct (w_pc (ws s i)) eqn:Hpc; try congruence;
    try (unfold set_w, set_pc, set_ev, set_slot, set_lock, updw; cbn; rewrite ?Nat.eqb_refl; cbn; lia).
  - (* WWait *) destruct (no_lost_wakeup s HR i Hi Hpc) as (_ & W2 & _). rewrite (W2 Hc).
    unfold set_w, set_pc, updw; cbn; rewrite Nat.eqb_refl; cbn; lia.
  - (* WJobEnd *) destruct (w_cur (ws s i)); unfold set_w, set_pc, updw; cbn; rewrite Nat.eqb_refl; cbn; lia.
  - (* WAcq *) destruct (lock s) as [t|] eqn:Hlk.
    + split; [reflexivity|]. exists t. split; [reflexivity|]. intros ->.
      destruct (a_l3 _ _ HA _ Hlk) as [[X _]|(k & E & Hk & Hw)]; [discriminate X|]. injection E as <-. rewrite Hpc in Hw. discriminate Hw.
    + unfold set_w, set_pc, set_lock, updw; cbn; rewrite Nat.eqb_refl; cbn; lia.
  - (* WContains *) destruct (mem_nat i (busy s)); unfold set_w, updw; cbn; rewrite Nat.eqb_refl; cbn; lia.
  - (* WRemove *) rewrite (proj2 (mem_nat_In _ _) (a_rm _ _ HA i Hi Hpc)).
    unfold set_w, set_pc, set_busy, updw; cbn; rewrite Nat.eqb_refl; cbn; lia.
Qed.

(* ------------------------------------------------------------ no deadlock *)
Lemma main_cs_enabled ch s : mcs (m_pc (mn s)) = true -> main_step c ch s <> None.
Proof.
  intros H. unfold main_step. destruct (m_pc (mn s)); try discriminate H;
    repeat match goal with
           | |- context [if ?b then _ else _] => destruct b
           | |- context [match idle s with _ => _ end] => destruct (idle s)
           | |- context [match m_snap (mn s) with _ => _ end] => destruct (m_snap (mn s))
           end; discriminate.
Qed.
Lemma main_free_enabled ch s : lock s = None -> m_pc (mn s) <> MDone -> main_step c ch s <> None.
Proof.
  intros Hf Hd. destruct (mcs (m_pc (mn s))) eqn:E; [apply main_cs_enabled; exact E|].
  unfold main_step. rewrite Hf. destruct (m_pc (mn s)); try discriminate E; try congruence;
    repeat match goal with |- context [if ?b then _ else _] => destruct b end; discriminate.
Qed.
Lemma worker_cs_enabled i s : wcs (w_pc (ws s i)) = true -> worker_step c i s <> None.
Proof.
  intros H. unfold worker_step. destruct (w_pc (ws s i)); try discriminate H;
    repeat match goal with |- context [if ?b then _ else _] => destruct b end; discriminate.
Qed.
Lemma worker_free_enabled i s : lock s = None ->
  w_pc (ws s i) = WExit \/ (w_pc (ws s i) = WWait /\ w_ev (ws s i) = false) \/ worker_step c i s <> None.
Proof.
  intros Hf. unfold worker_step. rewrite Hf.
  destruct (w_pc (ws s i)) eqn:Hpc; try (left; reflexivity);
    try (destruct (w_ev (ws s i)) eqn:E; [right; right; discriminate|right; left; split; reflexivity]);
    right; right;
    repeat match goal with
           | |- context [if ?b then _ else _] => destruct b
           | |- context [match ?o with Some _ => _ | None => _ end] => destruct o
           end; discriminate.
Qed.

Lemma workers_scan s : lock s = None -> forall n, n <= nw s ->
  (forall i, i < n -> w_pc (ws s i) = WExit \/ (w_pc (ws s i) = WWait /\ w_ev (ws s i) = false)) \/
  (exists i, i < n /\ worker_step c i s <> None).
Proof.
  intros Hf. induction n as [|n IH]; intros Hn; [left; intros; lia|].
  destruct (IH ltac:(lia)) as [A|(i & Hi & E)]; [|right; exists i; split; [lia|exact E]].
  destruct (worker_free_enabled n s Hf) as [X|[X|X]].
  - left. intros i Hi. destruct (Nat.eq_dec i n) as [->|Hne]; [left; exact X|apply A; lia].
  - left. intros i Hi. destruct (Nat.eq_dec i n) as [->|Hne]; [right; exact X|apply A; lia].
  - right. exists n. split; [lia|exact X].
Qed.

(* some thread can always move, unless the accept loop is done and every worker has exited or waits for a job;
   in particular the holder of count_lock is never blocked, so nobody waits on the lock forever *)
Theorem no_deadlock s : Reach c s -> quiescent s \/ exists t, forall ch, step_opt c t ch s <> None.
Proof.
  intros (HI & HA & HB & HC). destruct (lock s) as [t|] eqn:Hlk.
  - right. destruct (a_l3 _ _ HA _ Hlk) as [[-> Hm]|(i & -> & Hi & Hw)].
    + exists 0. intros ch. unfold step_opt. cbv beta iota. apply main_cs_enabled. exact Hm.
    + exists (S i). intros ch. unfold step_opt. cbv beta iota. rewrite (proj2 (Nat.ltb_lt _ _) Hi). apply worker_cs_enabled. exact Hw.
  - assert (D : m_pc (mn s) = MDone \/ m_pc (mn s) <> MDone) by (destruct (m_pc (mn s)); (left; reflexivity) || (right; discriminate)).
    destruct D as [D|D].
    + destruct (workers_scan s Hlk (nw s) (le_n _)) as [A|(i & Hi & E)].
      * left. split; assumption.
      * right. exists (S i). intros ch. unfold step_opt. cbv beta iota. rewrite (proj2 (Nat.ltb_lt _ _) Hi). exact E.
    + right. exists 0. intros ch. unfold step_opt. cbv beta iota. apply main_free_enabled; assumption.
Qed.

Theorem close_quiescent_all_exited s : Reach c s -> closed s = true -> quiescent s ->
  forall i, i < nw s -> w_pc (ws s i) = WExit.
Proof.
  intros HR Hc [_ Q] i Hi. destruct (Q i Hi) as [X|[X Y]]; [exact X|].
  destruct (no_lost_wakeup s HR i Hi X) as (_ & W & _). rewrite (W Hc) in Y. discriminate Y.
Qed.

End Locked.

(* ------------------------------------------------------------ statements over executions from the initial state *)
Section Exec.
Variables (c : cfg) (sched : list (nat * nat)).
Hypothesis Hl : all_locked (lk c) = true.
Hypothesis Hwf : wf_cfg c.
Let s := run c sched (init c).

Lemma reach_exec : Reach c s.
Proof. apply reach_run; [exact Hl|]. apply reach_init; assumption. Qed.

Theorem pool_job_accounting :
  poolclosed s = [] /\ NoDup (started s) /\ NoDup (ended s) /\ NoDup (refused s)
  /\ (forall j, jended s j -> In j (started s))
  /\ (forall j, In j (started s) -> j < sub s /\ ~ jrefused s j /\ (jended s j \/ running s j))
  /\ (forall j, jrefused s j -> j < sub s)
  /\ (forall j, held s j -> j < sub s)
  /\ (forall j, jrefused s j -> ~ held s j /\ ~ running s j /\ ~ jended s j)
  /\ (forall j, held s j -> ~ In j (started s) /\ ~ running s j /\ ~ jended s j)
  /\ (forall j, running s j -> In j (started s) /\ ~ jended s j)
  /\ (forall i k j, i < nw s -> k < nw s -> w_slot (ws s i) = Some j -> w_slot (ws s k) = Some j -> i = k)
  /\ (forall i k j, i < nw s -> k < nw s -> w_cur (ws s i) = Some j -> w_cur (ws s k) = Some j -> i = k)
  /\ (quiet s -> forall j, j < sub s -> jrefused s j \/ held s j \/ running s j \/ jended s j).
Proof. first [exact (accounting c s reach_exec) | exact (accounting c Hl s reach_exec) | exact (accounting c Hl Hwf s reach_exec)]. Qed.

Theorem pool_no_lost_wakeup :
  forall i, i < nw s -> w_pc (ws s i) = WWait ->
  (forall j, w_slot (ws s i) = Some j -> w_ev (ws s i) = true \/ (i = m_w (mn s) /\ m_pc (mn s) = MEvSet))
  /\ (closed s = true -> w_ev (ws s i) = true)
  /\ (w_ev (ws s i) = false -> (i = m_w (mn s) /\ mtarget (m_pc (mn s)) = true) \/ (In i (idle s) /\ closed s = false)).
Proof. first [exact (no_lost_wakeup c s reach_exec) | exact (no_lost_wakeup c Hl s reach_exec)]. Qed.

Theorem pool_served_until_end :
  forall i j, i < nw s -> w_slot (ws s i) = Some j -> wpre (w_pc (ws s i)) = true ->
  ~ (i = m_w (mn s) /\ m_pc (mn s) = MEvSet) ->
  In j (started (run c (repeat (S i, 0) 4) s)).
Proof. intros. eapply served_until_end; eauto. exact reach_exec. Qed.

Theorem pool_close_no_new_job :
  closed s = true ->
  (forall i, i < nw s -> w_slot (ws s i) = None) /\
  forall more, closed (run c more s) = true /\ started (run c more s) = started s.
Proof.
  intros Hc. split.
  - apply (close_no_new_job c Hl [] s reach_exec Hc).
  - intros more. destruct (close_no_new_job c Hl more s reach_exec Hc) as (A & B & _). split; assumption.
Qed.

Theorem pool_close_worker_progress :
  closed s = true -> forall i, i < nw s -> w_pc (ws s i) <> WExit ->
  match worker_step c i s with
  | Some s' => exit_dist (w_pc (ws s' i)) < exit_dist (w_pc (ws s i)) /\ exit_dist (w_pc (ws s i)) <= 13
  | None => w_pc (ws s i) = WAcq /\ exists t, lock s = Some t /\ t <> S i
  end.
Proof. intros. eapply close_worker_progress; eauto. exact reach_exec. Qed.

Theorem pool_no_deadlock :
  (quiescent s \/ exists t, forall ch, step_opt c t ch s <> None)
  /\ (closed s = true -> quiescent s -> forall i, i < nw s -> w_pc (ws s i) = WExit).
Proof.
  split.
  - first [exact (no_deadlock c s reach_exec) | exact (no_deadlock c Hl s reach_exec)].
  - intros. eapply close_quiescent_all_exited; eauto. exact reach_exec.
Qed.

End Exec.

(* the hypotheses of the accounting / progress theorems are satisfiable *)
Example pool_held_nonvacuous :
  let c := mk_cfg 1 1 1 false (mk_lockcfg true true true true) in
  let s := run c (repeat (0, 0) 8) (init c) in
  all_locked (lk c) = true /\ wf_cfg c /\ quiet s /\ held s 0 /\ sub s = 1 /\ 0 < nw s /\
  w_slot (ws s 0) = Some 0 /\ wpre (w_pc (ws s 0)) = true /\ ~ (0 = m_w (mn s) /\ m_pc (mn s) = MEvSet) /\
  started s = [] /\ started (run c (repeat (1, 0) 4) s) = [0].
Proof.
  vm_compute. repeat split; try reflexivity; try lia.
  - exists 0. repeat split. lia.
  - intros [_ H]. discriminate H.
Qed.

Example pool_close_nonvacuous :
  let c := mk_cfg 2 1 3 true (mk_lockcfg true true true true) in
  let s := run c (concat (repeat [(0,0); (0,1); (1,0); (2,0); (0,0); (1,0); (0,2); (2,0)] 15)) (init c) in
  all_locked (lk c) = true /\ wf_cfg c /\ closed s = true /\ 0 < nw s /\ w_pc (ws s 0) = WRead1 /\ w_pc (ws s 0) <> WExit /\
  started s = [0; 1] /\ refused s = [2].
Proof. vm_compute. repeat split; try reflexivity; try lia. discriminate. Qed.
