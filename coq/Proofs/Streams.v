(* C10 — lemmas about Model/Streams.v. *)
From Coq Require Import List NArith Arith Bool Lia.
Import ListNotations.
From V Require Import Model.Streams.
Local Open Scope N_scope.

(* ---------------------------------------------------------------- tables *)
Definition keys (t : table) : list sid := map fst t.
Definition keys_lt (n : sid) (t : table) : Prop := Forall (fun kv => fst kv < n) t.

Lemma lookup_none_notin : forall id t, ~ In id (keys t) -> lookup id t = None.
Proof.
  induction t as [|[k s] t IH]; simpl; intros H; auto.
  destruct (N.eqb_spec k id); [exfalso; apply H; auto|]. apply IH. intro; apply H; auto.
Qed.

Lemma lookup_some_in : forall id t s, lookup id t = Some s -> In (id, s) t.
Proof.
  induction t as [|[k s0] t IH]; simpl; intros s H; [discriminate|].
  destruct (N.eqb_spec k id); [inversion H; subst; auto | right; auto].
Qed.

Lemma lookup_some_key : forall id t s, lookup id t = Some s -> In id (keys t).
Proof. intros. apply lookup_some_in in H. unfold keys. change id with (fst (id, s)). apply in_map; auto. Qed.

Lemma keys_lt_lookup : forall n t id s, keys_lt n t -> lookup id t = Some s -> id < n.
Proof.
  intros. apply lookup_some_in in H0. unfold keys_lt in H. rewrite Forall_forall in H. apply (H _ H0).
Qed.

Lemma lookup_remove_same : forall id t, lookup id (remove id t) = None.
Proof.
  induction t as [|[k s] t IH]; simpl; auto.
  destruct (N.eqb_spec k id); auto. simpl. destruct (N.eqb_spec k id); [contradiction|auto].
Qed.

Lemma lookup_remove_other : forall id k t, k <> id -> lookup k (remove id t) = lookup k t.
Proof.
  induction t as [|[k0 s] t IH]; simpl; intros; auto.
  destruct (N.eqb_spec k0 id); simpl.
  - destruct (N.eqb_spec k0 k); [subst; contradiction | auto].
  - destruct (N.eqb_spec k0 k); auto.
Qed.

Lemma lookup_update_same : forall id s' t s, lookup id t = Some s -> lookup id (update id s' t) = Some s'.
Proof.
  induction t as [|[k s0] t IH]; simpl; intros s H; [discriminate|].
  destruct (N.eqb_spec k id); simpl.
  - destruct (N.eqb_spec k id); [auto|contradiction].
  - destruct (N.eqb_spec k id); [contradiction|eauto].
Qed.

Lemma lookup_update_other : forall id k s' t, k <> id -> lookup k (update id s' t) = lookup k t.
Proof.
  induction t as [|[k0 s0] t IH]; simpl; intros; auto.
  destruct (N.eqb_spec k0 id); simpl.
  - destruct (N.eqb_spec k0 k); [subst; contradiction | auto].
  - destruct (N.eqb_spec k0 k); auto.
Qed.

Lemma lookup_app : forall k t id s,
  lookup k (t ++ [(id, s)]) = match lookup k t with Some x => Some x | None => if id =? k then Some s else None end.
Proof.
  induction t as [|[k0 s0] t IH]; simpl; intros; auto.
  destruct (N.eqb_spec k0 k); auto.
Qed.

Lemma lookup_map : forall k f t,
  lookup k (map (fun kv : sid * stream => (fst kv, f (snd kv))) t) = option_map f (lookup k t).
Proof.
  induction t as [|[k0 s0] t IH]; simpl; auto.
  destruct (N.eqb_spec k0 k); auto.
Qed.

Lemma lookup_filter : forall k p t, NoDup (keys t) ->
  lookup k (filter (fun kv : sid * stream => p (snd kv)) t) =
  match lookup k t with Some s => if p s then Some s else None | None => None end.
Proof.
  induction t as [|[k0 s0] t IH]; simpl; intros ND; auto.
  inversion ND; subst.
  destruct (p s0) eqn:P; simpl.
  - destruct (N.eqb_spec k0 k); [rewrite P; auto | auto].
  - destruct (N.eqb_spec k0 k).
    + subst. rewrite P. rewrite IH by auto. rewrite (lookup_none_notin k t); auto.
    + auto.
Qed.

Lemma keys_remove_incl : forall id t x, In x (keys (remove id t)) -> In x (keys t).
Proof.
  induction t as [|[k s] t IH]; simpl; intros; auto.
  destruct (k =? id); simpl in *; intuition.
Qed.
Lemma nodup_remove : forall id t, NoDup (keys t) -> NoDup (keys (remove id t)).
Proof.
  induction t as [|[k s] t IH]; simpl; intros ND; auto. inversion ND; subst.
  destruct (k =? id); auto. simpl. constructor; auto. intro. apply H1. eapply keys_remove_incl; eauto.
Qed.
Lemma keys_update : forall id s' t, keys (update id s' t) = keys t.
Proof.
  induction t as [|[k s] t IH]; simpl; auto. destruct (k =? id); simpl; congruence.
Qed.
Lemma keys_map : forall (f : stream -> stream) t, keys (map (fun kv => (fst kv, f (snd kv))) t) = keys t.
Proof. induction t as [|[k s] t IH]; simpl; congruence. Qed.
Lemma keys_filter_incl : forall (p : sid * stream -> bool) t x, In x (keys (filter p t)) -> In x (keys t).
Proof.
  induction t as [|kv t IH]; simpl; intros; auto. destruct (p kv); simpl in *; intuition.
Qed.
Lemma nodup_filter : forall (p : sid * stream -> bool) t, NoDup (keys t) -> NoDup (keys (filter p t)).
Proof.
  induction t as [|kv t IH]; simpl; intros ND; auto. inversion ND; subst.
  destruct (p kv); auto. simpl. constructor; auto. intro. apply H1. eapply keys_filter_incl; eauto.
Qed.

Lemma keys_lt_of_keys : forall n t, keys_lt n t <-> (forall x, In x (keys t) -> x < n).
Proof.
  unfold keys_lt, keys. intros. rewrite Forall_forall. split; intros H x Hx.
  - apply in_map_iff in Hx. destruct Hx as [kv [E I]]. subst. auto.
  - apply H. apply in_map. auto.
Qed.

Lemma lookup_all_none : forall t, (forall id, lookup id t = None) -> t = [].
Proof.
  destruct t as [|[k s] t]; auto. intros H. specialize (H k). simpl in H. rewrite N.eqb_refl in H. discriminate.
Qed.

Lemma NoDup_app_one : forall (l : list sid) x, NoDup l -> ~ In x l -> NoDup (l ++ [x]).
Proof.
  induction l as [|y l IH]; simpl; intros x ND NI.
  - constructor; [auto | constructor].
  - inversion ND; subst. constructor.
    + intro H. apply in_app_or in H. destruct H as [H|[H|[]]]; [contradiction | subst; apply NI; auto].
    + apply IH; auto.
Qed.

(* ---------------------------------------------------------------- state invariant *)
Record inv (st : state) : Prop := {
  inv_lt : keys_lt (next_id st) (tbl st);
  inv_nodup : NoDup (keys (tbl st)) }.

Lemma inv_init : forall t0, inv (init t0).
Proof. intros. split; simpl; constructor. Qed.

Lemma rest_reown : forall c s, rest (reown c s) = rest s.
Proof. intros. unfold reown. destruct (owner s); auto. Qed.

Lemma step_next_id : forall cfg st ev,
  next_id (fst (step cfg st ev)) = match ev with Open _ _ => next_id st + 1 | _ => next_id st end.
Proof.
  intros. destruct ev; simpl; auto.
  - destruct (streaming cfg); auto.
  - destruct (lookup id (tbl st)); auto. destruct (rest (reown c s)) as [|[v|e] r]; auto.
  - destruct (0 <? linger cfg); auto.
Qed.

Lemma step_next_id_le : forall cfg st ev, next_id st <= next_id (fst (step cfg st ev)).
Proof. intros. rewrite step_next_id. destruct ev; lia. Qed.

Lemma step_inv : forall cfg st ev, inv st -> inv (fst (step cfg st ev)).
Proof.
  intros cfg st ev [LT ND]. destruct ev; simpl.
  - destruct (streaming cfg); simpl; split; simpl.
    + apply keys_lt_of_keys. intros x Hx. unfold keys in Hx. rewrite map_app in Hx. apply in_app_or in Hx.
      destruct Hx as [Hx|Hx]. { rewrite keys_lt_of_keys in LT. specialize (LT x Hx). lia. }
      simpl in Hx. destruct Hx; [subst; lia | contradiction].
    + unfold keys. rewrite map_app. simpl. apply NoDup_app_one; auto.
      intro Hx. rewrite keys_lt_of_keys in LT. specialize (LT _ Hx). lia.
    + eapply Forall_impl; [|exact LT]. simpl. intros; lia.
    + auto.
  - destruct (lookup id (tbl st)) eqn:L; [|split; auto].
    destruct (rest (reown c s)) as [|[v|e] r]; simpl; split; simpl.
    + apply keys_lt_of_keys. intros x Hx. apply keys_remove_incl in Hx. rewrite keys_lt_of_keys in LT. auto.
    + apply nodup_remove; auto.
    + apply keys_lt_of_keys. intros x Hx. rewrite keys_update in Hx. rewrite keys_lt_of_keys in LT. auto.
    + rewrite keys_update. auto.
    + apply keys_lt_of_keys. intros x Hx. apply keys_remove_incl in Hx. rewrite keys_lt_of_keys in LT. auto.
    + apply nodup_remove; auto.
  - split; simpl.
    + apply keys_lt_of_keys. intros x Hx. apply keys_remove_incl in Hx. rewrite keys_lt_of_keys in LT. auto.
    + apply nodup_remove; auto.
  - destruct (0 <? linger cfg); simpl; split; simpl.
    + apply keys_lt_of_keys. intros x Hx. rewrite keys_map in Hx. rewrite keys_lt_of_keys in LT. auto.
    + rewrite keys_map; auto.
    + apply keys_lt_of_keys. intros x Hx. apply keys_filter_incl in Hx. rewrite keys_lt_of_keys in LT. auto.
    + apply nodup_filter; auto.
  - split; simpl.
    + apply keys_lt_of_keys. intros x Hx. apply keys_filter_incl in Hx. rewrite keys_lt_of_keys in LT. auto.
    + apply nodup_filter; auto.
  - split; simpl; auto.
Qed.

(* ---------------------------------------------------------------- one stream's view of a step *)
Definition sview (cfg : config) (nw : N) (nid id : sid) (o : option stream) (ev : event) : option stream :=
  match ev with
  | Open c items =>
      if streaming cfg && (nid =? id)
      then Some {| owner := Some c; created := nw; linger_since := 0; rest := items |} else o
  | Next c k =>
      if k =? id then
        match o with
        | None => None
        | Some s => match rest s with
                    | Yield v :: r => Some {| owner := owner (reown c s); created := created s;
                                              linger_since := linger_since (reown c s); rest := r |}
                    | _ => None
                    end
        end
      else o
  | CloseStream _ k => if k =? id then None else o
  | Disconnect c =>
      match o with
      | None => None
      | Some s => if 0 <? linger cfg then Some (disconnect_stream cfg nw c s)
                  else if owned_by c s then None else Some s
      end
  | Housekeep => match o with None => None | Some s => if expired cfg nw s then None else Some s end
  | Tick _ => o
  end.

Lemma created_reown : forall c s, created (reown c s) = created s.
Proof. intros. unfold reown. destruct (owner s); auto. Qed.

Lemma lookup_step : forall cfg st ev id, inv st ->
  lookup id (tbl (fst (step cfg st ev))) = sview cfg (now st) (next_id st) id (lookup id (tbl st)) ev.
Proof.
  intros cfg st ev id [LT ND]. destruct ev; simpl.
  - destruct (streaming cfg); simpl; auto. rewrite lookup_app.
    destruct (lookup id (tbl st)) eqn:L.
    + pose proof (keys_lt_lookup _ _ _ _ LT L). destruct (N.eqb_spec (next_id st) id); [lia|auto].
    + destruct (next_id st =? id); auto.
  - destruct (N.eqb_spec id0 id).
    + subst id0. destruct (lookup id (tbl st)) eqn:L; simpl; [|rewrite L; auto].
      rewrite rest_reown. destruct (rest s) as [|[v|e] r] eqn:R; simpl.
      * apply lookup_remove_same.
      * rewrite created_reown. erewrite lookup_update_same; eauto.
      * apply lookup_remove_same.
    + destruct (lookup id0 (tbl st)) eqn:L; simpl; auto.
      destruct (rest (reown c s)) as [|[v|e] r]; simpl.
      * apply lookup_remove_other; auto.
      * apply lookup_update_other; auto.
      * apply lookup_remove_other; auto.
  - destruct (N.eqb_spec id0 id).
    + subst. apply lookup_remove_same.
    + apply lookup_remove_other; auto.
  - destruct (0 <? linger cfg); simpl.
    + rewrite (lookup_map id (disconnect_stream cfg (now st) c)). destruct (lookup id (tbl st)); auto.
    + rewrite (lookup_filter id (fun s => negb (owned_by c s))) by auto.
      destruct (lookup id (tbl st)); auto. destruct (owned_by c s); auto.
  - rewrite (lookup_filter id (fun s => negb (expired cfg (now st) s))) by auto.
    destruct (lookup id (tbl st)); auto. destruct (expired cfg (now st) s); auto.
  - auto.
Qed.

Lemma step_next_resp : forall cfg st c id,
  snd (step cfg st (Next c id)) =
  match lookup id (tbl st) with
  | None => RError
  | Some s => match rest s with [] => RStop | Yield v :: _ => RItem v | Raise e :: _ => RRaised e end
  end.
Proof.
  intros. simpl. destruct (lookup id (tbl st)); auto. rewrite rest_reown.
  destruct (rest s) as [|[v|e] r]; auto.
Qed.

Lemma step_now : forall cfg st ev,
  now (fst (step cfg st ev)) = match ev with Tick dt => now st + dt | _ => now st end.
Proof.
  intros. destruct ev; simpl; auto.
  - destruct (streaming cfg); auto.
  - destruct (lookup id (tbl st)); auto. destruct (rest (reown c s)) as [|[v|e] r]; auto.
  - destruct (0 <? linger cfg); auto.
Qed.

(* ---------------------------------------------------------------- runs *)
Lemma run_cons : forall cfg st ev evs,
  run cfg st (ev :: evs) =
  (fst (run cfg (fst (step cfg st ev)) evs), (ev, snd (step cfg st ev)) :: snd (run cfg (fst (step cfg st ev)) evs)).
Proof.
  intros. simpl. destruct (step cfg st ev) as [st1 r]. simpl. destruct (run cfg st1 evs); auto.
Qed.

Lemma run_app : forall cfg evs st evs',
  run cfg st (evs ++ evs') =
  (fst (run cfg (fst (run cfg st evs)) evs'), snd (run cfg st evs) ++ snd (run cfg (fst (run cfg st evs)) evs')).
Proof.
  induction evs as [|ev evs IH]; intros.
  - simpl. destruct (run cfg st evs'); auto.
  - rewrite <- app_comm_cons. rewrite !run_cons. rewrite IH. simpl. auto.
Qed.

Lemma run_snoc : forall cfg st evs ev,
  run cfg st (evs ++ [ev]) =
  (fst (step cfg (fst (run cfg st evs)) ev), snd (run cfg st evs) ++ [(ev, snd (step cfg (fst (run cfg st evs)) ev))]).
Proof.
  intros. rewrite run_app. rewrite run_cons. simpl. auto.
Qed.

Lemma run_inv : forall cfg evs st, inv st -> inv (fst (run cfg st evs)).
Proof.
  induction evs as [|ev evs IH]; intros; [simpl; auto|].
  rewrite run_cons. simpl. apply IH. apply step_inv; auto.
Qed.

Lemma run_next_id_le : forall cfg evs st, next_id st <= next_id (fst (run cfg st evs)).
Proof.
  induction evs as [|ev evs IH]; intros; [simpl; lia|].
  rewrite run_cons. simpl. specialize (IH (fst (step cfg st ev))). pose proof (step_next_id_le cfg st ev). lia.
Qed.

Fixpoint opens (evs : list event) : N :=
  match evs with
  | [] => 0
  | Open _ _ :: evs' => 1 + opens evs'
  | _ :: evs' => opens evs'
  end.

Lemma opens_app : forall a b, opens (a ++ b) = opens a + opens b.
Proof. induction a as [|ev a IH]; intros; [simpl; lia|]. destruct ev; cbn [app opens]; rewrite IH; lia. Qed.

Lemma source_from_app : forall evs n evs' id,
  source_from n (evs ++ evs') id =
  match source_from n evs id with Some x => Some x | None => source_from (n + opens evs) evs' id end.
Proof.
  induction evs as [|ev evs IH]; intros.
  - cbn [app source_from opens]. rewrite N.add_0_r. auto.
  - destruct ev; cbn [app source_from opens]; try apply IH.
    destruct (n =? id); auto. rewrite IH. replace (n + 1 + opens evs) with (n + (1 + opens evs)) by lia. auto.
Qed.

Lemma source_from_lt : forall evs n id, id < n -> source_from n evs id = None.
Proof.
  induction evs as [|ev evs IH]; intros; simpl; auto.
  destruct ev; auto. destruct (N.eqb_spec n id); [lia|]. apply IH. lia.
Qed.

Lemma source_from_ge : forall evs n id, n + opens evs <= id -> source_from n evs id = None.
Proof.
  induction evs as [|ev evs IH]; intros; [simpl; auto|].
  destruct ev; cbn [opens source_from] in *; try (apply IH; lia).
  destruct (N.eqb_spec n id); [lia|]. apply IH. lia.
Qed.

Lemma delivered_app : forall a b id, delivered (a ++ b) id = delivered a id ++ delivered b id.
Proof.
  induction a as [|[ev r] a IH]; intros; simpl; auto.
  destruct ev; auto. destruct r; auto. destruct (id0 =? id); simpl; rewrite IH; auto.
Qed.

Lemma run_next_id : forall cfg evs st, next_id (fst (run cfg st evs)) = next_id st + opens evs.
Proof.
  induction evs as [|ev evs IH]; intros; simpl; [lia|].
  change (next_id (fst (run cfg st (ev :: evs))) = next_id st + opens (ev :: evs)).
  rewrite run_cons. simpl fst. rewrite IH. rewrite step_next_id. destruct ev; cbn [opens]; lia.
Qed.

(* ---------------------------------------------------------------- the history invariant *)
(* H1: a remembered stream holds exactly the undelivered rest of its own source.
   H2: what has been delivered for any id is a prefix (as yields) of that id's source.
   H3: nothing was ever delivered for an id that does not exist yet. *)
Record hist_inv (evs : list event) (st : state) (tr : trace) : Prop := {
  h_table : forall id s, lookup id (tbl st) = Some s ->
            source_from 0 evs id = Some (yields (delivered tr id) ++ rest s);
  h_prefix : forall id items, source_from 0 evs id = Some items ->
             exists suffix, items = yields (delivered tr id) ++ suffix;
  h_fresh : forall id, opens evs <= id -> delivered tr id = [] }.

Lemma yields_app : forall a b, yields (a ++ b) = yields a ++ yields b.
Proof. intros. unfold yields. apply map_app. Qed.

Lemma hist_inv_run : forall cfg t0 evs,
  hist_inv evs (fst (run cfg (init t0) evs)) (snd (run cfg (init t0) evs)).
Proof.
  intros cfg t0 evs. induction evs as [|ev evs IH] using rev_ind.
  - simpl. split; simpl; intros; auto; discriminate.
  - rewrite run_snoc. simpl fst. simpl snd.
    set (st := fst (run cfg (init t0) evs)) in *. set (tr := snd (run cfg (init t0) evs)) in *.
    assert (I : inv st) by (apply run_inv; apply inv_init).
    assert (NID : next_id st = opens evs) by (unfold st; rewrite run_next_id; simpl; lia).
    destruct IH as [HT HP HF].
    (* delivered after the step *)
    assert (D : forall id, delivered (tr ++ [(ev, snd (step cfg st ev))]) id =
              delivered tr id ++ match ev, snd (step cfg st ev) with
                                 | Next _ k, RItem v => if k =? id then [v] else []
                                 | _, _ => [] end).
    { intros. rewrite delivered_app. f_equal. }
    split.
    + (* h_table *)
      intros id s L. rewrite lookup_step in L by auto. rewrite D. rewrite source_from_app.
      destruct ev; simpl in L.
      * (* Open *)
        destruct (streaming cfg && (next_id st =? id)) eqn:B.
        -- apply andb_true_iff in B. destruct B as [_ B]. apply N.eqb_eq in B.
           inversion L; subst s; simpl. rewrite (source_from_ge evs 0 id) by lia.
           simpl. rewrite <- NID, B, N.eqb_refl. rewrite HF by lia. reflexivity.
        -- rewrite (HT _ _ L). rewrite app_nil_r. auto.
      * (* Next *)
        rewrite step_next_resp.
        destruct (N.eqb_spec id0 id).
        -- subst id0. destruct (lookup id (tbl st)) as [s0|] eqn:L0; [|discriminate].
           destruct (rest s0) as [|[v|e] r] eqn:R; try discriminate.
           inversion L; subst s; simpl. rewrite (HT _ _ L0). rewrite R.
           rewrite yields_app. simpl. rewrite <- app_assoc. auto.
        -- rewrite (HT _ _ L).
           destruct (lookup id0 (tbl st)) as [s0|]; [destruct (rest s0) as [|[v|e] r]|]; rewrite app_nil_r; auto.
      * destruct (id0 =? id); [discriminate|]. rewrite (HT _ _ L). rewrite app_nil_r. auto.
      * destruct (lookup id (tbl st)) as [s0|] eqn:L0; [|discriminate].
        rewrite (HT _ _ L0). rewrite app_nil_r.
        destruct (0 <? linger cfg).
        -- inversion L; subst s. unfold disconnect_stream. destruct (owned_by c s0); auto.
        -- destruct (owned_by c s0); [discriminate|]. inversion L; subst; auto.
      * destruct (lookup id (tbl st)) as [s0|] eqn:L0; [|discriminate].
        destruct (expired cfg (now st) s0); [discriminate|]. inversion L; subst s.
        rewrite (HT _ _ L0). rewrite app_nil_r. auto.
      * rewrite (HT _ _ L). rewrite app_nil_r. auto.
    + (* h_prefix *)
      intros id items S. rewrite D. rewrite source_from_app in S.
      destruct (source_from 0 evs id) as [items0|] eqn:S0.
      * inversion S; subst items0. destruct (HP _ _ S0) as [suf E].
        destruct ev; try (exists suf; rewrite app_nil_r; auto).
        rewrite step_next_resp.
        destruct (lookup id0 (tbl st)) as [s0|] eqn:L0; [|exists suf; rewrite app_nil_r; auto].
        destruct (rest s0) as [|[v|e] r] eqn:R; try (exists suf; rewrite app_nil_r; auto).
        destruct (N.eqb_spec id0 id); [|exists suf; rewrite app_nil_r; auto].
        subst id0. pose proof (HT _ _ L0) as E2. rewrite S0 in E2. inversion E2. rewrite R.
        exists r. rewrite yields_app. simpl. rewrite <- app_assoc. auto.
      * (* the stream is created by this very event *)
        destruct ev; simpl in S; try discriminate.
        destruct (N.eqb_spec (opens evs) id); [|discriminate].
        inversion S; subst. rewrite HF by lia. simpl. exists items. auto.
    + (* h_fresh *)
      intros id G. rewrite opens_app in G. rewrite D. rewrite HF by lia. simpl.
      destruct ev; auto. rewrite step_next_resp.
      destruct (lookup id0 (tbl st)) as [s0|] eqn:L0; auto.
      destruct (rest s0) as [|[v|e] r]; auto.
      destruct (N.eqb_spec id0 id); auto. subst.
      pose proof (keys_lt_lookup _ _ _ _ (inv_lt _ I) L0). simpl in G. lia.
Qed.

(* ---------------------------------------------------------------- items_exact / ends_right *)
Lemma source_from_some : forall evs n id, n <= id -> id < n + opens evs -> source_from n evs id <> None.
Proof.
  induction evs as [|ev evs IH]; intros n id A B; [simpl in B; lia|].
  destruct ev; cbn [opens source_from] in *; try (apply IH; lia).
  destruct (N.eqb_spec n id); [discriminate|]. apply IH; lia.
Qed.

Lemma items_exact : forall cfg t0 evs id,
  let st := fst (run cfg (init t0) evs) in
  let tr := snd (run cfg (init t0) evs) in
  (forall s, lookup id (tbl st) = Some s ->
     source_from 0 evs id = Some (yields (delivered tr id) ++ rest s)) /\
  (forall items, source_from 0 evs id = Some items ->
     exists suffix, items = yields (delivered tr id) ++ suffix) /\
  (source_from 0 evs id = None -> delivered tr id = [] /\ lookup id (tbl st) = None).
Proof.
  intros. destruct (hist_inv_run cfg t0 evs) as [HT HP HF]. fold st in HT. fold tr in HT, HP, HF.
  split; [|split].
  - intros; apply HT; auto.
  - intros; eapply HP; eauto.
  - intros S. split.
    + destruct (N.le_gt_cases (opens evs) id) as [G|G]; [apply HF; auto|].
      exfalso. apply (source_from_some evs 0 id); [lia | lia | exact S].
    + destruct (lookup id (tbl st)) eqn:L; auto. rewrite (HT _ _ L) in S. discriminate.
Qed.

(* the answer to a request for the next item, after any history *)
Lemma next_answer_exact : forall cfg t0 evs c id,
  let st := fst (run cfg (init t0) evs) in
  let tr := snd (run cfg (init t0) evs) in
  match snd (step cfg st (Next c id)) with
  | RItem v => exists r, source_from 0 evs id = Some (yields (delivered tr id) ++ Yield v :: r)
  | RStop => source_from 0 evs id = Some (yields (delivered tr id))
  | RRaised e => exists r, source_from 0 evs id = Some (yields (delivered tr id) ++ Raise e :: r)
  | RError => lookup id (tbl st) = None
  | _ => False
  end.
Proof.
  intros. destruct (hist_inv_run cfg t0 evs) as [HT _ _]. fold st in HT. fold tr in HT.
  rewrite step_next_resp. destruct (lookup id (tbl st)) as [s|] eqn:L; auto.
  specialize (HT _ _ L). destruct (rest s) as [|[v|e] r] eqn:R.
  - rewrite app_nil_r in HT. auto.
  - exists r; auto.
  - exists r; auto.
Qed.

(* conversely: while the server remembers a stream, a request is answered from its own source:
   the next undelivered item, StopIteration exactly at the end, the exception exactly where it is raised *)
Lemma next_answer_complete : forall cfg t0 evs c id s,
  let st := fst (run cfg (init t0) evs) in
  let tr := snd (run cfg (init t0) evs) in
  lookup id (tbl st) = Some s ->
  exists items, source_from 0 evs id = Some items /\
    snd (step cfg st (Next c id)) =
    match skipn (length (delivered tr id)) items with
    | [] => RStop | Yield v :: _ => RItem v | Raise e :: _ => RRaised e
    end.
Proof.
  intros. destruct (hist_inv_run cfg t0 evs) as [HT _ _]. fold st in HT. fold tr in HT.
  specialize (HT _ _ H). eexists; split; [exact HT|].
  rewrite step_next_resp, H.
  replace (length (delivered tr id)) with (length (yields (delivered tr id)) + 0)%nat
    by (unfold yields; rewrite map_length; lia).
  rewrite skipn_app. rewrite skipn_all2 by lia. simpl.
  replace (length (yields (delivered tr id)) + 0 - length (yields (delivered tr id)))%nat with 0%nat by lia.
  simpl. auto.
Qed.

(* a stream that ends (exhausted or failed) is removed by that very request *)
Lemma ends_removed : forall cfg st c id, inv st ->
  match snd (step cfg st (Next c id)) with
  | RStop | RRaised _ | RError => lookup id (tbl (fst (step cfg st (Next c id)))) = None
  | _ => True
  end.
Proof.
  intros. rewrite lookup_step by auto. rewrite step_next_resp. simpl. rewrite N.eqb_refl.
  destruct (lookup id (tbl st)) as [s|]; auto. destruct (rest s) as [|[v|e] r]; auto.
Qed.

(* ---------------------------------------------------------------- forgotten means error *)
Lemma forgotten_stays : forall cfg evs st id, inv st -> id < next_id st -> lookup id (tbl st) = None ->
  lookup id (tbl (fst (run cfg st evs))) = None /\
  (forall c r, In (Next c id, r) (snd (run cfg st evs)) -> r = RError).
Proof.
  induction evs as [|ev evs IH]; intros st id I LT L; [simpl; split; [auto | intros ? ? []]|].
  rewrite run_cons. simpl fst. simpl snd.
  assert (L1 : lookup id (tbl (fst (step cfg st ev))) = None).
  { rewrite lookup_step by auto. rewrite L. destruct ev; simpl; auto.
    - destruct (N.eqb_spec (next_id st) id); [lia|]. rewrite andb_false_r. auto.
    - destruct (id0 =? id); auto.
    - destruct (id0 =? id); auto. }
  destruct (IH (fst (step cfg st ev)) id) as [A B]; auto.
  { apply step_inv; auto. }
  { pose proof (step_next_id_le cfg st ev). lia. }
  split; auto. intros c r [E|E]; [|eapply B; eauto].
  inversion E; subst. rewrite step_next_resp. rewrite L. auto.
Qed.

(* the exact list of ways a remembered stream leaves the table in one step *)
Definition forget_cause (cfg : config) (st : state) (id : sid) (s : stream) (ev : event) : Prop :=
  (exists c, ev = Next c id /\ (rest s = [] \/ exists e r, rest s = Raise e :: r)) \/
  (exists c, ev = CloseStream c id) \/
  (exists c, ev = Disconnect c /\ owner s = Some c /\ linger cfg = 0) \/
  (ev = Housekeep /\ lifetime_over cfg (now st) s = true) \/
  (ev = Housekeep /\ linger_over cfg (now st) s = true).

Lemma forget_iff : forall cfg st id s ev, inv st -> lookup id (tbl st) = Some s ->
  (lookup id (tbl (fst (step cfg st ev))) = None <-> forget_cause cfg st id s ev).
Proof.
  intros cfg st id s ev I L. rewrite lookup_step by auto. rewrite L. unfold forget_cause.
  destruct ev; simpl.
  - pose proof (keys_lt_lookup _ _ _ _ (inv_lt _ I) L). destruct (N.eqb_spec (next_id st) id); [lia|].
    rewrite andb_false_r. split; [discriminate|].
    intros [[? [? _]]|[[? ?]|[[? [? _]]|[[? _]|[? _]]]]]; discriminate.
  - destruct (N.eqb_spec id0 id).
    + subst. destruct (rest s) as [|[v|e] r] eqn:R.
      * split; auto. intros _. left. exists c. auto.
      * split; [discriminate|].
        intros [[? [_ [?|[? [? ?]]]]]|[[? ?]|[[? [? _]]|[[? _]|[? _]]]]]; discriminate.
      * split; auto. intros _. left. exists c. split; auto. right. eauto.
    + split; [discriminate|].
      intros [[? [E _]]|[[? ?]|[[? [? _]]|[[? _]|[? _]]]]]; try discriminate. inversion E; subst; contradiction.
  - destruct (N.eqb_spec id0 id).
    + subst. split; auto. intros _. right. left. eauto.
    + split; [discriminate|].
      intros [[? [? _]]|[[? E]|[[? [? _]]|[[? _]|[? _]]]]]; try discriminate. inversion E; subst; contradiction.
  - destruct (N.ltb_spec 0 (linger cfg)).
    + split; [discriminate|].
      intros [[? [? _]]|[[? ?]|[[? [_ [_ ?]]]|[[? _]|[? _]]]]]; try discriminate. lia.
    + unfold owned_by. destruct (owner s) as [c'|] eqn:O.
      * destruct (N.eqb_spec c' c).
        -- subst. split; auto. intros _. right. right. left. exists c. repeat split; auto. lia.
        -- split; [discriminate|].
           intros [[? [? _]]|[[? ?]|[[? [E [E2 _]]]|[[? _]|[? _]]]]]; try discriminate.
           inversion E; inversion E2; subst; contradiction.
      * split; [discriminate|].
        intros [[? [? _]]|[[? ?]|[[? [_ [? _]]]|[[? _]|[? _]]]]]; discriminate.
  - unfold expired. destruct (lifetime_over cfg (now st) s) eqn:A; simpl.
    + split; auto. intros _. right. right. right. left. auto.
    + destruct (linger_over cfg (now st) s) eqn:B.
      * split; auto. intros _. right. right. right. right. auto.
      * split; [discriminate|].
        intros [[? [? _]]|[[? ?]|[[? [? _]]|[[_ ?]|[_ ?]]]]]; discriminate.
  - split; [discriminate|].
    intros [[? [? _]]|[[? ?]|[[? [? _]]|[[? _]|[? _]]]]]; discriminate.
Qed.

(* ---------------------------------------------------------------- linger *)
Lemma exceeded_mono : forall strict limit p p', p' <= p -> exceeded strict limit p = false -> exceeded strict limit p' = false.
Proof.
  unfold exceeded. intros strict limit p p' LE H. destruct strict.
  - apply N.ltb_ge. apply N.ltb_ge in H. lia.
  - apply N.leb_gt. apply N.leb_gt in H. lia.
Qed.
Lemma exceeded_mono_up : forall strict limit p p', p <= p' -> exceeded strict limit p = true -> exceeded strict limit p' = true.
Proof.
  unfold exceeded. intros strict limit p p' LE H. destruct strict.
  - apply N.ltb_lt. apply N.ltb_lt in H. lia.
  - apply N.leb_le. apply N.leb_le in H. lia.
Qed.

Lemma ticks_cons : forall ev mid, ticks (ev :: mid) = match ev with Tick dt => dt + ticks mid | _ => ticks mid end.
Proof. intros. destruct ev; reflexivity. Qed.

(* events that do not name a lingering stream leave it exactly as it is, or (housekeeping) drop it *)
Lemma lingering_untouched : forall cfg id mid st s, inv st -> lookup id (tbl st) = Some s -> owner s = None ->
  forallb (fun ev => negb (touches id ev)) mid = true ->
  (lookup id (tbl (fst (run cfg st mid))) = Some s \/ lookup id (tbl (fst (run cfg st mid))) = None) /\
  now (fst (run cfg st mid)) = now st + ticks mid.
Proof.
  induction mid as [|ev mid IH]; intros st s I L O U; [simpl; split; auto; lia|].
  rewrite run_cons. cbn [fst]. cbn [forallb] in U. apply andb_true_iff in U. destruct U as [U0 U].
  assert (LT : id < next_id st) by (eapply keys_lt_lookup; [apply inv_lt; auto | eauto]).
  assert (N1 : now (fst (step cfg st ev)) + ticks mid = now st + ticks (ev :: mid)).
  { rewrite step_now, ticks_cons. destruct ev; lia. }
  assert (I1 : inv (fst (step cfg st ev))) by (apply step_inv; auto).
  assert (K : lookup id (tbl (fst (step cfg st ev))) = Some s \/ lookup id (tbl (fst (step cfg st ev))) = None).
  { rewrite lookup_step by auto. rewrite L. destruct ev; simpl in *.
    - destruct (N.eqb_spec (next_id st) id); [lia|]. rewrite andb_false_r. auto.
    - destruct (id0 =? id); [discriminate|auto].
    - destruct (id0 =? id); [discriminate|auto].
    - unfold disconnect_stream, owned_by. rewrite O. destruct (0 <? linger cfg); auto.
    - destruct (expired cfg (now st) s); auto.
    - auto. }
  destruct K as [K|K].
  - destruct (IH _ _ I1 K O U) as [A B]. split; auto. lia.
  - split.
    + right. apply forgotten_stays; auto. pose proof (step_next_id_le cfg st ev). lia.
    + clear - N1. revert N1. generalize (fst (step cfg st ev)) as st1. intros st1 N1.
      assert (G : forall mid st, now (fst (run cfg st mid)) = now st + ticks mid).
      { clear. induction mid as [|e mid IH]; intros; [simpl; lia|].
        rewrite run_cons. cbn [fst]. rewrite IH, step_now, ticks_cons. destruct e; lia. }
      rewrite G. lia.
Qed.

Lemma run_now : forall cfg mid st, now (fst (run cfg st mid)) = now st + ticks mid.
Proof.
  induction mid as [|e mid IH]; intros; [simpl; lia|].
  rewrite run_cons. cbn [fst]. rewrite IH, step_now, ticks_cons. destruct e; lia.
Qed.

(* ... and housekeeping does not drop it while neither limit is exceeded *)
Lemma linger_keep : forall cfg id mid st s, inv st -> lookup id (tbl st) = Some s -> owner s = None ->
  forallb (fun ev => negb (touches id ev)) mid = true ->
  exceeded (linger_strict cfg) (linger cfg) (now st + ticks mid - linger_since s) = false ->
  (0 <? lifetime cfg) && exceeded (lifetime_strict cfg) (lifetime cfg) (now st + ticks mid - created s) = false ->
  lookup id (tbl (fst (run cfg st mid))) = Some s.
Proof.
  induction mid as [|ev mid IH]; intros st s I L O U E1 E2; [simpl; auto|].
  rewrite run_cons. cbn [fst]. cbn [forallb] in U. apply andb_true_iff in U. destruct U as [U0 U].
  assert (LT : id < next_id st) by (eapply keys_lt_lookup; [apply inv_lt; auto | eauto]).
  assert (N1 : now (fst (step cfg st ev)) + ticks mid = now st + ticks (ev :: mid)).
  { rewrite step_now, ticks_cons. destruct ev; lia. }
  apply IH; auto.
  - apply step_inv; auto.
  - rewrite lookup_step by auto. rewrite L. destruct ev; simpl in *.
    + destruct (N.eqb_spec (next_id st) id); [lia|]. rewrite andb_false_r. auto.
    + destruct (id0 =? id); [discriminate|auto].
    + destruct (id0 =? id); [discriminate|auto].
    + unfold disconnect_stream, owned_by. rewrite O. destruct (0 <? linger cfg); auto.
    + replace (expired cfg (now st) s) with false; auto. symmetry. unfold expired, lifetime_over, linger_over.
      apply orb_false_iff. split.
      * destruct (0 <? lifetime cfg); auto. simpl in *.
        eapply exceeded_mono; [|exact E2]. rewrite ?ticks_cons. lia.
      * assert (X : exceeded (linger_strict cfg) (linger cfg) (now st - linger_since s) = false).
        { eapply exceeded_mono; [|exact E1]. rewrite ?ticks_cons. lia. }
        rewrite X. apply andb_false_r.
    + auto.
  - rewrite N1. auto.
  - rewrite N1. auto.
Qed.

Lemma linger_resume : forall cfg st id s c c' v r mid, inv st -> 0 < linger cfg ->
  lookup id (tbl st) = Some s -> owner s = Some c -> rest s = Yield v :: r ->
  forallb (fun ev => negb (touches id ev)) mid = true ->
  within (linger_strict cfg) (linger cfg) (ticks mid) = true ->
  (lifetime cfg = 0 \/ within (lifetime_strict cfg) (lifetime cfg) (now st + ticks mid - created s) = true) ->
  let st1 := fst (run cfg st (Disconnect c :: mid)) in
  snd (step cfg st1 (Next c' id)) = RItem v /\
  lookup id (tbl (fst (step cfg st1 (Next c' id)))) =
    Some {| owner := Some c'; created := created s; linger_since := 0; rest := r |}.
Proof.
  intros cfg st id s c c' v r mid I LG L O R U W1 W2 st1.
  set (s0 := {| owner := None; created := created s; linger_since := now st; rest := rest s |}).
  assert (L0 : lookup id (tbl (fst (step cfg st (Disconnect c)))) = Some s0).
  { rewrite lookup_step by auto. rewrite L. simpl. apply N.ltb_lt in LG. rewrite LG.
    unfold disconnect_stream, owned_by. rewrite O, N.eqb_refl. auto. }
  assert (L1 : lookup id (tbl st1) = Some s0).
  { unfold st1. rewrite run_cons. cbn [fst]. apply linger_keep; auto.
    - apply step_inv; auto.
    - rewrite step_now. simpl. unfold within in W1. apply negb_true_iff in W1.
      eapply exceeded_mono; [|exact W1]. lia.
    - rewrite step_now. simpl. destruct W2 as [W2|W2].
      + rewrite W2. auto.
      + unfold within in W2. apply negb_true_iff in W2. rewrite W2. apply andb_false_r. }
  assert (I1 : inv st1) by (unfold st1; apply run_inv; auto).
  split.
  - rewrite step_next_resp, L1. simpl. rewrite R. auto.
  - rewrite lookup_step by auto. rewrite L1. simpl. rewrite N.eqb_refl, R. auto.
Qed.

Lemma linger_expiry : forall cfg st id s c mid, inv st -> 0 < now st -> 0 < linger cfg ->
  lookup id (tbl st) = Some s -> owner s = Some c ->
  forallb (fun ev => negb (touches id ev)) mid = true ->
  exceeded (linger_strict cfg) (linger cfg) (ticks mid) = true ->
  lookup id (tbl (fst (run cfg st (Disconnect c :: mid ++ [Housekeep])))) = None.
Proof.
  intros cfg st id s c mid I T LG L O U X.
  set (s0 := {| owner := None; created := created s; linger_since := now st; rest := rest s |}).
  rewrite run_cons. cbn [fst]. rewrite run_snoc. cbn [fst].
  set (st0 := fst (step cfg st (Disconnect c))).
  assert (I0 : inv st0) by (apply step_inv; auto).
  assert (L0 : lookup id (tbl st0) = Some s0).
  { unfold st0. rewrite lookup_step by auto. rewrite L. simpl. apply N.ltb_lt in LG. rewrite LG.
    unfold disconnect_stream, owned_by. rewrite O, N.eqb_refl. auto. }
  destruct (lingering_untouched cfg id mid st0 s0 I0 L0 eq_refl U) as [[K|K] NW];
    rewrite lookup_step by (apply run_inv; auto); rewrite K; simpl; auto.
  replace (expired cfg (now (fst (run cfg st0 mid))) s0) with true; auto. symmetry.
  unfold expired, linger_over. apply orb_true_iff. right. simpl.
  apply N.ltb_lt in LG. rewrite LG. simpl.
  destruct (N.eqb_spec (now st) 0); [lia|]. simpl.
  eapply exceeded_mono_up; [|exact X]. rewrite NW. unfold st0. rewrite step_now. lia.
Qed.

(* ---------------------------------------------------------------- quiescence *)
Definition lingering_wf (cfg : config) (st : state) : Prop :=
  Forall (fun kv => owner (snd kv) = None ->
                    0 < linger cfg /\ linger_since (snd kv) <> 0 /\ linger_since (snd kv) <= now st) (tbl st).

Lemma Forall_remove : forall (P : sid * stream -> Prop) id t, Forall P t -> Forall P (remove id t).
Proof.
  induction t as [|[k s] t IH]; simpl; intros H; auto. inversion H; subst.
  destruct (k =? id); auto.
Qed.
Lemma Forall_update : forall (P : sid * stream -> Prop) id s' t,
  Forall P t -> (forall k, P (k, s')) -> Forall P (update id s' t).
Proof.
  induction t as [|[k s] t IH]; simpl; intros H Q; auto. inversion H; subst.
  destruct (k =? id); auto.
Qed.
Lemma Forall_filter : forall (P : sid * stream -> Prop) p t, Forall P t -> Forall P (filter p t).
Proof.
  induction t as [|kv t IH]; simpl; intros H; auto. inversion H; subst. destruct (p kv); auto.
Qed.

Lemma step_lingering_wf : forall cfg st ev, 0 < now st -> lingering_wf cfg st -> lingering_wf cfg (fst (step cfg st ev)).
Proof.
  unfold lingering_wf. intros cfg st ev T H. destruct ev; simpl.
  - destruct (streaming cfg); simpl; auto. apply Forall_app. split; auto.
    constructor; [|constructor]. simpl. discriminate.
  - destruct (lookup id (tbl st)) eqn:L; auto.
    destruct (rest (reown c s)) as [|[v|e] r] eqn:R; simpl.
    + apply Forall_remove; auto.
    + apply Forall_update; auto. intros k. simpl. intros O.
      unfold reown in O |- *. destruct (owner s) eqn:OS; simpl in *; [|discriminate].
      apply lookup_some_in in L. rewrite Forall_forall in H. apply (H _ L). auto.
    + apply Forall_remove; auto.
  - apply Forall_remove; auto.
  - destruct (N.ltb_spec 0 (linger cfg)); simpl.
    + rewrite Forall_forall in *. intros kv IN. apply in_map_iff in IN. destruct IN as [[k s] [E IN]].
      subst kv. simpl. unfold disconnect_stream. destruct (owned_by c s); simpl.
      * intros _. repeat split; auto; lia.
      * apply (H _ IN).
    + apply Forall_filter; auto.
  - apply Forall_filter; auto.
  - eapply Forall_impl; [|exact H]. simpl. intros kv Q O. destruct (Q O) as [A [B C]]. repeat split; auto. lia.
Qed.

Lemma step_now_pos : forall cfg st ev, 0 < now st -> 0 < now (fst (step cfg st ev)).
Proof. intros. rewrite step_now. destruct ev; lia. Qed.

Lemma run_lingering_wf : forall cfg evs st, 0 < now st -> lingering_wf cfg st ->
  lingering_wf cfg (fst (run cfg st evs)) /\ 0 < now (fst (run cfg st evs)).
Proof.
  induction evs as [|ev evs IH]; intros; [simpl; auto|].
  rewrite run_cons. cbn [fst]. apply IH; [apply step_now_pos | apply step_lingering_wf]; auto.
Qed.

Definition owners_in (conns : list conn) (t : table) : Prop :=
  Forall (fun kv => forall c, owner (snd kv) = Some c -> In c conns) t.

Lemma disconnect_all : forall cfg conns st, 0 < now st -> lingering_wf cfg st -> owners_in conns (tbl st) ->
  let st' := fst (run cfg st (map Disconnect conns)) in
  now st' = now st /\ lingering_wf cfg st' /\ owners_in [] (tbl st').
Proof.
  induction conns as [|c0 conns IH]; intros st T W Q; [simpl; auto|].
  cbn [map]. cbv zeta. rewrite run_cons. cbn [fst].
  set (st0 := fst (step cfg st (Disconnect c0))).
  assert (T0 : now st0 = now st) by (unfold st0; rewrite step_now; auto).
  destruct (IH st0) as [A [B C]].
  - lia.
  - apply step_lingering_wf; auto.
  - unfold st0, owners_in in *. simpl. destruct (0 <? linger cfg); simpl.
    + rewrite Forall_forall in *. intros kv IN. apply in_map_iff in IN. destruct IN as [[k s] [E IN]].
      subst kv. simpl. unfold disconnect_stream, owned_by. destruct (owner s) as [c1|] eqn:O; simpl.
      * destruct (N.eqb_spec c1 c0); simpl; [discriminate|]. rewrite O. intros c E. inversion E; subst.
        specialize (Q _ IN c O). simpl in Q. destruct Q; [congruence|auto].
      * rewrite O. discriminate.
    + rewrite Forall_forall in *. intros kv IN. apply filter_In in IN. destruct IN as [IN F].
      intros c O. unfold owned_by in F. rewrite O in F. specialize (Q _ IN c O). simpl in Q.
      destruct Q as [Q|Q]; auto. subst. rewrite N.eqb_refl in F. discriminate.
  - split; [lia|]. split; auto.
Qed.

Lemma quiescence_empties : forall cfg st conns dt, inv st -> 0 < now st -> lingering_wf cfg st ->
  owners_in conns (tbl st) ->
  exceeded (linger_strict cfg) (linger cfg) dt = true ->
  tbl (fst (run cfg st (quiesce conns dt))) = [].
Proof.
  intros cfg st conns dt I T W Q X. unfold quiesce. rewrite run_app. cbn [fst].
  destruct (disconnect_all cfg conns st T W Q) as [A [B C]].
  set (st1 := fst (run cfg st (map Disconnect conns))) in *.
  simpl. unfold lingering_wf, owners_in in *.
  induction (tbl st1) as [|[k s] t IH]; simpl; auto.
  inversion B; subst. inversion C; subst. simpl in *.
  replace (expired cfg (now st1 + dt) s) with true; [apply IH; auto|]. symmetry.
  destruct (owner s) as [c|] eqn:O; [exfalso; apply (H3 c); auto|].
  destruct (H1 eq_refl) as [LG [NZ LE]].
  unfold expired, linger_over. apply orb_true_iff. right.
  apply N.ltb_lt in LG. rewrite LG. destruct (N.eqb_spec (linger_since s) 0); [contradiction|]. simpl.
  eapply exceeded_mono_up; [|exact X]. lia.
Qed.

Lemma init_lingering_wf : forall cfg t0, lingering_wf cfg (init t0).
Proof. intros. unfold lingering_wf. simpl. constructor. Qed.

(* ---------------------------------------------------------------- finished streams are gone *)
Lemma wf_from_app : forall a n b, wf_from n (a ++ b) = wf_from n a && wf_from (n + opens a) b.
Proof.
  induction a as [|ev a IH]; intros; cbn [app wf_from opens].
  - rewrite N.add_0_r. auto.
  - destruct ev; rewrite ?IH; rewrite <- ?andb_assoc; auto.
    replace (n + 1 + opens a) with (n + (1 + opens a)) by lia. auto.
Qed.

Lemma finished_app : forall a b id, finished (a ++ b) id = finished a id || finished b id.
Proof. intros. unfold finished. apply existsb_app. Qed.

Lemma live_only : forall cfg t0 evs, wf_from 0 evs = true ->
  let st := fst (run cfg (init t0) evs) in
  let tr := snd (run cfg (init t0) evs) in
  (forall id s, lookup id (tbl st) = Some s -> finished tr id = false) /\
  (forall id, opens evs <= id -> finished tr id = false).
Proof.
  intros cfg t0 evs. induction evs as [|ev evs IH] using rev_ind; intros WF.
  - simpl. split; intros; auto; discriminate.
  - rewrite wf_from_app in WF. apply andb_true_iff in WF. destruct WF as [WF WE].
    specialize (IH WF). cbv zeta in IH. destruct IH as [H1 H2].
    cbv zeta. rewrite run_snoc. cbn [fst snd].
    set (st := fst (run cfg (init t0) evs)) in *. set (tr := snd (run cfg (init t0) evs)) in *.
    assert (I : inv st) by (apply run_inv; apply inv_init).
    assert (NID : next_id st = opens evs) by (unfold st; rewrite run_next_id; simpl; lia).
    split.
    + intros id s L. rewrite finished_app. rewrite lookup_step in L by auto.
      unfold finished at 2. cbn [existsb]. rewrite orb_false_r.
      destruct ev; simpl in L.
      * destruct (streaming cfg && (next_id st =? id)) eqn:B.
        -- apply andb_true_iff in B. destruct B as [_ B]. apply N.eqb_eq in B.
           rewrite H2 by lia. auto.
        -- rewrite (H1 _ _ L). auto.
      * unfold finishes. rewrite step_next_resp.
        destruct (N.eqb_spec id0 id).
        -- subst id0. destruct (lookup id (tbl st)) as [s0|] eqn:L0; [|discriminate].
           rewrite (H1 _ _ L0). destruct (rest s0) as [|[v|e] r]; try discriminate. auto.
        -- rewrite (H1 _ _ L).
           destruct (lookup id0 (tbl st)) as [s0|]; [destruct (rest s0) as [|[v|e] r]|]; auto.
      * destruct (N.eqb_spec id0 id); [discriminate|]. rewrite (H1 _ _ L). simpl.
        destruct (N.eqb_spec id0 id); [contradiction|auto].
      * destruct (lookup id (tbl st)) as [s0|] eqn:L0; [|discriminate]. rewrite (H1 _ _ L0). auto.
      * destruct (lookup id (tbl st)) as [s0|] eqn:L0; [|discriminate]. rewrite (H1 _ _ L0). auto.
      * rewrite (H1 _ _ L). auto.
    + intros id G. rewrite opens_app in G. rewrite finished_app. rewrite H2 by lia.
      unfold finished. cbn [existsb orb]. rewrite orb_false_r.
      destruct ev; cbn [wf_from] in WE; unfold finishes; auto.
      * rewrite N.add_0_l in WE. rewrite andb_true_r in WE. apply N.ltb_lt in WE.
        destruct (N.eqb_spec id0 id); [lia|].
        generalize (snd (step cfg st (Next c id0))). intro r0. destruct r0; auto.
      * rewrite N.add_0_l in WE. rewrite andb_true_r in WE. apply N.ltb_lt in WE.
        destruct (N.eqb_spec id0 id); [lia|auto].
Qed.

Lemma table_empty_when_all_finished : forall cfg t0 evs, wf_from 0 evs = true ->
  (forall id, id < opens evs -> finished (snd (run cfg (init t0) evs)) id = true) ->
  tbl (fst (run cfg (init t0) evs)) = [].
Proof.
  intros cfg t0 evs WF F. apply lookup_all_none. intros id.
  destruct (lookup id (tbl (fst (run cfg (init t0) evs)))) as [s|] eqn:L; auto.
  destruct (live_only cfg t0 evs WF) as [H1 _]. specialize (H1 _ _ L).
  assert (I : inv (fst (run cfg (init t0) evs))) by (apply run_inv; apply inv_init).
  pose proof (keys_lt_lookup _ _ _ _ (inv_lt _ I) L) as LT. rewrite run_next_id in LT. simpl in LT.
  rewrite F in H1 by lia. discriminate.
Qed.

(* ---------------------------------------------------------------- the same, for states reached by a history *)
Definition after (cfg : config) (t0 : N) (evs : list event) : state := fst (run cfg (init t0) evs).

Lemma after_inv : forall cfg t0 evs, inv (after cfg t0 evs).
Proof. intros. apply run_inv. apply inv_init. Qed.
Lemma after_now_pos : forall cfg t0 evs, 0 < t0 -> 0 < now (after cfg t0 evs).
Proof. intros. unfold after. rewrite run_now. simpl. lia. Qed.
Lemma after_next_id : forall cfg t0 evs, next_id (after cfg t0 evs) = opens evs.
Proof. intros. unfold after. rewrite run_next_id. simpl. lia. Qed.

Lemma forgotten_means_error_reach : forall cfg t0 evs evs' id,
  id < opens evs -> lookup id (tbl (after cfg t0 evs)) = None ->
  lookup id (tbl (fst (run cfg (after cfg t0 evs) evs'))) = None /\
  (forall c r, In (Next c id, r) (snd (run cfg (after cfg t0 evs) evs')) -> r = RError).
Proof. intros. apply forgotten_stays; auto. apply after_inv. rewrite after_next_id. auto. Qed.

Lemma forget_iff_reach : forall cfg t0 evs id s ev,
  lookup id (tbl (after cfg t0 evs)) = Some s ->
  (lookup id (tbl (fst (step cfg (after cfg t0 evs) ev))) = None <-> forget_cause cfg (after cfg t0 evs) id s ev).
Proof. intros. apply forget_iff; auto. apply after_inv. Qed.

Lemma ends_removed_reach : forall cfg t0 evs c id,
  match snd (step cfg (after cfg t0 evs) (Next c id)) with
  | RStop | RRaised _ | RError => lookup id (tbl (fst (step cfg (after cfg t0 evs) (Next c id)))) = None
  | _ => True
  end.
Proof. intros. apply ends_removed. apply after_inv. Qed.

Lemma linger_resume_reach : forall cfg t0 evs id s c c' v r mid, 0 < linger cfg ->
  let st := after cfg t0 evs in
  lookup id (tbl st) = Some s -> owner s = Some c -> rest s = Yield v :: r ->
  forallb (fun ev => negb (touches id ev)) mid = true ->
  within (linger_strict cfg) (linger cfg) (ticks mid) = true ->
  (lifetime cfg = 0 \/ within (lifetime_strict cfg) (lifetime cfg) (now st + ticks mid - created s) = true) ->
  let st1 := fst (run cfg st (Disconnect c :: mid)) in
  snd (step cfg st1 (Next c' id)) = RItem v /\
  lookup id (tbl (fst (step cfg st1 (Next c' id)))) =
    Some {| owner := Some c'; created := created s; linger_since := 0; rest := r |}.
Proof. intros. apply linger_resume; auto. apply after_inv. Qed.

Lemma linger_expiry_reach : forall cfg t0 evs id s c mid, 0 < t0 -> 0 < linger cfg ->
  let st := after cfg t0 evs in
  lookup id (tbl st) = Some s -> owner s = Some c ->
  forallb (fun ev => negb (touches id ev)) mid = true ->
  exceeded (linger_strict cfg) (linger cfg) (ticks mid) = true ->
  lookup id (tbl (fst (run cfg st (Disconnect c :: mid ++ [Housekeep])))) = None.
Proof. intros. eapply linger_expiry; eauto. apply after_inv. apply after_now_pos; auto. Qed.

Lemma quiescence_reach : forall cfg t0 evs conns dt, 0 < t0 ->
  let st := after cfg t0 evs in
  (forall id s c, lookup id (tbl st) = Some s -> owner s = Some c -> In c conns) ->
  exceeded (linger_strict cfg) (linger cfg) dt = true ->
  tbl (fst (run cfg st (quiesce conns dt))) = [].
Proof.
  intros cfg t0 evs conns dt T st Q X.
  destruct (run_lingering_wf cfg evs (init t0) T (init_lingering_wf cfg t0)) as [W P].
  apply quiescence_empties; auto.
  - apply after_inv.
  - unfold owners_in. rewrite Forall_forall. intros [k s] IN c O. simpl in O.
    pose proof (after_inv cfg t0 evs) as I. fold st in I.
    assert (L : lookup k (tbl st) = Some s).
    { clear - IN I. destruct I as [_ ND]. induction (tbl st) as [|[k0 s0] t IH]; [destruct IN|].
      simpl in *. inversion ND; subst. destruct IN as [E|IN].
      - inversion E; subst. rewrite N.eqb_refl. auto.
      - destruct (N.eqb_spec k0 k); [|auto]. subst. exfalso. apply H1.
        change k with (fst (k, s)). apply in_map. auto. }
    eapply Q; eauto.
Qed.

(* with linger = 0 the strictness of the comparison does not matter: any positive pause will do *)
Lemma exceeded_succ : forall strict limit, exceeded strict limit (limit + 1) = true.
Proof. intros. unfold exceeded. destruct strict; [apply N.ltb_lt | apply N.leb_le]; lia. Qed.

Lemma step_open_resp : forall cfg st c items,
  snd (step cfg st (Open c items)) = if streaming cfg then ROpened (next_id st) else RNoStreaming.
Proof. intros. simpl. destruct (streaming cfg); reflexivity. Qed.

Lemma step_resp_kind : forall cfg st ev,
  match ev, snd (step cfg st ev) with
  | Open _ _, (ROpened _ | RNoStreaming) => True
  | Next _ _, (RItem _ | RStop | RRaised _ | RError) => True
  | (CloseStream _ _ | Disconnect _ | Housekeep | Tick _), RNone => True
  | _, _ => False
  end.
Proof.
  intros. destruct ev; simpl; auto.
  - destruct (streaming cfg); simpl; auto.
  - destruct (lookup id (tbl st)); simpl; auto. destruct (rest (reown c s)) as [|[v|e] r]; simpl; auto.
  - destruct (0 <? linger cfg); simpl; auto.
Qed.

(* ---------------------------------------------------------------- inside _clientDisconnect *)
Lemma update_absent : forall id s' t, lookup id t = None -> update id s' t = t.
Proof.
  induction t as [|[k s] t IH]; simpl; intros H; auto.
  destruct (k =? id); [discriminate|]. rewrite IH; auto.
Qed.

Lemma micro_step_lookup_none : forall cfg nw t m id, lookup id t = None -> lookup id (micro_step cfg nw t m) = None.
Proof.
  intros cfg nw t m id H. destruct m as [c k|k]; simpl.
  - unfold disc_visit. destruct (lookup k t) as [s|] eqn:L; auto.
    destruct (owned_by c s); auto. destruct (N.eq_dec k id); [subst; congruence|].
    destruct (0 <? linger cfg).
    + rewrite lookup_update_other; auto.
    + rewrite lookup_remove_other; auto.
  - destruct (N.eq_dec k id); [subst; apply lookup_remove_same|]. rewrite lookup_remove_other; auto.
Qed.

(* no interleaving of disconnect iterations and removals ever (re-)inserts a stream *)
Lemma micro_never_reinserts : forall cfg nw ms t id, lookup id t = None -> lookup id (micro_run cfg nw t ms) = None.
Proof.
  unfold micro_run. induction ms as [|m ms IH]; intros t id H; simpl; auto.
  apply IH. apply micro_step_lookup_none; auto.
Qed.

Lemma micro_run_app : forall cfg nw a b t, micro_run cfg nw t (a ++ b) = micro_run cfg nw (micro_run cfg nw t a) b.
Proof. intros. unfold micro_run. apply fold_left_app. Qed.

(* a stream closed / exhausted / reaped at any point of any such interleaving is not in the table at its end *)
Lemma closed_never_reinserted : forall cfg nw ms1 ms2 t id,
  lookup id (micro_run cfg nw t (ms1 ++ MRemove id :: ms2)) = None.
Proof.
  intros. rewrite micro_run_app. change (MRemove id :: ms2) with ([MRemove id] ++ ms2). rewrite micro_run_app.
  apply micro_never_reinserts. simpl. apply lookup_remove_same.
Qed.

(* what one stream sees of a whole pass of the loop *)
Definition visit_result (cfg : config) (nw : N) (c : conn) (o : option stream) : option stream :=
  match o with
  | None => None
  | Some s => if owned_by c s then (if 0 <? linger cfg then Some (disconnect_stream cfg nw c s) else None) else Some s
  end.

Lemma disc_visit_lookup : forall cfg nw c k t id,
  lookup id (disc_visit cfg nw c k t) = if k =? id then visit_result cfg nw c (lookup id t) else lookup id t.
Proof.
  intros. unfold disc_visit, visit_result. destruct (N.eqb_spec k id).
  - subst. destruct (lookup id t) as [s|] eqn:L; [|rewrite L; auto].
    destruct (owned_by c s); [|rewrite L; auto]. destruct (0 <? linger cfg).
    + erewrite lookup_update_same; eauto.
    + apply lookup_remove_same.
  - destruct (lookup k t) as [s|]; auto. destruct (owned_by c s); auto. destruct (0 <? linger cfg).
    + apply lookup_update_other; auto.
    + apply lookup_remove_other; auto.
Qed.

Lemma visits_lookup : forall cfg nw c ks t id, NoDup ks ->
  lookup id (micro_run cfg nw t (map (MVisit c) ks)) =
  if existsb (N.eqb id) ks then visit_result cfg nw c (lookup id t) else lookup id t.
Proof.
  unfold micro_run. induction ks as [|k ks IH]; intros t id ND; [reflexivity|].
  inversion ND; subst. cbn [map fold_left micro_step existsb]. rewrite IH by auto. rewrite disc_visit_lookup.
  destruct (N.eqb_spec id k).
  - subst. rewrite N.eqb_refl. simpl.
    replace (existsb (N.eqb k) ks) with false; auto. symmetry.
    destruct (existsb (N.eqb k) ks) eqn:E; auto. apply existsb_exists in E. destruct E as [x [IN EQ]].
    apply N.eqb_eq in EQ. subst. contradiction.
  - destruct (N.eqb_spec k id); [congruence|]. simpl. reflexivity.
Qed.

(* the atomic Disconnect step of the model is exactly one undisturbed pass of the loop *)
Lemma disconnect_is_visits : forall cfg st c id, inv st ->
  lookup id (tbl (fst (step cfg st (Disconnect c)))) =
  lookup id (micro_run cfg (now st) (tbl st) (map (MVisit c) (keys (tbl st)))).
Proof.
  intros cfg st c id I. rewrite lookup_step by auto. rewrite visits_lookup by (apply inv_nodup; auto).
  simpl. unfold visit_result. destruct (lookup id (tbl st)) as [s|] eqn:L.
  - replace (existsb (N.eqb id) (keys (tbl st))) with true.
    + unfold disconnect_stream. destruct (owned_by c s); destruct (0 <? linger cfg); reflexivity.
    + symmetry. apply existsb_exists. exists id. split; [eapply lookup_some_key; eauto | apply N.eqb_refl].
  - destruct (existsb (N.eqb id) (keys (tbl st))); reflexivity.
Qed.

Lemma NoDup_app_parts : forall (a b : list sid), NoDup (a ++ b) -> NoDup a /\ NoDup b.
Proof.
  induction a as [|x a IH]; intros b H; simpl in *; [split; [constructor|auto]|].
  inversion H; subst. destruct (IH _ H3) as [A B]. split; auto. constructor; auto.
  intro I. apply H2. apply in_or_app. auto.
Qed.

(* a pass of the loop disturbed by a removal at any point ends, for every stream, as: the removal, then an
   undisturbed pass — the outcome does not depend on where the other thread got in *)
Lemma racing_disconnect_outcome : forall cfg nw c ks1 ks2 id t k, NoDup (ks1 ++ ks2) ->
  lookup k (micro_run cfg nw t (map (MVisit c) ks1 ++ MRemove id :: map (MVisit c) ks2)) =
  lookup k (micro_run cfg nw (remove id t) (map (MVisit c) (ks1 ++ ks2))).
Proof.
  intros cfg nw c ks1 ks2 id t k ND.
  destruct (N.eq_dec k id) as [E|NE].
  - subst. rewrite closed_never_reinserted. symmetry. apply micro_never_reinserts. apply lookup_remove_same.
  - rewrite micro_run_app. change (MRemove id :: map (MVisit c) ks2) with ([MRemove id] ++ map (MVisit c) ks2).
    rewrite micro_run_app. destruct (NoDup_app_parts _ _ ND) as [ND1 ND2].
    rewrite visits_lookup by auto. cbn [micro_run fold_left micro_step]. rewrite lookup_remove_other by auto.
    rewrite visits_lookup by auto. rewrite visits_lookup by auto. rewrite lookup_remove_other by auto.
    rewrite existsb_app. unfold sid in *.
    destruct (existsb (N.eqb k) ks1) eqn:E1; destruct (existsb (N.eqb k) ks2) eqn:E2; rewrite ?E1, ?E2; simpl; auto.
    exfalso. apply existsb_exists in E1. apply existsb_exists in E2.
    destruct E1 as [x [I1 Q1]]. destruct E2 as [y [I2 Q2]]. apply N.eqb_eq in Q1. apply N.eqb_eq in Q2. subst x y.
    clear - ND I1 I2. induction ks1 as [|a ks1 IH]; [destruct I1|]. simpl in ND. inversion ND; subst.
    destruct I1 as [->|I1]; [apply H1; apply in_or_app; auto | auto].
Qed.

(* ---------------------------------------------------------------- client layer *)
Local Opaque step.

Definition c_state (R : cstate * ctrace * trace) : cstate := fst (fst R).
Definition c_trace (R : cstate * ctrace * trace) : ctrace := snd (fst R).
Definition s_trace (R : cstate * ctrace * trace) : trace := snd R.

Lemma run_one : forall cfg st ev, run cfg st [ev] = (fst (step cfg st ev), [(ev, snd (step cfg st ev))]).
Proof. intros. rewrite run_cons. reflexivity. Qed.

Lemma release_refines : forall cfg cs p px,
  run cfg (srv cs) (map fst (snd (release cfg cs p px))) = (srv (fst (release cfg cs p px)), snd (release cfg cs p px)).
Proof.
  intros. unfold release. destruct (p_conn px); [|reflexivity]. cbn [srv_step fst snd map with_proxy with_srv srv].
  apply run_one.
Qed.

Lemma srv_ensure : forall cs p px, srv (fst (fst (ensure_conn cs p px))) = srv cs.
Proof. intros. unfold ensure_conn. destruct (p_conn px); reflexivity. Qed.

(* every effect a client operation has on the daemon is the run of the server events [cstep] reports *)
Lemma cstep_refines : forall pol cfg cs op,
  run cfg (srv cs) (map fst (snd (cstep pol cfg cs op))) = (srv (fst (fst (cstep pol cfg cs op))), snd (cstep pol cfg cs op)).
Proof.
  intros. destruct op; unfold cstep.
  - destruct (nthN (proxies cs) p) as [px|]; [|reflexivity].
    pose proof (srv_ensure cs p px) as E. destruct (ensure_conn cs p px) as [[cs1 px1] c]. simpl in E.
    cbn [srv_step with_srv with_proxy srv]. rewrite E.
    destruct (snd (step cfg (srv cs) (Open c items))) eqn:R;
      try (match goal with |- context [release ?a ?b ?c ?d] =>
             pose proof (release_refines a b c d) as RR; destruct (release a b c d) as [cs4 tr] end;
           cbn [fst snd srv map with_srv with_proxy] in RR |- *; rewrite run_cons; rewrite RR; rewrite R; reflexivity).
    cbn [fst snd srv map]. rewrite run_one. rewrite R. reflexivity.
  - destruct (iter_ready cs h); try reflexivity. cbn [srv_step with_srv with_proxy with_iter srv fst snd map]. apply run_one.
  - destruct (iter_ready cs h); try reflexivity. destruct f.
    + match goal with |- context [release ?a ?b ?c ?d] =>
        pose proof (release_refines a b c d) as RR; destruct (release a b c d) as [cs4 tr] end.
      cbn [fst snd srv map with_iter with_proxy] in RR |- *. exact RR.
    + cbn [srv_step with_srv with_proxy srv].
      match goal with |- context [release ?a ?b ?c ?d] =>
        pose proof (release_refines a b c d) as RR; destruct (release a b c d) as [cs4 tr] end.
      cbn [fst snd srv map with_iter with_proxy with_srv] in RR |- *. rewrite run_cons. rewrite RR. reflexivity.
  - destruct (nthN (iters cs) h) as [it|]; [|reflexivity].
    destruct (iter_ready cs h); try reflexivity.
    destruct (ci_seq it =? p_seq px).
    + cbn [srv_step with_srv with_proxy with_iter srv fst snd map]. apply run_one.
    + cbn [fresh_conn srv_step with_srv with_proxy with_iter srv fst snd map].
      rewrite run_cons. rewrite run_one. reflexivity.
  - destruct (nthN (proxies cs) p) as [px|]; [|reflexivity].
    pose proof (release_refines cfg cs p px) as RR. destruct (release cfg cs p px). exact RR.
  - destruct (nthN (proxies cs) p) as [px|]; [|reflexivity].
    pose proof (release_refines cfg cs p px) as RR. destruct (release cfg cs p px) as [cs1 tr]. cbn [fst snd] in RR.
    pose proof (srv_ensure cs1 p {| p_conn := None; p_seq := p_seq px |}) as E.
    destruct (ensure_conn cs1 p {| p_conn := None; p_seq := p_seq px |}) as [[cs2 ?] ?]. cbn [fst snd] in *.
    rewrite E. exact RR.
  - destruct (nthN (proxies cs) p) as [px|]; [|reflexivity].
    pose proof (srv_ensure cs p px) as E. destruct (ensure_conn cs p px) as [[cs1 px1] c]. simpl in E.
    cbn [srv_step with_srv with_proxy srv fst snd map]. rewrite E. apply run_one.
  - destruct (nthN (proxies cs) p) as [px|]; [|reflexivity].
    pose proof (srv_ensure cs p px) as E. destruct (ensure_conn cs p px) as [[cs1 px1] c]. simpl in E.
    cbn [srv_step with_srv with_proxy srv fst snd map]. rewrite E. apply run_one.
  - cbn [srv_step with_srv srv fst snd map]. apply run_one.
  - cbn [srv_step with_srv srv fst snd map]. apply run_one.
Qed.

Lemma crun_cons : forall pol cfg cs op ops,
  crun pol cfg cs (op :: ops) =
  let S := cstep pol cfg cs op in
  let R := crun pol cfg (fst (fst S)) ops in
  (c_state R, (op, snd (fst S)) :: c_trace R, snd S ++ s_trace R).
Proof.
  intros. simpl. destruct (cstep pol cfg cs op) as [[cs1 r] tr]. simpl.
  destruct (crun pol cfg cs1 ops) as [[cs2 ctr] tr']. reflexivity.
Qed.

Lemma crun_app : forall pol cfg a cs b,
  crun pol cfg cs (a ++ b) =
  let R := crun pol cfg cs a in
  let R' := crun pol cfg (c_state R) b in
  (c_state R', c_trace R ++ c_trace R', s_trace R ++ s_trace R').
Proof.
  induction a as [|op a IH]; intros.
  - simpl. unfold c_state, c_trace, s_trace. simpl. destruct (crun pol cfg cs b) as [[? ?] ?]. reflexivity.
  - rewrite <- app_comm_cons. rewrite !crun_cons. cbv zeta. rewrite IH. cbv zeta.
    unfold c_state, c_trace, s_trace. simpl. rewrite app_assoc. reflexivity.
Qed.

Lemma crun_snoc : forall pol cfg cs ops op,
  crun pol cfg cs (ops ++ [op]) =
  let R := crun pol cfg cs ops in
  let S := cstep pol cfg (c_state R) op in
  (fst (fst S), c_trace R ++ [(op, snd (fst S))], s_trace R ++ snd S).
Proof.
  intros. rewrite crun_app. cbv zeta. rewrite crun_cons. cbv zeta.
  unfold c_state, c_trace, s_trace. simpl. rewrite app_nil_r. reflexivity.
Qed.

Lemma crun_refines : forall pol cfg ops cs,
  run cfg (srv cs) (map fst (s_trace (crun pol cfg cs ops))) =
  (srv (c_state (crun pol cfg cs ops)), s_trace (crun pol cfg cs ops)).
Proof.
  induction ops as [|op ops IH]; intros; [reflexivity|].
  rewrite crun_cons. cbv zeta. unfold s_trace at 1 3, c_state at 1. cbn [fst snd].
  rewrite map_app. rewrite run_app. rewrite cstep_refines. cbn [fst snd]. rewrite IH. reflexivity.
Qed.

(* ---------------------------------------------------------------- lists with positions *)
Lemma nth_set_nth_same : forall A (l : list A) n x, (n < length l)%nat -> nth_error (set_nth n x l) n = Some x.
Proof.
  induction l as [|y l IH]; intros n x H; [simpl in H; lia|].
  destruct n; simpl; auto. apply IH. simpl in H. lia.
Qed.
Lemma nth_set_nth_other : forall A (l : list A) n m x, n <> m -> nth_error (set_nth n x l) m = nth_error l m.
Proof.
  induction l as [|y l IH]; intros n m x H; [destruct n; reflexivity|].
  destruct n, m; simpl; auto; try contradiction. 
Qed.
Lemma map_set_nth : forall A B (f : A -> B) (l : list A) n x y,
  nth_error l n = Some y -> f x = f y -> map f (set_nth n x l) = map f l.
Proof.
  induction l as [|z l IH]; intros n x y H E; [destruct n; reflexivity|].
  destruct n; simpl in *.
  - inversion H; subst. rewrite E. reflexivity.
  - f_equal. eapply IH; eauto.
Qed.
Lemma length_set_nth : forall A (l : list A) n x, length (set_nth n x l) = length l.
Proof. induction l as [|y l IH]; intros; destruct n; simpl; auto. Qed.

Lemma nthN_setN_same : forall A (l : list A) h x y, nthN l h = Some y -> nthN (setN l h x) h = Some x.
Proof.
  unfold nthN, setN. intros. apply nth_set_nth_same. apply nth_error_Some. congruence.
Qed.
Lemma nthN_setN_other : forall A (l : list A) h k x, h <> k -> nthN (setN l h x) k = nthN l k.
Proof.
  unfold nthN, setN. intros. apply nth_set_nth_other. intro E. apply H. apply N2Nat.inj. auto.
Qed.
Lemma nthN_app_old : forall A (l : list A) x h y, nthN l h = Some y -> nthN (l ++ [x]) h = Some y.
Proof. unfold nthN. intros. rewrite nth_error_app1; auto. apply nth_error_Some. congruence. Qed.

Lemma iter_ready_Ready : forall cs h it p px c, iter_ready cs h = Ready it p px c ->
  nthN (iters cs) h = Some it /\ ci_proxy it = Some p /\ nthN (proxies cs) p = Some px /\ p_conn px = Some c.
Proof.
  unfold iter_ready. intros cs h it p px c H.
  destruct (nthN (iters cs) h) as [it0|]; [|discriminate].
  destruct (ci_proxy it0) as [p0|] eqn:P; [|discriminate].
  destruct (nthN (proxies cs) p0) as [px0|] eqn:X; [|discriminate].
  destruct (p_conn px0) eqn:C; [|discriminate]. inversion H; subst. auto.
Qed.
Lemma iter_ready_Dropped : forall cs h, iter_ready cs h = Dropped ->
  exists it, nthN (iters cs) h = Some it /\ ci_proxy it = None.
Proof.
  unfold iter_ready. intros cs h H.
  destruct (nthN (iters cs) h) as [it0|]; [|discriminate].
  destruct (ci_proxy it0) as [p0|] eqn:P; [|eauto].
  destruct (nthN (proxies cs) p0) as [px0|]; [|discriminate]. destruct (p_conn px0); discriminate.
Qed.
Lemma iter_ready_dropped_iff : forall cs h it, nthN (iters cs) h = Some it -> ci_proxy it = None -> iter_ready cs h = Dropped.
Proof. unfold iter_ready. intros. rewrite H, H0. reflexivity. Qed.

(* ---------------------------------------------------------------- what a client step does to the iterator objects *)
(* why an iterator object dropped its proxy reference in this step *)
Definition dropcause (pol : cpolicy) (op : cop) (r : cresp) (h : N) : Prop :=
  (op = CNext h /\ exists r0, r = next_resp r0 /\ drops pol r0 = true) \/
  (exists f, op = CNextFault h f /\ drop_comm pol = true) \/
  op = CClose h.

Definition iters_step_full (pol : cpolicy) (op : cop) (l l' : list citer) (r : cresp) : Prop :=
  (l' = l /\ forall id, r <> COpened id) \/
  (exists h it it1, nthN l h = Some it /\ l' = setN l h it1 /\ ci_sid it1 = ci_sid it /\
                    (ci_proxy it = None -> ci_proxy it1 = None) /\ (forall id, r <> COpened id) /\
                    (ci_proxy it1 = None -> ci_proxy it = None \/ dropcause pol op r h)) \/
  (exists new id, r = COpened id /\ ci_sid new = id /\ l' = l ++ [new] /\ ci_proxy new <> None).

Definition iters_step (l l' : list citer) (r : cresp) : Prop :=
  (l' = l /\ forall id, r <> COpened id) \/
  (exists h it it1, nthN l h = Some it /\ l' = setN l h it1 /\ ci_sid it1 = ci_sid it /\
                    (ci_proxy it = None -> ci_proxy it1 = None) /\ forall id, r <> COpened id) \/
  (exists new id, r = COpened id /\ ci_sid new = id /\ l' = l ++ [new]).

Lemma iters_step_weaken : forall pol op l l' r, iters_step_full pol op l l' r -> iters_step l l' r.
Proof.
  unfold iters_step_full, iters_step. intros pol op l l' r [H|[[h [it [it1 [A [B [C [D [E _]]]]]]]]|[new [id [A [B [C _]]]]]]].
  - left; auto.
  - right; left. exists h, it, it1. auto.
  - right; right. exists new, id. auto.
Qed.

Lemma iters_release : forall cfg cs p px, iters (fst (release cfg cs p px)) = iters cs.
Proof. intros. unfold release. destruct (p_conn px); reflexivity. Qed.
Lemma iters_ensure : forall cs p px, iters (fst (fst (ensure_conn cs p px))) = iters cs.
Proof. intros. unfold ensure_conn. destruct (p_conn px); reflexivity. Qed.

Lemma next_id_release : forall cfg cs p px, next_id (srv cs) <= next_id (srv (fst (release cfg cs p px))).
Proof.
  intros. unfold release. destruct (p_conn px); [|simpl; lia]. cbn [srv_step fst with_proxy with_srv srv].
  apply step_next_id_le.
Qed.

Lemma cstep_iters_full : forall pol cfg cs op,
  iters_step_full pol op (iters cs) (iters (fst (fst (cstep pol cfg cs op)))) (snd (fst (cstep pol cfg cs op))).
Proof.
  intros. unfold iters_step_full, dropcause. destruct op; unfold cstep.
  - destruct (nthN (proxies cs) p) as [px|]; [|left; split; [reflexivity|discriminate]].
    pose proof (iters_ensure cs p px) as E. destruct (ensure_conn cs p px) as [[cs1 px1] c]. simpl in E.
    cbn [srv_step with_srv with_proxy srv].
    destruct (snd (step cfg (srv cs1) (Open c items))) eqn:R;
      try (match goal with |- context [release ?a ?b ?c ?d] =>
             pose proof (iters_release a b c d) as RR; destruct (release a b c d) as [cs4 tr] end;
           cbn [fst snd iters] in RR |- *; left; split; [rewrite RR; exact E | discriminate]).
    right. right. exists {| ci_proxy := Some p; ci_sid := id; ci_seq := p_seq (bump px1) |}, id.
    cbn [fst snd iters with_srv with_proxy]. rewrite E. split; [reflexivity|]. split; [reflexivity|]. split; [reflexivity|discriminate].
  - destruct (iter_ready cs h) eqn:IR; try (left; split; [reflexivity|discriminate]).
    apply iter_ready_Ready in IR. destruct IR as [A [B _]].
    right. left. eexists h, it, _. cbn [srv_step with_srv with_proxy with_iter srv fst snd iters].
    split; [exact A|]. split; [reflexivity|]. split; [reflexivity|]. split; [rewrite B; discriminate|].
    split; [intros id; destruct (snd (step cfg (srv cs) (Next c (ci_sid it)))); discriminate|].
    cbn [ci_proxy]. intros D. right. left. split; [reflexivity|]. eexists. split; [reflexivity|].
    destruct (drops pol (snd (step cfg (srv cs) (Next c (ci_sid it))))); [reflexivity|]. rewrite B in D. discriminate.
  - destruct (iter_ready cs h) eqn:IR; try (left; split; [reflexivity|discriminate]).
    apply iter_ready_Ready in IR. destruct IR as [A [B _]].
    right. left. destruct f.
    + match goal with |- context [release ?a ?b ?c ?d] =>
        pose proof (iters_release a b c d) as RR; destruct (release a b c d) as [cs4 tr] end.
      cbn [fst snd iters with_iter with_proxy] in RR |- *. rewrite RR.
      eexists h, it, _. split; [exact A|]. split; [reflexivity|]. split; [reflexivity|].
      split; [rewrite B; discriminate|]. split; [discriminate|].
      cbn [ci_proxy]. intros D. right. right. left. eexists. split; [reflexivity|].
      destruct (drop_comm pol); [reflexivity|]. rewrite B in D. discriminate.
    + cbn [srv_step].
      match goal with |- context [release ?a ?b ?c ?d] =>
        pose proof (iters_release a b c d) as RR; destruct (release a b c d) as [cs4 tr] end.
      cbn [fst snd iters with_iter with_proxy with_srv] in RR |- *. rewrite RR.
      eexists h, it, _. split; [exact A|]. split; [reflexivity|]. split; [reflexivity|].
      split; [rewrite B; discriminate|]. split; [discriminate|].
      cbn [ci_proxy]. intros D. right. right. left. eexists. split; [reflexivity|].
      destruct (drop_comm pol); [reflexivity|]. rewrite B in D. discriminate.
  - destruct (nthN (iters cs) h) as [it|] eqn:A; [|left; split; [reflexivity|discriminate]].
    destruct (iter_ready cs h) eqn:IR; try (left; split; [reflexivity|discriminate]).
    + right. left. eexists h, it, _. cbn [with_iter fst snd iters].
      split; [exact A|]. split; [reflexivity|]. split; [reflexivity|]. split; [reflexivity|]. split; [discriminate|].
      intros _. right. right. right. reflexivity.
    + right. left. destruct (ci_seq it =? p_seq px);
        cbn [fresh_conn srv_step with_srv with_proxy with_iter fst snd iters];
        eexists h, it, _; (split; [exact A|]); (split; [reflexivity|]); (split; [reflexivity|]); (split; [reflexivity|]);
        (split; [discriminate|]); intros _; right; right; right; reflexivity.
  - destruct (nthN (proxies cs) p) as [px|]; [|left; split; [reflexivity|discriminate]].
    pose proof (iters_release cfg cs p px) as RR. destruct (release cfg cs p px). left. split; [exact RR|discriminate].
  - destruct (nthN (proxies cs) p) as [px|]; [|left; split; [reflexivity|discriminate]].
    pose proof (iters_release cfg cs p px) as RR. destruct (release cfg cs p px) as [cs1 tr]. cbn [fst] in RR.
    pose proof (iters_ensure cs1 p {| p_conn := None; p_seq := p_seq px |}) as E.
    destruct (ensure_conn cs1 p {| p_conn := None; p_seq := p_seq px |}) as [[cs2 ?] ?]. cbn [fst snd] in *.
    left. split; [congruence|discriminate].
  - destruct (nthN (proxies cs) p) as [px|]; [|left; split; [reflexivity|discriminate]].
    pose proof (iters_ensure cs p px) as E. destruct (ensure_conn cs p px) as [[cs1 px1] c]. simpl in E.
    cbn [srv_step with_srv with_proxy srv fst snd iters]. left. split; [exact E|].
    intros id0. destruct (snd (step cfg (srv cs1) (Next c id))); discriminate.
  - destruct (nthN (proxies cs) p) as [px|]; [|left; split; [reflexivity|discriminate]].
    pose proof (iters_ensure cs p px) as E. destruct (ensure_conn cs p px) as [[cs1 px1] c]. simpl in E.
    cbn [srv_step with_srv with_proxy fst snd iters]. left. split; [exact E|discriminate].
  - left. split; [reflexivity|discriminate].
  - left. split; [reflexivity|discriminate].
Qed.

Lemma cstep_iters : forall pol cfg cs op,
  iters_step (iters cs) (iters (fst (fst (cstep pol cfg cs op)))) (snd (fst (cstep pol cfg cs op))).
Proof. intros. eapply iters_step_weaken. apply cstep_iters_full. Qed.

(* ---------------------------------------------------------------- client-state invariant *)
Record cinv (cs : cstate) : Prop := {
  ci_srv : inv (srv cs);
  ci_lt : Forall (fun id => id < next_id (srv cs)) (map ci_sid (iters cs));
  ci_nodup : NoDup (map ci_sid (iters cs)) }.

Lemma cinv_init : forall t0 n, cinv (cinit t0 n).
Proof. intros. split; simpl; [apply inv_init | constructor | constructor]. Qed.

Lemma cstep_srv : forall pol cfg cs op,
  srv (fst (fst (cstep pol cfg cs op))) = fst (run cfg (srv cs) (map fst (snd (cstep pol cfg cs op)))).
Proof. intros. rewrite cstep_refines. reflexivity. Qed.

(* a stream handed to the client: the operation was an Open, the id is the next free one *)
Lemma cstep_opened : forall pol cfg cs op id, snd (fst (cstep pol cfg cs op)) = COpened id ->
  exists p items c, op = COpen p items /\ snd (cstep pol cfg cs op) = [(Open c items, ROpened id)] /\ id = next_id (srv cs).
Proof.
  intros pol cfg cs op id H. destruct op; unfold cstep in *.
  - destruct (nthN (proxies cs) p) as [px|]; [|discriminate].
    pose proof (srv_ensure cs p px) as E. destruct (ensure_conn cs p px) as [[cs1 px1] c]. simpl in E.
    cbn [srv_step with_srv with_proxy srv] in *. rewrite E in *.
    pose proof (step_open_resp cfg (srv cs) c items) as O.
    destruct (snd (step cfg (srv cs) (Open c items))) eqn:R;
      try (exfalso; match goal with H : context [release ?a ?b ?c ?d] |- _ => destruct (release a b c d) end; discriminate).
    cbn [fst snd] in *. inversion H; subst id0. exists p, items, c. split; [reflexivity|]. split; [reflexivity|].
    destruct (streaming cfg); [inversion O; reflexivity | discriminate].
  - destruct (iter_ready cs h); try discriminate. cbn [srv_step fst snd] in H.
    destruct (snd (step cfg (srv (with_proxy cs p (bump px))) (Next c (ci_sid it)))); discriminate.
  - destruct (iter_ready cs h); try discriminate. destruct f.
    + destruct (release cfg (with_proxy cs p (bump px)) p (bump px)); discriminate.
    + cbn [srv_step] in H.
      match goal with H : context [release ?a ?b ?c ?d] |- _ => destruct (release a b c d) end; discriminate.
  - destruct (nthN (iters cs) h); [|discriminate]. destruct (iter_ready cs h); try discriminate.
    destruct (ci_seq c =? p_seq px); discriminate.
  - destruct (nthN (proxies cs) p); [|discriminate]. destruct (release cfg cs p p0); discriminate.
  - destruct (nthN (proxies cs) p); [|discriminate]. destruct (release cfg cs p p0).
    destruct (ensure_conn c p {| p_conn := None; p_seq := p_seq p0 |}) as [[? ?] ?]. discriminate.
  - destruct (nthN (proxies cs) p); [|discriminate]. destruct (ensure_conn cs p p0) as [[? ?] ?].
    cbn [srv_step fst snd] in H.
    match goal with H : next_resp ?r = _ |- _ => destruct r; discriminate end.
  - destruct (nthN (proxies cs) p); [|discriminate]. destruct (ensure_conn cs p p0) as [[? ?] ?]. discriminate.
  - discriminate.
  - discriminate.
Qed.

Lemma cstep_cinv : forall pol cfg cs op, cinv cs -> cinv (fst (fst (cstep pol cfg cs op))).
Proof.
  intros pol cfg cs op [I LT ND].
  assert (LE : next_id (srv cs) <= next_id (srv (fst (fst (cstep pol cfg cs op))))).
  { rewrite cstep_srv. apply run_next_id_le. }
  split.
  - rewrite cstep_srv. apply run_inv. auto.
  - destruct (cstep_iters pol cfg cs op) as [[E _]|[[h [it [it1 [A [E [S _]]]]]]|[new [id [R [S E]]]]]].
    + rewrite E. eapply Forall_impl; [|exact LT]. simpl. intros; lia.
    + rewrite E. unfold setN. erewrite map_set_nth; [|exact A|exact S].
      eapply Forall_impl; [|exact LT]. simpl. intros; lia.
    + rewrite E. rewrite map_app. apply Forall_app. split.
      * eapply Forall_impl; [|exact LT]. simpl. intros; lia.
      * constructor; [|constructor]. simpl. rewrite S.
        destruct (cstep_opened _ _ _ _ _ R) as [p [items [c [_ [F IDN]]]]].
        rewrite cstep_srv. rewrite F. cbn [map fst]. rewrite run_one. cbn [fst]. rewrite step_next_id. lia.
  - destruct (cstep_iters pol cfg cs op) as [[E _]|[[h [it [it1 [A [E [S _]]]]]]|[new [id [R [S E]]]]]].
    + rewrite E. auto.
    + rewrite E. unfold setN. erewrite map_set_nth; [|exact A|exact S]. auto.
    + rewrite E. rewrite map_app. simpl. apply NoDup_app_one; auto.
      destruct (cstep_opened _ _ _ _ _ R) as [p [items [c [_ [_ IDN]]]]].
      intro IN. rewrite Forall_forall in LT. specialize (LT _ IN). rewrite S in LT. lia.
Qed.

Lemma crun_cinv : forall pol cfg ops cs, cinv cs -> cinv (c_state (crun pol cfg cs ops)).
Proof.
  induction ops as [|op ops IH]; intros; [exact H|].
  rewrite crun_cons. cbv zeta. unfold c_state at 1. cbn [fst]. apply IH. apply cstep_cinv. auto.
Qed.

(* ---------------------------------------------------------------- what the daemon hands out, seen from one client stream *)
Lemma delivered_release : forall cfg cs p px id, delivered (snd (release cfg cs p px)) id = [].
Proof. intros. unfold release. destruct (p_conn px); reflexivity. Qed.

Lemma nodup_map_nth : forall A B (f : A -> B) (l : list A) i j a b,
  NoDup (map f l) -> nth_error l i = Some a -> nth_error l j = Some b -> f a = f b -> i = j.
Proof.
  induction l as [|x l IH]; intros i j a b ND Hi Hj E; [destruct i; discriminate|].
  simpl in ND. inversion ND; subst.
  destruct i, j; simpl in *; auto.
  - inversion Hi; subst. exfalso. apply H1. rewrite E. apply in_map. eapply nth_error_In; eauto.
  - inversion Hj; subst. exfalso. apply H1. rewrite <- E. apply in_map. eapply nth_error_In; eauto.
  - f_equal. eapply IH; eauto.
Qed.

Lemma sid_eqb_handles : forall cs h k it it', cinv cs -> nthN (iters cs) h = Some it -> nthN (iters cs) k = Some it' ->
  (ci_sid it' =? ci_sid it) = (k =? h).
Proof.
  intros cs h k it it' [_ _ ND] A B. destruct (N.eqb_spec k h).
  - subst. rewrite A in B. inversion B; subst. apply N.eqb_refl.
  - apply N.eqb_neq. intro E. apply n. unfold nthN in *. apply N2Nat.inj.
    eapply (nodup_map_nth _ _ ci_sid); eauto.
Qed.

Lemma cstep_delivered : forall pol cfg cs op h it, cinv cs -> is_raw op = false -> nthN (iters cs) h = Some it ->
  delivered (snd (cstep pol cfg cs op)) (ci_sid it) = entry_taken h (op, snd (fst (cstep pol cfg cs op))).
Proof.
  intros pol cfg cs op h it CI RAW A. destruct op; try discriminate; unfold cstep.
  - destruct (nthN (proxies cs) p) as [px|]; [|reflexivity].
    destruct (ensure_conn cs p px) as [[cs1 px1] c]. cbn [srv_step].
    destruct (snd (step cfg (srv (with_proxy cs1 p (bump px1))) (Open c items))) eqn:R;
      try (match goal with |- context [release ?a ?b ?c ?d] =>
             pose proof (delivered_release a b c d (ci_sid it)) as RR; destruct (release a b c d) as [cs4 tr] end;
           cbn [fst snd] in RR |- *; cbn [delivered]; rewrite RR; reflexivity).
    reflexivity.
  - destruct (iter_ready cs h0) eqn:IR; try reflexivity.
    apply iter_ready_Ready in IR. destruct IR as [B _].
    cbn [srv_step fst snd]. pose proof (sid_eqb_handles cs h h0 it it0 CI A B) as SE.
    destruct (snd (step cfg (srv (with_proxy cs p (bump px))) (Next c (ci_sid it0)))); simpl; try reflexivity.
    rewrite SE. destruct (h0 =? h); reflexivity.
  - destruct (iter_ready cs h0) eqn:IR; try reflexivity.
    apply iter_ready_Ready in IR. destruct IR as [B _]. destruct f.
    + match goal with |- context [release ?a ?b ?c ?d] =>
        pose proof (delivered_release a b c d (ci_sid it)) as RR; destruct (release a b c d) as [cs4 tr] end.
      cbn [fst snd] in RR |- *. exact RR.
    + cbn [srv_step].
      match goal with |- context [release ?a ?b ?c ?d] =>
        pose proof (delivered_release a b c d (ci_sid it)) as RR; destruct (release a b c d) as [cs4 tr] end.
      cbn [fst snd] in RR |- *. pose proof (sid_eqb_handles cs h h0 it it0 CI A B) as SE.
      destruct (snd (step cfg (srv (with_proxy cs p (bump px))) (Next c (ci_sid it0)))); simpl; try exact RR.
      rewrite SE. destruct (h0 =? h); simpl; rewrite RR; reflexivity.
  - destruct (nthN (iters cs) h0) as [it0|]; [|reflexivity].
    destruct (iter_ready cs h0); try reflexivity. destruct (ci_seq it0 =? p_seq px); reflexivity.
  - destruct (nthN (proxies cs) p) as [px|]; [|reflexivity].
    pose proof (delivered_release cfg cs p px (ci_sid it)) as RR. destruct (release cfg cs p px). exact RR.
  - destruct (nthN (proxies cs) p) as [px|]; [|reflexivity].
    pose proof (delivered_release cfg cs p px (ci_sid it)) as RR. destruct (release cfg cs p px) as [cs1 tr].
    destruct (ensure_conn cs1 p {| p_conn := None; p_seq := p_seq px |}) as [[? ?] ?]. exact RR.
  - reflexivity.
  - reflexivity.
Qed.

(* an operation naming a handle that does not exist (yet) gets nothing *)
Lemma cstep_no_iter : forall pol cfg cs op h, nthN (iters cs) h = None ->
  entry_taken h (op, snd (fst (cstep pol cfg cs op))) = [].
Proof.
  intros pol cfg cs op h A. destruct op; try reflexivity; unfold cstep.
  - destruct (N.eqb_spec h0 h).
    + subst. unfold iter_ready. rewrite A. reflexivity.
    + apply N.eqb_neq in n.
      match goal with |- entry_taken _ (_, ?r) = _ => destruct r end; try reflexivity. simpl. rewrite n. reflexivity.
  - destruct (N.eqb_spec h0 h).
    + subst. unfold iter_ready. rewrite A. reflexivity.
    + apply N.eqb_neq in n.
      match goal with |- entry_taken _ (_, ?r) = _ => destruct r as [| | | | | | |lost|] end; try reflexivity.
      destruct lost as [[]|]; try reflexivity. simpl. rewrite n. reflexivity.
Qed.

(* ---------------------------------------------------------------- the client-history invariant *)
Definition no_raw (ops : list cop) : bool := forallb (fun op => negb (is_raw op)) ops.

Record chist (cfg : config) (t0 : N) (cs : cstate) (ctr : ctrace) (st : trace) : Prop := {
  ch_cinv : cinv cs;
  ch_run : run cfg (init t0) (map fst st) = (srv cs, st);
  ch_len : length (iters cs) = length (copened ctr);
  ch_old : forall h it, nthN (iters cs) h = Some it ->
           taken ctr h = delivered st (ci_sid it) /\
           exists items, source_from 0 (map fst st) (ci_sid it) = Some items /\
                         nth_error (copened ctr) (N.to_nat h) = Some items;
  ch_new : forall h, nthN (iters cs) h = None -> taken ctr h = [] }.

Lemma taken_snoc : forall ctr e h, taken (ctr ++ [e]) h = taken ctr h ++ entry_taken h e.
Proof. intros. unfold taken. rewrite flat_map_app. simpl. rewrite app_nil_r. reflexivity. Qed.
Lemma copened_snoc : forall ctr e, copened (ctr ++ [e]) = copened ctr ++ entry_opened e.
Proof. intros. unfold copened. rewrite flat_map_app. simpl. rewrite app_nil_r. reflexivity. Qed.
Lemma entry_opened_nil : forall op r, (forall id, r <> COpened id) -> entry_opened (op, r) = [].
Proof. intros. destruct op; try reflexivity. destruct r; try reflexivity. exfalso. eapply H; eauto. Qed.

Lemma nthN_none_setN : forall A (l : list A) h k x, nthN (setN l h x) k = None -> nthN l k = None.
Proof.
  unfold nthN, setN. intros. apply nth_error_None. apply nth_error_None in H. rewrite length_set_nth in H. auto.
Qed.
Lemma nthN_app_cases : forall A (l : list A) x h y, nthN (l ++ [x]) h = Some y ->
  nthN l h = Some y \/ (N.to_nat h = length l /\ y = x /\ nthN l h = None).
Proof.
  unfold nthN. intros A l x h y H. destruct (Nat.lt_ge_cases (N.to_nat h) (length l)).
  - left. rewrite nth_error_app1 in H; auto.
  - right. rewrite nth_error_app2 in H by auto.
    destruct (N.to_nat h - length l)%nat eqn:E; simpl in H.
    + inversion H. split; [lia|]. split; auto. apply nth_error_None. lia.
    + destruct n; discriminate.
Qed.

Lemma chist_step : forall pol cfg t0 cs ctr st op, is_raw op = false -> chist cfg t0 cs ctr st ->
  chist cfg t0 (fst (fst (cstep pol cfg cs op))) (ctr ++ [(op, snd (fst (cstep pol cfg cs op)))])
        (st ++ snd (cstep pol cfg cs op)).
Proof.
  intros pol cfg t0 cs ctr st op RAW [CI RUN LEN OLD NEW].
  pose proof (cstep_iters pol cfg cs op) as IS.
  set (S := cstep pol cfg cs op) in *. set (cs' := fst (fst S)) in *. set (r := snd (fst S)) in *. set (frag := snd S) in *.
  assert (RUN' : run cfg (init t0) (map fst (st ++ frag)) = (srv cs', st ++ frag)).
  { rewrite map_app, run_app, RUN. cbn [fst snd]. unfold frag, cs', S. rewrite cstep_refines. reflexivity. }
  assert (DEL : forall h it, nthN (iters cs) h = Some it ->
            taken (ctr ++ [(op, r)]) h = delivered (st ++ frag) (ci_sid it)).
  { intros h it A. rewrite taken_snoc, delivered_app. destruct (OLD _ _ A) as [T _]. rewrite T. f_equal.
    symmetry. apply cstep_delivered; auto. }
  assert (SRC : forall h it, nthN (iters cs) h = Some it ->
            exists items, source_from 0 (map fst (st ++ frag)) (ci_sid it) = Some items /\
                          nth_error (copened ctr ++ entry_opened (op, r)) (N.to_nat h) = Some items).
  { intros h it A. destruct (OLD _ _ A) as [_ [items [S1 S2]]]. exists items. split.
    - rewrite map_app, source_from_app, S1. reflexivity.
    - rewrite nth_error_app1; auto. apply nth_error_Some. congruence. }
  destruct IS as [[E NO]|[[h0 [it0 [it1 [A0 [E [SID [_ NO]]]]]]]|[new [id [R [SID E]]]]]].
  - (* iterator objects unchanged *)
    split; auto.
    + apply cstep_cinv; auto.
    + rewrite E, copened_snoc, entry_opened_nil by auto. rewrite app_nil_r. auto.
    + rewrite E. intros h it A. split; [apply DEL; auto|]. rewrite copened_snoc. apply SRC; auto.
    + rewrite E. intros h A. rewrite taken_snoc, (NEW _ A). apply cstep_no_iter; auto.
  - (* one iterator object updated, same stream id *)
    split; auto.
    + apply cstep_cinv; auto.
    + rewrite E, copened_snoc, entry_opened_nil by auto. rewrite app_nil_r. unfold setN. rewrite length_set_nth. auto.
    + rewrite E. intros h it A. destruct (N.eq_dec h0 h) as [EQ|NE].
      * subst h0. rewrite (nthN_setN_same _ _ _ _ _ A0) in A. inversion A; subst it. rewrite SID.
        split; [apply DEL; auto|]. rewrite copened_snoc. apply SRC; auto.
      * rewrite nthN_setN_other in A by auto. split; [apply DEL; auto|]. rewrite copened_snoc. apply SRC; auto.
    + rewrite E. intros h A. apply nthN_none_setN in A. rewrite taken_snoc, (NEW _ A). apply cstep_no_iter; auto.
  - (* a new stream was handed out *)
    destruct (cstep_opened pol cfg cs op id R) as [p [items [c [OP [F IDN]]]]].
    change (frag = [(Open c items, ROpened id)]) in F.
    assert (NID : next_id (srv cs) = opens (map fst st)).
    { pose proof (run_next_id cfg (map fst st) (init t0)) as X. rewrite RUN in X. simpl in X. lia. }
    split; auto.
    + apply cstep_cinv; auto.
    + rewrite E, copened_snoc, app_length, app_length. rewrite R, OP. simpl. lia.
    + rewrite E. intros h it A. apply nthN_app_cases in A. destruct A as [A|[HL [IT A]]].
      * split; [apply DEL; auto|]. rewrite copened_snoc. apply SRC; auto.
      * subst it. rewrite SID. split.
        -- rewrite taken_snoc, (NEW _ A), delivered_app, F.
           pose proof (hist_inv_run cfg t0 (map fst st)) as HI. rewrite RUN in HI. cbn [fst snd] in HI.
           rewrite (h_fresh _ _ _ HI) by lia. rewrite R, OP. reflexivity.
        -- exists items. split.
           ++ rewrite map_app, source_from_app, F. rewrite (source_from_ge (map fst st) 0 id) by lia.
              simpl. rewrite <- NID, <- IDN, N.eqb_refl. reflexivity.
           ++ rewrite copened_snoc, R, OP. simpl. rewrite HL, LEN.
              rewrite nth_error_app2 by lia. rewrite Nat.sub_diag. reflexivity.
    + rewrite E. intros h A. assert (A' : nthN (iters cs) h = None).
      { unfold nthN in *. apply nth_error_None. apply nth_error_None in A. rewrite app_length in A. simpl in A. lia. }
      rewrite taken_snoc, (NEW _ A'). apply cstep_no_iter; auto.
Qed.

Lemma chist_run : forall pol cfg t0 n ops, no_raw ops = true ->
  let R := crun pol cfg (cinit t0 n) ops in chist cfg t0 (c_state R) (c_trace R) (s_trace R).
Proof.
  intros pol cfg t0 n ops. induction ops as [|op ops IH] using rev_ind; intros NR.
  - simpl. split; try reflexivity.
    + apply cinv_init.
    + intros h it A. unfold nthN in A. simpl in A. destruct (N.to_nat h); discriminate.
  - unfold no_raw in NR. rewrite forallb_app in NR. apply andb_true_iff in NR. destruct NR as [NR NO].
    simpl in NO. rewrite andb_true_r in NO. apply negb_true_iff in NO.
    specialize (IH NR). cbv zeta in IH |- *. rewrite crun_snoc. cbv zeta.
    unfold c_state at 1, c_trace at 1, s_trace at 1. cbn [fst snd]. apply chist_step; auto.
Qed.

(* ---------------------------------------------------------------- client streams: items *)
Lemma handle_exists : forall cfg t0 cs ctr st h items, chist cfg t0 cs ctr st ->
  nth_error (copened ctr) (N.to_nat h) = Some items -> exists it, nthN (iters cs) h = Some it.
Proof.
  intros cfg t0 cs ctr st h items H A. unfold nthN.
  destruct (nth_error (iters cs) (N.to_nat h)) eqn:E; eauto.
  apply nth_error_None in E. rewrite (ch_len _ _ _ _ _ H) in E.
  assert (nth_error (copened ctr) (N.to_nat h) <> None) by congruence. apply nth_error_Some in H0. lia.
Qed.

Lemma client_items_exact : forall pol cfg t0 n ops h items, no_raw ops = true ->
  let R := crun pol cfg (cinit t0 n) ops in
  nth_error (copened (c_trace R)) (N.to_nat h) = Some items ->
  exists suffix, items = yields (taken (c_trace R) h) ++ suffix.
Proof.
  intros pol cfg t0 n ops h items NR R A. pose proof (chist_run pol cfg t0 n ops NR) as H. fold R in H.
  destruct (handle_exists _ _ _ _ _ _ _ H A) as [it IT].
  destruct (ch_old _ _ _ _ _ H _ _ IT) as [T [items' [S1 S2]]]. rewrite A in S2. inversion S2; subst items'.
  pose proof (hist_inv_run cfg t0 (map fst (s_trace R))) as HI. rewrite (ch_run _ _ _ _ _ H) in HI. cbn [fst snd] in HI.
  rewrite T. eapply (h_prefix _ _ _ HI); eauto.
Qed.

(* items whose answer was lost in transit: the only difference between handed out and received *)
Definition entry_lost (h : N) (e : cop * cresp) : bool :=
  match e with (CNextFault k _, CCommErr (Some _)) => k =? h | _ => false end.
Lemma received_taken : forall tr h, existsb (entry_lost h) tr = false -> received tr h = taken tr h.
Proof.
  induction tr as [|[op r] tr IH]; intros h H; [reflexivity|].
  simpl in H. apply orb_false_iff in H. destruct H as [H1 H2].
  unfold received, taken in *. simpl. rewrite IH by auto. f_equal.
  destruct op; try reflexivity. destruct r; try reflexivity. destruct lost as [[]|]; try reflexivity.
  simpl in H1. rewrite H1. reflexivity.
Qed.

Lemma crun_entries : forall pol cfg ops cs e, In e (c_trace (crun pol cfg cs ops)) ->
  exists cs0, snd e = snd (fst (cstep pol cfg cs0 (fst e))) /\ In (fst e) ops.
Proof.
  induction ops as [|op ops IH]; intros cs e H; [destruct H|].
  rewrite crun_cons in H. cbv zeta in H. unfold c_trace at 1 in H. cbn [fst snd] in H. destruct H as [H|H].
  - subst e. exists cs. split; [reflexivity | left; reflexivity].
  - destruct (IH _ _ H) as [cs0 [A B]]. exists cs0. split; auto. right; auto.
Qed.

Lemma reqlost_resp : forall pol cfg cs h r, snd (fst (cstep pol cfg cs (CNextFault h ReqLost))) <> CCommErr (Some r).
Proof.
  intros. unfold cstep. destruct (iter_ready cs h); try discriminate.
  destruct (release cfg (with_proxy cs p (bump px)) p (bump px)). discriminate.
Qed.

Lemma no_reply_lost : forall pol cfg ops cs h, forallb (fun op => negb (reply_lost_on h op)) ops = true ->
  existsb (entry_lost h) (c_trace (crun pol cfg cs ops)) = false.
Proof.
  intros pol cfg ops cs h H. destruct (existsb (entry_lost h) (c_trace (crun pol cfg cs ops))) eqn:E; auto.
  apply existsb_exists in E. destruct E as [[op r] [IN L]]. destruct (crun_entries _ _ _ _ _ IN) as [cs0 [A B]].
  simpl in A, B. rewrite forallb_forall in H. specialize (H _ B). unfold entry_lost in L.
  destruct op; try discriminate. destruct r; try discriminate. destruct lost; try discriminate.
  destruct f; [exfalso; eapply reqlost_resp; eauto|]. simpl in H. rewrite L in H. discriminate.
Qed.

(* ---------------------------------------------------------------- client streams: how next() answers *)
Lemma next_ready_resp : forall pol cfg cs h it p px c, iter_ready cs h = Ready it p px c ->
  snd (fst (cstep pol cfg cs (CNext h))) = next_resp (snd (step cfg (srv cs) (Next c (ci_sid it)))).
Proof. intros. unfold cstep. rewrite H. reflexivity. Qed.

Lemma client_next_answer : forall pol cfg t0 n ops h, no_raw ops = true ->
  let R := crun pol cfg (cinit t0 n) ops in
  match snd (fst (cstep pol cfg (c_state R) (CNext h))) with
  | CItem v => exists items r, nth_error (copened (c_trace R)) (N.to_nat h) = Some items /\
                               items = yields (taken (c_trace R) h) ++ Yield v :: r
  | CStop => iter_ready (c_state R) h = Dropped \/
             nth_error (copened (c_trace R)) (N.to_nat h) = Some (yields (taken (c_trace R) h))
  | CRaised e => exists items r, nth_error (copened (c_trace R)) (N.to_nat h) = Some items /\
                                 items = yields (taken (c_trace R) h) ++ Raise e :: r
  | _ => True
  end.
Proof.
  intros pol cfg t0 n ops h NR R. pose proof (chist_run pol cfg t0 n ops NR) as H. fold R in H.
  destruct (iter_ready (c_state R) h) eqn:IR.
  - unfold cstep. rewrite IR. exact I.
  - unfold cstep. rewrite IR. left. reflexivity.
  - unfold cstep. rewrite IR. exact I.
  - rewrite (next_ready_resp _ _ _ _ _ _ _ _ IR). apply iter_ready_Ready in IR. destruct IR as [IT _].
    destruct (ch_old _ _ _ _ _ H _ _ IT) as [T [items [S1 S2]]].
    pose proof (next_answer_exact cfg t0 (map fst (s_trace R)) c (ci_sid it)) as NA. cbv zeta in NA.
    rewrite (ch_run _ _ _ _ _ H) in NA. cbn [fst snd] in NA. rewrite <- T in NA. rewrite S1 in NA.
    destruct (snd (step cfg (srv (c_state R)) (Next c (ci_sid it)))); simpl; auto.
    + destruct NA as [r E]. inversion E. eauto.
    + right. inversion NA. rewrite S2. congruence.
    + destruct NA as [r E]. inversion E. eauto.
Qed.

(* ---------------------------------------------------------------- client streams: ending *)
Lemma iters_step_persist : forall l l' r h it, iters_step l l' r -> nthN l h = Some it ->
  exists it', nthN l' h = Some it' /\ ci_sid it' = ci_sid it /\ (ci_proxy it = None -> ci_proxy it' = None).
Proof.
  intros l l' r h it [[E _]|[[h0 [it0 [it1 [A0 [E [S [M _]]]]]]]|[new [id [_ [_ E]]]]]] A; subst l'.
  - eauto.
  - destruct (N.eq_dec h0 h).
    + subst. rewrite A in A0. inversion A0; subst. exists it1. split; [eapply nthN_setN_same; eauto|auto].
    + exists it. rewrite nthN_setN_other by auto. auto.
  - exists it. split; [apply nthN_app_old; auto|auto].
Qed.

Lemma asks_eq : forall h op, asks h op = true -> op = CNext h \/ exists f, op = CNextFault h f.
Proof.
  intros h op H. destruct op; try discriminate; simpl in H; apply N.eqb_eq in H; subst; eauto.
Qed.

(* an iterator object that has dropped its proxy answers StopIteration, locally, for ever *)
Lemma dropped_forever : forall pol cfg ops cs h it, nthN (iters cs) h = Some it -> ci_proxy it = None ->
  forall e, In e (c_trace (crun pol cfg cs ops)) -> asks h (fst e) = true -> snd e = CStop.
Proof.
  induction ops as [|op ops IH]; intros cs h it A D e IN Q; [destruct IN|].
  rewrite crun_cons in IN. cbv zeta in IN. unfold c_trace at 1 in IN. cbn [fst snd] in IN. destruct IN as [IN|IN].
  - subst e. cbn [fst snd] in *. pose proof (iter_ready_dropped_iff _ _ _ A D) as IR.
    destruct (asks_eq _ _ Q) as [E|[f E]]; subst op; unfold cstep; rewrite IR; reflexivity.
  - destruct (iters_step_persist _ _ _ _ _ (cstep_iters pol cfg cs op) A) as [it' [A' [_ M]]].
    eapply IH; eauto.
Qed.

Lemma stop_drops : forall pol cfg cs h op, drop_stop pol = true -> asks h op = true ->
  snd (fst (cstep pol cfg cs op)) = CStop ->
  exists it, nthN (iters (fst (fst (cstep pol cfg cs op)))) h = Some it /\ ci_proxy it = None.
Proof.
  intros pol cfg cs h op DS Q R. destruct (asks_eq _ _ Q) as [E|[f E]]; subst op; unfold cstep in *.
  - destruct (iter_ready cs h) eqn:IR; try discriminate.
    + apply iter_ready_Dropped in IR. exact IR.
    + apply iter_ready_Ready in IR. destruct IR as [A _]. cbn [srv_step fst snd with_iter with_srv with_proxy iters srv] in *.
      eexists. split; [eapply nthN_setN_same; eauto|]. cbn [ci_proxy].
      destruct (snd (step cfg (srv cs) (Next c (ci_sid it)))); try discriminate. simpl. rewrite DS. reflexivity.
  - destruct (iter_ready cs h) eqn:IR; try discriminate.
    + apply iter_ready_Dropped in IR. exact IR.
    + exfalso. destruct f.
      * destruct (release cfg (with_proxy cs p (bump px)) p (bump px)). discriminate.
      * cbn [srv_step] in R.
        match goal with H : context [release ?a ?b ?c ?d] |- _ => destruct (release a b c d) end. discriminate.
Qed.

Lemma stop_ever_after : forall pol cfg cs h op ops, drop_stop pol = true -> asks h op = true ->
  snd (fst (cstep pol cfg cs op)) = CStop ->
  forall e, In e (c_trace (crun pol cfg (fst (fst (cstep pol cfg cs op))) ops)) -> asks h (fst e) = true -> snd e = CStop.
Proof.
  intros. destruct (stop_drops _ _ _ _ _ H H0 H1) as [it [A D]]. eapply dropped_forever; eauto.
Qed.

(* with the except-clause as it is in the source (drop on StopIteration only), a dropped proxy reference
   means: this client stream was answered StopIteration before, or was closed *)
Definition entry_ended (h : N) (e : cop * cresp) : bool :=
  match e with
  | (CNext k, CStop) | (CNextFault k _, CStop) | (CClose k, _) => k =? h
  | _ => false
  end.
Definition ended (tr : ctrace) (h : N) : bool := existsb (entry_ended h) tr.

Lemma dropped_means_ended : forall pol cfg t0 n ops,
  drop_raised pol = false -> drop_error pol = false -> drop_comm pol = false ->
  let R := crun pol cfg (cinit t0 n) ops in
  forall h it, nthN (iters (c_state R)) h = Some it -> ci_proxy it = None -> ended (c_trace R) h = true.
Proof.
  intros pol cfg t0 n ops PR PE PC. induction ops as [|op ops IH] using rev_ind.
  - simpl. intros h it A. unfold nthN in A. simpl in A. destruct (N.to_nat h); discriminate.
  - cbv zeta in *. rewrite crun_snoc. cbv zeta. unfold c_state at 1, c_trace at 1. cbn [fst snd].
    set (cs := c_state (crun pol cfg (cinit t0 n) ops)) in *. set (ctr := c_trace (crun pol cfg (cinit t0 n) ops)) in *.
    intros h it A D. unfold c_trace at 1. cbn [fst snd]. unfold ended. rewrite existsb_app. apply orb_true_iff.
    destruct (cstep_iters_full pol cfg cs op) as [[E _]|[[h0 [it0 [it1 [A0 [E [_ [_ [_ CAUSE]]]]]]]]|[new [id [_ [_ [E NN]]]]]]];
      rewrite E in A.
    + left. eapply IH; eauto.
    + destruct (N.eq_dec h0 h).
      * subst h0. rewrite (nthN_setN_same _ _ _ _ _ A0) in A. inversion A; subst it1.
        destruct (CAUSE D) as [D0|[[OP [r0 [RR DR]]]|[[f [_ C]]|C]]].
        -- left. eapply IH; eauto.
        -- right. simpl. rewrite orb_false_r. subst op. rewrite RR.
           destruct r0; simpl in DR; try discriminate; try (rewrite PR in DR; discriminate); try (rewrite PE in DR; discriminate).
           simpl. apply N.eqb_refl.
        -- rewrite PC in C. discriminate.
        -- right. simpl. rewrite orb_false_r. rewrite C. simpl. apply N.eqb_refl.
      * rewrite nthN_setN_other in A by auto. left. eapply IH; eauto.
    + apply nthN_app_cases in A. destruct A as [A|[_ [IT _]]].
      * left. eapply IH; eauto.
      * subst it. contradiction.
Qed.

(* once the daemon has forgotten the stream, its client stream never yields an item or re-raises again *)
Definition no_item (r : cresp) : Prop := match r with CItem _ | CRaised _ => False | _ => True end.

Lemma dead_answer : forall pol cfg cs h it op, nthN (iters cs) h = Some it ->
  lookup (ci_sid it) (tbl (srv cs)) = None -> asks h op = true -> no_item (snd (fst (cstep pol cfg cs op))).
Proof.
  intros pol cfg cs h it op A L Q. destruct (asks_eq _ _ Q) as [E|[f E]]; subst op; unfold cstep.
  - destruct (iter_ready cs h) eqn:IR; try exact I.
    apply iter_ready_Ready in IR. destruct IR as [B _]. rewrite A in B. inversion B; subst it0.
    cbn [srv_step fst snd with_proxy srv]. rewrite step_next_resp, L. exact I.
  - destruct (iter_ready cs h) eqn:IR; try exact I. destruct f.
    + destruct (release cfg (with_proxy cs p (bump px)) p (bump px)). exact I.
    + cbn [srv_step]. match goal with |- context [release ?a ?b ?c ?d] => destruct (release a b c d) end. exact I.
Qed.

Lemma sid_lt : forall cs h it, cinv cs -> nthN (iters cs) h = Some it -> ci_sid it < next_id (srv cs).
Proof.
  intros cs h it [_ LT _] A. rewrite Forall_forall in LT. apply LT. apply in_map. eapply nth_error_In. exact A.
Qed.

Lemma dead_forever : forall pol cfg ops cs h it, cinv cs -> nthN (iters cs) h = Some it ->
  lookup (ci_sid it) (tbl (srv cs)) = None ->
  forall e, In e (c_trace (crun pol cfg cs ops)) -> asks h (fst e) = true -> no_item (snd e).
Proof.
  induction ops as [|op ops IH]; intros cs h it CI A L e IN Q; [destruct IN|].
  rewrite crun_cons in IN. cbv zeta in IN. unfold c_trace at 1 in IN. cbn [fst snd] in IN. destruct IN as [IN|IN].
  - subst e. cbn [fst snd] in *. eapply dead_answer; eauto.
  - destruct (iters_step_persist _ _ _ _ _ (cstep_iters pol cfg cs op) A) as [it' [A' [S _]]].
    refine (IH _ h it' _ A' _ e IN Q).
    + apply cstep_cinv; auto.
    + rewrite S. rewrite cstep_srv. apply forgotten_stays; auto.
      * apply ci_srv; auto.
      * eapply sid_lt; eauto.
Qed.

Lemma end_forgets : forall pol cfg cs h it p px c, cinv cs -> iter_ready cs h = Ready it p px c ->
  match snd (fst (cstep pol cfg cs (CNext h))) with
  | CStop | CRaised _ | CError => lookup (ci_sid it) (tbl (srv (fst (fst (cstep pol cfg cs (CNext h)))))) = None
  | _ => True
  end.
Proof.
  intros pol cfg cs h it p px c CI IR. unfold cstep. rewrite IR.
  cbn [srv_step fst snd with_iter with_srv with_proxy srv].
  pose proof (ends_removed cfg (srv cs) c (ci_sid it) (ci_srv _ CI)) as ER.
  destruct (snd (step cfg (srv cs) (Next c (ci_sid it)))); simpl; auto.
Qed.

(* a re-raised error (or a "terminated" answer) ends the client stream: never an item, never a second raise *)
Lemma failed_then_ended : forall pol cfg cs h ops, cinv cs ->
  match snd (fst (cstep pol cfg cs (CNext h))) with CRaised _ | CError => True | _ => False end ->
  forall e, In e (c_trace (crun pol cfg (fst (fst (cstep pol cfg cs (CNext h)))) ops)) ->
            asks h (fst e) = true -> no_item (snd e).
Proof.
  intros pol cfg cs h ops CI R e IN Q.
  destruct (iter_ready cs h) eqn:IR; try (unfold cstep in R; rewrite IR in R; contradiction).
  pose proof (end_forgets pol cfg cs h it p px c CI IR) as EF.
  pose proof (iter_ready_Ready _ _ _ _ _ _ IR) as [A _].
  destruct (iters_step_persist _ _ _ _ _ (cstep_iters pol cfg cs (CNext h)) A) as [it' [A' [S _]]].
  refine (dead_forever pol cfg ops _ h it' _ A' _ e IN Q).
  - apply cstep_cinv; auto.
  - rewrite S. destruct (snd (fst (cstep pol cfg cs (CNext h)))); try contradiction; auto.
Qed.

(* ---------------------------------------------------------------- communication error, reconnect, resume *)
Definition is_time (op : cop) : bool := match op with CTick _ | CHousekeep => true | _ => false end.
Definition time_event (op : cop) : list event :=
  match op with CTick dt => [Tick dt] | CHousekeep => [Housekeep] | _ => [] end.

Lemma time_ops : forall pol cfg mid cs, forallb is_time mid = true ->
  c_state (crun pol cfg cs mid) = with_srv cs (fst (run cfg (srv cs) (flat_map time_event mid))).
Proof.
  induction mid as [|op mid IH]; intros cs H.
  - simpl. destruct cs; reflexivity.
  - simpl in H. apply andb_true_iff in H. destruct H as [H0 H].
    rewrite crun_cons. cbv zeta. unfold c_state at 1. cbn [fst].
    destruct op; try discriminate; unfold cstep; cbn [srv_step fst snd]; rewrite IH by auto;
      cbn [with_srv srv flat_map time_event app]; rewrite run_cons; reflexivity.
Qed.

Lemma client_resume : forall pol cfg cs h it p px c s v r mid,
  cinv cs -> drop_comm pol = false -> 0 < linger cfg ->
  iter_ready cs h = Ready it p px c ->
  lookup (ci_sid it) (tbl (srv cs)) = Some s -> owner s = Some c -> rest s = Yield v :: r ->
  forallb is_time mid = true ->
  within (linger_strict cfg) (linger cfg) (ticks (flat_map time_event mid)) = true ->
  (lifetime cfg = 0 \/
   within (lifetime_strict cfg) (lifetime cfg) (now (srv cs) + ticks (flat_map time_event mid) - created s) = true) ->
  let S1 := cstep pol cfg cs (CNextFault h ReqLost) in
  let cs2 := c_state (crun pol cfg (fst (fst S1)) mid) in
  let cs3 := fst (fst (cstep pol cfg cs2 (CReconnect p))) in
  snd (fst S1) = CCommErr None /\
  snd (fst (cstep pol cfg cs2 (CNext h))) = CClosedLocal /\
  snd (fst (cstep pol cfg cs3 (CNext h))) = CItem v.
Proof.
  intros pol cfg cs h it p px c s v r mid CI PC LG IR L O RS TM W1 W2.
  pose proof (iter_ready_Ready _ _ _ _ _ _ IR) as [A [B [PX PCN]]].
  set (st1 := fst (step cfg (srv cs) (Disconnect c))).
  set (it1 := {| ci_proxy := ci_proxy it; ci_sid := ci_sid it; ci_seq := ci_seq it + 1 |}).
  set (px1 := {| p_conn := None; p_seq := p_seq px + 1 |}).
  set (cs1 := with_iter (with_proxy (with_srv (with_proxy cs p (bump px)) st1) p px1) h it1).
  assert (E1 : cstep pol cfg cs (CNextFault h ReqLost) =
               (cs1, CCommErr None, [(Disconnect c, snd (step cfg (srv cs) (Disconnect c)))])).
  { unfold cstep. rewrite IR. unfold release. cbn [bump p_conn]. rewrite PCN, PC. reflexivity. }
  cbv zeta. rewrite E1. cbn [fst snd]. split; [reflexivity|].
  rewrite time_ops by auto.
  set (st2 := fst (run cfg (srv cs1) (flat_map time_event mid))).
  set (cs2 := with_srv cs1 st2).
  assert (NI : nthN (iters cs2) h = Some it1) by (unfold cs2, cs1; cbn [with_srv with_iter iters]; eapply nthN_setN_same; eauto).
  assert (NP : nthN (proxies cs2) p = Some px1).
  { unfold cs2, cs1. cbn [with_srv with_iter with_proxy proxies]. eapply nthN_setN_same. eapply nthN_setN_same. eauto. }
  split.
  - unfold cstep, iter_ready. rewrite NI. cbn [ci_proxy it1]. rewrite B, NP. reflexivity.
  - set (px3 := {| p_conn := Some (next_conn cs2); p_seq := p_seq px1 |}).
    set (cs3 := with_proxy (fst (fresh_conn cs2)) p px3).
    assert (E3 : fst (fst (cstep pol cfg cs2 (CReconnect p))) = cs3).
    { unfold cstep. rewrite NP. unfold release, ensure_conn. cbn [p_conn px1]. reflexivity. }
    rewrite E3.
    assert (IR3 : iter_ready cs3 h = Ready it1 p px3 (next_conn cs2)).
    { unfold iter_ready. unfold cs3 at 1. cbn [with_proxy fresh_conn fst iters]. rewrite NI. cbn [ci_proxy it1]. rewrite B.
      unfold cs3. cbn [with_proxy fresh_conn fst proxies]. erewrite nthN_setN_same by exact NP. reflexivity. }
    rewrite (next_ready_resp _ _ _ _ _ _ _ _ IR3).
    pose proof (linger_resume cfg (srv cs) (ci_sid it) s c (next_conn cs2) v r (flat_map time_event mid)
                  (ci_srv _ CI) LG L O RS) as LR.
    assert (U : forallb (fun ev => negb (touches (ci_sid it) ev)) (flat_map time_event mid) = true).
    { clear - TM. induction mid as [|op mid IH]; [reflexivity|]. simpl in TM. apply andb_true_iff in TM.
      destruct TM as [T0 TM]. destruct op; try discriminate; simpl; apply IH; auto. }
    specialize (LR U W1 W2). cbv zeta in LR. rewrite run_cons in LR. cbn [fst] in LR. destruct LR as [LR _].
    assert (SRV3 : srv cs3 = fst (run cfg st1 (flat_map time_event mid))) by reflexivity.
    rewrite SRV3. change (ci_sid it1) with (ci_sid it). unfold st1. rewrite LR. reflexivity.
Qed.

(* ---------------------------------------------------------------- packaged for client histories from the start *)
Definition cafter (pol : cpolicy) (cfg : config) (t0 n : N) (ops : list cop) := crun pol cfg (cinit t0 n) ops.

Lemma cafter_cinv : forall pol cfg t0 n ops, cinv (c_state (cafter pol cfg t0 n ops)).
Proof. intros. apply crun_cinv. apply cinv_init. Qed.

Lemma client_received_exact : forall pol cfg t0 n ops h items, no_raw ops = true ->
  forallb (fun op => negb (reply_lost_on h op)) ops = true ->
  let R := cafter pol cfg t0 n ops in
  nth_error (copened (c_trace R)) (N.to_nat h) = Some items ->
  received (c_trace R) h = taken (c_trace R) h /\ exists suffix, items = yields (received (c_trace R) h) ++ suffix.
Proof.
  intros pol cfg t0 n ops h items NR NL R A.
  assert (E : received (c_trace R) h = taken (c_trace R) h).
  { apply received_taken. apply no_reply_lost. auto. }
  split; auto. rewrite E. eapply client_items_exact; eauto.
Qed.

Lemma client_stop_exact : forall pol cfg t0 n ops h,
  drop_raised pol = false -> drop_error pol = false -> drop_comm pol = false -> no_raw ops = true ->
  let R := cafter pol cfg t0 n ops in
  snd (fst (cstep pol cfg (c_state R) (CNext h))) = CStop ->
  ended (c_trace R) h = true \/ nth_error (copened (c_trace R)) (N.to_nat h) = Some (yields (taken (c_trace R) h)).
Proof.
  intros pol cfg t0 n ops h PR PE PC NR R S.
  pose proof (client_next_answer pol cfg t0 n ops h NR) as NA. cbv zeta in NA. fold (cafter pol cfg t0 n ops) in NA.
  fold R in NA. rewrite S in NA. destruct NA as [D|X]; auto.
  left. apply iter_ready_Dropped in D. destruct D as [it [A D]].
  eapply (dropped_means_ended pol cfg t0 n ops PR PE PC); eauto.
Qed.

Lemma client_failed_then_ended : forall pol cfg t0 n ops h ops',
  let cs := c_state (cafter pol cfg t0 n ops) in
  match snd (fst (cstep pol cfg cs (CNext h))) with CRaised _ | CError => True | _ => False end ->
  forall e, In e (c_trace (crun pol cfg (fst (fst (cstep pol cfg cs (CNext h)))) ops')) ->
            asks h (fst e) = true -> no_item (snd e).
Proof. intros pol cfg t0 n ops h ops' cs. apply failed_then_ended. apply cafter_cinv. Qed.

Lemma client_resume_reach : forall pol cfg t0 n ops h it p px c s v r mid,
  drop_comm pol = false -> 0 < linger cfg ->
  let cs := c_state (cafter pol cfg t0 n ops) in
  iter_ready cs h = Ready it p px c ->
  lookup (ci_sid it) (tbl (srv cs)) = Some s -> owner s = Some c -> rest s = Yield v :: r ->
  forallb is_time mid = true ->
  within (linger_strict cfg) (linger cfg) (ticks (flat_map time_event mid)) = true ->
  (lifetime cfg = 0 \/
   within (lifetime_strict cfg) (lifetime cfg) (now (srv cs) + ticks (flat_map time_event mid) - created s) = true) ->
  let S1 := cstep pol cfg cs (CNextFault h ReqLost) in
  let cs2 := c_state (crun pol cfg (fst (fst S1)) mid) in
  let cs3 := fst (fst (cstep pol cfg cs2 (CReconnect p))) in
  snd (fst S1) = CCommErr None /\
  snd (fst (cstep pol cfg cs2 (CNext h))) = CClosedLocal /\
  snd (fst (cstep pol cfg cs3 (CNext h))) = CItem v.
Proof. intros pol cfg t0 n ops h it p px c s v r mid PC LG cs. apply client_resume; auto. apply cafter_cinv. Qed.
