(* C10 — lemmas about Model/Streams.v. *)
From Coq Require Import List NArith Bool Lia.
Import ListNotations.
From V Require Import Model.Streams.
Local Open Scope N_scope.

(* ---------------------------------------------------------------- tables *)
Definition keys (t : table) : list sid := map fst t.
Definition keys_lt (n : sid) (t : table) : Prop := Forall (fun kv => fst kv < n) t.

Lemma lookup_none_notin : forall id t, ~ In id (keys t) -> lookup id t = None.
Proof.
  induction t as [|[k s] t IH]; simpl; intros H; auto.
  destruct (N.eqb_spec k id); [exfalso; apply H; auto|]. apply IH. intro; apply H; auto.
Qed.

Lemma lookup_some_in : forall id t s, lookup id t = Some s -> In (id, s) t.
Proof.
  induction t as [|[k s0] t IH]; simpl; intros s H; [discriminate|].
  destruct (N.eqb_spec k id); [inversion H; subst; auto | right; auto].
Qed.

Lemma lookup_some_key : forall id t s, lookup id t = Some s -> In id (keys t).
Proof. intros. apply lookup_some_in in H. unfold keys. change id with (fst (id, s)). apply in_map; auto. Qed.

Lemma keys_lt_lookup : forall n t id s, keys_lt n t -> lookup id t = Some s -> id < n.
Proof.
  intros. apply lookup_some_in in H0. unfold keys_lt in H. rewrite Forall_forall in H. apply (H _ H0).
Qed.

Lemma lookup_remove_same : forall id t, lookup id (remove id t) = None.
Proof.
  induction t as [|[k s] t IH]; simpl; auto.
  destruct (N.eqb_spec k id); auto. simpl. destruct (N.eqb_spec k id); [contradiction|auto].
Qed.

Lemma lookup_remove_other : forall id k t, k <> id -> lookup k (remove id t) = lookup k t.
Proof.
  induction t as [|[k0 s] t IH]; simpl; intros; auto.
  destruct (N.eqb_spec k0 id); simpl.
  - destruct (N.eqb_spec k0 k); [subst; contradiction | auto].
  - destruct (N.eqb_spec k0 k); auto.
Qed.

Lemma lookup_update_same : forall id s' t s, lookup id t = Some s -> lookup id (update id s' t) = Some s'.
Proof.
  induction t as [|[k s0] t IH]; simpl; intros s H; [discriminate|].
  destruct (N.eqb_spec k id); simpl.
  - destruct (N.eqb_spec k id); [auto|contradiction].
  - destruct (N.eqb_spec k id); [contradiction|eauto].
Qed.

Lemma lookup_update_other : forall id k s' t, k <> id -> lookup k (update id s' t) = lookup k t.
Proof.
  induction t as [|[k0 s0] t IH]; simpl; intros; auto.
  destruct (N.eqb_spec k0 id); simpl.
  - destruct (N.eqb_spec k0 k); [subst; contradiction | auto].
  - destruct (N.eqb_spec k0 k); auto.
Qed.

Lemma lookup_app : forall k t id s,
  lookup k (t ++ [(id, s)]) = match lookup k t with Some x => Some x | None => if id =? k then Some s else None end.
Proof.
  induction t as [|[k0 s0] t IH]; simpl; intros; auto.
  destruct (N.eqb_spec k0 k); auto.
Qed.

Lemma lookup_map : forall k f t,
  lookup k (map (fun kv : sid * stream => (fst kv, f (snd kv))) t) = option_map f (lookup k t).
Proof.
  induction t as [|[k0 s0] t IH]; simpl; auto.
  destruct (N.eqb_spec k0 k); auto.
Qed.

Lemma lookup_filter : forall k p t, NoDup (keys t) ->
  lookup k (filter (fun kv : sid * stream => p (snd kv)) t) =
  match lookup k t with Some s => if p s then Some s else None | None => None end.
Proof.
  induction t as [|[k0 s0] t IH]; simpl; intros ND; auto.
  inversion ND; subst.
  destruct (p s0) eqn:P; simpl.
  - destruct (N.eqb_spec k0 k); [rewrite P; auto | auto].
  - destruct (N.eqb_spec k0 k).
    + subst. rewrite P. rewrite IH by auto. rewrite (lookup_none_notin k t); auto.
    + auto.
Qed.

Lemma keys_remove_incl : forall id t x, In x (keys (remove id t)) -> In x (keys t).
Proof.
  induction t as [|[k s] t IH]; simpl; intros; auto.
  destruct (k =? id); simpl in *; intuition.
Qed.
Lemma nodup_remove : forall id t, NoDup (keys t) -> NoDup (keys (remove id t)).
Proof.
  induction t as [|[k s] t IH]; simpl; intros ND; auto. inversion ND; subst.
  destruct (k =? id); auto. simpl. constructor; auto. intro. apply H1. eapply keys_remove_incl; eauto.
Qed.
Lemma keys_update : forall id s' t, keys (update id s' t) = keys t.
Proof.
  induction t as [|[k s] t IH]; simpl; auto. destruct (k =? id); simpl; congruence.
Qed.
Lemma keys_map : forall (f : stream -> stream) t, keys (map (fun kv => (fst kv, f (snd kv))) t) = keys t.
Proof. induction t as [|[k s] t IH]; simpl; congruence. Qed.
Lemma keys_filter_incl : forall (p : sid * stream -> bool) t x, In x (keys (filter p t)) -> In x (keys t).
Proof.
  induction t as [|kv t IH]; simpl; intros; auto. destruct (p kv); simpl in *; intuition.
Qed.
Lemma nodup_filter : forall (p : sid * stream -> bool) t, NoDup (keys t) -> NoDup (keys (filter p t)).
Proof.
  induction t as [|kv t IH]; simpl; intros ND; auto. inversion ND; subst.
  destruct (p kv); auto. simpl. constructor; auto. intro. apply H1. eapply keys_filter_incl; eauto.
Qed.

Lemma keys_lt_of_keys : forall n t, keys_lt n t <-> (forall x, In x (keys t) -> x < n).
Proof.
  unfold keys_lt, keys. intros. rewrite Forall_forall. split; intros H x Hx.
  - apply in_map_iff in Hx. destruct Hx as [kv [E I]]. subst. auto.
  - apply H. apply in_map. auto.
Qed.

Lemma lookup_all_none : forall t, (forall id, lookup id t = None) -> t = [].
Proof.
  destruct t as [|[k s] t]; auto. intros H. specialize (H k). simpl in H. rewrite N.eqb_refl in H. discriminate.
Qed.

Lemma NoDup_app_one : forall (l : list sid) x, NoDup l -> ~ In x l -> NoDup (l ++ [x]).
Proof.
  induction l as [|y l IH]; simpl; intros x ND NI.
  - constructor; [auto | constructor].
  - inversion ND; subst. constructor.
    + intro H. apply in_app_or in H. destruct H as [H|[H|[]]]; [contradiction | subst; apply NI; auto].
    + apply IH; auto.
Qed.

(* ---------------------------------------------------------------- state invariant *)
Record inv (st : state) : Prop := {
  inv_lt : keys_lt (next_id st) (tbl st);
  inv_nodup : NoDup (keys (tbl st)) }.

Lemma inv_init : forall t0, inv (init t0).
Proof. intros. split; simpl; constructor. Qed.

Lemma rest_reown : forall c s, rest (reown c s) = rest s.
Proof. intros. unfold reown. destruct (owner s); auto. Qed.

Lemma step_next_id : forall cfg st ev,
  next_id (fst (step cfg st ev)) = match ev with Open _ _ => next_id st + 1 | _ => next_id st end.
Proof.
  intros. destruct ev; simpl; auto.
  - destruct (streaming cfg); auto.
  - destruct (lookup id (tbl st)); auto. destruct (rest (reown c s)) as [|[v|e] r]; auto.
  - destruct (0 <? linger cfg); auto.
Qed.

Lemma step_next_id_le : forall cfg st ev, next_id st <= next_id (fst (step cfg st ev)).
Proof. intros. rewrite step_next_id. destruct ev; lia. Qed.

Lemma step_inv : forall cfg st ev, inv st -> inv (fst (step cfg st ev)).
Proof.
  intros cfg st ev [LT ND]. destruct ev; simpl.
  - destruct (streaming cfg); simpl; split; simpl.
    + apply keys_lt_of_keys. intros x Hx. unfold keys in Hx. rewrite map_app in Hx. apply in_app_or in Hx.
      destruct Hx as [Hx|Hx]. { rewrite keys_lt_of_keys in LT. specialize (LT x Hx). lia. }
      simpl in Hx. destruct Hx; [subst; lia | contradiction].
    + unfold keys. rewrite map_app. simpl. apply NoDup_app_one; auto.
      intro Hx. rewrite keys_lt_of_keys in LT. specialize (LT _ Hx). lia.
    + eapply Forall_impl; [|exact LT]. simpl. intros; lia.
    + auto.
  - destruct (lookup id (tbl st)) eqn:L; [|split; auto].
    destruct (rest (reown c s)) as [|[v|e] r]; simpl; split; simpl.
    + apply keys_lt_of_keys. intros x Hx. apply keys_remove_incl in Hx. rewrite keys_lt_of_keys in LT. auto.
    + apply nodup_remove; auto.
    + apply keys_lt_of_keys. intros x Hx. rewrite keys_update in Hx. rewrite keys_lt_of_keys in LT. auto.
    + rewrite keys_update. auto.
    + apply keys_lt_of_keys. intros x Hx. apply keys_remove_incl in Hx. rewrite keys_lt_of_keys in LT. auto.
    + apply nodup_remove; auto.
  - split; simpl.
    + apply keys_lt_of_keys. intros x Hx. apply keys_remove_incl in Hx. rewrite keys_lt_of_keys in LT. auto.
    + apply nodup_remove; auto.
  - destruct (0 <? linger cfg); simpl; split; simpl.
    + apply keys_lt_of_keys. intros x Hx. rewrite keys_map in Hx. rewrite keys_lt_of_keys in LT. auto.
    + rewrite keys_map; auto.
    + apply keys_lt_of_keys. intros x Hx. apply keys_filter_incl in Hx. rewrite keys_lt_of_keys in LT. auto.
    + apply nodup_filter; auto.
  - split; simpl.
    + apply keys_lt_of_keys. intros x Hx. apply keys_filter_incl in Hx. rewrite keys_lt_of_keys in LT. auto.
    + apply nodup_filter; auto.
  - split; simpl; auto.
Qed.

(* ---------------------------------------------------------------- one stream's view of a step *)
Definition sview (cfg : config) (nw : N) (nid id : sid) (o : option stream) (ev : event) : option stream :=
  match ev with
  | Open c items =>
      if streaming cfg && (nid =? id)
      then Some {| owner := Some c; created := nw; linger_since := 0; rest := items |} else o
  | Next c k =>
      if k =? id then
        match o with
        | None => None
        | Some s => match rest s with
                    | Yield v :: r => Some {| owner := owner (reown c s); created := created s;
                                              linger_since := linger_since (reown c s); rest := r |}
                    | _ => None
                    end
        end
      else o
  | CloseStream _ k => if k =? id then None else o
  | Disconnect c =>
      match o with
      | None => None
      | Some s => if 0 <? linger cfg then Some (disconnect_stream cfg nw c s)
                  else if owned_by c s then None else Some s
      end
  | Housekeep => match o with None => None | Some s => if expired cfg nw s then None else Some s end
  | Tick _ => o
  end.

Lemma created_reown : forall c s, created (reown c s) = created s.
Proof. intros. unfold reown. destruct (owner s); auto. Qed.

Lemma lookup_step : forall cfg st ev id, inv st ->
  lookup id (tbl (fst (step cfg st ev))) = sview cfg (now st) (next_id st) id (lookup id (tbl st)) ev.
Proof.
  intros cfg st ev id [LT ND]. destruct ev; simpl.
  - destruct (streaming cfg); simpl; auto. rewrite lookup_app.
    destruct (lookup id (tbl st)) eqn:L.
    + pose proof (keys_lt_lookup _ _ _ _ LT L). destruct (N.eqb_spec (next_id st) id); [lia|auto].
    + destruct (next_id st =? id); auto.
  - destruct (N.eqb_spec id0 id).
    + subst id0. destruct (lookup id (tbl st)) eqn:L; simpl; [|rewrite L; auto].
      rewrite rest_reown. destruct (rest s) as [|[v|e] r] eqn:R; simpl.
      * apply lookup_remove_same.
      * rewrite created_reown. erewrite lookup_update_same; eauto.
      * apply lookup_remove_same.
    + destruct (lookup id0 (tbl st)) eqn:L; simpl; auto.
      destruct (rest (reown c s)) as [|[v|e] r]; simpl.
      * apply lookup_remove_other; auto.
      * apply lookup_update_other; auto.
      * apply lookup_remove_other; auto.
  - destruct (N.eqb_spec id0 id).
    + subst. apply lookup_remove_same.
    + apply lookup_remove_other; auto.
  - destruct (0 <? linger cfg); simpl.
    + rewrite (lookup_map id (disconnect_stream cfg (now st) c)). destruct (lookup id (tbl st)); auto.
    + rewrite (lookup_filter id (fun s => negb (owned_by c s))) by auto.
      destruct (lookup id (tbl st)); auto. destruct (owned_by c s); auto.
  - rewrite (lookup_filter id (fun s => negb (expired cfg (now st) s))) by auto.
    destruct (lookup id (tbl st)); auto. destruct (expired cfg (now st) s); auto.
  - auto.
Qed.

Lemma step_next_resp : forall cfg st c id,
  snd (step cfg st (Next c id)) =
  match lookup id (tbl st) with
  | None => RError
  | Some s => match rest s with [] => RStop | Yield v :: _ => RItem v | Raise e :: _ => RRaised e end
  end.
Proof.
  intros. simpl. destruct (lookup id (tbl st)); auto. rewrite rest_reown.
  destruct (rest s) as [|[v|e] r]; auto.
Qed.

Lemma step_now : forall cfg st ev,
  now (fst (step cfg st ev)) = match ev with Tick dt => now st + dt | _ => now st end.
Proof.
  intros. destruct ev; simpl; auto.
  - destruct (streaming cfg); auto.
  - destruct (lookup id (tbl st)); auto. destruct (rest (reown c s)) as [|[v|e] r]; auto.
  - destruct (0 <? linger cfg); auto.
Qed.

(* ---------------------------------------------------------------- runs *)
Lemma run_cons : forall cfg st ev evs,
  run cfg st (ev :: evs) =
  (fst (run cfg (fst (step cfg st ev)) evs), (ev, snd (step cfg st ev)) :: snd (run cfg (fst (step cfg st ev)) evs)).
Proof.
  intros. simpl. destruct (step cfg st ev) as [st1 r]. simpl. destruct (run cfg st1 evs); auto.
Qed.

Lemma run_app : forall cfg evs st evs',
  run cfg st (evs ++ evs') =
  (fst (run cfg (fst (run cfg st evs)) evs'), snd (run cfg st evs) ++ snd (run cfg (fst (run cfg st evs)) evs')).
Proof.
  induction evs as [|ev evs IH]; intros.
  - simpl. destruct (run cfg st evs'); auto.
  - rewrite <- app_comm_cons. rewrite !run_cons. rewrite IH. simpl. auto.
Qed.

Lemma run_snoc : forall cfg st evs ev,
  run cfg st (evs ++ [ev]) =
  (fst (step cfg (fst (run cfg st evs)) ev), snd (run cfg st evs) ++ [(ev, snd (step cfg (fst (run cfg st evs)) ev))]).
Proof.
  intros. rewrite run_app. rewrite run_cons. simpl. auto.
Qed.

Lemma run_inv : forall cfg evs st, inv st -> inv (fst (run cfg st evs)).
Proof.
  induction evs as [|ev evs IH]; intros; [simpl; auto|].
  rewrite run_cons. simpl. apply IH. apply step_inv; auto.
Qed.

Lemma run_next_id_le : forall cfg evs st, next_id st <= next_id (fst (run cfg st evs)).
Proof.
  induction evs as [|ev evs IH]; intros; [simpl; lia|].
  rewrite run_cons. simpl. specialize (IH (fst (step cfg st ev))). pose proof (step_next_id_le cfg st ev). lia.
Qed.

Fixpoint opens (evs : list event) : N :=
  match evs with
  | [] => 0
  | Open _ _ :: evs' => 1 + opens evs'
  | _ :: evs' => opens evs'
  end.

Lemma opens_app : forall a b, opens (a ++ b) = opens a + opens b.
Proof. induction a as [|ev a IH]; intros; [simpl; lia|]. destruct ev; cbn [app opens]; rewrite IH; lia. Qed.

Lemma source_from_app : forall evs n evs' id,
  source_from n (evs ++ evs') id =
  match source_from n evs id with Some x => Some x | None => source_from (n + opens evs) evs' id end.
Proof.
  induction evs as [|ev evs IH]; intros.
  - cbn [app source_from opens]. rewrite N.add_0_r. auto.
  - destruct ev; cbn [app source_from opens]; try apply IH.
    destruct (n =? id); auto. rewrite IH. replace (n + 1 + opens evs) with (n + (1 + opens evs)) by lia. auto.
Qed.

Lemma source_from_lt : forall evs n id, id < n -> source_from n evs id = None.
Proof.
  induction evs as [|ev evs IH]; intros; simpl; auto.
  destruct ev; auto. destruct (N.eqb_spec n id); [lia|]. apply IH. lia.
Qed.

Lemma source_from_ge : forall evs n id, n + opens evs <= id -> source_from n evs id = None.
Proof.
  induction evs as [|ev evs IH]; intros; [simpl; auto|].
  destruct ev; cbn [opens source_from] in *; try (apply IH; lia).
  destruct (N.eqb_spec n id); [lia|]. apply IH. lia.
Qed.

Lemma delivered_app : forall a b id, delivered (a ++ b) id = delivered a id ++ delivered b id.
Proof.
  induction a as [|[ev r] a IH]; intros; simpl; auto.
  destruct ev; auto. destruct r; auto. destruct (id0 =? id); simpl; rewrite IH; auto.
Qed.

Lemma run_next_id : forall cfg evs st, next_id (fst (run cfg st evs)) = next_id st + opens evs.
Proof.
  induction evs as [|ev evs IH]; intros; simpl; [lia|].
  change (next_id (fst (run cfg st (ev :: evs))) = next_id st + opens (ev :: evs)).
  rewrite run_cons. simpl fst. rewrite IH. rewrite step_next_id. destruct ev; cbn [opens]; lia.
Qed.

(* ---------------------------------------------------------------- the history invariant *)
(* H1: a remembered stream holds exactly the undelivered rest of its own source.
   H2: what has been delivered for any id is a prefix (as yields) of that id's source.
   H3: nothing was ever delivered for an id that does not exist yet. *)
Record hist_inv (evs : list event) (st : state) (tr : trace) : Prop := {
  h_table : forall id s, lookup id (tbl st) = Some s ->
            source_from 0 evs id = Some (yields (delivered tr id) ++ rest s);
  h_prefix : forall id items, source_from 0 evs id = Some items ->
             exists suffix, items = yields (delivered tr id) ++ suffix;
  h_fresh : forall id, opens evs <= id -> delivered tr id = [] }.

Lemma yields_app : forall a b, yields (a ++ b) = yields a ++ yields b.
Proof. intros. unfold yields. apply map_app. Qed.

Lemma hist_inv_run : forall cfg t0 evs,
  hist_inv evs (fst (run cfg (init t0) evs)) (snd (run cfg (init t0) evs)).
Proof.
  intros cfg t0 evs. induction evs as [|ev evs IH] using rev_ind.
  - simpl. split; simpl; intros; auto; discriminate.
  - rewrite run_snoc. simpl fst. simpl snd.
    set (st := fst (run cfg (init t0) evs)) in *. set (tr := snd (run cfg (init t0) evs)) in *.
    assert (I : inv st) by (apply run_inv; apply inv_init).
    assert (NID : next_id st = opens evs) by (unfold st; rewrite run_next_id; simpl; lia).
    destruct IH as [HT HP HF].
    (* delivered after the step *)
    assert (D : forall id, delivered (tr ++ [(ev, snd (step cfg st ev))]) id =
              delivered tr id ++ match ev, snd (step cfg st ev) with
                                 | Next _ k, RItem v => if k =? id then [v] else []
                                 | _, _ => [] end).
    { intros. rewrite delivered_app. f_equal. }
    split.
    + (* h_table *)
      intros id s L. rewrite lookup_step in L by auto. rewrite D. rewrite source_from_app.
      destruct ev; simpl in L.
      * (* Open *)
        destruct (streaming cfg && (next_id st =? id)) eqn:B.
        -- apply andb_true_iff in B. destruct B as [_ B]. apply N.eqb_eq in B.
           inversion L; subst s; simpl. rewrite (source_from_ge evs 0 id) by lia.
           simpl. rewrite <- NID, B, N.eqb_refl. rewrite HF by lia. reflexivity.
        -- rewrite (HT _ _ L). rewrite app_nil_r. auto.
      * (* Next *)
        rewrite step_next_resp.
        destruct (N.eqb_spec id0 id).
        -- subst id0. destruct (lookup id (tbl st)) as [s0|] eqn:L0; [|discriminate].
           destruct (rest s0) as [|[v|e] r] eqn:R; try discriminate.
           inversion L; subst s; simpl. rewrite (HT _ _ L0). rewrite R.
           rewrite yields_app. simpl. rewrite <- app_assoc. auto.
        -- rewrite (HT _ _ L).
           destruct (lookup id0 (tbl st)) as [s0|]; [destruct (rest s0) as [|[v|e] r]|]; rewrite app_nil_r; auto.
      * destruct (id0 =? id); [discriminate|]. rewrite (HT _ _ L). rewrite app_nil_r. auto.
      * destruct (lookup id (tbl st)) as [s0|] eqn:L0; [|discriminate].
        rewrite (HT _ _ L0). rewrite app_nil_r.
        destruct (0 <? linger cfg).
        -- inversion L; subst s. unfold disconnect_stream. destruct (owned_by c s0); auto.
        -- destruct (owned_by c s0); [discriminate|]. inversion L; subst; auto.
      * destruct (lookup id (tbl st)) as [s0|] eqn:L0; [|discriminate].
        destruct (expired cfg (now st) s0); [discriminate|]. inversion L; subst s.
        rewrite (HT _ _ L0). rewrite app_nil_r. auto.
      * rewrite (HT _ _ L). rewrite app_nil_r. auto.
    + (* h_prefix *)
      intros id items S. rewrite D. rewrite source_from_app in S.
      destruct (source_from 0 evs id) as [items0|] eqn:S0.
      * inversion S; subst items0. destruct (HP _ _ S0) as [suf E].
        destruct ev; try (exists suf; rewrite app_nil_r; auto).
        rewrite step_next_resp.
        destruct (lookup id0 (tbl st)) as [s0|] eqn:L0; [|exists suf; rewrite app_nil_r; auto].
        destruct (rest s0) as [|[v|e] r] eqn:R; try (exists suf; rewrite app_nil_r; auto).
        destruct (N.eqb_spec id0 id); [|exists suf; rewrite app_nil_r; auto].
        subst id0. pose proof (HT _ _ L0) as E2. rewrite S0 in E2. inversion E2. rewrite R.
        exists r. rewrite yields_app. simpl. rewrite <- app_assoc. auto.
      * (* the stream is created by this very event *)
        destruct ev; simpl in S; try discriminate.
        destruct (N.eqb_spec (opens evs) id); [|discriminate].
        inversion S; subst. rewrite HF by lia. simpl. exists items. auto.
    + (* h_fresh *)
      intros id G. rewrite opens_app in G. rewrite D. rewrite HF by lia. simpl.
      destruct ev; auto. rewrite step_next_resp.
      destruct (lookup id0 (tbl st)) as [s0|] eqn:L0; auto.
      destruct (rest s0) as [|[v|e] r]; auto.
      destruct (N.eqb_spec id0 id); auto. subst.
      pose proof (keys_lt_lookup _ _ _ _ (inv_lt _ I) L0). simpl in G. lia.
Qed.

(* ---------------------------------------------------------------- items_exact / ends_right *)
Lemma source_from_some : forall evs n id, n <= id -> id < n + opens evs -> source_from n evs id <> None.
Proof.
  induction evs as [|ev evs IH]; intros n id A B; [simpl in B; lia|].
  destruct ev; cbn [opens source_from] in *; try (apply IH; lia).
  destruct (N.eqb_spec n id); [discriminate|]. apply IH; lia.
Qed.

Lemma items_exact : forall cfg t0 evs id,
  let st := fst (run cfg (init t0) evs) in
  let tr := snd (run cfg (init t0) evs) in
  (forall s, lookup id (tbl st) = Some s ->
     source_from 0 evs id = Some (yields (delivered tr id) ++ rest s)) /\
  (forall items, source_from 0 evs id = Some items ->
     exists suffix, items = yields (delivered tr id) ++ suffix) /\
  (source_from 0 evs id = None -> delivered tr id = [] /\ lookup id (tbl st) = None).
Proof.
  intros. destruct (hist_inv_run cfg t0 evs) as [HT HP HF]. fold st in HT. fold tr in HT, HP, HF.
  split; [|split].
  - intros; apply HT; auto.
  - intros; eapply HP; eauto.
  - intros S. split.
    + destruct (N.le_gt_cases (opens evs) id) as [G|G]; [apply HF; auto|].
      exfalso. apply (source_from_some evs 0 id); [lia | lia | exact S].
    + destruct (lookup id (tbl st)) eqn:L; auto. rewrite (HT _ _ L) in S. discriminate.
Qed.

(* the answer to a request for the next item, after any history *)
Lemma next_answer_exact : forall cfg t0 evs c id,
  let st := fst (run cfg (init t0) evs) in
  let tr := snd (run cfg (init t0) evs) in
  match snd (step cfg st (Next c id)) with
  | RItem v => exists r, source_from 0 evs id = Some (yields (delivered tr id) ++ Yield v :: r)
  | RStop => source_from 0 evs id = Some (yields (delivered tr id))
  | RRaised e => exists r, source_from 0 evs id = Some (yields (delivered tr id) ++ Raise e :: r)
  | RError => lookup id (tbl st) = None
  | _ => False
  end.
Proof.
  intros. destruct (hist_inv_run cfg t0 evs) as [HT _ _]. fold st in HT. fold tr in HT.
  rewrite step_next_resp. destruct (lookup id (tbl st)) as [s|] eqn:L; auto.
  specialize (HT _ _ L). destruct (rest s) as [|[v|e] r] eqn:R.
  - rewrite app_nil_r in HT. auto.
  - exists r; auto.
  - exists r; auto.
Qed.

(* conversely: while the server remembers a stream, a request is answered from its own source:
   the next undelivered item, StopIteration exactly at the end, the exception exactly where it is raised *)
Lemma next_answer_complete : forall cfg t0 evs c id s,
  let st := fst (run cfg (init t0) evs) in
  let tr := snd (run cfg (init t0) evs) in
  lookup id (tbl st) = Some s ->
  exists items, source_from 0 evs id = Some items /\
    snd (step cfg st (Next c id)) =
    match skipn (length (delivered tr id)) items with
    | [] => RStop | Yield v :: _ => RItem v | Raise e :: _ => RRaised e
    end.
Proof.
  intros. destruct (hist_inv_run cfg t0 evs) as [HT _ _]. fold st in HT. fold tr in HT.
  specialize (HT _ _ H). eexists; split; [exact HT|].
  rewrite step_next_resp, H.
  replace (length (delivered tr id)) with (length (yields (delivered tr id)) + 0)%nat
    by (unfold yields; rewrite map_length; lia).
  rewrite skipn_app. rewrite skipn_all2 by lia. simpl.
  replace (length (yields (delivered tr id)) + 0 - length (yields (delivered tr id)))%nat with 0%nat by lia.
  simpl. auto.
Qed.

(* a stream that ends (exhausted or failed) is removed by that very request *)
Lemma ends_removed : forall cfg st c id, inv st ->
  match snd (step cfg st (Next c id)) with
  | RStop | RRaised _ | RError => lookup id (tbl (fst (step cfg st (Next c id)))) = None
  | _ => True
  end.
Proof.
  intros. rewrite lookup_step by auto. rewrite step_next_resp. simpl. rewrite N.eqb_refl.
  destruct (lookup id (tbl st)) as [s|]; auto. destruct (rest s) as [|[v|e] r]; auto.
Qed.

(* ---------------------------------------------------------------- forgotten means error *)
Lemma forgotten_stays : forall cfg evs st id, inv st -> id < next_id st -> lookup id (tbl st) = None ->
  lookup id (tbl (fst (run cfg st evs))) = None /\
  (forall c r, In (Next c id, r) (snd (run cfg st evs)) -> r = RError).
Proof.
  induction evs as [|ev evs IH]; intros st id I LT L; [simpl; split; [auto | intros ? ? []]|].
  rewrite run_cons. simpl fst. simpl snd.
  assert (L1 : lookup id (tbl (fst (step cfg st ev))) = None).
  { rewrite lookup_step by auto. rewrite L. destruct ev; simpl; auto.
    - destruct (N.eqb_spec (next_id st) id); [lia|]. rewrite andb_false_r. auto.
    - destruct (id0 =? id); auto.
    - destruct (id0 =? id); auto. }
  destruct (IH (fst (step cfg st ev)) id) as [A B]; auto.
  { apply step_inv; auto. }
  { pose proof (step_next_id_le cfg st ev). lia. }
  split; auto. intros c r [E|E]; [|eapply B; eauto].
  inversion E; subst. rewrite step_next_resp. rewrite L. auto.
Qed.

(* the exact list of ways a remembered stream leaves the table in one step *)
Definition forget_cause (cfg : config) (st : state) (id : sid) (s : stream) (ev : event) : Prop :=
  (exists c, ev = Next c id /\ (rest s = [] \/ exists e r, rest s = Raise e :: r)) \/
  (exists c, ev = CloseStream c id) \/
  (exists c, ev = Disconnect c /\ owner s = Some c /\ linger cfg = 0) \/
  (ev = Housekeep /\ lifetime_over cfg (now st) s = true) \/
  (ev = Housekeep /\ linger_over cfg (now st) s = true).

Lemma forget_iff : forall cfg st id s ev, inv st -> lookup id (tbl st) = Some s ->
  (lookup id (tbl (fst (step cfg st ev))) = None <-> forget_cause cfg st id s ev).
Proof.
  intros cfg st id s ev I L. rewrite lookup_step by auto. rewrite L. unfold forget_cause.
  destruct ev; simpl.
  - pose proof (keys_lt_lookup _ _ _ _ (inv_lt _ I) L). destruct (N.eqb_spec (next_id st) id); [lia|].
    rewrite andb_false_r. split; [discriminate|].
    intros [[? [? _]]|[[? ?]|[[? [? _]]|[[? _]|[? _]]]]]; discriminate.
  - destruct (N.eqb_spec id0 id).
    + subst. destruct (rest s) as [|[v|e] r] eqn:R.
      * split; auto. intros _. left. exists c. auto.
      * split; [discriminate|].
        intros [[? [_ [?|[? [? ?]]]]]|[[? ?]|[[? [? _]]|[[? _]|[? _]]]]]; discriminate.
      * split; auto. intros _. left. exists c. split; auto. right. eauto.
    + split; [discriminate|].
      intros [[? [E _]]|[[? ?]|[[? [? _]]|[[? _]|[? _]]]]]; try discriminate. inversion E; subst; contradiction.
  - destruct (N.eqb_spec id0 id).
    + subst. split; auto. intros _. right. left. eauto.
    + split; [discriminate|].
      intros [[? [? _]]|[[? E]|[[? [? _]]|[[? _]|[? _]]]]]; try discriminate. inversion E; subst; contradiction.
  - destruct (N.ltb_spec 0 (linger cfg)).
    + split; [discriminate|].
      intros [[? [? _]]|[[? ?]|[[? [_ [_ ?]]]|[[? _]|[? _]]]]]; try discriminate. lia.
    + unfold owned_by. destruct (owner s) as [c'|] eqn:O.
      * destruct (N.eqb_spec c' c).
        -- subst. split; auto. intros _. right. right. left. exists c. repeat split; auto. lia.
        -- split; [discriminate|].
           intros [[? [? _]]|[[? ?]|[[? [E [E2 _]]]|[[? _]|[? _]]]]]; try discriminate.
           inversion E; inversion E2; subst; contradiction.
      * split; [discriminate|].
        intros [[? [? _]]|[[? ?]|[[? [_ [? _]]]|[[? _]|[? _]]]]]; discriminate.
  - unfold expired. destruct (lifetime_over cfg (now st) s) eqn:A; simpl.
    + split; auto. intros _. right. right. right. left. auto.
    + destruct (linger_over cfg (now st) s) eqn:B.
      * split; auto. intros _. right. right. right. right. auto.
      * split; [discriminate|].
        intros [[? [? _]]|[[? ?]|[[? [? _]]|[[_ ?]|[_ ?]]]]]; discriminate.
  - split; [discriminate|].
    intros [[? [? _]]|[[? ?]|[[? [? _]]|[[? _]|[? _]]]]]; discriminate.
Qed.

(* ---------------------------------------------------------------- linger *)
Lemma exceeded_mono : forall strict limit p p', p' <= p -> exceeded strict limit p = false -> exceeded strict limit p' = false.
Proof.
  unfold exceeded. intros strict limit p p' LE H. destruct strict.
  - apply N.ltb_ge. apply N.ltb_ge in H. lia.
  - apply N.leb_gt. apply N.leb_gt in H. lia.
Qed.
Lemma exceeded_mono_up : forall strict limit p p', p <= p' -> exceeded strict limit p = true -> exceeded strict limit p' = true.
Proof.
  unfold exceeded. intros strict limit p p' LE H. destruct strict.
  - apply N.ltb_lt. apply N.ltb_lt in H. lia.
  - apply N.leb_le. apply N.leb_le in H. lia.
Qed.

Lemma ticks_cons : forall ev mid, ticks (ev :: mid) = match ev with Tick dt => dt + ticks mid | _ => ticks mid end.
Proof. intros. destruct ev; reflexivity. Qed.

(* events that do not name a lingering stream leave it exactly as it is, or (housekeeping) drop it *)
Lemma lingering_untouched : forall cfg id mid st s, inv st -> lookup id (tbl st) = Some s -> owner s = None ->
  forallb (fun ev => negb (touches id ev)) mid = true ->
  (lookup id (tbl (fst (run cfg st mid))) = Some s \/ lookup id (tbl (fst (run cfg st mid))) = None) /\
  now (fst (run cfg st mid)) = now st + ticks mid.
Proof.
  induction mid as [|ev mid IH]; intros st s I L O U; [simpl; split; auto; lia|].
  rewrite run_cons. cbn [fst]. cbn [forallb] in U. apply andb_true_iff in U. destruct U as [U0 U].
  assert (LT : id < next_id st) by (eapply keys_lt_lookup; [apply inv_lt; auto | eauto]).
  assert (N1 : now (fst (step cfg st ev)) + ticks mid = now st + ticks (ev :: mid)).
  { rewrite step_now, ticks_cons. destruct ev; lia. }
  assert (I1 : inv (fst (step cfg st ev))) by (apply step_inv; auto).
  assert (K : lookup id (tbl (fst (step cfg st ev))) = Some s \/ lookup id (tbl (fst (step cfg st ev))) = None).
  { rewrite lookup_step by auto. rewrite L. destruct ev; simpl in *.
    - destruct (N.eqb_spec (next_id st) id); [lia|]. rewrite andb_false_r. auto.
    - destruct (id0 =? id); [discriminate|auto].
    - destruct (id0 =? id); [discriminate|auto].
    - unfold disconnect_stream, owned_by. rewrite O. destruct (0 <? linger cfg); auto.
    - destruct (expired cfg (now st) s); auto.
    - auto. }
  destruct K as [K|K].
  - destruct (IH _ _ I1 K O U) as [A B]. split; auto. lia.
  - split.
    + right. apply forgotten_stays; auto. pose proof (step_next_id_le cfg st ev). lia.
    + clear - N1. revert N1. generalize (fst (step cfg st ev)) as st1. intros st1 N1.
      assert (G : forall mid st, now (fst (run cfg st mid)) = now st + ticks mid).
      { clear. induction mid as [|e mid IH]; intros; [simpl; lia|].
        rewrite run_cons. cbn [fst]. rewrite IH, step_now, ticks_cons. destruct e; lia. }
      rewrite G. lia.
Qed.

Lemma run_now : forall cfg mid st, now (fst (run cfg st mid)) = now st + ticks mid.
Proof.
  induction mid as [|e mid IH]; intros; [simpl; lia|].
  rewrite run_cons. cbn [fst]. rewrite IH, step_now, ticks_cons. destruct e; lia.
Qed.

(* ... and housekeeping does not drop it while neither limit is exceeded *)
Lemma linger_keep : forall cfg id mid st s, inv st -> lookup id (tbl st) = Some s -> owner s = None ->
  forallb (fun ev => negb (touches id ev)) mid = true ->
  exceeded (linger_strict cfg) (linger cfg) (now st + ticks mid - linger_since s) = false ->
  (0 <? lifetime cfg) && exceeded (lifetime_strict cfg) (lifetime cfg) (now st + ticks mid - created s) = false ->
  lookup id (tbl (fst (run cfg st mid))) = Some s.
Proof.
  induction mid as [|ev mid IH]; intros st s I L O U E1 E2; [simpl; auto|].
  rewrite run_cons. cbn [fst]. cbn [forallb] in U. apply andb_true_iff in U. destruct U as [U0 U].
  assert (LT : id < next_id st) by (eapply keys_lt_lookup; [apply inv_lt; auto | eauto]).
  assert (N1 : now (fst (step cfg st ev)) + ticks mid = now st + ticks (ev :: mid)).
  { rewrite step_now, ticks_cons. destruct ev; lia. }
  apply IH; auto.
  - apply step_inv; auto.
  - rewrite lookup_step by auto. rewrite L. destruct ev; simpl in *.
    + destruct (N.eqb_spec (next_id st) id); [lia|]. rewrite andb_false_r. auto.
    + destruct (id0 =? id); [discriminate|auto].
    + destruct (id0 =? id); [discriminate|auto].
    + unfold disconnect_stream, owned_by. rewrite O. destruct (0 <? linger cfg); auto.
    + replace (expired cfg (now st) s) with false; auto. symmetry. unfold expired, lifetime_over, linger_over.
      apply orb_false_iff. split.
      * destruct (0 <? lifetime cfg); auto. simpl in *.
        eapply exceeded_mono; [|exact E2]. rewrite ?ticks_cons. lia.
      * assert (X : exceeded (linger_strict cfg) (linger cfg) (now st - linger_since s) = false).
        { eapply exceeded_mono; [|exact E1]. rewrite ?ticks_cons. lia. }
        rewrite X. apply andb_false_r.
    + auto.
  - rewrite N1. auto.
  - rewrite N1. auto.
Qed.

Lemma linger_resume : forall cfg st id s c c' v r mid, inv st -> 0 < linger cfg ->
  lookup id (tbl st) = Some s -> owner s = Some c -> rest s = Yield v :: r ->
  forallb (fun ev => negb (touches id ev)) mid = true ->
  within (linger_strict cfg) (linger cfg) (ticks mid) = true ->
  (lifetime cfg = 0 \/ within (lifetime_strict cfg) (lifetime cfg) (now st + ticks mid - created s) = true) ->
  let st1 := fst (run cfg st (Disconnect c :: mid)) in
  snd (step cfg st1 (Next c' id)) = RItem v /\
  lookup id (tbl (fst (step cfg st1 (Next c' id)))) =
    Some {| owner := Some c'; created := created s; linger_since := 0; rest := r |}.
Proof.
  intros cfg st id s c c' v r mid I LG L O R U W1 W2 st1.
  set (s0 := {| owner := None; created := created s; linger_since := now st; rest := rest s |}).
  assert (L0 : lookup id (tbl (fst (step cfg st (Disconnect c)))) = Some s0).
  { rewrite lookup_step by auto. rewrite L. simpl. apply N.ltb_lt in LG. rewrite LG.
    unfold disconnect_stream, owned_by. rewrite O, N.eqb_refl. auto. }
  assert (L1 : lookup id (tbl st1) = Some s0).
  { unfold st1. rewrite run_cons. cbn [fst]. apply linger_keep; auto.
    - apply step_inv; auto.
    - rewrite step_now. simpl. unfold within in W1. apply negb_true_iff in W1.
      eapply exceeded_mono; [|exact W1]. lia.
    - rewrite step_now. simpl. destruct W2 as [W2|W2].
      + rewrite W2. auto.
      + unfold within in W2. apply negb_true_iff in W2. rewrite W2. apply andb_false_r. }
  assert (I1 : inv st1) by (unfold st1; apply run_inv; auto).
  split.
  - rewrite step_next_resp, L1. simpl. rewrite R. auto.
  - rewrite lookup_step by auto. rewrite L1. simpl. rewrite N.eqb_refl, R. auto.
Qed.

Lemma linger_expiry : forall cfg st id s c mid, inv st -> 0 < now st -> 0 < linger cfg ->
  lookup id (tbl st) = Some s -> owner s = Some c ->
  forallb (fun ev => negb (touches id ev)) mid = true ->
  exceeded (linger_strict cfg) (linger cfg) (ticks mid) = true ->
  lookup id (tbl (fst (run cfg st (Disconnect c :: mid ++ [Housekeep])))) = None.
Proof.
  intros cfg st id s c mid I T LG L O U X.
  set (s0 := {| owner := None; created := created s; linger_since := now st; rest := rest s |}).
  rewrite run_cons. cbn [fst]. rewrite run_snoc. cbn [fst].
  set (st0 := fst (step cfg st (Disconnect c))).
  assert (I0 : inv st0) by (apply step_inv; auto).
  assert (L0 : lookup id (tbl st0) = Some s0).
  { unfold st0. rewrite lookup_step by auto. rewrite L. simpl. apply N.ltb_lt in LG. rewrite LG.
    unfold disconnect_stream, owned_by. rewrite O, N.eqb_refl. auto. }
  destruct (lingering_untouched cfg id mid st0 s0 I0 L0 eq_refl U) as [[K|K] NW];
    rewrite lookup_step by (apply run_inv; auto); rewrite K; simpl; auto.
  replace (expired cfg (now (fst (run cfg st0 mid))) s0) with true; auto. symmetry.
  unfold expired, linger_over. apply orb_true_iff. right. simpl.
  apply N.ltb_lt in LG. rewrite LG. simpl.
  destruct (N.eqb_spec (now st) 0); [lia|]. simpl.
  eapply exceeded_mono_up; [|exact X]. rewrite NW. unfold st0. rewrite step_now. lia.
Qed.

(* ---------------------------------------------------------------- quiescence *)
Definition lingering_wf (cfg : config) (st : state) : Prop :=
  Forall (fun kv => owner (snd kv) = None ->
                    0 < linger cfg /\ linger_since (snd kv) <> 0 /\ linger_since (snd kv) <= now st) (tbl st).

Lemma Forall_remove : forall (P : sid * stream -> Prop) id t, Forall P t -> Forall P (remove id t).
Proof.
  induction t as [|[k s] t IH]; simpl; intros H; auto. inversion H; subst.
  destruct (k =? id); auto.
Qed.
Lemma Forall_update : forall (P : sid * stream -> Prop) id s' t,
  Forall P t -> (forall k, P (k, s')) -> Forall P (update id s' t).
Proof.
  induction t as [|[k s] t IH]; simpl; intros H Q; auto. inversion H; subst.
  destruct (k =? id); auto.
Qed.
Lemma Forall_filter : forall (P : sid * stream -> Prop) p t, Forall P t -> Forall P (filter p t).
Proof.
  induction t as [|kv t IH]; simpl; intros H; auto. inversion H; subst. destruct (p kv); auto.
Qed.

Lemma step_lingering_wf : forall cfg st ev, 0 < now st -> lingering_wf cfg st -> lingering_wf cfg (fst (step cfg st ev)).
Proof.
  unfold lingering_wf. intros cfg st ev T H. destruct ev; simpl.
  - destruct (streaming cfg); simpl; auto. apply Forall_app. split; auto.
    constructor; [|constructor]. simpl. discriminate.
  - destruct (lookup id (tbl st)) eqn:L; auto.
    destruct (rest (reown c s)) as [|[v|e] r] eqn:R; simpl.
    + apply Forall_remove; auto.
    + apply Forall_update; auto. intros k. simpl. intros O.
      unfold reown in O |- *. destruct (owner s) eqn:OS; simpl in *; [|discriminate].
      apply lookup_some_in in L. rewrite Forall_forall in H. apply (H _ L). auto.
    + apply Forall_remove; auto.
  - apply Forall_remove; auto.
  - destruct (N.ltb_spec 0 (linger cfg)); simpl.
    + rewrite Forall_forall in *. intros kv IN. apply in_map_iff in IN. destruct IN as [[k s] [E IN]].
      subst kv. simpl. unfold disconnect_stream. destruct (owned_by c s); simpl.
      * intros _. repeat split; auto; lia.
      * apply (H _ IN).
    + apply Forall_filter; auto.
  - apply Forall_filter; auto.
  - eapply Forall_impl; [|exact H]. simpl. intros kv Q O. destruct (Q O) as [A [B C]]. repeat split; auto. lia.
Qed.

Lemma step_now_pos : forall cfg st ev, 0 < now st -> 0 < now (fst (step cfg st ev)).
Proof. intros. rewrite step_now. destruct ev; lia. Qed.

Lemma run_lingering_wf : forall cfg evs st, 0 < now st -> lingering_wf cfg st ->
  lingering_wf cfg (fst (run cfg st evs)) /\ 0 < now (fst (run cfg st evs)).
Proof.
  induction evs as [|ev evs IH]; intros; [simpl; auto|].
  rewrite run_cons. cbn [fst]. apply IH; [apply step_now_pos | apply step_lingering_wf]; auto.
Qed.

Definition owners_in (conns : list conn) (t : table) : Prop :=
  Forall (fun kv => forall c, owner (snd kv) = Some c -> In c conns) t.

Lemma disconnect_all : forall cfg conns st, 0 < now st -> lingering_wf cfg st -> owners_in conns (tbl st) ->
  let st' := fst (run cfg st (map Disconnect conns)) in
  now st' = now st /\ lingering_wf cfg st' /\ owners_in [] (tbl st').
Proof.
  induction conns as [|c0 conns IH]; intros st T W Q; [simpl; auto|].
  cbn [map]. cbv zeta. rewrite run_cons. cbn [fst].
  set (st0 := fst (step cfg st (Disconnect c0))).
  assert (T0 : now st0 = now st) by (unfold st0; rewrite step_now; auto).
  destruct (IH st0) as [A [B C]].
  - lia.
  - apply step_lingering_wf; auto.
  - unfold st0, owners_in in *. simpl. destruct (0 <? linger cfg); simpl.
    + rewrite Forall_forall in *. intros kv IN. apply in_map_iff in IN. destruct IN as [[k s] [E IN]].
      subst kv. simpl. unfold disconnect_stream, owned_by. destruct (owner s) as [c1|] eqn:O; simpl.
      * destruct (N.eqb_spec c1 c0); simpl; [discriminate|]. rewrite O. intros c E. inversion E; subst.
        specialize (Q _ IN c O). simpl in Q. destruct Q; [congruence|auto].
      * rewrite O. discriminate.
    + rewrite Forall_forall in *. intros kv IN. apply filter_In in IN. destruct IN as [IN F].
      intros c O. unfold owned_by in F. rewrite O in F. specialize (Q _ IN c O). simpl in Q.
      destruct Q as [Q|Q]; auto. subst. rewrite N.eqb_refl in F. discriminate.
  - split; [lia|]. split; auto.
Qed.

Lemma quiescence_empties : forall cfg st conns dt, inv st -> 0 < now st -> lingering_wf cfg st ->
  owners_in conns (tbl st) ->
  exceeded (linger_strict cfg) (linger cfg) dt = true ->
  tbl (fst (run cfg st (quiesce conns dt))) = [].
Proof.
  intros cfg st conns dt I T W Q X. unfold quiesce. rewrite run_app. cbn [fst].
  destruct (disconnect_all cfg conns st T W Q) as [A [B C]].
  set (st1 := fst (run cfg st (map Disconnect conns))) in *.
  simpl. unfold lingering_wf, owners_in in *.
  induction (tbl st1) as [|[k s] t IH]; simpl; auto.
  inversion B; subst. inversion C; subst. simpl in *.
  replace (expired cfg (now st1 + dt) s) with true; [apply IH; auto|]. symmetry.
  destruct (owner s) as [c|] eqn:O; [exfalso; apply (H3 c); auto|].
  destruct (H1 eq_refl) as [LG [NZ LE]].
  unfold expired, linger_over. apply orb_true_iff. right.
  apply N.ltb_lt in LG. rewrite LG. destruct (N.eqb_spec (linger_since s) 0); [contradiction|]. simpl.
  eapply exceeded_mono_up; [|exact X]. lia.
Qed.

Lemma init_lingering_wf : forall cfg t0, lingering_wf cfg (init t0).
Proof. intros. unfold lingering_wf. simpl. constructor. Qed.

(* ---------------------------------------------------------------- finished streams are gone *)
Lemma wf_from_app : forall a n b, wf_from n (a ++ b) = wf_from n a && wf_from (n + opens a) b.
Proof.
  induction a as [|ev a IH]; intros; cbn [app wf_from opens].
  - rewrite N.add_0_r. auto.
  - destruct ev; rewrite ?IH; rewrite <- ?andb_assoc; auto.
    replace (n + 1 + opens a) with (n + (1 + opens a)) by lia. auto.
Qed.

Lemma finished_app : forall a b id, finished (a ++ b) id = finished a id || finished b id.
Proof. intros. unfold finished. apply existsb_app. Qed.

Lemma live_only : forall cfg t0 evs, wf_from 0 evs = true ->
  let st := fst (run cfg (init t0) evs) in
  let tr := snd (run cfg (init t0) evs) in
  (forall id s, lookup id (tbl st) = Some s -> finished tr id = false) /\
  (forall id, opens evs <= id -> finished tr id = false).
Proof.
  intros cfg t0 evs. induction evs as [|ev evs IH] using rev_ind; intros WF.
  - simpl. split; intros; auto; discriminate.
  - rewrite wf_from_app in WF. apply andb_true_iff in WF. destruct WF as [WF WE].
    specialize (IH WF). cbv zeta in IH. destruct IH as [H1 H2].
    cbv zeta. rewrite run_snoc. cbn [fst snd].
    set (st := fst (run cfg (init t0) evs)) in *. set (tr := snd (run cfg (init t0) evs)) in *.
    assert (I : inv st) by (apply run_inv; apply inv_init).
    assert (NID : next_id st = opens evs) by (unfold st; rewrite run_next_id; simpl; lia).
    split.
    + intros id s L. rewrite finished_app. rewrite lookup_step in L by auto.
      unfold finished at 2. cbn [existsb]. rewrite orb_false_r.
      destruct ev; simpl in L.
      * destruct (streaming cfg && (next_id st =? id)) eqn:B.
        -- apply andb_true_iff in B. destruct B as [_ B]. apply N.eqb_eq in B.
           rewrite H2 by lia. auto.
        -- rewrite (H1 _ _ L). auto.
      * unfold finishes. rewrite step_next_resp.
        destruct (N.eqb_spec id0 id).
        -- subst id0. destruct (lookup id (tbl st)) as [s0|] eqn:L0; [|discriminate].
           rewrite (H1 _ _ L0). destruct (rest s0) as [|[v|e] r]; try discriminate. auto.
        -- rewrite (H1 _ _ L).
           destruct (lookup id0 (tbl st)) as [s0|]; [destruct (rest s0) as [|[v|e] r]|]; auto.
      * destruct (N.eqb_spec id0 id); [discriminate|]. rewrite (H1 _ _ L). simpl.
        destruct (N.eqb_spec id0 id); [contradiction|auto].
      * destruct (lookup id (tbl st)) as [s0|] eqn:L0; [|discriminate]. rewrite (H1 _ _ L0). auto.
      * destruct (lookup id (tbl st)) as [s0|] eqn:L0; [|discriminate]. rewrite (H1 _ _ L0). auto.
      * rewrite (H1 _ _ L). auto.
    + intros id G. rewrite opens_app in G. rewrite finished_app. rewrite H2 by lia.
      unfold finished. cbn [existsb orb]. rewrite orb_false_r.
      destruct ev; cbn [wf_from] in WE; unfold finishes; auto.
      * rewrite N.add_0_l in WE. rewrite andb_true_r in WE. apply N.ltb_lt in WE.
        destruct (N.eqb_spec id0 id); [lia|].
        generalize (snd (step cfg st (Next c id0))). intro r0. destruct r0; auto.
      * rewrite N.add_0_l in WE. rewrite andb_true_r in WE. apply N.ltb_lt in WE.
        destruct (N.eqb_spec id0 id); [lia|auto].
Qed.

Lemma table_empty_when_all_finished : forall cfg t0 evs, wf_from 0 evs = true ->
  (forall id, id < opens evs -> finished (snd (run cfg (init t0) evs)) id = true) ->
  tbl (fst (run cfg (init t0) evs)) = [].
Proof.
  intros cfg t0 evs WF F. apply lookup_all_none. intros id.
  destruct (lookup id (tbl (fst (run cfg (init t0) evs)))) as [s|] eqn:L; auto.
  destruct (live_only cfg t0 evs WF) as [H1 _]. specialize (H1 _ _ L).
  assert (I : inv (fst (run cfg (init t0) evs))) by (apply run_inv; apply inv_init).
  pose proof (keys_lt_lookup _ _ _ _ (inv_lt _ I) L) as LT. rewrite run_next_id in LT. simpl in LT.
  rewrite F in H1 by lia. discriminate.
Qed.

(* ---------------------------------------------------------------- the same, for states reached by a history *)
Definition after (cfg : config) (t0 : N) (evs : list event) : state := fst (run cfg (init t0) evs).

Lemma after_inv : forall cfg t0 evs, inv (after cfg t0 evs).
Proof. intros. apply run_inv. apply inv_init. Qed.
Lemma after_now_pos : forall cfg t0 evs, 0 < t0 -> 0 < now (after cfg t0 evs).
Proof. intros. unfold after. rewrite run_now. simpl. lia. Qed.
Lemma after_next_id : forall cfg t0 evs, next_id (after cfg t0 evs) = opens evs.
Proof. intros. unfold after. rewrite run_next_id. simpl. lia. Qed.

Lemma forgotten_means_error_reach : forall cfg t0 evs evs' id,
  id < opens evs -> lookup id (tbl (after cfg t0 evs)) = None ->
  lookup id (tbl (fst (run cfg (after cfg t0 evs) evs'))) = None /\
  (forall c r, In (Next c id, r) (snd (run cfg (after cfg t0 evs) evs')) -> r = RError).
Proof. intros. apply forgotten_stays; auto. apply after_inv. rewrite after_next_id. auto. Qed.

Lemma forget_iff_reach : forall cfg t0 evs id s ev,
  lookup id (tbl (after cfg t0 evs)) = Some s ->
  (lookup id (tbl (fst (step cfg (after cfg t0 evs) ev))) = None <-> forget_cause cfg (after cfg t0 evs) id s ev).
Proof. intros. apply forget_iff; auto. apply after_inv. Qed.

Lemma ends_removed_reach : forall cfg t0 evs c id,
  match snd (step cfg (after cfg t0 evs) (Next c id)) with
  | RStop | RRaised _ | RError => lookup id (tbl (fst (step cfg (after cfg t0 evs) (Next c id)))) = None
  | _ => True
  end.
Proof. intros. apply ends_removed. apply after_inv. Qed.

Lemma linger_resume_reach : forall cfg t0 evs id s c c' v r mid, 0 < linger cfg ->
  let st := after cfg t0 evs in
  lookup id (tbl st) = Some s -> owner s = Some c -> rest s = Yield v :: r ->
  forallb (fun ev => negb (touches id ev)) mid = true ->
  within (linger_strict cfg) (linger cfg) (ticks mid) = true ->
  (lifetime cfg = 0 \/ within (lifetime_strict cfg) (lifetime cfg) (now st + ticks mid - created s) = true) ->
  let st1 := fst (run cfg st (Disconnect c :: mid)) in
  snd (step cfg st1 (Next c' id)) = RItem v /\
  lookup id (tbl (fst (step cfg st1 (Next c' id)))) =
    Some {| owner := Some c'; created := created s; linger_since := 0; rest := r |}.
Proof. intros. apply linger_resume; auto. apply after_inv. Qed.

Lemma linger_expiry_reach : forall cfg t0 evs id s c mid, 0 < t0 -> 0 < linger cfg ->
  let st := after cfg t0 evs in
  lookup id (tbl st) = Some s -> owner s = Some c ->
  forallb (fun ev => negb (touches id ev)) mid = true ->
  exceeded (linger_strict cfg) (linger cfg) (ticks mid) = true ->
  lookup id (tbl (fst (run cfg st (Disconnect c :: mid ++ [Housekeep])))) = None.
Proof. intros. eapply linger_expiry; eauto. apply after_inv. apply after_now_pos; auto. Qed.

Lemma quiescence_reach : forall cfg t0 evs conns dt, 0 < t0 ->
  let st := after cfg t0 evs in
  (forall id s c, lookup id (tbl st) = Some s -> owner s = Some c -> In c conns) ->
  exceeded (linger_strict cfg) (linger cfg) dt = true ->
  tbl (fst (run cfg st (quiesce conns dt))) = [].
Proof.
  intros cfg t0 evs conns dt T st Q X.
  destruct (run_lingering_wf cfg evs (init t0) T (init_lingering_wf cfg t0)) as [W P].
  apply quiescence_empties; auto.
  - apply after_inv.
  - unfold owners_in. rewrite Forall_forall. intros [k s] IN c O. simpl in O.
    pose proof (after_inv cfg t0 evs) as I. fold st in I.
    assert (L : lookup k (tbl st) = Some s).
    { clear - IN I. destruct I as [_ ND]. induction (tbl st) as [|[k0 s0] t IH]; [destruct IN|].
      simpl in *. inversion ND; subst. destruct IN as [E|IN].
      - inversion E; subst. rewrite N.eqb_refl. auto.
      - destruct (N.eqb_spec k0 k); [|auto]. subst. exfalso. apply H1.
        change k with (fst (k, s)). apply in_map. auto. }
    eapply Q; eauto.
Qed.

(* with linger = 0 the strictness of the comparison does not matter: any positive pause will do *)
Lemma exceeded_succ : forall strict limit, exceeded strict limit (limit + 1) = true.
Proof. intros. unfold exceeded. destruct strict; [apply N.ltb_lt | apply N.leb_le]; lia. Qed.

(* ---------------------------------------------------------------- client histories are server histories *)
(* every effect a client operation has on the daemon is the run of the server events [cstep] reports, so the
   server-side lemmas above apply to whatever real client operations (next, close, release, reconnect, ...) do *)
Lemma srv_with_proxy : forall cs p x, srv (with_proxy cs p x) = srv cs. Proof. auto. Qed.
Lemma srv_with_iter : forall cs h x, srv (with_iter cs h x) = srv cs. Proof. auto. Qed.
Lemma srv_fresh : forall cs, srv (fst (fresh_conn cs)) = srv cs. Proof. auto. Qed.
Lemma srv_step_eq : forall cfg cs ev, srv_step cfg cs ev = (with_srv cs (fst (step cfg (srv cs) ev)), snd (step cfg (srv cs) ev)).
Proof. intros. unfold srv_step. destruct (step cfg (srv cs) ev); auto. Qed.
Lemma srv_ensure : forall cs p px, srv (fst (fst (ensure_conn cs p px))) = srv cs.
Proof. intros. unfold ensure_conn. destruct (p_conn px); auto. Qed.
Lemma release_eq : forall cfg cs p px,
  srv (fst (release cfg cs p px)) = fst (run cfg (srv cs) (snd (release cfg cs p px))).
Proof. intros. unfold release. destruct (p_conn px); [|reflexivity]. rewrite srv_step_eq. cbn [fst snd].
  rewrite run_cons. reflexivity. Qed.

Local Opaque step.
Ltac fin := simpl; repeat match goal with H : step _ _ _ = _ |- _ => rewrite H; simpl end; try reflexivity.
Lemma cstep_refines : forall cfg cs op,
  srv (fst (fst (cstep cfg cs op))) = fst (run cfg (srv cs) (snd (cstep cfg cs op))).
Proof.
  intros. destruct op; unfold cstep.
  - destruct (nthN (proxies cs) p) as [px|]; [|reflexivity].
    pose proof (srv_ensure cs p px) as E. destruct (ensure_conn cs p px) as [[cs1 px1] c]. simpl in E.
    rewrite srv_step_eq. simpl. rewrite E.
    destruct (step cfg (srv cs) (Open c items)) as [s r] eqn:S. simpl.
    destruct r; fin;
      match goal with |- context [release ?a ?b ?c ?d] =>
        pose proof (release_eq a b c d) as R; destruct (release a b c d) as [cs4 evs] end;
      cbn [fst snd srv with_srv] in R |- *; rewrite run_cons; rewrite S; cbn [fst snd]; exact R.
  - destruct (nthN (iters cs) h) as [it|]; [|reflexivity].
    destruct (ci_proxy it) as [p|]; [|reflexivity].
    destruct (nthN (proxies cs) p) as [px|]; [|reflexivity].
    destruct (p_conn px) as [c|]; [|reflexivity].
    rewrite srv_step_eq. simpl. destruct (step cfg (srv cs) (Next c (ci_sid it))) eqn:S; fin.
  - destruct (nthN (iters cs) h) as [it|]; [|reflexivity].
    destruct (ci_proxy it) as [p|]; [|reflexivity].
    destruct (nthN (proxies cs) p) as [px|]; [|reflexivity].
    destruct (p_conn px) as [c|]; [|reflexivity].
    destruct (ci_seq it =? p_seq px).
    + rewrite srv_step_eq. simpl. destruct (step cfg (srv cs) (CloseStream c (ci_sid it))) eqn:S; fin.
    + simpl. rewrite !srv_step_eq. simpl.
      destruct (step cfg (srv cs) (CloseStream (next_conn cs) (ci_sid it))) as [s1 r1] eqn:S1. simpl.
      destruct (step cfg s1 (Disconnect (next_conn cs))) eqn:S2; fin.
  - destruct (nthN (proxies cs) p) as [px|]; [|reflexivity].
    pose proof (release_eq cfg cs p px). destruct (release cfg cs p px). auto.
  - destruct (nthN (proxies cs) p) as [px|]; [|reflexivity].
    pose proof (release_eq cfg cs p px) as R. destruct (release cfg cs p px) as [cs1 evs]. simpl in R.
    pose proof (srv_ensure cs1 p {| p_conn := None; p_seq := p_seq px |}) as E.
    destruct (ensure_conn cs1 p {| p_conn := None; p_seq := p_seq px |}) as [[cs2 ?] ?]. simpl in *. congruence.
  - destruct (nthN (proxies cs) p) as [px|]; [|reflexivity].
    pose proof (srv_ensure cs p px) as E. destruct (ensure_conn cs p px) as [[cs1 px1] c]. simpl in E.
    rewrite srv_step_eq. simpl. rewrite E. destruct (step cfg (srv cs) (Next c id)) eqn:S; fin.
  - destruct (nthN (proxies cs) p) as [px|]; [|reflexivity].
    pose proof (srv_ensure cs p px) as E. destruct (ensure_conn cs p px) as [[cs1 px1] c]. simpl in E.
    rewrite srv_step_eq. simpl. rewrite E. destruct (step cfg (srv cs) (CloseStream c id)) eqn:S; fin.
  - rewrite srv_step_eq. destruct (step cfg (srv cs) Housekeep) eqn:S; fin.
  - rewrite srv_step_eq. destruct (step cfg (srv cs) (Tick dt)) eqn:S; fin.
Qed.

Lemma crun_refines : forall cfg ops cs,
  srv (fst (fst (crun cfg cs ops))) = fst (run cfg (srv cs) (snd (crun cfg cs ops))).
Proof.
  induction ops as [|op ops IH]; intros; [reflexivity|].
  simpl. pose proof (cstep_refines cfg cs op) as S. destruct (cstep cfg cs op) as [[cs1 r] evs]. simpl in S.
  specialize (IH cs1). destruct (crun cfg cs1 ops) as [[cs2 tr] evs']. simpl in *.
  rewrite run_app. simpl. rewrite <- S. auto.
Qed.
