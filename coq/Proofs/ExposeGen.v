(* C02 — facts about the privacy predicate generated from Pyro5/server.py (Gen/GenServer.v).
   These are re-checked whenever the generated file changes. *)
From Coq Require Import List NArith Arith Bool.
Import ListNotations.
From V Require Import Model.StrFun Model.Expose Gen.GenServer Proofs.Expose.

(* every generated reserved name starts with an underscore (computed over the generated list), so the
   order of the first two tests of is_private_attribute does not matter *)
Lemma reserved_underscore : forallb (fun n => t_startswith n [95%N]) private_dunder_methods = true.
Proof. vm_compute. reflexivity. Qed.

Lemma mem_underscore : forall n, t_mem n private_dunder_methods = true -> t_startswith n [95%N] = true.
Proof.
  intros n H. unfold t_mem in H. apply existsb_exists in H. destruct H as [x [Hx He]].
  apply text_eqb_eq in He. subst x. pose proof reserved_underscore as R. rewrite forallb_forall in R. auto.
Qed.

(* the generated function is exactly: reserved name, or leading underscore and not dunder-shaped *)
Lemma is_private_exact : forall n,
  is_private_attribute n =
  t_mem n private_dunder_methods || (t_startswith n [95%N] && negb (dunder_shaped n)).
Proof.
  intros n. unfold is_private_attribute, dunder_shaped.
  destruct (t_mem n private_dunder_methods) eqn:M; [rewrite (mem_underscore n M)|];
  destruct (t_startswith n [95%N]), (N.ltb 4%N (t_len n)),
    (t_startswith n [95%N; 95%N]), (t_endswith n [95%N; 95%N]); reflexivity.
Qed.

Lemma underscore_private : forall n,
  t_startswith n [95%N] = true -> dunder_shaped n = false -> is_private_attribute n = true.
Proof. intros n H1 H2. rewrite is_private_exact, H1, H2. apply orb_true_r. Qed.

Lemma t_mem_in : forall n l, In n l -> t_mem n l = true.
Proof.
  intros n l H. unfold t_mem. apply existsb_exists. exists n. split; [auto|apply text_eqb_refl].
Qed.

Lemma reserved_private : forall n, In n private_dunder_methods -> is_private_attribute n = true.
Proof. intros n H. rewrite is_private_exact, (t_mem_in _ _ H). reflexivity. Qed.

Lemma baseline_included : forallb (fun n => t_mem n private_dunder_methods) reserved_baseline = true.
Proof. vm_compute. reflexivity. Qed.

Lemma baseline_private : forall n, In n reserved_baseline -> is_private_attribute n = true.
Proof.
  intros n H. pose proof baseline_included as B. rewrite forallb_forall in B.
  rewrite is_private_exact, (B n H). reflexivity.
Qed.

(* ---------- consequences for the generated predicate ---------- *)
Lemma served_name_public : forall s r m a,
  In (m, a) (fst (serve is_private_attribute quirks_none s r)) ->
  ~ In (m_name m) private_dunder_methods /\ ~ In (m_name m) reserved_baseline /\
  ~ (t_startswith (m_name m) [95%N] = true /\ dunder_shaped (m_name m) = false).
Proof.
  intros s r m a H. apply private_never_served in H.
  repeat split; intro K.
  - rewrite (reserved_private _ K) in H. discriminate.
  - rewrite (baseline_private _ K) in H. discriminate.
  - destruct K as [K1 K2]. rewrite (underscore_private _ K1 K2) in H. discriminate.
Qed.

Lemma private_name_unadvertised : forall s n,
  In n private_dunder_methods \/ In n reserved_baseline \/ (t_startswith n [95%N] = true /\ dunder_shaped n = false) ->
  ~ In n (meta_methods is_private_attribute s) /\ ~ In n (meta_attrs is_private_attribute s) /\
  ~ In n (meta_oneway is_private_attribute s).
Proof.
  intros s n H. apply private_never_advertised.
  destruct H as [H|[H|[H1 H2]]]; auto using reserved_private, baseline_private, underscore_private.
Qed.

(* in today's code too: whatever member or helper is reached, its name is public *)
Lemma served_name_public_asis : forall s r m a,
  In (m, a) (fst (serve is_private_attribute quirks_asis s r)) -> a <> AHook ->
  ~ In (m_name m) private_dunder_methods /\ ~ In (m_name m) reserved_baseline /\
  ~ (t_startswith (m_name m) [95%N] = true /\ dunder_shaped (m_name m) = false).
Proof.
  intros s r m a H Ha. apply private_never_served_asis in H; [|auto].
  repeat split; intro K.
  - rewrite (reserved_private _ K) in H. discriminate.
  - rewrite (baseline_private _ K) in H. discriminate.
  - destruct K as [K1 K2]. rewrite (underscore_private _ K1 K2) in H. discriminate.
Qed.

(* the metadata cache of the current source is keyed by the class object (computed over the generated fact) *)
Lemma cache_keyed_by_class : metadata_cache_keyed_by_class = true.
Proof. vm_compute. reflexivity. Qed.
(* ... and filled only after the scan has completed (no partially filled entry can be observed) *)
Lemma cache_stored_after_scan : metadata_cache_stored_after_scan = true.
Proof. vm_compute. reflexivity. Qed.

(* the deviations, each on its recorded witness *)
Lemma call_getter_refuted :
  In (w_secret, AGet) (fst (serve is_private_attribute q_getter_only w1_shape w1_request)) /\
  ~ explicitly_exposed is_private_attribute w1_shape w_secret.
Proof.
  split. { vm_compute. left. reflexivity. }
  unfold explicitly_exposed. simpl. intros [[H _]|[H|H]]; discriminate.
Qed.

Lemma private_property_refuted :
  In (w_hidden, AGet) (fst (serve is_private_attribute q_private_only w2_shape w2_request)) /\
  is_private_attribute (m_name w_hidden) = true.
Proof. split. { vm_compute. left. reflexivity. } vm_compute. reflexivity. Qed.

(* open: a plain instance attribute holding a callable instance of an @expose'd class is called *)
Lemma helper_called_refuted :
  serve is_private_attribute q_helper_only w4_shape w4_request = ([(w_tool, AHelper)], RepResult) /\
  ~ legit is_private_attribute w4_shape RCall (r_names w4_request) w_tool AHelper.
Proof.
  split. { vm_compute. reflexivity. }
  unfold legit, acc_fits. tauto.
Qed.

(* open: a call naming anything that does not exist runs the class's own __getattr__ *)
Lemma hook_ran_refuted :
  serve is_private_attribute q_hooks_only w5_shape w5_request = ([(w_getattr, AHook)], RepError) /\
  ~ legit is_private_attribute w5_shape RCall (r_names w5_request) w_getattr AHook.
Proof.
  split. { vm_compute. reflexivity. }
  unfold legit, acc_fits. tauto.
Qed.

(* the current source hands attribute-request arguments to the helpers by index (computed over the generated fact) *)
Lemma attr_arguments_indexed : attr_requests_index_arguments = true.
Proof. vm_compute. reflexivity. Qed.

(* seeded change C02_6: with *vargs a surplus falsy argument switches the exposure test off *)
Lemma star_args_refuted :
  serve is_private_attribute q_star_only w1_shape w7_request = ([(w_secret, AGet)], RepResult) /\
  ~ explicitly_exposed is_private_attribute w1_shape w_secret /\
  serve is_private_attribute q_star_only w1_shape (strip_surplus w7_request) = ([], RepError).
Proof.
  split. { vm_compute. reflexivity. }
  split. { unfold explicitly_exposed. simpl. intros [[H _]|[H|H]]; discriminate. }
  vm_compute. reflexivity.
Qed.

(* seeded change C02_8 (any accessor mark counts): on today's model the never-exposed property w_target, whose SECOND
   accessor is an exposed method, is neither read, written nor advertised, and is not exposed by the first-accessor rule *)
Lemma later_accessor_mark_not_enough :
  serve is_private_attribute quirks_asis w8_shape (mkreq RGet false [NStr (m_name w_target)]) = ([], RepError) /\
  serve is_private_attribute quirks_asis w8_shape (mkreq RSet false [NStr (m_name w_target)]) = ([], RepError) /\
  meta_attrs is_private_attribute w8_shape = [] /\
  ~ exposed_by_rule is_private_attribute w8_shape w_target.
Proof.
  split; [vm_compute; reflexivity|]. split; [vm_compute; reflexivity|]. split; [vm_compute; reflexivity|].
  unfold exposed_by_rule. simpl. intros [[H _]|[[H _]|H]]; discriminate.
Qed.
