(* C12 — lemmas about Model/CallCtx.v *)
From Coq Require Import List NArith Arith Bool Lia.
Import ListNotations.
From V Require Import Model.CallCtx.

(* ------------------------------------------------------------------ run *)
Lemma run_app : forall sh D evs1 evs2 s,
  run sh D s (evs1 ++ evs2) =
  (fst (run sh D (fst (run sh D s evs1)) evs2),
   snd (run sh D s evs1) ++ snd (run sh D (fst (run sh D s evs1)) evs2)).
Proof.
  induction evs1 as [|e r IH]; intros evs2 s; simpl.
  - destruct (run sh D s evs2); reflexivity.
  - destruct (step sh D s e) as [s1 o1]. rewrite IH.
    destruct (run sh D s1 r) as [s2 o2]; simpl.
    rewrite app_assoc. reflexivity.
Qed.

Lemma state_snoc : forall sh D s pre e,
  fst (run sh D s (pre ++ [e])) = fst (step sh D (fst (run sh D s pre)) e).
Proof.
  intros. rewrite run_app. simpl.
  destruct (step sh D (fst (run sh D s pre)) e); reflexivity.
Qed.

Lemma state_cons : forall sh D s e r,
  fst (run sh D s (e :: r)) = fst (run sh D (fst (step sh D s e)) r).
Proof.
  intros. simpl. destruct (step sh D s e) as [s1 o1]. simpl.
  destruct (run sh D s1 r) eqn:R; reflexivity.
Qed.

(* ------------------------------------------------------------------ shape facts *)
Lemma resp_ok_facts : forall sh, shape_resp_ok sh = true ->
  sh_thread_local sh = true /\ sh_reset_req sh = 1%N /\ sh_reset_hs sh = 2%N.
Proof.
  unfold shape_resp_ok. intros sh H.
  apply andb_true_iff in H. destruct H as [H H3]. apply andb_true_iff in H. destruct H as [H1 H2].
  apply N.eqb_eq in H2. apply N.eqb_eq in H3. auto.
Qed.

Lemma th_id : forall sh t, sh_thread_local sh = true -> th sh t = t.
Proof. intros sh t H. unfold th. rewrite H. reflexivity. Qed.

Lemma upd_same : forall s t x, upd s t x t = x.
Proof. intros. unfold upd. rewrite Nat.eqb_refl. reflexivity. Qed.
Lemma upd_other : forall s t x u, u <> t -> upd s t x u = s u.
Proof. intros. unfold upd. destruct (Nat.eqb_spec u t); [contradiction|reflexivity]. Qed.

(* ------------------------------------------------------------------ frame *)
(* a step writes only the context of its own thread *)
Lemma step_frame : forall sh D s e t, sh_thread_local sh = true ->
  thread_of e <> t -> fst (step sh D s e) t = s t.
Proof.
  intros sh D s e t TL NE.
  destruct e; simpl in *; unfold via_ctx; rewrite ?(th_id sh) by exact TL; simpl;
    try reflexivity; try (apply upd_other; congruence).
Qed.

(* what a step outputs and what it writes depend only on the contexts it touches *)
Lemma step_local : forall sh D s1 s2 e, sh_thread_local sh = true ->
  (forall t, In t (touches e) -> s1 t = s2 t) ->
  snd (step sh D s1 e) = snd (step sh D s2 e) /\
  fst (step sh D s1 e) (thread_of e) = fst (step sh D s2 e) (thread_of e).
Proof.
  intros sh D s1 s2 e TL H.
  destruct e; simpl in *; unfold via_ctx; rewrite ?(th_id sh) by exact TL; simpl.
  9: { rewrite (H p) by (left; reflexivity). rewrite (H o) by (right; left; reflexivity).
       rewrite !upd_same. split; reflexivity. }
  all: rewrite (H t) by (left; reflexivity); rewrite ?upd_same; split; reflexivity.
Qed.

Lemma step_ext : forall sh D s1 s2 e, (forall t, s1 t = s2 t) ->
  snd (step sh D s1 e) = snd (step sh D s2 e) /\ forall t, fst (step sh D s1 e) t = fst (step sh D s2 e) t.
Proof.
  intros sh D s1 s2 e H.
  destruct e; simpl; unfold via_ctx; rewrite ?H; simpl; (split; [reflexivity|]); intros u;
    unfold upd; try (destruct (Nat.eqb u _)); auto.
Qed.

Lemma trun_ext : forall sh D evs s1 s2, (forall t, s1 t = s2 t) -> trun sh D s1 evs = trun sh D s2 evs.
Proof.
  induction evs as [|e r IH]; intros s1 s2 H; simpl; [reflexivity|].
  destruct (step_ext sh D s1 s2 e H) as [Ho Hs].
  destruct (step sh D s1 e) as [a o1]. destruct (step sh D s2 e) as [b o2]. simpl in *.
  subst o2. f_equal. apply IH. exact Hs.
Qed.

Lemma trun_app : forall sh D a b s,
  trun sh D s (a ++ b) = trun sh D s a ++ trun sh D (fst (run sh D s a)) b.
Proof.
  induction a as [|e r IH]; intros b s; simpl; [reflexivity|].
  destruct (step sh D s e) as [s1 o1] eqn:E. rewrite IH.
  destruct (run sh D s1 r) as [s2 o2] eqn:R. simpl. rewrite <- app_assoc. reflexivity.
Qed.

Lemma indepb_spec : forall e1 e2, indepb e1 e2 = true ->
  forall t, In t (touches e1) -> ~ In t (touches e2).
Proof.
  unfold indepb. intros e1 e2 H t I1 I2.
  rewrite forallb_forall in H. specialize (H t I1). apply negb_true_iff in H.
  assert (existsb (Nat.eqb t) (touches e2) = true) as X.
  { apply existsb_exists. exists t. split; [exact I2|apply Nat.eqb_refl]. }
  congruence.
Qed.

Lemma thread_in_touches : forall e, In (thread_of e) (touches e).
Proof. destruct e; simpl; auto. Qed.

(* two steps of unrelated threads commute *)
Lemma step_commute : forall sh D s e1 e2, sh_thread_local sh = true -> indepb e1 e2 = true ->
  snd (step sh D (fst (step sh D s e1)) e2) = snd (step sh D s e2) /\
  snd (step sh D (fst (step sh D s e2)) e1) = snd (step sh D s e1) /\
  forall t, fst (step sh D (fst (step sh D s e1)) e2) t = fst (step sh D (fst (step sh D s e2)) e1) t.
Proof.
  intros sh D s e1 e2 TL I.
  pose proof (indepb_spec e1 e2 I) as I12.
  assert (forall t, In t (touches e2) -> t <> thread_of e1) as N1.
  { intros t H E. subst t. exact (I12 _ (thread_in_touches e1) H). }
  assert (forall t, In t (touches e1) -> t <> thread_of e2) as N2.
  { intros t H E. subst t. exact (I12 _ H (thread_in_touches e2)). }
  assert (forall t, In t (touches e2) -> fst (step sh D s e1) t = s t) as A1.
  { intros t H. apply step_frame; [exact TL|]. intro E. exact (N1 t H (eq_sym E)). }
  assert (forall t, In t (touches e1) -> fst (step sh D s e2) t = s t) as A2.
  { intros t H. apply step_frame; [exact TL|]. intro E. exact (N2 t H (eq_sym E)). }
  destruct (step_local sh D _ s e2 TL A1) as [O2 W2].
  destruct (step_local sh D _ s e1 TL A2) as [O1 W1].
  split; [exact O2|]. split; [exact O1|].
  intros t.
  destruct (Nat.eq_dec (thread_of e2) t) as [E2|NE2].
  - subst t. rewrite W2.
    rewrite (step_frame sh D (fst (step sh D s e2)) e1 (thread_of e2) TL); [reflexivity|].
    apply not_eq_sym. apply N1. apply thread_in_touches.
  - rewrite (step_frame sh D _ e2 t TL NE2).
    destruct (Nat.eq_dec (thread_of e1) t) as [E1|NE1].
    + subst t. rewrite W1. reflexivity.
    + rewrite (step_frame sh D _ e1 t TL NE1). rewrite (step_frame sh D _ e1 t TL NE1).
      rewrite (step_frame sh D _ e2 t TL NE2). reflexivity.
Qed.

Lemma proj_app : forall t a b, proj t (a ++ b) = proj t a ++ proj t b.
Proof. intros. unfold proj. apply filter_app. Qed.

Lemma proj_tag : forall t u (l : list output),
  proj t (map (fun o => (u, o)) l) = if Nat.eqb u t then map (fun o => (u, o)) l else [].
Proof.
  intros t u l. unfold proj. induction l as [|o r IH]; simpl.
  - destruct (Nat.eqb u t); reflexivity.
  - rewrite IH. destruct (Nat.eqb u t); reflexivity.
Qed.

(* every interleaving obtained by reordering steps of unrelated threads gives every thread the same outputs *)
Lemma interleaving_invariant : forall sh D, sh_thread_local sh = true ->
  forall h1 h2, interleave_equiv h1 h2 ->
  forall s t, proj t (trun sh D s h1) = proj t (trun sh D s h2).
Proof.
  intros sh D TL h1 h2 E. induction E; intros s t.
  - reflexivity.
  - rewrite !trun_app. rewrite !proj_app. f_equal.
    set (s' := fst (run sh D s a)).
    destruct (step_commute sh D s' e1 e2 TL H) as [O2 [O1 St]].
    simpl.
    destruct (step sh D s' e1) as [sa oa] eqn:Ea.
    destruct (step sh D s' e2) as [sb ob] eqn:Eb.
    simpl in *.
    destruct (step sh D sa e2) as [sab ob'] eqn:Eab.
    destruct (step sh D sb e1) as [sba oa'] eqn:Eba.
    simpl in *. subst ob' oa'.
    rewrite (trun_ext sh D b sab sba St).
    rewrite !proj_app. rewrite !proj_tag. rewrite !app_assoc. f_equal.
    assert (thread_of e1 <> thread_of e2) as NE.
    { intro X. apply (indepb_spec e1 e2 H (thread_of e1) (thread_in_touches e1)).
      rewrite X. apply thread_in_touches. }
    destruct (Nat.eqb_spec (thread_of e1) t); destruct (Nat.eqb_spec (thread_of e2) t);
      try congruence; rewrite ?app_nil_r; reflexivity.
  - rewrite IHE1. apply IHE2.
Qed.

(* ------------------------------------------------------------------ response annotations *)
Definition explained (D : list N) (t : nat) (pre : list event) (a : N) : Prop :=
  In a D \/
  exists p1 m l p2, pre = p1 ++ ESet t m l :: p2 /\ In a l /\
                    (forall e, In e p2 -> is_start_on t e = false).

Lemma explained_snoc : forall D t pre e a,
  explained D t pre a -> is_start_on t e = false -> explained D t (pre ++ [e]) a.
Proof.
  intros D t pre e a [H|[p1 [m [l [p2 [E [I S]]]]]]] N; [left; exact H|right].
  exists p1, m, l, (p2 ++ [e]). split.
  - rewrite E. rewrite <- app_assoc. reflexivity.
  - split; [exact I|]. intros x Hx. apply in_app_or in Hx. destruct Hx as [Hx|[Hx|[]]]; [auto|subst; exact N].
Qed.

Lemma step_inv : forall sh D, shape_resp_ok sh = true ->
  forall s e t a, (forall p, e <> ESpawn p t) ->
  In a (resp (fst (step sh D s e) t)) ->
  In a D \/ (exists m l, e = ESet t m l /\ In a l) \/ (is_start_on t e = false /\ In a (resp (s t))).
Proof.
  intros sh D OK s e t a NS H.
  destruct (resp_ok_facts sh OK) as [TL [RQ HS]].
  destruct e; simpl in H; unfold via_ctx, hs_clears, ping_clears, begin_clears in H;
    rewrite ?(th_id sh) in H by exact TL; rewrite ?RQ, ?HS in H; simpl in H.
  - (* EHandshake *)
    destruct (Nat.eqb_spec t t0) as [E|NE].
    + subst. rewrite upd_same in H. simpl in H. destruct (sh_inplace sh); simpl in H; [left; exact H|contradiction].
    + rewrite upd_other in H by exact NE. right; right. split; [|exact H].
      simpl. apply Nat.eqb_neq. congruence.
  - (* EPing *)
    destruct (Nat.eqb_spec t t0) as [E|NE].
    + subst. rewrite upd_same in H. simpl in H. destruct (sh_inplace sh); simpl in H; [left; exact H|contradiction].
    + rewrite upd_other in H by exact NE. right; right. split; [|exact H].
      simpl. apply Nat.eqb_neq. congruence.
  - (* EBegin *)
    destruct (Nat.eqb_spec t t0) as [E|NE].
    + subst. rewrite upd_same in H. simpl in H. contradiction.
    + rewrite upd_other in H by exact NE. right; right. split; [|exact H].
      simpl. apply Nat.eqb_neq. congruence.
  - (* ESet *)
    destruct (Nat.eqb_spec t t0) as [E|NE].
    + subst. rewrite upd_same in H. simpl in H. destruct m.
      * right; left. exists Assign, a0. auto.
      * apply in_app_or in H. destruct H as [H|H].
        -- right; right. split; [reflexivity|exact H].
        -- right; left. exists Update, a0. auto.
    + rewrite upd_other in H by exact NE. right; right. split; [reflexivity|exact H].
  - (* ESnap *) right; right. split; [reflexivity|exact H].
  - (* EReturn *)
    destruct (Nat.eqb_spec t t0) as [E|NE].
    + subst. rewrite upd_same in H. destruct (sh_reset_after sh); simpl in H; [contradiction|].
      destruct (sh_inplace sh); simpl in H.
      * apply in_app_or in H. destruct H as [H|H]; [right; right; split; [reflexivity|exact H]|left; exact H].
      * right; right. split; [reflexivity|exact H].
    + rewrite upd_other in H by exact NE. right; right. split; [reflexivity|exact H].
  - (* ERaise *) right; right. split; [reflexivity|exact H].
  - (* EDone *) right; right. split; [reflexivity|exact H].
  - (* ESpawn *)
    destruct (Nat.eqb_spec t o) as [E|NE].
    + subst. exfalso. exact (NS p eq_refl).
    + rewrite upd_other in H by exact NE. right; right. split; [reflexivity|exact H].
Qed.

(* invariant: whatever sits in a thread's response annotations is a daemon annotation or was set on
   that thread since it last started handling a request / handshake *)
Lemma resp_inv : forall sh D, shape_resp_ok sh = true ->
  forall pre t, (forall p, ~ In (ESpawn p t) pre) ->
  forall a, In a (resp (fst (run sh D s0 pre) t)) -> explained D t pre a.
Proof.
  intros sh D OK pre. induction pre as [|e pre IH] using rev_ind; intros t NS a H.
  - simpl in H. contradiction.
  - rewrite state_snoc in H.
    assert (forall p, e <> ESpawn p t) as NSe.
    { intros p E. apply (NS p). apply in_or_app. right. left. exact E. }
    assert (forall p, ~ In (ESpawn p t) pre) as NSp.
    { intros p I. apply (NS p). apply in_or_app. left. exact I. }
    destruct (step_inv sh D OK _ e t a NSe H) as [HD|[[m [l [E I]]]|[N I]]].
    + left; exact HD.
    + right. exists pre, m, l, []. subst e. split; [reflexivity|]. split; [exact I|]. intros x [].
    + apply explained_snoc; [|exact N]. apply IH; assumption.
Qed.

Lemma reply_anns_own : forall sh D, shape_resp_ok sh = true ->
  forall pre e c k A a,
  (forall p, ~ In (ESpawn p (thread_of e)) pre) ->
  In (OReply c k A) (snd (step sh D (state_after sh D pre) e)) ->
  In a A ->
  In a D \/
  ((exists b, e = EReturn (thread_of e) c b) /\
   exists p1 m l p2, pre = p1 ++ ESet (thread_of e) m l :: p2 /\ In a l /\
                     (forall e', In e' p2 -> is_start_on (thread_of e) e' = false)).
Proof.
  intros sh D OK pre e c k A a NS HO HA.
  destruct (resp_ok_facts sh OK) as [TL [RQ HS]].
  unfold state_after in HO.
  destruct e; simpl in HO; unfold via_ctx, hs_clears, ping_clears in HO;
    rewrite ?(th_id sh) in HO by exact TL; rewrite ?RQ, ?HS in HO; simpl in HO.
  - destruct HO as [HO|[]]. inversion HO; subst. left. exact HA.
  - destruct HO as [HO|[]]. inversion HO; subst. left. exact HA.
  - contradiction.
  - contradiction.
  - destruct HO as [HO|[]]. discriminate HO.
  - destruct HO as [HO|[]]. inversion HO; subst. simpl.
    apply in_app_or in HA. destruct HA as [HA|HA]; [|left; exact HA].
    destruct (resp_inv sh D OK pre t NS a HA) as [HD|HX]; [left; exact HD|].
    right. split; [exists batch; reflexivity|exact HX].
  - destruct HO as [HO|[]]. inversion HO; subst. left. exact HA.
  - contradiction.
  - contradiction.
Qed.

(* ------------------------------------------------------------------ request fields *)
Lemma step_rq_kept : forall sh D s e t, sh_thread_local sh = true ->
  overwrites_req t e = false -> rq (fst (step sh D s e) t) = rq (s t).
Proof.
  intros sh D s e t TL H.
  destruct e; simpl in *; unfold via_ctx; rewrite ?(th_id sh) by exact TL; simpl; try reflexivity.
  - destruct (Nat.eqb_spec t t0); [subst; rewrite upd_same; reflexivity|rewrite upd_other by assumption; reflexivity].
  - destruct (Nat.eqb_spec t t0); [subst; rewrite upd_same; reflexivity|rewrite upd_other by assumption; reflexivity].
  - destruct (Nat.eqb_spec t t0) as [E|NE].
    + subst. destruct r; [rewrite Nat.eqb_refl in H; discriminate|]. rewrite upd_same. reflexivity.
    + rewrite upd_other by assumption. reflexivity.
  - destruct (Nat.eqb_spec t t0); [subst; rewrite upd_same; reflexivity|rewrite upd_other by assumption; reflexivity].
  - destruct (Nat.eqb_spec t t0); [subst; rewrite upd_same|rewrite upd_other by assumption; reflexivity].
    destruct (sh_reset_after sh); reflexivity.
  - destruct (Nat.eqb_spec t o) as [E|NE].
    + subst. rewrite Nat.eqb_refl in H. discriminate.
    + rewrite upd_other by assumption. reflexivity.
Qed.

Lemma run_rq_kept : forall sh D, sh_thread_local sh = true ->
  forall mid s t, (forall e, In e mid -> overwrites_req t e = false) ->
  rq (fst (run sh D s mid) t) = rq (s t).
Proof.
  intros sh D TL mid. induction mid as [|e r IH]; intros s t H; [reflexivity|].
  rewrite state_cons. rewrite IH by (intros x Hx; apply H; right; exact Hx).
  apply step_rq_kept; [exact TL|]. apply H. left. reflexivity.
Qed.

Lemma ctx_ok_facts : forall sh, shape_ctx_ok sh = true ->
  sh_thread_local sh = true /\ (forall f, mem (field_id f) (sh_setup sh) = true) /\
  (forall f, mem (field_id f) (sh_oneway sh) = true).
Proof.
  unfold shape_ctx_ok. intros sh H.
  apply andb_true_iff in H. destruct H as [H H3]. apply andb_true_iff in H. destruct H as [H1 H2].
  rewrite forallb_forall in H2, H3.
  split; [exact H1|]. split; intros f; [apply H2|apply H3]; destruct f; simpl; auto 10.
Qed.

Lemma setup_full : forall mask r old, (forall f, mem (field_id f) mask = true) ->
  forall f, setup mask r old f = r f.
Proof. intros mask r old H f. unfold setup. rewrite H. reflexivity. Qed.

Lemma snap_out : forall sh D s t tok,
  snd (step sh D s (ESnap t tok)) = [OCtx t tok (rq (s (th sh t)))].
Proof. reflexivity. Qed.

Lemma ctx_is_request : forall sh D, shape_ctx_ok sh = true ->
  forall pre t r mid tok,
  (forall e, In e mid -> overwrites_req t e = false) ->
  exists snap,
    snd (step sh D (state_after sh D (pre ++ EBegin t (Some r) :: mid)) (ESnap t tok)) = [OCtx t tok snap] /\
    forall f, snap f = r f.
Proof.
  intros sh D OK pre t r mid tok H.
  destruct (ctx_ok_facts sh OK) as [TL [SU OW]].
  rewrite snap_out. rewrite (th_id sh) by exact TL.
  eexists. split; [reflexivity|].
  intros f.
  unfold state_after. rewrite run_app. cbn [fst]. rewrite state_cons.
  rewrite run_rq_kept by assumption.
  cbn [step fst]. rewrite (th_id sh) by exact TL. rewrite upd_same. cbn [rq].
  apply setup_full. exact SU.
Qed.

Lemma ctx_is_request_oneway : forall sh D, shape_ctx_ok sh = true ->
  forall pre p o r mid1 mid2 tok,
  (forall e, In e mid1 -> overwrites_req p e = false) ->
  (forall e, In e mid2 -> overwrites_req o e = false) ->
  exists snap,
    snd (step sh D (state_after sh D (pre ++ EBegin p (Some r) :: mid1 ++ ESpawn p o :: mid2)) (ESnap o tok))
      = [OCtx o tok snap] /\
    forall f, snap f = r f.
Proof.
  intros sh D OK pre p o r mid1 mid2 tok H1 H2.
  destruct (ctx_ok_facts sh OK) as [TL [SU OW]].
  rewrite snap_out. rewrite (th_id sh) by exact TL.
  eexists. split; [reflexivity|].
  intros f.
  unfold state_after. rewrite run_app. cbn [fst]. rewrite state_cons.
  rewrite run_app. cbn [fst]. rewrite state_cons.
  rewrite run_rq_kept by assumption.
  cbn [step fst]. rewrite !(th_id sh) by exact TL. rewrite upd_same. cbn [rq].
  rewrite setup_full by exact OW.
  rewrite run_rq_kept by assumption.
  cbn [step fst]. rewrite ?(th_id sh) by exact TL. rewrite upd_same. cbn [rq].
  apply setup_full. exact SU.
Qed.

(* ------------------------------------------------------------------ client half *)
Lemma client_sees_own : forall r hs reply,
  let r' := cstep true r (CCall hs reply) in
  (forall R, reply = Some R -> R <> [] -> r' = R) /\
  ((reply = None \/ reply = Some []) ->
     r' = [] \/ exists H, hs = Some H /\ H <> [] /\ r' = H).
Proof.
  intros r hs reply. simpl. split.
  - intros R E NE. subst reply. destruct R; [contradiction|reflexivity].
  - intros [E|E]; subst reply; simpl;
      (destruct hs as [H|]; [destruct H as [|x H]; simpl; [left; reflexivity|right; eexists; split; [reflexivity|split; [discriminate|reflexivity]]]|left; reflexivity]).
Qed.

Lemma client_forgets_past : forall r1 r2 e, cstep true r1 e = cstep true r2 e.
Proof. intros r1 r2 e. destruct e; reflexivity. Qed.

Lemma crun_forgets_past : forall evs r1 r2, evs <> [] -> crun true r1 evs = crun true r2 evs.
Proof.
  intros evs r1 r2 NE. destruct evs as [|e rest]; [contradiction|].
  simpl. rewrite (client_forgets_past r1 r2 e). reflexivity.
Qed.
