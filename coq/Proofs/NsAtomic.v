(* C15: the name-server instance of the atomicity theorem, and the two races the
   property names (concurrent safe registrations, concurrent removals of one name). *)
From Coq Require Import List NArith Arith Bool Lia.
Import ListNotations.
From V Require Import Model.Bytes Model.Atomic Model.NsAtomic Proofs.Bytes Proofs.Atomic.

Section NsProofs.
Variable nsn : name.

Notation cfg := (config store regs).
Notation quiescent := (quiescent store regs).

Lemma compile_locked ops : all_locked_units (concat (map (compile nsn) ops)) = true.
Proof. induction ops as [|o ops IH]; [reflexivity|]. cbn. exact IH. Qed.

Lemma init_quiescent s0 progs : quiescent (init (compile nsn) s0 progs).
Proof.
  unfold init, mk_threads. repeat split; cbn [owner threads].
  - intros i. destruct (nth_error progs i); reflexivity.
  - intros i. destruct (nth_error progs i); [apply compile_locked|reflexivity].
Qed.

(* every interleaving of whole name-server operations = their atomic execution in release order *)
Theorem ns_ops_atomic s0 progs sched :
  let c0 := init (compile nsn) s0 progs in
  owner (run sched c0) = None ->
  shared (run sched c0) = shared (arun (lin sched c0) c0) /\
  forall i, threads (run sched c0) i = threads (arun (lin sched c0) c0) i.
Proof. intros c0 H. apply locked_ops_atomic; [apply init_quiescent|exact H]. Qed.

(* ---- store lemmas ---- *)
Lemma name_eqb_refl n : name_eqb n n = true.
Proof. apply bytes_eqb_refl. Qed.

Lemma s_mem_set n v s : s_mem n (s_set n v s) = true.
Proof.
  induction s as [|[k v'] s IH]; cbn [s_set s_mem].
  - rewrite name_eqb_refl. reflexivity.
  - destruct (name_eqb k n) eqn:E; cbn [s_mem]; rewrite E; [reflexivity|exact IH].
Qed.

Lemma s_get_set n v s : s_get n (s_set n v s) = Some v.
Proof.
  induction s as [|[k v'] s IH]; cbn [s_set s_get].
  - rewrite name_eqb_refl. reflexivity.
  - destruct (name_eqb k n) eqn:E; cbn [s_get]; rewrite E; [reflexivity|exact IH].
Qed.

Fixpoint uniq (s : store) : bool :=
  match s with [] => true | (k, _) :: s' => negb (s_mem k s') && uniq s' end.

Lemma s_mem_del n s : uniq s = true -> s_mem n (s_del n s) = false.
Proof.
  induction s as [|[k v] s IH]; intros U; [reflexivity|].
  cbn [uniq] in U. apply andb_true_iff in U. destruct U as [U1 U2].
  cbn [s_del]. destruct (name_eqb k n) eqn:E.
  - apply bytes_eqb_eq in E. subst k. apply negb_true_iff in U1. exact U1.
  - cbn [s_mem]. rewrite E. cbn [orb]. apply IH. exact U2.
Qed.

Definition init_thread (op : nsop) : thread store regs := mk_thread None [Locked (body nsn op)] regs0.

Lemma mk_threads_some progs i ops :
  nth_error progs i = Some ops -> mk_threads (compile nsn) progs i = mk_thread None (concat (map (compile nsn) ops)) regs0.
Proof. intros H. unfold mk_threads. rewrite H. reflexivity. Qed.
Lemma mk_threads_none progs i :
  nth_error progs i = None -> mk_threads (compile nsn) progs i = mk_thread None [] regs0.
Proof. intros H. unfold mk_threads. rewrite H. reflexivity. Qed.

(* ================= concurrent safe registrations of one name ================= *)
Section Register.
Variables (n : name) (vals : list val).
Definition reg_progs : list (list nsop) := map (fun v => [Register n v true]) vals.

Definition reg_inv (ca : cfg) : Prop :=
  (forall i, nth_error vals i = None -> todo (threads ca i) = []) /\
  ((s_mem n (shared ca) = false /\
    forall i v, nth_error vals i = Some v -> threads ca i = init_thread (Register n v true))
   \/
   (exists w vw, nth_error vals w = Some vw /\ s_mem n (shared ca) = true /\ s_get n (shared ca) = Some vw /\
      todo (threads ca w) = [] /\ r_results (tregs (threads ca w)) = [ROk] /\
      forall i v, i <> w -> nth_error vals i = Some v ->
        threads ca i = init_thread (Register n v true) \/
        (todo (threads ca i) = [] /\ r_results (tregs (threads ca i)) = [RNamingError]))).

Lemma reg_inv_init s0 : s_mem n s0 = false -> reg_inv (init (compile nsn) s0 reg_progs).
Proof.
  intros Hm. split.
  - intros i Hi. cbn [init threads]. rewrite mk_threads_none; [reflexivity|].
    unfold reg_progs. rewrite nth_error_map, Hi. reflexivity.
  - left. split; [exact Hm|]. intros i v Hi. cbn [init threads].
    rewrite (mk_threads_some _ _ [Register n v true]); [reflexivity|].
    unfold reg_progs. rewrite nth_error_map, Hi. reflexivity.
Qed.

Lemma reg_inv_step t ca : reg_inv ca -> reg_inv (astep t ca).
Proof.
  intros [Hnone Hd]. unfold astep.
  destruct (nth_error vals t) as [v|] eqn:Ht.
  2:{ rewrite (Hnone t Ht). split; assumption. }
  destruct Hd as [[Hm Hall]|(w & vw & Hw & Hm & Hg & Htw & Hrw & Hoth)].
  - (* nobody has registered yet: t wins *)
    rewrite (Hall t v Ht). cbn [init_thread todo tregs body body_register run_prog].
    unfold a_register_check. rewrite Hm. cbn [r_found set_found run_prog]. unfold a_set. cbn [run_prog].
    split.
    + intros i Hi. cbn [threads]. rewrite upd_other; [apply Hnone; exact Hi|].
      intros ->. rewrite Ht in Hi. discriminate.
    + right. exists t, v. cbn [shared threads]. rewrite upd_same. cbn [todo tregs].
      repeat split; try assumption.
      * apply s_mem_set.
      * apply s_get_set.
      * intros i v' Hi Hiv. left. rewrite upd_other by exact Hi. apply Hall. exact Hiv.
  - destruct (Nat.eq_dec t w) as [->|Hne].
    + rewrite Htw. split; [assumption|]. right. exists w, vw. repeat split; assumption.
    + destruct (Hoth t v Hne Ht) as [Hinit|[Htd Hres]].
      * (* t comes second: naming error, store unchanged *)
        rewrite Hinit. cbn [init_thread todo tregs body body_register run_prog].
        unfold a_register_check. rewrite Hm. cbn [r_found set_found push run_prog].
        split.
        -- intros i Hi. cbn [threads]. rewrite upd_other; [apply Hnone; exact Hi|].
           intros ->. rewrite Ht in Hi. discriminate.
        -- right. exists w, vw. cbn [shared threads]. rewrite upd_other by (intros E; apply Hne; symmetry; exact E).
           repeat split; try assumption.
           intros i v' Hi Hiv. destruct (Nat.eq_dec i t) as [->|Hit].
           ++ right. rewrite upd_same. cbn [todo tregs]. split; reflexivity.
           ++ rewrite upd_other by exact Hit. apply Hoth; assumption.
      * rewrite Htd. split; [assumption|]. right. exists w, vw. repeat split; assumption.
Qed.

Lemma reg_inv_arun l : forall ca, reg_inv ca -> reg_inv (arun l ca).
Proof. induction l as [|t l IH]; intros ca H; [exact H|]. cbn [arun fold_left]. apply IH. apply reg_inv_step. exact H. Qed.

Theorem safe_register_once s0 sched :
  let c := run sched (init (compile nsn) s0 reg_progs) in
  vals <> [] ->
  s_mem n s0 = false ->
  owner c = None ->
  (forall i, i < length vals -> todo (threads c i) = []) ->
  exists w vw, nth_error vals w = Some vw /\
    r_results (tregs (threads c w)) = [ROk] /\
    s_get n (shared c) = Some vw /\
    forall i, i < length vals -> i <> w -> r_results (tregs (threads c i)) = [RNamingError].
Proof.
  intros c Hne Hm Hfree Hdone.
  destruct (ns_ops_atomic s0 reg_progs sched Hfree) as [Hsh Hth]. fold c in Hsh, Hth.
  pose proof (reg_inv_arun (lin sched (init (compile nsn) s0 reg_progs)) _ (reg_inv_init s0 Hm)) as [_ Hd].
  set (ca := arun _ _) in *.
  destruct Hd as [[_ Hall]|(w & vw & Hw & _ & Hg & _ & Hrw & Hoth)].
  - (* impossible: thread 0 is done *)
    destruct vals as [|v0 vs] eqn:Ev; [contradiction|].
    specialize (Hdone 0 ltac:(cbn; lia)). rewrite Hth in Hdone.
    rewrite (Hall 0 v0 eq_refl) in Hdone. discriminate.
  - exists w, vw. rewrite Hth, Hsh. repeat split; try assumption.
    intros i Hi Hiw. destruct (nth_error vals i) as [v|] eqn:Hv.
    2:{ apply nth_error_None in Hv. lia. }
    rewrite Hth. destruct (Hoth i v Hiw Hv) as [Hinit|[_ Hr]]; [|exact Hr].
    specialize (Hdone i Hi). rewrite Hth, Hinit in Hdone. discriminate.
Qed.
End Register.

(* ================= concurrent removals of one name ================= *)
Section Remove.
Variables (n : name) (k : nat).
Definition rem_progs : list (list nsop) := repeat [RemoveName n] k.

Lemma nth_rem_lt i : i < k -> nth_error rem_progs i = Some [RemoveName n].
Proof. intros H. unfold rem_progs. rewrite nth_error_repeat; [reflexivity|exact H]. Qed.
Lemma nth_rem_ge i : k <= i -> nth_error rem_progs i = None.
Proof. intros H. apply nth_error_None. unfold rem_progs. rewrite repeat_length. exact H. Qed.

Definition rem_inv (ca : cfg) : Prop :=
  (forall i, k <= i -> todo (threads ca i) = []) /\
  ((s_mem n (shared ca) = true /\ uniq (shared ca) = true /\
    forall i, i < k -> threads ca i = init_thread (RemoveName n))
   \/
   (exists w, w < k /\ s_mem n (shared ca) = false /\
      todo (threads ca w) = [] /\ r_results (tregs (threads ca w)) = [RCount 1] /\
      forall i, i <> w -> i < k ->
        threads ca i = init_thread (RemoveName n) \/
        (todo (threads ca i) = [] /\ r_results (tregs (threads ca i)) = [RCount 0]))).

Lemma rem_inv_init s0 : s_mem n s0 = true -> uniq s0 = true -> rem_inv (init (compile nsn) s0 rem_progs).
Proof.
  intros Hm Hu. split.
  - intros i Hi. cbn [init threads]. rewrite mk_threads_none; [reflexivity|apply nth_rem_ge; exact Hi].
  - left. repeat split; try assumption. intros i Hi. cbn [init threads].
    rewrite (mk_threads_some _ _ [RemoveName n]); [reflexivity|apply nth_rem_lt; exact Hi].
Qed.

Hypothesis not_ns_entry : name_eqb n nsn = false.

Lemma rem_inv_step t ca : rem_inv ca -> rem_inv (astep t ca).
Proof.
  intros [Hnone Hd]. unfold astep.
  destruct (le_lt_dec k t) as [Hge|Hlt].
  { rewrite (Hnone t Hge). split; assumption. }
  destruct Hd as [(Hm & Hu & Hall)|(w & Hw & Hm & Htw & Hrw & Hoth)].
  - rewrite (Hall t Hlt). cbn [init_thread todo tregs body body_remove_name run_prog].
    unfold a_remove_check. rewrite Hm, not_ns_entry. cbn [negb andb r_found set_found run_prog].
    unfold a_del. rewrite Hm. cbn [run_prog].
    split.
    + intros i Hi. cbn [threads]. rewrite upd_other by lia. apply Hnone. exact Hi.
    + right. exists t. cbn [shared threads]. rewrite upd_same. cbn [todo tregs].
      repeat split; try assumption.
      * apply s_mem_del. exact Hu.
      * intros i Hi Hik. left. rewrite upd_other by exact Hi. apply Hall. exact Hik.
  - destruct (Nat.eq_dec t w) as [->|Hne].
    + rewrite Htw. split; [assumption|]. right. exists w. repeat split; assumption.
    + destruct (Hoth t Hne Hlt) as [Hinit|[Htd Hres]].
      * rewrite Hinit. cbn [init_thread todo tregs body body_remove_name run_prog].
        unfold a_remove_check. rewrite Hm. cbn [andb r_found set_found push run_prog].
        split.
        -- intros i Hi. cbn [threads]. rewrite upd_other by lia. apply Hnone. exact Hi.
        -- right. exists w. cbn [shared threads]. rewrite upd_other by (intros E; apply Hne; symmetry; exact E).
           repeat split; try assumption.
           intros i Hi Hik. destruct (Nat.eq_dec i t) as [->|Hit].
           ++ right. rewrite upd_same. cbn [todo tregs]. split; reflexivity.
           ++ rewrite upd_other by exact Hit. apply Hoth; assumption.
      * rewrite Htd. split; [assumption|]. right. exists w. repeat split; assumption.
Qed.

Lemma rem_inv_arun l : forall ca, rem_inv ca -> rem_inv (arun l ca).
Proof. induction l as [|t l IH]; intros ca H; [exact H|]. cbn [arun fold_left]. apply IH. apply rem_inv_step. exact H. Qed.

Theorem remove_total_one s0 sched :
  let c := run sched (init (compile nsn) s0 rem_progs) in
  0 < k ->
  s_mem n s0 = true -> uniq s0 = true ->
  owner c = None ->
  (forall i, i < k -> todo (threads c i) = []) ->
  s_mem n (shared c) = false /\
  exists w, w < k /\ r_results (tregs (threads c w)) = [RCount 1] /\
    forall i, i < k -> i <> w -> r_results (tregs (threads c i)) = [RCount 0].
Proof.
  intros c Hk Hm Hu Hfree Hdone.
  destruct (ns_ops_atomic s0 rem_progs sched Hfree) as [Hsh Hth]. fold c in Hsh, Hth.
  pose proof (rem_inv_arun (lin sched (init (compile nsn) s0 rem_progs)) _ (rem_inv_init s0 Hm Hu)) as [_ Hd].
  set (ca := arun _ _) in *.
  destruct Hd as [(_ & _ & Hall)|(w & Hw & Hm' & _ & Hrw & Hoth)].
  - specialize (Hdone 0 Hk). rewrite Hth, (Hall 0 Hk) in Hdone. discriminate.
  - rewrite Hsh. split; [exact Hm'|]. exists w. rewrite Hth. repeat split; try assumption.
    intros i Hi Hiw. rewrite Hth. destruct (Hoth i Hiw Hi) as [Hinit|[_ Hr]]; [|exact Hr].
    specialize (Hdone i Hi). rewrite Hth, Hinit in Hdone. discriminate.
Qed.
End Remove.

End NsProofs.

(* ---- the code as it was at the pinned commit violates the property: two removers of one
   name, both pass the unlocked membership test, the second `del` raises KeyError ---- *)
Definition refute_store : store := [([120%N], 11%N)].
Definition refute_progs : list (list nsop) := [[RemoveName [120%N]]; [RemoveName [120%N]]].
Definition refute_sched : list nat := [0; 1; 0; 0; 0; 1; 1; 1].
Definition results_of (c : config store regs) (i : nat) : list res := r_results (tregs (threads c i)).

Lemma unlocked_remove_refuted :
  let c := run refute_sched (init (compile_unlocked [78%N]) refute_store refute_progs) in
  owner c = None /\ results_of c 0 = [RCount 1] /\ results_of c 1 = [RInternalError].
Proof. vm_compute. repeat split. Qed.
