(* C18 — the racing-closer configuration (Model/PoolRace.v): Pool.close() runs in its own thread
   while the accept loop is still submitting.  The first-layer invariant of Proofs/Pool.v holds
   for the state as seen by the accept loop AND as seen by the closer; on top of it: the two are
   never inside a count_lock region together, a submit that got past its `closed` test still
   sees an open pool, and once close has cleared the slots no slot holds a job any more. *)
From Coq Require Import List Arith Bool Lia.
Import ListNotations.
From V Require Import Model.Pool Model.PoolRace Proofs.Pool Proofs.PoolTac Proofs.PoolLock Proofs.PoolWake Proofs.PoolJobs Proofs.PoolFinal.

Definition msubpc (p : mpc) : bool :=
  match p with
  | MAcq | MClosedRd | MIdleBool | MPop | MLenBusy | MLenIdle | MSpawn | MBusyAdd | MSlotWr | MEvSet
  | MRelOk | MRelRefuse | MRelClosed | MDeny | MDone => true
  | _ => false
  end.
Definition mclosepc (p : mpc) : bool :=
  match p with
  | CClosedRd | CAcq1 | CIterBusy | CSlot1 | CEv1 | CIterIdle | CSlot2 | CEv2 | CClosedWr | CRel1
  | CAcq2 | CSwapIdle | CSwapBusy | CRel2 | MDone => true
  | _ => false
  end.
(* the submit in progress has read closed = False and still holds the lock *)
Definition mpast (p : mpc) : bool :=
  match p with
  | MIdleBool | MPop | MLenBusy | MLenIdle | MSpawn | MBusyAdd | MSlotWr | MEvSet | MRelOk | MRelRefuse => true
  | _ => false
  end.

Record RX (c : cfg) (r : rst) : Prop := mk_RX {
  x_a : msubpc (m_pc (mn (base r))) = true;
  x_k : mclosepc (m_pc (kl r)) = true;
  x_excl : mcs (m_pc (mn (base r))) = true -> mcs (m_pc (kl r)) = true -> False;
  x_past : mpast (m_pc (mn (base r))) = true -> closed (base r) = false;
  x_closed : closed (base r) = true -> mafter (m_pc (kl r)) = true;
  x_none : closed (base r) = true \/ mallnone (m_pc (kl r)) = true -> forall i, i < nw (base r) -> w_slot (ws (base r) i) = None;
  x_p1 : forall i j, i < nw (base r) -> w_slot (ws (base r) i) = Some j ->
         (m_pc (kl r) = CSlot1 -> In i (m_snap (kl r))) /\ (m_pc (kl r) = CEv1 -> In i (tl (m_snap (kl r))))
}.

Definition RReach (c : cfg) (r : rst) : Prop := Inv c (base r) /\ Inv c (kview r) /\ RX c r.

(* Inv for the same shared state with another main-like record in place *)
Lemma Inv_set_main c s m :
  Inv c s ->
  (mcs (m_pc m) = true -> lock s = Some 0 /\ MCS c (set_main s m)) ->
  (mclosed (m_pc m) = true -> closed s = true) ->
  Inv c (set_main s m).
Proof.
  intros H Hm Hc. constructor; cbn [lock idle busy closed nw ws mn set_main].
  - exact Hm.
  - intros i Hi Hw. destruct (i_w _ _ H i Hi Hw) as [A B]. split; [exact A|exact B].
  - apply (i_ndi _ _ H).
  - apply (i_ndb _ _ H).
  - apply (i_dis _ _ H).
  - apply (i_rng _ _ H).
  - apply (i_cnt _ _ H).
  - apply (i_idle _ _ H).
  - apply (i_job _ _ H).
  - apply (i_slot _ _ H).
  - apply (i_post _ _ H).
  - exact Hc.
Qed.

Lemma worker_step_set_main c i s m :
  worker_step c i (set_main s m) = match worker_step c i s with Some s' => Some (set_main s' m) | None => None end.
Proof.
  unfold worker_step. cbn [ws lock closed busy idle set_main].
  destruct (w_pc (ws s i));
    repeat match goal with
           | |- context [if ?b then _ else _] => destruct b
           | |- context [match ?o with Some _ => _ | None => _ end] => destruct o
           end; reflexivity.
Qed.

Lemma worker_slot_mono c i s s' : worker_step c i s = Some s' ->
  nw s' = nw s /\ forall k j, w_slot (ws s' k) = Some j -> w_slot (ws s k) = Some j.
Proof.
  intros H. unfold worker_step in H.
  destruct (w_pc (ws s i));
    repeat match type of H with
           | context [if ?b then _ else _] => destruct b eqn:?
           | context [match ?o with Some _ => _ | None => _ end] => destruct o eqn:?
           end; try discriminate; injection H as <-; cbn; (split; [reflexivity|]); intros k j; unfold updw;
    destruct (Nat.eqb_spec k i); subst; cbn; intros X; try discriminate X; try congruence.
Qed.

Section Locked.
Variable c : cfg.
Hypothesis Hl : all_locked (lk c) = true.
Hypothesis Hwf : wf_cfg c.
Hypothesis Hdc : do_close c = false.

Lemma after_submit_race n : after_submit c n = MAcq \/ after_submit c n = MDone.
Proof. unfold after_submit. rewrite (lkp c Hl), Hdc. destruct (Nat.ltb n (njobs c)); tauto. Qed.

Lemma MCS_close_pc s m : mclosepc (m_pc m) = true -> MCS c (set_main s m).
Proof. unfold MCS. cbn [mn set_main]. destruct (m_pc m); cbn; intros H; try discriminate H; exact I. Qed.

Ltac oldX HX :=
  pose proof (x_a _ _ HX) as Xa; pose proof (x_k _ _ HX) as Xk; pose proof (x_excl _ _ HX) as Xex; pose proof (x_past _ _ HX) as Xpast;
  pose proof (x_closed _ _ HX) as Xcl; pose proof (x_none _ _ HX) as Xnone; pose proof (x_p1 _ _ HX) as Xp1.

Lemma accept_kview ch s0 K s' : RReach c (mk_rst s0 K) -> main_step c ch s0 = Some s' -> Inv c (set_main s' K).
Proof.
  intros (HA & HK & HX) E. oldX HX. cbn [base kl kview] in *.
  apply Inv_set_main.
  - exact (main_step_inv c Hl ch s0 s' HA E).
  - intros Hk. split; [|apply MCS_close_pc; exact Xk].
    destruct (i_m _ _ HK Hk) as [L _]. cbn [lock set_main] in L.
    assert (Hna : mcs (m_pc (mn s0)) = false) by (destruct (mcs (m_pc (mn s0))) eqn:X; [exfalso; auto|reflexivity]).
    main_cases c Hl s0 E; cbn [mcs msubpc] in *; try discriminate; projs; try congruence; exact L.
  - intros Hk. pose proof (i_mclosed _ _ HK Hk) as X. cbn [closed set_main] in X.
    destruct (main_step_frame c Hl _ _ _ E) as (_ & _ & F). apply F. exact X.
Qed.

Lemma accept_RX ch s0 K s' : RReach c (mk_rst s0 K) -> main_step c ch s0 = Some s' -> RX c (mk_rst s' K).
Proof.
  intros (HA & HK & HX) E. oldX HX. old HA. pose proof (i_m _ _ HK) as Km. cbn [base kl kview lock closed set_main mn] in *.
  main_cases c Hl s0 E; cbn [msubpc] in Xa; try discriminate Xa.
  all: cbn [mcs mpast] in *.
  all: constructor; cbn [base kl]; projs; realign.
  all: try rewrite ?Hclosed.
  all: try match goal with |- context [after_submit c ?n] => destruct (after_submit_race n) as [Eas|Eas]; rewrite ?Eas end.
  all: cbn [msubpc mcs mpast].
  all: try solve [assumption | reflexivity | discriminate | intros; discriminate | auto].
  all: try solve [intros _ Hk; destruct (Km Hk) as [L _]; congruence].
  all: try solve [intros P i Hi; updw_cases; unfold worker0 in *; projs; try reflexivity;
                  first [ solve [apply Xnone; [exact P|lia]]
                        | solve [exfalso; destruct P as [P|P]; [rewrite (Xpast eq_refl) in P; discriminate P | apply Xex; [reflexivity|destruct (m_pc K); try discriminate P; reflexivity]]] ]].
  all: try solve [intros i j Hi Hs; updw_cases; unfold worker0 in *; projs; try discriminate;
                  first [ solve [apply (Xp1 _ j); [lia|assumption]]
                        | solve [split; intros X; exfalso; (apply Xex; [reflexivity|rewrite X; reflexivity])] ]].
Qed.

Lemma Inv_back c0 s' A : Inv c0 s' -> Inv c0 (set_main s' A) -> Inv c0 (set_main (set_main s' A) (mn s')).
Proof.
  intros H HA. apply Inv_set_main; [exact HA| |].
  - intros Hm. destruct (i_m _ _ H Hm) as [L M]. split; [exact L|]. exact M.
  - intros Hm. exact (i_mclosed _ _ H Hm).
Qed.

Lemma mpast_cs p : mpast p = true -> mcs p = true.
Proof. destruct p; cbn; congruence. Qed.
Lemma msub_not_mclosed p : msubpc p = true -> mclosed p = false.
Proof. destruct p; cbn; congruence. Qed.

Lemma closer_aview ch s0 K s' : RReach c (mk_rst s0 K) -> main_step c ch (set_main s0 K) = Some s' -> Inv c (set_main s' (mn s0)).
Proof.
  intros (HA & HK & HX) E. oldX HX. cbn [base kl kview] in *.
  apply Inv_set_main.
  - exact (main_step_inv c Hl ch _ s' HK E).
  - intros Ha. destruct (i_m _ _ HA Ha) as [L M].
    assert (Hnk : mcs (m_pc K) = false) by (destruct (mcs (m_pc K)) eqn:X; [exfalso; auto|reflexivity]).
    unfold MCS, PM, cnt in *.
    main_cases c Hl (set_main s0 K) E; cbn [lock closed set_main mn idle busy nw ws m_pc] in *; rewrite Hpc in *; cbn [mcs mclosepc] in *; try discriminate;
      cbn [lock idle busy closed nw ws mn set_main goto mpc_of set_lock m_pc m_w m_lenb m_next m_snap] in *; try congruence; try (split; assumption).
  - intros Ha. rewrite (msub_not_mclosed _ Xa) in Ha. discriminate Ha.
Qed.

Lemma closer_RX ch s0 K s' : RReach c (mk_rst s0 K) -> main_step c ch (set_main s0 K) = Some s' ->
  RX c (mk_rst (set_main s' (mn s0)) (mn s')).
Proof.
  intros (HA & HK & HX) E. oldX HX. pose proof (i_m _ _ HA) as Am. pose proof (i_slot _ _ HK) as Oslot. pose proof (i_mclosed _ _ HK) as Omc.
  unfold kview in *. cbn [base kl] in *.
  main_cases c Hl (set_main s0 K) E; cbn [lock closed set_main mn idle busy nw ws m_pc] in *; rewrite Hpc in *; cbn [mclosepc] in Xk; try discriminate Xk.
  all: try rewrite Hsnap in *.
  all: try rewrite Hbusy in *.
  all: cbn [mcs mafter mallnone mclosed] in *.
  all: constructor; cbn [base kl]; projs; cbn [lock idle busy closed nw ws mn set_main m_pc m_snap] in *; realign.
  all: try rewrite ?Hclosed.
  all: cbn [mclosepc mcs mafter mallnone tl].
  all: try solve [assumption | reflexivity | discriminate | intros; discriminate | auto].
  all: try solve [intros Ha _; destruct (Am Ha) as [L _]; congruence].
  all: try solve [intros P; rewrite (Xpast P) in Hclosed; discriminate Hclosed].
  all: try solve [intros P; exfalso; apply Xex; [apply mpast_cs; exact P | reflexivity]].
  (* x_p1 *)
  all: try solve [intros i j Hi Hs; split; intros X; discriminate X].
  all: try solve [intros i j Hi Hs; updw_cases; projs; try discriminate; split; intros X; try discriminate X; cbn [tl];
                  match goal with Hs' : w_slot (ws _ ?x) = Some ?y |- _ =>
                    assert (Hx : x < nw s0) by (assumption || lia);
                    destruct (Xp1 x y Hx Hs') as [P1 P2];
                    try solve [ exact (P2 eq_refl) ];
                    try solve [ destruct (P1 eq_refl) as [Y|Y]; [congruence|exact Y] ];
                    try solve [ destruct (closed s0) eqn:Ec; [specialize (Xcl eq_refl); discriminate Xcl|]; rewrite <- ?Hbusy; eapply Oslot; eauto ] end].
  (* x_none *)
  all: try solve [intros [X|X]; discriminate X].
  all: try solve [intros [X|X]; [apply Xnone; left; exact X | discriminate X]].
  all: try solve [intros P i Hi; updw_cases; projs; try reflexivity;
                  match goal with |- w_slot (ws _ ?x) = None =>
                    assert (Hx : x < nw s0) by (assumption || lia);
                    destruct (w_slot (ws s0 x)) as [y|] eqn:Es; [exfalso|reflexivity];
                    try solve [ rewrite (Xnone (or_intror eq_refl) x Hx) in Es; discriminate Es ];
                    try solve [ destruct P as [P|P]; [|discriminate P]; rewrite (Xnone (or_introl P) x Hx) in Es; discriminate Es ];
                    try solve [ destruct (Xp1 x y Hx Es) as [P1 P2]; first [destruct (P1 eq_refl) | destruct (P2 eq_refl)] ];
                    try solve [ destruct (closed s0) eqn:Ec; [specialize (Xcl eq_refl); discriminate Xcl|];
                                pose proof (Oslot x y Hx Es eq_refl) as X; rewrite ?Hbusy in X; destruct X ] end].
  intros i j Hi Hs. split; intros X; [|discriminate X].
  destruct (closed s0) eqn:Ec; [specialize (Xcl eq_refl); discriminate Xcl|].
  first [exact (Oslot i j Hi Hs eq_refl) | rewrite <- Hbusy; exact (Oslot i j Hi Hs eq_refl)].
Qed.

Lemma worker_RX i s0 K s' : RReach c (mk_rst s0 K) -> worker_step c i s0 = Some s' -> RX c (mk_rst s' K).
Proof.
  intros (HA & HK & HX) E. oldX HX. cbn [base kl] in *.
  destruct (worker_step_frame c Hl i s0 s' E) as (Fc & Fm & Fn & _).
  destruct (worker_slot_mono c i s0 s' E) as [_ Fs].
  constructor; cbn [base kl]; rewrite ?Fc, ?Fm, ?Fn; try assumption.
  - intros P k Hk. destruct (w_slot (ws s' k)) as [y|] eqn:Es; [|reflexivity].
    pose proof (Fs k y Es) as F. rewrite (Xnone P k Hk) in F. discriminate F.
  - intros k j Hk Hs. apply (Xp1 k j Hk). apply Fs. exact Hs.
Qed.

Lemma rreach_init : RReach c (rinit c).
Proof.
  unfold RReach, rinit, kview. cbn [base kl]. split; [apply init_inv; assumption|]. split.
  - apply Inv_set_main; [apply init_inv; assumption| |]; cbn; intros H; discriminate H.
  - constructor; cbn [base kl init closed nw ws mn m_pc closer0 m_snap]; unfold main_start.
    + destruct (after_submit_race 0) as [E|E]; rewrite E; reflexivity.
    + reflexivity.
    + intros _ H. discriminate H.
    + destruct (after_submit_race 0) as [E|E]; rewrite E; intros H; discriminate H.
    + intros H. discriminate H.
    + intros [H|H]; discriminate H.
    + intros i j _ H. discriminate H.
Qed.

Lemma rreach_step tc r : RReach c r -> RReach c (rstep c tc r).
Proof.
  intros HR. destruct r as [s0 K]. unfold rstep, rstep_opt. destruct tc as [t ch]. cbn [fst snd].
  destruct t as [|[|i]].
  - unfold accept_step. cbn [base kl]. destruct (main_step c ch s0) as [s'|] eqn:E; [|exact HR].
    split; [|split].
    + cbn [base]. destruct HR as (HA & _). exact (main_step_inv c Hl ch s0 s' HA E).
    + unfold kview. cbn [base kl]. eapply accept_kview; eauto.
    + eapply accept_RX; eauto.
  - unfold closer_step, kview. cbn [base kl]. destruct (main_step c ch (set_main s0 K)) as [s'|] eqn:E; [|exact HR].
    pose proof (closer_aview ch s0 K s' HR E) as HA'.
    split; [|split].
    + cbn [base]. exact HA'.
    + unfold kview. cbn [base kl]. apply Inv_back; [|exact HA'].
      destruct HR as (_ & HK & _). exact (main_step_inv c Hl ch _ s' HK E).
    + eapply closer_RX; eauto.
  - cbn [base]. destruct (Nat.ltb_spec i (nw s0)); [|exact HR].
    unfold rworker_step. cbn [base kl]. destruct (worker_step c i s0) as [s'|] eqn:E; [|exact HR].
    split; [|split].
    + cbn [base]. destruct HR as (HA & _). exact (worker_step_inv c Hl i s0 s' HA H E).
    + unfold kview. cbn [base kl]. destruct HR as (_ & HK & _). unfold kview in HK. cbn [base kl] in HK.
      eapply (worker_step_inv c Hl i (set_main s0 K)); [exact HK|exact H|]. rewrite worker_step_set_main, E. reflexivity.
    + eapply worker_RX; eauto.
Qed.

Lemma rreach_run sched : forall r, RReach c r -> RReach c (rrun c sched r).
Proof.
  induction sched as [|tc sched IH]; intros r HR; [exact HR|]. cbn [rrun fold_left]. apply IH. apply rreach_step. exact HR.
Qed.

(* ---- frames of one step of the racing machine ---- *)
Lemma rstep_closed tc r : RReach c r -> closed (base r) = true ->
  closed (base (rstep c tc r)) = true /\ started (base (rstep c tc r)) = started (base r).
Proof.
  intros HR Hc. destruct r as [s0 K]. unfold rstep, rstep_opt. destruct tc as [t ch]. cbn [fst snd base] in *.
  destruct t as [|[|i]].
  - unfold accept_step. cbn [base kl]. destruct (main_step c ch s0) as [s'|] eqn:E; [|cbn; tauto].
    destruct (main_step_frame c Hl _ _ _ E) as (A & _ & B). cbn [base]. split; [apply B; exact Hc|exact A].
  - unfold closer_step, kview. cbn [base kl]. destruct (main_step c ch (set_main s0 K)) as [s'|] eqn:E; [|cbn; tauto].
    destruct (main_step_frame c Hl _ _ _ E) as (A & _ & B). cbn [base closed started set_main] in *. split; [apply B; exact Hc|exact A].
  - destruct (Nat.ltb_spec i (nw s0)); [|cbn; tauto].
    unfold rworker_step. cbn [base kl]. destruct (worker_step c i s0) as [s'|] eqn:E; [|cbn; tauto].
    destruct (worker_step_frame c Hl _ _ _ E) as (A & _ & _ & _ & B). cbn [base]. split; [congruence|]. apply B.
    destruct HR as (_ & _ & HX). apply (x_none _ _ HX); [left; exact Hc|exact H].
Qed.

Lemma rrun_closed sched : forall r, RReach c r -> closed (base r) = true ->
  closed (base (rrun c sched r)) = true /\ started (base (rrun c sched r)) = started (base r).
Proof.
  induction sched as [|tc sched IH]; intros r HR Hc; [split; [exact Hc|reflexivity]|].
  cbn [rrun fold_left]. destruct (rstep_closed tc r HR Hc) as [A B].
  destruct (IH (rstep c tc r) (rreach_step tc r HR) A) as [X Y]. split; [exact X|].
  transitivity (started (base (rstep c tc r))); [exact Y|exact B].
Qed.

End Locked.

Lemma inv_bookkeeping c s : Inv c s ->
  NoDup (idle s ++ busy s)
  /\ (forall x, In x (idle s ++ busy s) -> x < nw s)
  /\ length (idle s) + length (busy s) <= size c
  /\ (m_pc (mn s) = MRelRefuse -> idle s = [] /\ length (busy s) = size c)
  /\ (forall i j, i < nw s -> w_slot (ws s i) = Some j -> closed s = false -> In i (busy s) /\ ~ In i (idle s))
  /\ (forall i, In i (idle s) -> w_slot (ws s i) = None).
Proof.
  intros HI. split; [|split; [|split; [|split; [|split]]]].
  - apply NoDup_app_intro; [apply (i_ndi _ _ HI)|apply (i_ndb _ _ HI)|apply (i_dis _ _ HI)].
  - intros x Hx. apply in_app_iff in Hx. apply (i_rng _ _ HI). exact Hx.
  - apply (i_cnt _ _ HI).
  - intros H. pose proof (i_m _ _ HI) as Hm. unfold MCS in Hm. rewrite H in Hm. apply (Hm eq_refl).
  - intros i j Hi Hs Hc. split; [eapply (i_slot _ _ HI); eauto|].
    intros Hin. destruct (i_idle _ _ HI i Hin) as [E _]. congruence.
  - intros i Hin. apply (i_idle _ _ HI i Hin).
Qed.

(* ------------------------------------------------------------ theorems for the racing configuration *)
Section RaceExec.
Variables (c : cfg) (sched : list (nat * nat)).
Hypothesis Hl : all_locked (lk c) = true.
Hypothesis Hwf : wf_cfg c.
Hypothesis Hdc : do_close c = false.
Let r := rrun c sched (rinit c).
Let s := base r.

Lemma rreach_exec : RReach c r.
Proof. apply rreach_run; try assumption. apply rreach_init; assumption. Qed.

Theorem race_pool_invariants :
  NoDup (idle s ++ busy s)
  /\ (forall x, In x (idle s ++ busy s) -> x < nw s)
  /\ length (idle s) + length (busy s) <= size c
  /\ (m_pc (mn s) = MRelRefuse -> idle s = [] /\ length (busy s) = size c)
  /\ (forall i j, i < nw s -> w_slot (ws s i) = Some j -> closed s = false -> In i (busy s) /\ ~ In i (idle s))
  /\ (forall i, In i (idle s) -> w_slot (ws s i) = None).
Proof. apply inv_bookkeeping. destruct rreach_exec as (HA & _). exact HA. Qed.

Theorem race_lock_discipline :
  (mcs (m_pc (mn s)) = true -> lock s = Some 0)
  /\ (mcs (m_pc (kl r)) = true -> lock s = Some 0)
  /\ (mcs (m_pc (mn s)) = true -> mcs (m_pc (kl r)) = true -> False)
  /\ (forall i, i < nw s -> wcs (w_pc (ws s i)) = true -> lock s = Some (S i))
  /\ (forall i, i < nw s -> wcs (w_pc (ws s i)) = true -> mcs (m_pc (mn s)) = false /\ mcs (m_pc (kl r)) = false)
  /\ (forall i k, i < nw s -> k < nw s -> wcs (w_pc (ws s i)) = true -> wcs (w_pc (ws s k)) = true -> i = k).
Proof.
  destruct rreach_exec as (HA & HK & HX). fold s in HA. unfold kview in HK. fold s in HK.
  split; [|split; [|split; [|split; [|split]]]].
  - intros H. apply (i_m _ _ HA H).
  - intros H. destruct (i_m _ _ HK H) as [L _]. exact L.
  - apply (x_excl _ _ HX).
  - intros i Hi H. apply (i_w _ _ HA i Hi H).
  - intros i Hi H. split.
    + destruct (mcs (m_pc (mn s))) eqn:E; [|reflexivity]. exfalso. exact (excl_mw c s i HA E Hi H).
    + destruct (mcs (m_pc (kl r))) eqn:E; [|reflexivity]. exfalso. exact (excl_mw c (set_main s (kl r)) i HK E Hi H).
  - intros i k Hi Hk Hwi Hwk. exact (excl_ww c s i k HA Hi Hk Hwi Hwk).
Qed.

(* once the closing thread has set the flag (end of its first locked region): no submit is past its `closed` test,
   no slot holds a job, and under ANY continuation the flag stays set and no job ever starts *)
Theorem race_close_cutoff :
  closed s = true ->
  mpast (m_pc (mn s)) = false
  /\ (forall i, i < nw s -> w_slot (ws s i) = None)
  /\ mafter (m_pc (kl r)) = true
  /\ forall more, closed (base (rrun c more r)) = true /\ started (base (rrun c more r)) = started s.
Proof.
  intros Hc. destruct rreach_exec as (HA & HK & HX). split; [|split; [|split]].
  - destruct (mpast (m_pc (mn s))) eqn:E; [|reflexivity]. pose proof (x_past _ _ HX E) as X. fold s in X. congruence.
  - intros i Hi. apply (x_none _ _ HX); [left; exact Hc|exact Hi].
  - apply (x_closed _ _ HX). exact Hc.
  - intros more. apply (rrun_closed c Hl Hdc more r rreach_exec Hc).
Qed.

(* and the flag is written only inside the closer's first region, which excludes a submit in progress *)
Theorem race_submit_after_close_refused ch :
  closed s = true -> m_pc (mn s) = MClosedRd ->
  exists r', accept_step c ch r = Some r'
    /\ poolclosed (base r') = poolclosed s ++ [m_next (mn s)]
    /\ m_pc (mn (base r')) = MRelClosed
    /\ started (base r') = started s /\ refused (base r') = refused s /\ ws (base r') = ws s /\ idle (base r') = idle s /\ busy (base r') = busy s.
Proof.
  intros Hc Hp. unfold accept_step, main_step. fold s. rewrite Hp, Hc, (lkp c Hl).
  eexists. split; [reflexivity|]. cbn. repeat split.
Qed.

End RaceExec.

(* the hypotheses are satisfiable: connection 0 is handed over, the closer then runs its first region (cancelling it),
   connection 1 is submitted afterwards and is refused with PoolError; the state just before that submit reads `closed` *)
Example race_nonvacuous :
  let c := mk_cfg 1 1 2 false (mk_lockcfg true true true true) in
  let r1 := rrun c (repeat (0,0) 8 ++ repeat (1,0) 8 ++ [(0,0)]) (rinit c) in
  let r2 := rrun c [(0,0)] r1 in
  all_locked (lk c) = true /\ wf_cfg c /\ do_close c = false /\
  closed (base r1) = true /\ m_pc (mn (base r1)) = MClosedRd /\ m_pc (kl r1) = CAcq2 /\
  poolclosed (base r2) = [1] /\ started (base r2) = [] /\ w_slot (ws (base r2) 0) = None.
Proof. vm_compute. repeat split; try reflexivity; lia. Qed.
