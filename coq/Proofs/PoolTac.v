(* C18 — shared tactics for the invariant proofs over Model/Pool.v (case split of one step). *)
From Coq Require Import List Arith Bool Lia.
Import ListNotations.
From V Require Import Model.Pool Proofs.Pool.

Ltac updw_cases :=
  unfold updw in *;
  repeat match goal with
  | |- context [Nat.eqb ?i ?k] => destruct (Nat.eqb_spec i k); subst; try (exfalso; congruence)
  | H : context [Nat.eqb ?i ?k] |- _ => destruct (Nat.eqb_spec i k); subst; try (exfalso; congruence)
  end.

Ltac projs := cbn [lock idle busy closed nw ws mn started ended refused poolclosed m_pc m_next m_w m_lenb m_snap
                   w_pc w_slot w_ev w_cur w_found w_crash set_main set_lock set_idle set_busy set_closed set_w
                   mpc_of goto finish_submit set_pc set_slot set_ev] in *.

Ltac bools :=
  repeat match goal with
         | H : mem_nat _ _ = true |- _ => apply mem_nat_In in H
         | H : mem_nat _ _ = false |- _ => apply mem_nat_false in H
         | H : (_ <? _) = true |- _ => apply Nat.ltb_lt in H
         | H : (_ <? _) = false |- _ => apply Nat.ltb_ge in H
         | H : (_ <=? _) = true |- _ => apply Nat.leb_le in H
         | H : (_ <=? _) = false |- _ => apply Nat.leb_gt in H
         end.

(* H : main_step c ch s = Some s'  ==> one goal per program counter / branch, s' replaced by the explicit state;
   leaves Hpc : m_pc (mn s) = <pc> and the branch conditions Hlock / Hclosed / Hidle / Hbusy / Hsnap *)
Ltac main_cases c Hl s H :=
  unfold main_step in H;
  rewrite ?(lkp c Hl), ?(lk1 c Hl), ?(lk2 c Hl) in H; unfold close_after_notify1 in H;
  rewrite ?(lkp c Hl), ?(lk1 c Hl), ?(lk2 c Hl) in H;
  destruct (m_pc (mn s)) eqn:Hpc;
  repeat match type of H with
         | context [match lock s with _ => _ end] => destruct (lock s) eqn:Hlock
         | context [if closed s then _ else _] => destruct (closed s) eqn:Hclosed
         | context [match idle s with _ => _ end] => destruct (idle s) eqn:Hidle
         | context [match busy s with _ => _ end] => destruct (busy s) eqn:Hbusy
         | context [match m_snap (mn s) with _ => _ end] => destruct (m_snap (mn s)) eqn:Hsnap
         | context [if mem_nat ?a ?b then _ else _] => destruct (mem_nat a b) eqn:Hmem
         | context [if (?a <? ?b) then _ else _] => destruct (a <? b) eqn:Hltb
         | context [match ?r with [] => _ | _ => _ end] => destruct r eqn:Hrest
         end; try discriminate;
  try match goal with Hidle : idle s = _ :: _ |- _ => rewrite <- Hidle in * end;
  try match goal with Hbusy : busy s = _ :: _ |- _ => rewrite <- Hbusy in * end;
  injection H as <-; bools.

(* after `constructor; projs`: bring the goal back in line with hypotheses rewritten by the case split *)
Ltac realign :=
  try match goal with Hidle : idle _ = [] |- _ => rewrite ?Hidle end;
  try match goal with Hbusy : busy _ = [] |- _ => rewrite ?Hbusy end;
  try match goal with Hsnap : m_snap _ = _ |- _ => rewrite ?Hsnap end.

Ltac worker_cases c Hl s k H :=
  unfold worker_step in H; unfold notify_exit in H; rewrite ?(lkn c Hl) in H;
  destruct (w_pc (ws s k)) eqn:Hpc;
  repeat match type of H with
         | context [match lock s with _ => _ end] => destruct (lock s) eqn:Hlock
         | context [if closed s then _ else _] => destruct (closed s) eqn:Hclosed
         | context [if w_ev ?w then _ else _] => destruct (w_ev w) eqn:Hev
         | context [if w_crash ?w then _ else _] => destruct (w_crash w) eqn:Hcrash
         | context [match w_slot ?w with _ => _ end] => destruct (w_slot w) eqn:Hslot
         | context [match w_cur ?w with _ => _ end] => destruct (w_cur w) eqn:Hcur
         | context [if mem_nat ?a ?b then _ else _] => destruct (mem_nat a b) eqn:Hmem
         | context [if (?a <=? ?b) then _ else _] => destruct (a <=? b) eqn:Hleb
         end; try discriminate;
  injection H as <-; bools.

(* facts of the first invariant *)
Ltac old HI :=
  pose proof (i_m _ _ HI) as Om; pose proof (i_w _ _ HI) as Ow; pose proof (i_ndi _ _ HI) as Ondi;
  pose proof (i_ndb _ _ HI) as Ondb; pose proof (i_dis _ _ HI) as Odis; pose proof (i_rng _ _ HI) as Orng;
  pose proof (i_cnt _ _ HI) as Ocnt; pose proof (i_idle _ _ HI) as Oidle; pose proof (i_job _ _ HI) as Ojob;
  pose proof (i_slot _ _ HI) as Oslot; pose proof (i_post _ _ HI) as Opost; pose proof (i_mclosed _ _ HI) as Omc.

(* the lock is held by main (pc inside a region): no worker is inside a region *)
Lemma main_cs_excl c s i : all_locked (lk c) = true -> Inv c s -> mcs (m_pc (mn s)) = true -> i < nw s -> wcs (w_pc (ws s i)) = false.
Proof.
  intros Hl HI Hm Hi. destruct (wcs (w_pc (ws s i))) eqn:E; [|reflexivity]. exfalso. eapply excl_mw; eauto.
Qed.
Lemma worker_cs_excl_m c s k : all_locked (lk c) = true -> Inv c s -> k < nw s -> wcs (w_pc (ws s k)) = true -> mcs (m_pc (mn s)) = false.
Proof.
  intros Hl HI Hk Hw. destruct (mcs (m_pc (mn s))) eqn:E; [|reflexivity]. exfalso. eapply excl_mw; eauto.
Qed.
Lemma worker_cs_excl_w c s k i : all_locked (lk c) = true -> Inv c s -> k < nw s -> wcs (w_pc (ws s k)) = true -> i < nw s -> i <> k -> wcs (w_pc (ws s i)) = false.
Proof.
  intros Hl HI Hk Hw Hi Hne. destruct (wcs (w_pc (ws s i))) eqn:E; [|reflexivity]. exfalso. apply Hne. eapply excl_ww; eauto.
Qed.
