(* C06, second half: whatever the decoder accepts is a well-formed message whose
   annotation chunks tile the declared annotation bytes exactly. *)
From Coq Require Import List NArith ZArith Arith Bool Lia ZifyBool ZifyN.
Import ListNotations.
From V Require Import Model.Bytes Model.Wire Gen.GenProtocol Proofs.Bytes Proofs.Wire.
Local Open Scope N_scope.
Ltac Zify.zify_post_hook ::= Z.to_euclidean_division_equations.

Definition chunk_bytes (kv : bytes * bytes) : bytes := fst kv ++ be32 (Nlen (snd kv)) ++ snd kv.
Definition flat (cs : list (bytes * bytes)) : bytes := concat (map chunk_bytes cs).
Definition chunk_ok (kv : bytes * bytes) : Prop :=
  length (fst kv) = 4%nat /\ is_ascii (fst kv) = true /\ Nlen (snd kv) < 4294967296.
Definition dict_of (cs : list (bytes * bytes)) (acc : list (bytes * bytes)) : list (bytes * bytes) :=
  fold_left (fun a kv => dict_set a (fst kv) (snd kv)) cs acc.

Lemma wf_firstn n (l : bytes) : wf_bytes l = true -> wf_bytes (firstn n l) = true.
Proof.
  unfold wf_bytes. revert n. induction l as [|x l IH]; intros n H; destruct n; cbn in *; try reflexivity.
  apply andb_true_iff in H. destruct H as [H1 H2]. rewrite H1. cbn. apply IH. exact H2.
Qed.
Lemma wf_skipn n (l : bytes) : wf_bytes l = true -> wf_bytes (skipn n l) = true.
Proof.
  unfold wf_bytes. revert n. induction l as [|x l IH]; intros n H; destruct n; cbn in *; try reflexivity; try exact H.
  apply andb_true_iff in H. destruct H as [H1 H2]. apply IH. exact H2.
Qed.
Lemma wf_app (a b : bytes) : wf_bytes (a ++ b) = true <-> wf_bytes a = true /\ wf_bytes b = true.
Proof. unfold wf_bytes. rewrite forallb_app. apply andb_true_iff. Qed.

Lemma list4 {A} (l : list A) : length l = 4%nat -> exists a b c d, l = [a; b; c; d].
Proof.
  destruct l as [|a [|b [|c [|d [|e l]]]]]; cbn; intros H; try discriminate. do 4 eexists. reflexivity.
Qed.

Lemma be32_from_be_list (l : bytes) : length l = 4%nat -> wf_bytes l = true -> be32 (from_be l) = l.
Proof.
  intros HL HW. destruct (list4 l HL) as (a & b & c & d & ->).
  unfold wf_bytes, is_byte in HW. cbn [forallb] in HW.
  repeat (apply andb_true_iff in HW; destruct HW as [? HW]).
  apply be32_from_be; lia.
Qed.

Lemma from_be_lt32 (l : bytes) : length l = 4%nat -> wf_bytes l = true -> from_be l < 4294967296.
Proof.
  intros HL HW. destruct (list4 l HL) as (a & b & c & d & ->).
  unfold wf_bytes, is_byte in HW. cbn [forallb] in HW.
  repeat (apply andb_true_iff in HW; destruct HW as [? HW]).
  unfold from_be. cbn [fold_left]. lia.
Qed.

Lemma skipn_skipn {A} (a b : nat) (l : list A) : skipn a (skipn b l) = skipn (b + a) l.
Proof.
  revert l. induction b as [|b IH]; intros l; [reflexivity|].
  destruct l as [|x l]; cbn [skipn Nat.add]; [destruct a; reflexivity|apply IH].
Qed.

(* a buffer that is long enough splits into id, length field, value and tail *)
Lemma chunk_split (p : bytes) (len : N) :
  8 + len <= Nlen p ->
  p = firstn 4 p ++ sub 4 4 p ++ takeN len (skipn 8 p) ++ dropN (8 + len) p /\
  length (firstn 4 p) = 4%nat /\ length (sub 4 4 p) = 4%nat /\ Nlen (takeN len (skipn 8 p)) = len /\
  Nlen (dropN (8 + len) p) = Nlen p - (8 + len).
Proof.
  intros H. unfold Nlen in H.
  assert (HL : (8 + N.to_nat len <= length p)%nat) by lia.
  unfold sub, takeN, dropN, Nlen.
  replace (N.to_nat (8 + len)) with (8 + N.to_nat len)%nat by lia.
  rewrite <- (skipn_skipn (N.to_nat len) 8 p).
  assert (E8 : skipn 8 p = skipn 4 (skipn 4 p)) by (rewrite (skipn_skipn 4 4 p); reflexivity).
  repeat split.
  - rewrite <- (firstn_skipn 4 p) at 1. f_equal.
    rewrite <- (firstn_skipn 4 (skipn 4 p)) at 1. f_equal.
    rewrite <- E8. symmetry. apply firstn_skipn.
  - rewrite firstn_length. lia.
  - rewrite firstn_length, skipn_length. lia.
  - rewrite firstn_length, skipn_length. lia.
  - rewrite !skipn_length. lia.
Qed.

Lemma ann_walk_tiles : forall (fuel p : bytes) (left : N) acc d rest,
  wf_bytes p = true -> left <= Nlen p -> 0 < left ->
  ann_walk fuel p left acc = Ok (d, rest) ->
  exists cs, cs <> [] /\ p = flat cs ++ rest /\ Nlen (flat cs) = left /\ Forall chunk_ok cs /\ d = dict_of cs acc.
Proof.
  induction fuel as [|x fuel IH]; intros p left acc d rest HW HL Hpos H; [discriminate|].
  cbn [ann_walk] in H.
  destruct (is_ascii (firstn 4 p)) eqn:Hasc; cbn [negb] in H; [|discriminate].
  set (len := from_be (sub 4 4 p)) in *.
  destruct (left <? 8 + len) eqn:Hlt; [discriminate|].
  assert (Hstep : 8 + len <= Nlen p) by lia.
  destruct (chunk_split p len Hstep) as (Hp & Hid & Hl4 & Hv & Htl).
  set (id := firstn 4 p) in *. set (v := takeN len (skipn 8 p)) in *. set (tl := dropN (8 + len) p) in *.
  assert (Hwl4 : wf_bytes (sub 4 4 p) = true) by (unfold sub; apply wf_firstn, wf_skipn, HW).
  assert (Hbe : be32 (Nlen v) = sub 4 4 p).
  { rewrite Hv. unfold len. apply be32_from_be_list; assumption. }
  assert (Hok : chunk_ok (id, v)).
  { repeat split; cbn [fst snd]; try assumption. rewrite Hv. unfold len. apply from_be_lt32; assumption. }
  assert (Hcb : chunk_bytes (id, v) = id ++ sub 4 4 p ++ v).
  { unfold chunk_bytes. cbn [fst snd]. rewrite Hbe. reflexivity. }
  assert (Hcl : Nlen (chunk_bytes (id, v)) = 8 + len).
  { rewrite Hcb, !Nlen_app. unfold Nlen at 1 2. rewrite Hid, Hl4, Hv. lia. }
  destruct (left =? 8 + len) eqn:Heq.
  - apply Ok_inj in H. inversion H; subst d rest; clear H.
    exists [(id, v)]. repeat split.
    + discriminate.
    + unfold flat. cbn [map concat]. rewrite app_nil_r, Hcb, <- !app_assoc. exact Hp.
    + unfold flat. cbn [map concat]. rewrite app_nil_r, Hcl. lia.
    + constructor; [exact Hok|constructor].
  - assert (HWt : wf_bytes tl = true) by (unfold tl, dropN; apply wf_skipn, HW).
    destruct (IH tl (left - (8 + len)) (dict_set acc id v) d rest HWt ltac:(lia) ltac:(lia) H)
      as (cs & _ & Htl' & Hlen' & Hall & Hd).
    exists ((id, v) :: cs). repeat split.
    + discriminate.
    + unfold flat in *. cbn [map concat]. rewrite Hcb, <- !app_assoc, <- Htl'. exact Hp.
    + unfold flat in *. cbn [map concat]. rewrite Nlen_app, Hcl, Hlen'. lia.
    + constructor; assumption.
    + exact Hd.
Qed.

(* the accepted payload = annotation chunks (tiling exactly the declared annotation size) ++ data *)
Theorem add_payload_tiles h payload unz m :
  wf_bytes payload = true ->
  add_payload h payload unz = Ok m ->
  exists cs data,
    payload = flat cs ++ data /\ Nlen (flat cs) = h_asize h /\ Nlen data = h_dsize h /\
    Forall chunk_ok cs /\ r_anns m = dict_of cs [] /\
    r_type m = h_type h /\ r_seq m = h_seq h /\ r_ser m = h_ser h /\ r_corr m = h_corr h /\
    ((N.land (h_flags h) flag_compressed = 0 /\ r_data m = data /\ r_flags m = h_flags h) \/
     (N.land (h_flags h) flag_compressed <> 0 /\ unz = Some (r_data m) /\
      r_flags m = N.ldiff (h_flags h) flag_compressed)).
Proof.
  intros HW H. unfold add_payload in H.
  destruct (Nlen payload =? h_dsize h + h_asize h) eqn:Hlen; cbn [negb] in H; [|discriminate].
  assert (Hwalk : exists cs data, payload = flat cs ++ data /\ Nlen (flat cs) = h_asize h /\ Forall chunk_ok cs /\
            (if h_asize h =? 0 then Ok ([], payload) else ann_walk payload payload (h_asize h) []) = Ok (dict_of cs [], data)).
  { destruct (h_asize h =? 0) eqn:Hz.
    - exists [], payload. repeat split; [cbn; lia|constructor].
    - destruct (ann_walk payload payload (h_asize h) []) as [[d rest]|e] eqn:Hw.
      + destruct (ann_walk_tiles payload payload (h_asize h) [] d rest HW ltac:(lia) ltac:(lia) Hw)
          as (cs & _ & Hp & Hl & Hall & Hd).
        exists cs, rest. subst d. repeat split; assumption.
      + exfalso. discriminate. }
  destruct Hwalk as (cs & data & Hp & Hl & Hall & Hw). rewrite Hw in H.
  assert (Hdl : Nlen data = h_dsize h).
  { assert (E : Nlen payload = Nlen (flat cs) + Nlen data) by (rewrite Hp at 1; apply Nlen_app). lia. }
  exists cs, data.
  destruct (N.land (h_flags h) flag_compressed =? 0) eqn:Hc; cbn [negb] in H.
  - apply Ok_inj in H. subst m. cbn. repeat split; try assumption. left. repeat split. lia.
  - destruct unz as [dd|]; [|discriminate]. apply Ok_inj in H. subst m. cbn.
    repeat split; try assumption. right. repeat split. lia.
Qed.

(* the whole decoder: acceptance implies a well-formed message on the stream *)
Theorem decode_sound c acc unz stream m n :
  wf_bytes stream = true ->
  recv_stub c acc unz stream = (Ok m, n) ->
  exists hb cs data rest,
    stream = hb ++ flat cs ++ data ++ rest /\ Nlen hb = header_size /\
    let h := parse_header hb in
    h_tag h = tag_PYRO /\ h_ver h = protocol_version /\ h_magic h = magic_number /\
    h_dsize h + h_asize h <= max_size c /\ accepts acc (h_type h) /\
    Nlen (flat cs) = h_asize h /\ Nlen data = h_dsize h /\ Forall chunk_ok cs /\
    n = Nlen hb + Nlen (flat cs) + Nlen data /\
    r_anns m = dict_of cs [] /\ r_type m = h_type h /\ r_seq m = h_seq h /\ r_ser m = h_ser h /\
    r_corr m = h_corr h /\
    ((N.land (h_flags h) flag_compressed = 0 /\ r_data m = data /\ r_flags m = h_flags h) \/
     (N.land (h_flags h) flag_compressed <> 0 /\ unz = Some (r_data m) /\
      r_flags m = N.ldiff (h_flags h) flag_compressed)).
Proof.
  intros HW H.
  destruct (decode_sound_partial c acc unz stream m n H)
    as (hb & payload & rest & Hs & Hhb & Htag & Hver & Hmag & Hsz & Hacc & Hpl & Hn & Hadd).
  assert (HWp : wf_bytes payload = true).
  { rewrite Hs in HW. apply wf_app in HW. destruct HW as [_ HW]. apply wf_app in HW. tauto. }
  destruct (add_payload_tiles _ _ _ _ HWp Hadd)
    as (cs & data & Hp & Hl & Hd & Hall & Hanns & Ht & Hsq & Hse & Hco & Hfl).
  exists hb, cs, data, rest. cbv zeta.
  repeat split; try assumption.
  - rewrite Hs, Hp, <- app_assoc. reflexivity.
  - rewrite Hn, Hhb, Hl, Hd. reflexivity.
Qed.

(* ------------------------------------------------------------------------------------
   ... so whatever it accepts re-encodes to an equivalent message. *)
Definition has_corr (f : N) : bool := negb (N.land f flag_corr_id =? 0).
Definition resend (m : rmsg) : smsg :=
  {| s_type := r_type m; s_flags := r_flags m; s_seq := r_seq m; s_ser := r_ser m;
     s_payload := r_data m; s_anns := r_anns m;
     s_corr := if has_corr (r_flags m) then Some (r_corr m) else None |}.
(* equal in every field; the 16 correlation bytes only count when the CORR_ID flag says they are present *)
Definition equiv (a b : rmsg) : Prop :=
  r_type a = r_type b /\ r_flags a = r_flags b /\ r_seq a = r_seq b /\ r_ser a = r_ser b /\
  r_data a = r_data b /\ r_anns a = r_anns b /\ (has_corr (r_flags b) = true -> r_corr a = r_corr b).

Lemma from_be_lt8 (l : bytes) : length l = 1%nat -> wf_bytes l = true -> from_be l < 256.
Proof.
  destruct l as [|a [|b l]]; cbn [length]; intros HL HW; try discriminate.
  unfold wf_bytes, is_byte in HW. cbn [forallb] in HW. apply andb_true_iff in HW. destruct HW as [H _].
  unfold from_be. cbn [fold_left]. lia.
Qed.
Lemma from_be_lt16 (l : bytes) : length l = 2%nat -> wf_bytes l = true -> from_be l < 65536.
Proof.
  destruct l as [|a [|b [|c l]]]; cbn [length]; intros HL HW; try discriminate.
  unfold wf_bytes, is_byte in HW. cbn [forallb] in HW.
  repeat (apply andb_true_iff in HW; destruct HW as [? HW]).
  unfold from_be. cbn [fold_left]. lia.
Qed.
Lemma sub_length off len (b : bytes) : (off + len <= length b)%nat -> length (sub off len b) = len.
Proof. intros H. unfold sub. rewrite firstn_length, skipn_length. lia. Qed.
Lemma wf_sub off len (b : bytes) : wf_bytes b = true -> wf_bytes (sub off len b) = true.
Proof. intros H. unfold sub. apply wf_firstn, wf_skipn, H. Qed.

(* flags *)
Lemma lt16_land f : f < 65536 <-> N.land f (N.ones 16) = f.
Proof.
  rewrite N.land_ones. change (2 ^ 16) with 65536. split; intros H.
  - apply N.mod_small. exact H.
  - rewrite <- H. apply N.mod_lt. discriminate.
Qed.
Lemma ldiff_lt16 f c : f < 65536 -> N.ldiff f c < 65536.
Proof.
  rewrite !lt16_land. intros H. apply N.bits_inj. intros i.
  apply (f_equal (fun x => N.testbit x i)) in H. rewrite N.land_spec in H.
  rewrite N.land_spec, N.ldiff_spec.
  destruct (N.testbit f i), (N.testbit (N.ones 16) i), (N.testbit c i); cbn in *; congruence.
Qed.
Lemma ldiff_noop f : N.land f flag_compressed = 0 -> N.ldiff f flag_compressed = f.
Proof.
  intros H. apply N.bits_inj. intros i.
  apply (f_equal (fun x => N.testbit x i)) in H. rewrite N.land_spec, N.bits_0 in H.
  rewrite N.ldiff_spec. destruct (N.testbit f i), (N.testbit flag_compressed i); cbn in *; congruence.
Qed.
Lemma lor_noop f : N.land f flag_corr_id <> 0 -> N.lor f flag_corr_id = f.
Proof.
  intros H. destruct (N.testbit f 6) eqn:E.
  - apply N.bits_inj. intros i. rewrite N.lor_spec, flag_corr_bit, N.pow2_bits_eqb.
    destruct (N.eqb_spec 6 i) as [<-|]; [rewrite E; reflexivity|apply orb_false_r].
  - exfalso. apply H. apply N.bits_inj. intros i. rewrite N.land_spec, N.bits_0, flag_corr_bit, N.pow2_bits_eqb.
    destruct (N.eqb_spec 6 i) as [<-|]; [rewrite E; reflexivity|apply andb_false_r].
Qed.

Lemma sent_flags_resend m : N.land (r_flags m) flag_compressed = 0 -> sent_flags (resend m) = r_flags m.
Proof.
  intros H. unfold sent_flags, resend. cbn [s_flags s_corr]. rewrite (ldiff_noop _ H).
  unfold has_corr. destruct (N.eqb_spec (N.land (r_flags m) flag_corr_id) 0) as [E|E]; cbn [negb]; [reflexivity|].
  apply lor_noop. exact E.
Qed.

(* the decoded annotation dict *)
Lemma dict_set_keys d k v : In k (map fst d) -> map fst (dict_set d k v) = map fst d.
Proof.
  induction d as [|[k' v'] d IH]; cbn [map fst dict_set In]; [tauto|].
  destruct (bytes_eqb k' k) eqn:E; cbn [map fst]; [reflexivity|].
  intros [H|H]; [subst; rewrite bytes_eqb_refl in E; discriminate|]. rewrite IH by exact H. reflexivity.
Qed.
Lemma in_dec_bytes (k : bytes) (l : list bytes) : {In k l} + {~ In k l}.
Proof. apply in_dec. apply list_eq_dec. apply N.eq_dec. Qed.

Lemma NoDup_snoc {A} (l : list A) k : NoDup l -> ~ In k l -> NoDup (l ++ [k]).
Proof.
  induction l as [|x l IH]; intros H Hn; cbn [app]; [constructor; [tauto|constructor]|].
  inversion H as [|? ? H1 H2]; subst. constructor.
  - rewrite in_app_iff. cbn [In]. intros [Hi|[Hi|[]]]; [tauto|]. subst. apply Hn. left. reflexivity.
  - apply IH; [exact H2|]. intros Hi. apply Hn. right. exact Hi.
Qed.

Lemma dict_set_nodup d k v : NoDup (map fst d) -> NoDup (map fst (dict_set d k v)).
Proof.
  intros H. destruct (in_dec_bytes k (map fst d)) as [Hin|Hn].
  - rewrite dict_set_keys by exact Hin. exact H.
  - rewrite dict_set_fresh by exact Hn. rewrite map_app. cbn [map fst].
    apply NoDup_snoc; assumption.
Qed.
Lemma dict_set_ok d k v : Forall chunk_ok d -> chunk_ok (k, v) -> Forall chunk_ok (dict_set d k v).
Proof.
  intros Hd Hk. induction d as [|[k' v'] d IH]; cbn [dict_set]; [constructor; [exact Hk|constructor]|].
  inversion Hd as [|? ? H1 H2]; subst.
  destruct (bytes_eqb k' k) eqn:E.
  - constructor; [|exact H2]. apply bytes_eqb_eq in E. subst k'. exact Hk.
  - constructor; [exact H1|apply IH; exact H2].
Qed.
Lemma dict_set_size d k v : ann_size (dict_set d k v) <= ann_size d + 8 + Nlen v.
Proof.
  induction d as [|[k' v'] d IH]; cbn [dict_set].
  - rewrite ann_size_cons. cbn. lia.
  - destruct (bytes_eqb k' k); rewrite !ann_size_cons; cbn [snd] in *; lia.
Qed.

Lemma dict_of_props cs : forall acc,
  Forall chunk_ok cs -> Forall chunk_ok acc -> NoDup (map fst acc) ->
  Forall chunk_ok (dict_of cs acc) /\ NoDup (map fst (dict_of cs acc)) /\
  ann_size (dict_of cs acc) <= ann_size acc + Nlen (flat cs).
Proof.
  induction cs as [|[k v] cs IH]; intros acc Hcs Hacc Hnd.
  - cbn [dict_of fold_left]. repeat split; try assumption. unfold flat. cbn [map concat]. rewrite Nlen_nil. lia.
  - inversion Hcs as [|? ? H1 H2]; subst. cbn [dict_of fold_left fst snd].
    destruct (IH (dict_set acc k v) H2 (dict_set_ok _ _ _ Hacc H1) (dict_set_nodup _ _ _ Hnd)) as (A & B & C).
    repeat split; try assumption.
    unfold flat in *. cbn [map concat]. rewrite Nlen_app. unfold chunk_bytes at 1. cbn [fst snd].
    rewrite !Nlen_app. pose proof (dict_set_size acc k v). destruct H1 as (HL & _ & _). cbn [fst] in HL.
    assert (Nlen k = 4) by (unfold Nlen; rewrite HL; reflexivity). rewrite Nlen_be32. unfold dict_of in C. lia.
Qed.

Lemma ann_chunks_ok d : Forall chunk_ok d -> exists bs, ann_chunks d = Ok bs.
Proof.
  induction d as [|[k v] d IH]; intros H; [eexists; reflexivity|].
  inversion H as [|? ? (HL & HA & _) H2]; subst. cbn [fst snd] in *.
  destruct (IH H2) as [bs Hbs]. cbn [ann_chunks]. unfold Nlen. rewrite HL. cbn [N.of_nat N.eqb Pos.of_succ_nat Pos.succ Pos.eqb negb].
  rewrite HA. cbn [negb]. rewrite Hbs. eexists. reflexivity.
Qed.

Theorem reencode_equiv c acc unz stream m n :
  wf_bytes stream = true ->
  recv_stub c acc unz stream = (Ok m, n) ->
  Nlen (r_data m) < 4294967296 ->          (* automatic unless the data was decompressed *)
  forall c', compression c' = false -> Nlen (r_data m) + ann_size (r_anns m) <= max_size c' ->
  exists bs, encode c' (resend m) [] = Ok bs /\
             recv_stub c' None None bs = (Ok (received (resend m)), Nlen bs) /\
             equiv (received (resend m)) m.
Proof.
  intros HW H Hdata c' Hc' Hmax.
  destruct (decode_sound c acc unz stream m n HW H)
    as (hb & cs & data & rest & Hs & Hhb & Htag & Hver & Hmag & Hsz & Hacc & Hl & Hd & Hall & Hn & Hanns & Ht & Hsq & Hse & Hco & Hfl).
  assert (Hhb40 : length hb = 40%nat) by (unfold Nlen in Hhb; rewrite header_size_40 in Hhb; lia).
  assert (HWh : wf_bytes hb = true) by (rewrite Hs in HW; apply wf_app in HW; tauto).
  set (h := parse_header hb) in *.
  assert (Hty : r_type m < 256) by (rewrite Ht; apply from_be_lt8; [apply sub_length; lia|apply wf_sub, HWh]).
  assert (Hsr : r_ser m < 256) by (rewrite Hse; apply from_be_lt8; [apply sub_length; lia|apply wf_sub, HWh]).
  assert (Hsq' : r_seq m < 65536) by (rewrite Hsq; apply from_be_lt16; [apply sub_length; lia|apply wf_sub, HWh]).
  assert (Hhf : h_flags h < 65536) by (apply from_be_lt16; [apply sub_length; lia|apply wf_sub, HWh]).
  assert (Has : h_asize h < 4294967296) by (apply from_be_lt32; [apply sub_length; lia|apply wf_sub, HWh]).
  assert (Hfl' : r_flags m < 65536 /\ N.land (r_flags m) flag_compressed = 0).
  { destruct Hfl as [(Hz & _ & ->)|(_ & _ & ->)]; [tauto|]. split; [apply ldiff_lt16, Hhf|apply land_clear]. }
  destruct Hfl' as [Hf16 Hfc].
  destruct (dict_of_props cs [] Hall (Forall_nil _) (NoDup_nil _)) as (Hdok & Hdnd & Hdsz).
  rewrite <- Hanns in Hdok, Hdnd, Hdsz. cbn [ann_size fold_right] in Hdsz.
  destruct (ann_chunks_ok _ Hdok) as [chunks Hchunks].
  assert (Hsf : sent_flags (resend m) = r_flags m) by (apply sent_flags_resend, Hfc).
  assert (Hcorr16 : forall cid, s_corr (resend m) = Some cid -> length cid = 16%nat).
  { unfold resend. cbn [s_corr]. destruct (has_corr (r_flags m)); intros cid E; [|discriminate].
    injection E as <-. rewrite Hco. apply sub_length. lia. }
  (* the encoder succeeds *)
  assert (Henc : exists bs, encode c' (resend m) [] = Ok bs).
  { unfold encode. rewrite Hc'. cbn [andb]. cbn [resend s_payload s_anns s_type s_ser s_seq].
    destruct (N.ltb_spec (max_size c') (Nlen (r_data m) + ann_size (r_anns m))) as [|_]; [lia|].
    fold (sent_flags (resend m)). 
    change (match s_corr (resend m) with Some _ => N.lor (N.ldiff (s_flags (resend m)) flag_compressed) flag_corr_id
            | None => N.ldiff (s_flags (resend m)) flag_compressed end) with (sent_flags (resend m)).
    rewrite Hsf. unfold fits8, fits16, fits32.
    destruct (N.ltb_spec (r_type m) 256); [|lia]. destruct (N.ltb_spec (r_ser m) 256); [|lia].
    destruct (N.ltb_spec (r_flags m) 65536); [|lia]. destruct (N.ltb_spec (r_seq m) 65536); [|lia].
    destruct (N.ltb_spec (Nlen (r_data m)) 4294967296); [|lia].
    destruct (N.ltb_spec (ann_size (r_anns m)) 4294967296); [|lia].
    cbn [andb negb]. rewrite Hchunks. eexists. reflexivity. }
  destruct Henc as [bs Hbs]. exists bs. split; [exact Hbs|]. split.
  - rewrite <- (app_nil_r bs) at 1.
    apply decode_encode with (z := []); try assumption.
    + exact I.
    + unfold compresses. rewrite Hc'. discriminate.
  - unfold equiv, received. cbn [r_type r_flags r_seq r_ser r_data r_anns r_corr resend s_type s_seq s_ser s_payload s_anns].
    rewrite Hsf. repeat split; try reflexivity.
    intros Hhc. unfold sent_corr, resend. cbn [s_corr]. rewrite Hhc. reflexivity.
Qed.
