(* C01 — proofs about the serializer mappings of Model/Serializers.v. *)
From Coq Require Import List NArith ZArith Bool Lia.
Import ListNotations.
From V Require Import Model.Values Model.Serializers Gen.GenSerializers Proofs.Values.

(* ------------------------------------------------------------------ tactics *)
Ltac fa_split :=
  repeat match goal with
         | H : Forall (fun x => _ /\ _) _ |- _ => apply Forall_conj in H; destruct H
         end.

Ltac btrue :=
  repeat match goal with
         | H : _ && _ = true |- _ => apply andb_true_iff in H; destruct H
         | H : negb _ = true |- _ => apply negb_true_iff in H
         | H : forallb _ _ = true |- _ => apply forallb_Forall_iff in H
         end.

(* ------------------------------------------------------------------ recreate_classes *)
Lemma rc_map_false_id : forall v, rc_map false v = v.
Proof.
  induction v using val_induction.
  - destruct v; try discriminate; reflexivity.
  - simpl. f_equal. apply map_id_Forall; assumption.
  - simpl. f_equal. apply map_id_Forall; assumption.
  - simpl. f_equal. apply map_id_Forall; assumption.
  - reflexivity.
  - simpl. f_equal. apply map_id_Forall. eapply Forall_impl; [|exact H].
    intros [k x] [_ Hx]; simpl in *. congruence.
  - reflexivity.
Qed.

Lemma is_nan_dict_has_class d : is_nan_dict d = true -> has_class d = true.
Proof.
  intros H.
  destruct d as [|[k1 v1] d]; [discriminate|].
  destruct k1; try discriminate. simpl in H.
  destruct v1; try discriminate.
  destruct d as [|[k2 v2] d]; [discriminate|].
  destruct k2; try discriminate. destruct v2; try discriminate.
  destruct d; [|discriminate].
  btrue. simpl. rewrite H. reflexivity.
Qed.

Lemma no_class_not_nan d : has_class d = false -> is_nan_dict d = false.
Proof.
  intros H. destruct (is_nan_dict d) eqn:E; auto. apply is_nan_dict_has_class in E. congruence.
Qed.

(* values in which recreate_classes finds nothing to do *)
Lemma hashable_rc : forall nan v, hashable v = true -> rc_map nan v = v /\ rc_st nan v = SOk.
Proof.
  intros nan. induction v using val_induction; simpl; intros Hh; try discriminate;
    try (destruct v; try discriminate; split; reflexivity); try (split; reflexivity).
  btrue. pose proof (Forall_mp _ _ _ H Hh) as HH. fa_split. split.
  - f_equal. apply map_id_Forall. assumption.
  - apply st_all_ok. assumption.
Qed.

(* ------------------------------------------------------------------ json *)
Lemma js_stable_fix : forall v, js_stable v = true ->
  js_st true v = SOk /\ js_map v = v /\ rc_st false v = SOk.
Proof.
  induction v using val_induction; simpl; intros Hs; try discriminate.
  - destruct v; try discriminate; auto.
  - btrue. pose proof (Forall_mp _ _ _ H Hs) as HH. fa_split. repeat split.
    + apply st_all_ok; assumption.
    + f_equal. apply map_id_Forall; assumption.
    + apply st_all_ok; assumption.
  - btrue. rewrite H0.
    assert (HH : Forall (fun kv => (js_key_st (fst kv) = SOk /\ js_st true (snd kv) = SOk) /\
                                   (fst kv, js_map (snd kv)) = kv /\ rc_st false (snd kv) = SOk) d).
    { refine (Forall_mp _ _ _ _ H1). eapply Forall_impl; [|exact H].
      intros [k x] [_ Hx] Hk; simpl in *. destruct k; try discriminate.
      destruct (Hx Hk) as (? & ? & ?). repeat split; auto. congruence. }
    repeat split.
    + apply st_all_ok. eapply Forall_impl; [|exact HH]. intros kv [[? ?] _]. apply st_and_ok; auto.
    + f_equal. apply map_id_Forall. eapply Forall_impl; [|exact HH]. intros kv (_ & ? & _). assumption.
    + apply st_all_ok. eapply Forall_impl; [|exact HH]. intros kv (_ & _ & ?). assumption.
Qed.

Lemma js_image_stable : forall d v, js_st d v = SOk -> rc_st false (js_map v) = SOk -> js_stable (js_map v) = true.
Proof.
  intros dflt. induction v using val_induction; simpl; intros H1 H2; try discriminate.
  - destruct v; try discriminate; auto.
  - apply st_all_ok in H1. rewrite map_map in H2. apply st_all_ok in H2.
    apply forallb_Forall_iff, Forall_map_iff.
    pose proof (Forall_mp _ _ _ H H1) as HH. exact (Forall_mp _ _ _ HH H2).
  - apply st_all_ok in H1. rewrite map_map in H2. apply st_all_ok in H2.
    apply forallb_Forall_iff, Forall_map_iff.
    pose proof (Forall_mp _ _ _ H H1) as HH. exact (Forall_mp _ _ _ HH H2).
  - apply st_and_ok in H1. destruct H1 as [_ H1].
    apply st_all_ok in H1. rewrite map_map in H2. apply st_all_ok in H2.
    apply forallb_Forall_iff, Forall_map_iff.
    pose proof (Forall_mp _ _ _ H H1) as HH. exact (Forall_mp _ _ _ HH H2).
  - apply st_all_ok in H1.
    destruct (has_class (map (fun kv => (fst kv, js_map (snd kv))) d)) eqn:Hc; try discriminate.
    simpl. rewrite map_map in H2. apply st_all_ok in H2. simpl in H2.
    apply forallb_Forall_iff, Forall_map_iff. simpl.
    refine (Forall_mp _ _ _ (Forall_mp _ _ _ _ H1) H2). eapply Forall_impl; [|exact H].
    intros [k x] [_ Hx] Ha Hb; simpl in *. apply st_and_ok in Ha. destruct Ha. destruct k; try discriminate. auto.
Qed.

(* ------------------------------------------------------------------ msgpack *)
(* computed facts about the generated ExtType codes: ext_hook decodes what default() wrote *)
Lemma codes_ok : ext_codes_match = true.
Proof. reflexivity. Qed.
(* ... and the byte codecs of the ExtType payloads are the ones the assumption "ext_hook inverts default" was validated for *)
Lemma codecs_known : ext_codecs_known = true.
Proof. reflexivity. Qed.
Lemma long_ok : N.eqb ext_long hook_long = true.
Proof. reflexivity. Qed.
Lemma complex_ok : N.eqb ext_complex hook_complex = true.
Proof. reflexivity. Qed.
Lemma date_ok : N.eqb ext_date hook_date = true.
Proof. reflexivity. Qed.

Lemma has_class_map_snd (f : val -> val) d : has_class (map (fun kv => (fst kv, f (snd kv))) d) = has_class d.
Proof. unfold has_class. induction d as [|[k x] d IH]; simpl; congruence. Qed.

Lemma mp_key_fix k : is_str_or_bytes k = true -> mp_map k = k /\ forall d, mp_st d k = SOk.
Proof. destruct k; try discriminate; auto. Qed.

Lemma mp_stable_fix : forall v, mp_stable v = true ->
  mp_st true v = SOk /\ ux_st true (mp_map v) = SOk /\ ux_map true (mp_map v) = v.
Proof.
  induction v using val_induction; simpl; intros Hs; try discriminate.
  - destruct v; try discriminate; simpl; auto.
    destruct (mp_int_native z); simpl; rewrite ?orb_true_r, ?long_ok; auto.
  - btrue. pose proof (Forall_mp _ _ _ H Hs) as HH. repeat split.
    + apply st_all_ok. eapply Forall_impl; [|exact HH]. intros x (? & _). assumption.
    + rewrite map_map. apply st_all_ok. eapply Forall_impl; [|exact HH]. intros x (_ & ? & _). assumption.
    + rewrite map_map. f_equal. apply map_id_Forall. eapply Forall_impl; [|exact HH]. intros x (_ & _ & ?). assumption.
  - btrue.
    assert (HH : Forall (fun kv => (mp_st true (fst kv) = SOk /\ is_str_or_bytes (mp_map (fst kv)) = true /\ mp_st true (snd kv) = SOk)
                                   /\ ux_st true (mp_map (snd kv)) = SOk
                                   /\ (mp_map (fst kv), ux_map true (mp_map (snd kv))) = kv) d).
    { refine (Forall_mp _ _ _ _ H1). eapply Forall_impl; [|exact H].
      intros [k x] [_ Hx] Hk; simpl in *. btrue. destruct (mp_key_fix k H2) as [Hk1 Hk2].
      destruct (Hx H3) as (? & ? & ?). rewrite Hk1. repeat split; auto. congruence. }
    assert (Hc : has_class (map (fun kv => (mp_map (fst kv), mp_map (snd kv))) d) = false).
    { rewrite <- H0. unfold has_class. clear -HH. induction HH as [|kv d Hkv _ IH]; simpl; auto.
      destruct Hkv as (_ & _ & Hkv). rewrite IH. f_equal. destruct kv as [k x]. simpl in *. congruence. }
    repeat split.
    + apply st_all_ok. eapply Forall_impl; [|exact HH]. intros kv ((? & ? & ?) & _).
      apply st_and_ok; split; auto. apply st_and_ok; split; auto. apply guard_ok; auto.
    + rewrite Hc. rewrite map_map. apply st_all_ok. eapply Forall_impl; [|exact HH]. intros kv (_ & ? & _). assumption.
    + rewrite map_map. f_equal. apply map_id_Forall. eapply Forall_impl; [|exact HH]. intros kv (_ & _ & ?). assumption.
Qed.

Lemma mp_image_stable : forall d v, mp_st d v = SOk -> ux_st true (mp_map v) = SOk ->
  mp_stable (ux_map true (mp_map v)) = true.
Proof.
  intros dflt. induction v using val_induction; simpl; intros H1 H2; try discriminate.
  - destruct v; try discriminate; simpl; auto.
    destruct (mp_int_native z); simpl; auto.
  - apply st_all_ok in H1. rewrite map_map in *. apply st_all_ok in H2.
    apply forallb_Forall_iff, Forall_map_iff.
    exact (Forall_mp _ _ _ (Forall_mp _ _ _ H H1) H2).
  - apply st_all_ok in H1. rewrite map_map in *. apply st_all_ok in H2.
    apply forallb_Forall_iff, Forall_map_iff.
    exact (Forall_mp _ _ _ (Forall_mp _ _ _ H H1) H2).
  - apply st_and_ok in H1. destruct H1 as [_ H1].
    apply st_all_ok in H1. rewrite map_map in *. apply st_all_ok in H2.
    apply forallb_Forall_iff, Forall_map_iff.
    exact (Forall_mp _ _ _ (Forall_mp _ _ _ H H1) H2).
  - apply st_all_ok in H1.
    destruct (has_class (map (fun kv => (mp_map (fst kv), mp_map (snd kv))) d)) eqn:Hc; try discriminate.
    rewrite has_class_map_snd, Hc. simpl.
    rewrite map_map in *. apply st_all_ok in H2. simpl in H2.
    apply forallb_Forall_iff, Forall_map_iff. simpl.
    refine (Forall_mp _ _ _ (Forall_mp _ _ _ _ H1) H2). eapply Forall_impl; [|exact H].
    intros [k x] [_ Hx] Ha Hb; simpl in *.
    apply st_and_ok in Ha. destruct Ha as [Ha Ha3]. apply st_and_ok in Ha. destruct Ha as [Ha1 Ha2].
    apply guard_ok in Ha2. rewrite Ha2. simpl. auto.
Qed.

(* ------------------------------------------------------------------ marshal *)
Lemma marshallable_ok x : marshallable x = true <-> ma_st x = SOk.
Proof. unfold marshallable. destruct (ma_st x); split; try discriminate; auto. Qed.

Lemma ma_stable_fix : forall v, ma_stable v = true -> ma_st v = SOk /\ rc_st false v = SOk.
Proof.
  induction v using val_induction; simpl; intros Hs; try discriminate.
  - destruct v; try discriminate; simpl; auto.
  - btrue. pose proof (Forall_mp _ _ _ H Hs) as HH. apply Forall_conj in HH. destruct HH. split; apply st_all_ok; assumption.
  - btrue. pose proof (Forall_mp _ _ _ H Hs) as HH. apply Forall_conj in HH. destruct HH. split; apply st_all_ok; assumption.
  - btrue. pose proof (Forall_mp _ _ _ H Hs) as HH. apply Forall_conj in HH. destruct HH. split; apply st_all_ok; assumption.
  - btrue. split; auto. apply st_all_ok. eapply Forall_impl; [|exact Hs]. intros x. apply marshallable_ok.
  - btrue. rewrite H0.
    assert (HH : Forall (fun kv => (ma_st (fst kv) = SOk /\ ma_st (snd kv) = SOk) /\ rc_st false (snd kv) = SOk) d).
    { refine (Forall_mp _ _ _ _ H1). eapply Forall_impl; [|exact H].
      intros [k x] [_ Hx] Hk; simpl in *. btrue. apply marshallable_ok in H2. destruct (Hx H3). auto. }
    split; apply st_all_ok.
    + eapply Forall_impl; [|exact HH]. intros kv [[? ?] _]. apply st_and_ok; auto.
    + eapply Forall_impl; [|exact HH]. intros kv [_ ?]. assumption.
Qed.

Lemma ma_image_stable : forall w, ma_st w = SOk -> rc_st false w = SOk -> ma_stable w = true.
Proof.
  induction w using val_induction; simpl; intros H1 H2; try discriminate.
  - destruct w; try discriminate; auto.
  - apply st_all_ok in H1. apply st_all_ok in H2. apply forallb_Forall_iff.
    exact (Forall_mp _ _ _ (Forall_mp _ _ _ H H1) H2).
  - apply st_all_ok in H1. apply st_all_ok in H2. apply forallb_Forall_iff.
    exact (Forall_mp _ _ _ (Forall_mp _ _ _ H H1) H2).
  - apply st_all_ok in H1. apply st_all_ok in H2. apply forallb_Forall_iff.
    exact (Forall_mp _ _ _ (Forall_mp _ _ _ H H1) H2).
  - apply st_all_ok in H1. apply forallb_Forall_iff. eapply Forall_impl; [|exact H1]. intros x. apply marshallable_ok.
  - apply st_all_ok in H1. destruct (has_class d) eqn:Hc; try discriminate. simpl.
    apply st_all_ok in H2. apply forallb_Forall_iff.
    refine (Forall_mp _ _ _ (Forall_mp _ _ _ _ H1) H2). eapply Forall_impl; [|exact H].
    intros [k x] [_ Hx] Ha Hb; simpl in *. apply st_and_ok in Ha. destruct Ha as [Ha1 Ha2].
    apply marshallable_ok in Ha1. rewrite Ha1. simpl. auto.
Qed.

(* ------------------------------------------------------------------ serpent *)
Lemma negzero_sign b : N.eqb b negzero_bits = true -> N.leb negzero_bits b = true.
Proof. intros H. apply N.eqb_eq in H. subst. reflexivity. Qed.

Lemma sp_cplx_fix re im :
  negb (if sign_set im then is_negzero im else is_negzero re) = true -> sp_cplx re im = VComplex re im.
Proof.
  unfold sp_cplx, unneg0. destruct (sign_set im); intros H; apply negb_true_iff in H; rewrite H; reflexivity.
Qed.

Lemma unneg0_not_negzero f : is_negzero (unneg0 f) = false.
Proof. unfold unneg0. destruct (is_negzero f) eqn:E; auto. Qed.

Lemma unneg0_nan f : is_nan (unneg0 f) = is_nan f.
Proof. unfold unneg0. destruct f; simpl; auto. destruct (N.eqb bits negzero_bits); auto. Qed.

Lemma is_negzero_sign f : is_negzero f = true -> sign_set f = true.
Proof. destruct f; simpl; try discriminate. apply negzero_sign. Qed.

(* the image of a complex is a fixed point, except when both parts are negative zeros *)
Lemma sp_cplx_stable re im :
  is_nan re || is_nan im = false -> is_negzero re && is_negzero im = false ->
  sp_stable (sp_cplx re im) = true.
Proof.
  intros Hn Hz. unfold sp_cplx. destruct (sign_set im) eqn:Es; simpl.
  - rewrite unneg0_nan, Hn. simpl. destruct (is_negzero im) eqn:Ez.
    + unfold unneg0. rewrite Ez. simpl. rewrite andb_true_r in Hz. rewrite Hz. reflexivity.
    + unfold unneg0. rewrite Ez, Es, Ez. reflexivity.
  - rewrite unneg0_nan, Hn, Es. simpl. rewrite unneg0_not_negzero. reflexivity.
Qed.

Lemma sp_cplx_hashable re im : hashable (sp_cplx re im) = true.
Proof. unfold sp_cplx. destruct (sign_set im); reflexivity. Qed.

Lemma sp_cplx_idem re im :
  is_negzero re && is_negzero im = false -> sp_map (sp_cplx re im) = sp_cplx re im.
Proof.
  intros Hz. unfold sp_cplx. destruct (sign_set im) eqn:Es; simpl; unfold sp_cplx.
  - destruct (is_negzero im) eqn:Ez.
    + unfold unneg0 at 1 2. rewrite Ez. simpl. rewrite andb_true_r in Hz. unfold unneg0. rewrite Hz. reflexivity.
    + unfold unneg0. rewrite Ez, Es, Ez. reflexivity.
  - rewrite Es. unfold unneg0 at 1. rewrite unneg0_not_negzero. reflexivity.
Qed.

(* K1 *)
Lemma sp_keytype_image x : sp_keytype x = true -> hashable (sp_map x) = true -> sp_keytype (sp_map x) = true.
Proof.
  destruct x; simpl; try discriminate; auto.
  - destruct f; simpl; auto.
  - intros _ _. unfold sp_cplx. destruct (sign_set im); reflexivity.
Qed.

(* K2: on values whose image can be a key, serpent's library mapping is idempotent *)
Lemma sp_map_idem_hashable : forall x, no_negzero_complex x = true -> hashable (sp_map x) = true ->
  sp_map (sp_map x) = sp_map x.
Proof.
  induction x using val_induction; intros Hz Hh.
  - destruct x; try discriminate; simpl in *; auto.
    + destruct f; simpl in *; try discriminate; auto.
    + apply negb_true_iff in Hz. apply sp_cplx_idem; assumption.
  - discriminate.
  - simpl in *. btrue. f_equal. rewrite map_map. apply map_map_Forall.
    apply Forall_map_iff in Hh. exact (Forall_mp _ _ _ (Forall_mp _ _ _ H Hz) Hh).
  - simpl in *. destruct l; [reflexivity|discriminate].
  - simpl in *. destruct l; [reflexivity|discriminate].
  - discriminate.
  - discriminate.
Qed.

Lemma sp_key_image x :
  no_negzero_complex x = true -> sp_keytype x = true -> hashable (sp_map x) = true ->
  sp_stable (rc_map true (sp_map x)) = true ->
  rc_map true (sp_map x) = sp_map x /\
  sp_keytype (sp_map x) && hashable (sp_map (sp_map x)) && sp_stable (sp_map x) = true.
Proof.
  intros Hz Hk Hh Hs. destruct (hashable_rc true _ Hh) as [Hr _]. rewrite Hr in Hs. split; auto.
  rewrite (sp_map_idem_hashable x Hz Hh), (sp_keytype_image x Hk Hh), Hh, Hs. reflexivity.
Qed.

(* S0 *)
Lemma sp_stable_hashable_fix : forall v, sp_stable v = true -> hashable (sp_map v) = true -> sp_map v = v.
Proof.
  induction v using val_induction; intros Hs Hh.
  - destruct v; try discriminate; simpl in *; auto.
    + destruct f; try discriminate; auto.
    + btrue. apply sp_cplx_fix. apply negb_true_iff. assumption.
  - discriminate.
  - simpl in *. btrue. f_equal. apply map_id_Forall. apply Forall_map_iff in Hh.
    exact (Forall_mp _ _ _ (Forall_mp _ _ _ H Hs) Hh).
  - simpl in *. destruct l; discriminate.
  - discriminate.
  - discriminate.
  - discriminate.
Qed.

Lemma nan_dict_rc : rc_st true nan_dict = SOk /\ rc_map true nan_dict = VFloat FNaN.
Proof. split; reflexivity. Qed.

(* S1 *)
Lemma sp_stable_fix : forall v, sp_stable v = true ->
  sp_st v = SOk /\ rc_st true (sp_map v) = SOk /\ rc_map true (sp_map v) = v.
Proof.
  induction v using val_induction; intros Hs.
  - destruct v; try discriminate; simpl in *; auto.
    + destruct f; simpl; auto.
    + apply andb_true_iff in Hs. destruct Hs as [Hn Hc]. rewrite (sp_cplx_fix re im Hc).
      apply negb_true_iff in Hn. rewrite Hn. simpl. auto.
  - simpl in *. btrue. pose proof (Forall_mp _ _ _ H Hs) as HH. rewrite !map_map. repeat split.
    + apply st_all_ok. eapply Forall_impl; [|exact HH]. intros x (? & _). assumption.
    + apply st_all_ok. eapply Forall_impl; [|exact HH]. intros x (_ & ? & _). assumption.
    + f_equal. apply map_id_Forall. eapply Forall_impl; [|exact HH]. intros x (_ & _ & ?). assumption.
  - simpl in *. btrue. pose proof (Forall_mp _ _ _ H Hs) as HH. rewrite !map_map. repeat split.
    + apply st_all_ok. eapply Forall_impl; [|exact HH]. intros x (? & _). assumption.
    + apply st_all_ok. eapply Forall_impl; [|exact HH]. intros x (_ & ? & _). assumption.
    + f_equal. apply map_id_Forall. eapply Forall_impl; [|exact HH]. intros x (_ & _ & ?). assumption.
  - simpl in Hs. destruct l as [|x0 l0]; [discriminate|]. remember (x0 :: l0) as l. btrue.
    assert (HH : Forall (fun x => (sp_keytype x && hashable (sp_map x) = true /\ sp_st x = SOk) /\
                                  rc_st true (sp_map x) = SOk /\ rc_map true (sp_map x) = x) l).
    { refine (Forall_mp _ _ _ _ Hs). eapply Forall_impl; [|exact H]. intros x Hx Hk. btrue.
      destruct (Hx H1) as (? & ? & ?). rewrite H0, H2. auto. }
    assert (Hm : sp_map (VSet l) = VSet (map sp_map l)) by (subst l; reflexivity).
    rewrite Hm. simpl. rewrite !map_map. repeat split.
    + apply st_all_ok. eapply Forall_impl; [|exact HH]. intros x ((? & ?) & _).
      apply st_and_ok; split; auto. apply guard_ok; assumption.
    + apply st_all_ok. eapply Forall_impl; [|exact HH]. intros x (_ & ? & _). assumption.
    + f_equal. apply map_id_Forall. eapply Forall_impl; [|exact HH]. intros x (_ & _ & ?). assumption.
  - discriminate.
  - simpl in Hs. btrue.
    assert (HH : Forall (fun kv => ((sp_keytype (fst kv) && hashable (sp_map (fst kv)) = true /\ sp_st (fst kv) = SOk) /\ sp_st (snd kv) = SOk) /\
                                   rc_st true (sp_map (snd kv)) = SOk /\
                                   (sp_map (fst kv), sp_map (snd kv)) = (fst kv, sp_map (snd kv)) /\
                                   (fst kv, rc_map true (sp_map (snd kv))) = kv) d).
    { refine (Forall_mp _ _ _ _ H1). eapply Forall_impl; [|exact H]. intros [k x] [Hk Hx] Hkx. simpl in *. btrue.
      destruct (Hk H4) as (? & _ & _). destruct (Hx H3) as (? & ? & ?).
      pose proof (sp_stable_hashable_fix k H4 H5) as Hfix.
      repeat split; auto; try congruence. rewrite H2, H5. reflexivity. }
    assert (Hm : map (fun kv => (sp_map (fst kv), sp_map (snd kv))) d = map (fun kv => (fst kv, sp_map (snd kv))) d).
    { apply map_map_Forall. eapply Forall_impl; [|exact HH]. intros kv (_ & _ & ? & _). assumption. }
    simpl. rewrite Hm, has_class_map_snd, H0, (no_class_not_nan _ (eq_trans (has_class_map_snd _ _) H0)).
    simpl. rewrite !map_map. simpl. repeat split.
    + apply st_all_ok. eapply Forall_impl; [|exact HH]. intros kv (((? & ?) & ?) & _).
      apply st_and_ok; split; auto. apply st_and_ok; split; auto. apply guard_ok; assumption.
    + apply st_all_ok. eapply Forall_impl; [|exact HH]. intros kv (_ & ? & _). assumption.
    + f_equal. apply map_id_Forall. eapply Forall_impl; [|exact HH]. intros kv (_ & _ & _ & ?). assumption.
  - discriminate.
Qed.

Lemma sp_stable_set_cons x l :
  sp_stable (VSet (x :: l)) = forallb (fun x => sp_keytype x && hashable (sp_map x) && sp_stable x) (x :: l).
Proof. reflexivity. Qed.

Lemma sp_elems_image l :
  Forall (fun x => no_negzero_complex x = true -> sp_st x = SOk -> rc_st true (sp_map x) = SOk ->
                   sp_stable (rc_map true (sp_map x)) = true) l ->
  Forall (fun x => no_negzero_complex x = true) l ->
  Forall (fun x => st_and (guard (sp_keytype x && hashable (sp_map x))) (sp_st x) = SOk) l ->
  Forall (fun x => rc_st true (sp_map x) = SOk) l ->
  Forall (fun x => sp_keytype (rc_map true (sp_map x)) && hashable (sp_map (rc_map true (sp_map x)))
                   && sp_stable (rc_map true (sp_map x)) = true) l.
Proof.
  intros H Hz Hs Hr. refine (Forall_mp _ _ _ (Forall_mp _ _ _ (Forall_mp _ _ _ _ Hz) Hs) Hr).
  eapply Forall_impl; [|exact H]. intros x IH Hzx Hsx Hrx.
  apply st_and_ok in Hsx. destruct Hsx as [Hg Hsx]. apply guard_ok in Hg. btrue.
  destruct (sp_key_image x Hzx H0 H1 (IH Hzx Hsx Hrx)) as [Hr1 Hr2]. rewrite Hr1. exact Hr2.
Qed.

Lemma sp_set_image l :
  Forall (fun x => no_negzero_complex x = true -> sp_st x = SOk -> rc_st true (sp_map x) = SOk ->
                   sp_stable (rc_map true (sp_map x)) = true) l ->
  forallb no_negzero_complex l = true ->
  st_all (map (fun x => st_and (guard (sp_keytype x && hashable (sp_map x))) (sp_st x)) l) = SOk ->
  rc_st true (match l with [] => VTuple [] | _ => VSet (map sp_map l) end) = SOk ->
  sp_stable (rc_map true (match l with [] => VTuple [] | _ => VSet (map sp_map l) end)) = true.
Proof.
  intros H Hz Hs Hr. destruct l as [|x0 l0]; [reflexivity|]. remember (x0 :: l0) as l.
  simpl in Hr. rewrite map_map in Hr. apply st_all_ok in Hr. apply st_all_ok in Hs. btrue.
  pose proof (sp_elems_image l H Hz Hs Hr) as HH.
  change (rc_map true (VSet (map sp_map l))) with (VSet (map (rc_map true) (map sp_map l))).
  rewrite map_map. subst l. cbn [map]. rewrite sp_stable_set_cons.
  apply forallb_Forall_iff. inversion HH; subst. constructor; auto.
  apply Forall_map_iff. assumption.
Qed.

(* S2: whatever serpent delivers is a fixed point of its mapping — except for the complex
   numbers with two negative zeros *)
Lemma sp_image_stable : forall v, no_negzero_complex v = true -> sp_st v = SOk ->
  rc_st true (sp_map v) = SOk -> sp_stable (rc_map true (sp_map v)) = true.
Proof.
  induction v using val_induction; intros Hz Hs Hr.
  - destruct v; try discriminate; simpl in *; auto.
    + destruct f; reflexivity.
    + apply guard_ok in Hs. btrue.
      assert (Hc : sp_stable (sp_cplx re im) = true) by (apply sp_cplx_stable; assumption).
      destruct (hashable_rc true _ (sp_cplx_hashable re im)) as [Hr1 _]. rewrite Hr1. exact Hc.
  - simpl in *. btrue. apply st_all_ok in Hs. rewrite map_map in *. apply st_all_ok in Hr.
    apply forallb_Forall_iff, Forall_map_iff.
    exact (Forall_mp _ _ _ (Forall_mp _ _ _ (Forall_mp _ _ _ H Hz) Hs) Hr).
  - simpl in *. btrue. apply st_all_ok in Hs. rewrite map_map in *. apply st_all_ok in Hr.
    apply forallb_Forall_iff, Forall_map_iff.
    exact (Forall_mp _ _ _ (Forall_mp _ _ _ (Forall_mp _ _ _ H Hz) Hs) Hr).
  - apply sp_set_image; assumption.
  - apply sp_set_image; assumption.
  - simpl in Hz, Hs. simpl sp_map in *. apply st_all_ok in Hs. btrue.
    set (d' := map (fun kv => (sp_map (fst kv), sp_map (snd kv))) d) in *.
    simpl in Hr. simpl. destruct (is_nan_dict d') eqn:En; [reflexivity|].
    destruct (has_class d') eqn:Hc; [discriminate|].
    simpl. rewrite has_class_map_snd, Hc. simpl.
    unfold d' in Hr. rewrite map_map in Hr. apply st_all_ok in Hr. simpl in Hr.
    unfold d'. rewrite map_map. apply forallb_Forall_iff, Forall_map_iff. simpl.
    refine (Forall_mp _ _ _ (Forall_mp _ _ _ (Forall_mp _ _ _ _ Hz) Hs) Hr).
    eapply Forall_impl; [|exact H]. intros [k x] [Hk Hx] Hzz Hss Hrr. simpl in *. btrue.
    apply st_and_ok in Hss. destruct Hss as [Hss Hsx]. apply st_and_ok in Hss. destruct Hss as [Hg Hsk].
    apply guard_ok in Hg. btrue.
    destruct (hashable_rc true _ H3) as [Hrk1 Hrk2].
    destruct (sp_key_image k H0 H2 H3 (Hk H0 Hsk Hrk2)) as [_ Hkk].
    rewrite Hkk. simpl. apply Hx; assumption.
  - discriminate.
Qed.

(* ------------------------------------------------------------------ the four serializers together *)
Theorem stable_delivered s c v : complete s c = true -> stable s v = true -> wire_cfg s c v = Delivered v.
Proof.
  intros Hc Hs. unfold wire_cfg. destruct s; simpl in *.
  - destruct (sp_stable_fix v Hs) as (S1 & S2 & S3). rewrite S1, Hc, S2, S3. reflexivity.
  - apply andb_true_iff in Hc. destruct Hc as [C1 C2].
    destruct (ma_stable_fix v Hs) as (S1 & S2).
    assert (Ht : ma_top true v = v) by (destruct v; try discriminate; reflexivity).
    assert (Hts : ma_top_st true v = SOk) by (destruct v; try discriminate; reflexivity).
    rewrite C1, C2, Ht, Hts, S1, S2, rc_map_false_id. reflexivity.
  - apply andb_true_iff in Hc. destruct Hc as [C1 C2].
    destruct (js_stable_fix v Hs) as (S1 & S2 & S3). rewrite C1, C2, S1, S2, S3, rc_map_false_id. reflexivity.
  - apply andb_true_iff in Hc. destruct Hc as [C1 C3]. apply andb_true_iff in C1. destruct C1 as [C1 C2].
    destruct (mp_stable_fix v Hs) as (S1 & S2 & S3). rewrite C1, C3, S1, S2, S3. reflexivity.
Qed.

Theorem delivered_stable s c v v' :
  complete s c = true -> (s = Serpent -> no_negzero_complex v = true) ->
  wire_cfg s c v = Delivered v' -> stable s v' = true.
Proof.
  intros Hc Hz. unfold wire_cfg.
  destruct (enc_st s c v) eqn:E1; try discriminate.
  destruct (dec_st s c (enc_map s c v)) eqn:E2; try discriminate.
  intros Hd. injection Hd as <-. destruct s; simpl in *; btrue.
  - rewrite Hc in *. apply sp_image_stable; auto.
  - rewrite H, H0 in *. apply st_and_ok in E1. destruct E1 as [_ E1]. rewrite rc_map_false_id.
    apply ma_image_stable; assumption.
  - rewrite H, H0 in *. rewrite rc_map_false_id. eapply js_image_stable; eassumption.
  - rewrite H, H0 in *. eapply mp_image_stable; eassumption.
Qed.

(* the mapping changes nothing when applied twice *)
Theorem wire_idempotent tb s p v v' :
  complete s (tb s p) = true -> (s = Serpent -> no_negzero_complex v = true) ->
  wire tb s p v = Delivered v' -> wire tb s p v' = Delivered v'.
Proof.
  unfold wire. intros Hc Hz Hd. apply stable_delivered; auto. eapply delivered_stable; eassumption.
Qed.

Lemma core_no_class d :
  forallb (fun kv => match fst kv with VStr s => negb (text_eqb s t_class) && core (snd kv) | _ => false end) d = true ->
  has_class d = false.
Proof.
  unfold has_class. induction d as [|[k x] d IH]; simpl; auto.
  intros H. btrue. destruct k; try discriminate. btrue. simpl. rewrite H. simpl. apply IH.
  apply forallb_Forall_iff. assumption.
Qed.

Lemma core_stable : forall s v, core v = true -> stable s v = true.
Proof.
  intros s. induction v using val_induction; intros Hc; simpl in Hc; try discriminate.
  - destruct v; try discriminate; destruct s; reflexivity.
  - btrue. pose proof (Forall_mp _ _ _ H Hc) as HH. apply forallb_Forall_iff in HH.
    destruct s; simpl in *; assumption.
  - pose proof (core_no_class d Hc) as Hnc. btrue.
    assert (HH : Forall (fun kv => exists t, fst kv = VStr t /\ stable s (snd kv) = true) d).
    { refine (Forall_mp _ _ _ _ Hc). eapply Forall_impl; [|exact H]. intros [k x] [_ Hx] Hk. simpl in *.
      destruct k; try discriminate. btrue. eauto. }
    destruct s; simpl in *; rewrite Hnc; simpl; apply forallb_Forall_iff;
      (eapply Forall_impl; [|exact HH]); intros [k x] (t & Hk & Hx); simpl in *; subst k; simpl; auto.
Qed.

(* on the lossless core every serializer delivers exactly the value that was sent *)
Theorem lossless_core tb s p v :
  complete s (tb s p) = true -> core v = true -> wire tb s p v = Delivered v.
Proof. intros Hc Hv. apply stable_delivered; auto. apply core_stable; assumption. Qed.

Lemma cfg_eqb_eq a b : cfg_eqb a b = true -> a = b.
Proof.
  destruct a, b. unfold cfg_eqb. simpl. intros H. btrue.
  repeat match goal with H : Bool.eqb _ _ = true |- _ => apply eqb_prop in H end. subst. reflexivity.
Qed.

(* the mapping is the same for positional arguments, keyword arguments and results *)
Theorem wire_path_symmetric tb : hooks_symmetric tb = true ->
  forall s v, wire tb s Arg v = wire tb s Result v /\ wire tb s Kwarg v = wire tb s Result v.
Proof.
  unfold hooks_symmetric, all_sers. simpl. intros H s v. btrue.
  repeat match goal with H : cfg_eqb _ _ = true |- _ => apply cfg_eqb_eq in H end.
  unfold wire. destruct s; split; congruence.
Qed.

(* computed from the regenerated hook table *)
Lemma gen_symmetric : hooks_symmetric gen_table = true.
Proof. reflexivity. Qed.
Lemma gen_complete : hooks_complete gen_table = true.
Proof. reflexivity. Qed.

Lemma gen_complete_at s p : complete s (gen_table s p) = true.
Proof.
  pose proof gen_complete as H. unfold hooks_complete, all_sers in H. simpl in H. btrue.
  destruct s, p; assumption.
Qed.

(* the defective variant violates both the symmetry and the lossless core *)
Lemma quirk_refuted :
  let v := VInt (2 ^ 70) in
  core v = true /\ wire quirk_table Msgpack Result v = Delivered v /\
  wire quirk_table Msgpack Arg v = Delivered (VExt ext_long v) /\
  wire quirk_table Msgpack Kwarg v = Delivered (VExt ext_long v).
Proof. vm_compute. repeat split; reflexivity. Qed.

Lemma serpent_negzero_refuted :
  let nz := FBits negzero_bits in
  wire gen_table Serpent Result (VComplex nz nz) = Delivered (VComplex nz (FBits 0)) /\
  wire gen_table Serpent Result (VComplex nz (FBits 0)) = Delivered (VComplex (FBits 0) (FBits 0)).
Proof. vm_compute. split; reflexivity. Qed.

Lemma msgpack_quirk_refuted :
  exists v : val, core v = true /\
    wire quirk_table Msgpack Result v = Delivered v /\
    wire quirk_table Msgpack Arg v <> wire quirk_table Msgpack Result v /\
    wire quirk_table Msgpack Kwarg v <> Delivered v.
Proof.
  exists (VInt (2 ^ 70)). destruct quirk_refuted as (H1 & H2 & H3 & H4).
  repeat split; auto; [rewrite H2, H3|rewrite H4]; discriminate.
Qed.

Lemma serpent_negzero_not_idempotent :
  exists v v' : val, wire gen_table Serpent Result v = Delivered v' /\
                     wire gen_table Serpent Result v' <> Delivered v'.
Proof.
  destruct serpent_negzero_refuted as [H1 H2].
  eexists; eexists; split; [exact H1|]. rewrite H2. discriminate.
Qed.
