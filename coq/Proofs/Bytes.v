(* Lemmas about big-endian fixed-width integers and list slicing. *)
From Coq Require Import List NArith ZArith Arith Bool Lia ZifyBool ZifyN.
Import ListNotations.
From V Require Import Model.Bytes.
Local Open Scope N_scope.

Ltac Zify.zify_post_hook ::= Z.to_euclidean_division_equations.

Lemma from_be_1 x : from_be [x] = x.
Proof. unfold from_be; cbn [fold_left]. lia. Qed.

Lemma from_be_be16 n : n < 65536 -> from_be (be16 n) = n.
Proof. intros H. cbv beta iota delta [from_be be16 fold_left]. lia. Qed.

Lemma from_be_be32 n : n < 4294967296 -> from_be (be32 n) = n.
Proof. intros H. cbv beta iota delta [from_be be32 fold_left]. lia. Qed.

Lemma be16_wf n : wf_bytes (be16 n) = true.
Proof. cbv beta iota delta [wf_bytes be16 forallb is_byte]. rewrite !andb_true_r. lia. Qed.
Lemma be32_wf n : wf_bytes (be32 n) = true.
Proof. cbv beta iota delta [wf_bytes be32 forallb is_byte]. rewrite !andb_true_r. lia. Qed.

Lemma be16_length n : length (be16 n) = 2%nat. Proof. reflexivity. Qed.
Lemma be32_length n : length (be32 n) = 4%nat. Proof. reflexivity. Qed.

Lemma be16_from_be a b : a < 256 -> b < 256 -> be16 (from_be [a; b]) = [a; b].
Proof. intros Ha Hb. cbv beta iota delta [from_be be16 fold_left]. f_equal; [|f_equal]; lia. Qed.
Lemma be32_from_be a b c d : a < 256 -> b < 256 -> c < 256 -> d < 256 ->
  be32 (from_be [a; b; c; d]) = [a; b; c; d].
Proof.
  intros Ha Hb Hc Hd. cbv beta iota delta [from_be be32 fold_left].
  f_equal; [|f_equal; [|f_equal; [|f_equal]]]; lia.
Qed.

Lemma bytes_eqb_refl a : bytes_eqb a a = true.
Proof. induction a as [|x a IH]; cbn; [reflexivity|]. rewrite N.eqb_refl, IH. reflexivity. Qed.

Lemma bytes_eqb_eq a b : bytes_eqb a b = true <-> a = b.
Proof.
  revert b; induction a as [|x a IH]; intros [|y b]; cbn; try (split; [discriminate|discriminate]).
  - split; reflexivity.
  - rewrite andb_true_iff, N.eqb_eq, IH. split; [intros [-> ->]; reflexivity|intros H; inversion H; auto].
Qed.

Lemma Nlen_app {A} (a b : list A) : Nlen (a ++ b) = Nlen a + Nlen b.
Proof. unfold Nlen. rewrite app_length. lia. Qed.
Lemma Nlen_cons {A} (x : A) l : Nlen (x :: l) = 1 + Nlen l.
Proof. unfold Nlen. cbn [length]. lia. Qed.
Lemma Nlen_nil {A} : Nlen (@nil A) = 0. Proof. reflexivity. Qed.

Lemma takeN_app {A} (a b : list A) : takeN (Nlen a) (a ++ b) = a.
Proof.
  unfold takeN, Nlen. rewrite Nat2N.id, firstn_app, Nat.sub_diag, firstn_O, firstn_all, app_nil_r. reflexivity.
Qed.
Lemma dropN_app {A} (a b : list A) : dropN (Nlen a) (a ++ b) = b.
Proof. unfold dropN, Nlen. rewrite Nat2N.id, skipn_app, Nat.sub_diag, skipn_all. reflexivity. Qed.
Lemma takeN_dropN {A} n (l : list A) : takeN n l ++ dropN n l = l.
Proof. apply firstn_skipn. Qed.
Lemma Nlen_takeN {A} n (l : list A) : n <= Nlen l -> Nlen (takeN n l) = n.
Proof. unfold takeN, Nlen. intros H. rewrite firstn_length_le; lia. Qed.
