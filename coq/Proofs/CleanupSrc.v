(* C13 — the general theorems of Proofs/Cleanup.v instantiated at the structure regenerated from the source. *)
From Coq Require Import List Arith Bool.
Import ListNotations.
From V Require Import Model.Cleanup Proofs.Cleanup Gen.GenCleanup Harness.H13.

Lemma source_shapes_ok : shape_ok thread_shape = true /\ shape_ok mux_shape = true.
Proof. split; vm_compute; reflexivity. Qed.
Lemma source_worker_handback_ordered : worker_job_cleared_before_handback = true.
Proof. vm_compute; reflexivity. Qed.
Lemma cfg_ok thread pool hk : shape_ok (cf_shape (cfg thread pool hk)) = true.
Proof. destruct thread; simpl; apply source_shapes_ok. Qed.

(* a refused handshake closes the socket and never runs the hook (by design, both servers) *)
Lemma source_reject_no_hook :
  nacts AHook (sh_reject thread_shape) = 0 /\ nacts AHook (sh_reject mux_shape) = 0 /\
  0 < nacts ASock (sh_reject thread_shape) /\ 0 < nacts ASock (sh_reject mux_shape).
Proof. vm_compute. repeat split; repeat constructor. Qed.

Lemma cleanup_exactly_once_src thread pool hk evs c :
  let cf := cfg thread pool hk in
  let st := fst (run cf evs) in let tr := snd (run cf evs) in
  c_acc (conns st c) = true -> c_ended (conns st c) = true ->
  exists evs1 ev evs2, evs = evs1 ++ ev :: evs2 /\
    let s := pre_end (conns (fst (run cf evs1)) c) ev in
    active s = true /\
    for_conn c tr = snd (run_acts c s (sh_cleanup (cf_shape cf))) /\
    count (DisconnectHook c) tr = 1 /\ count (SockClosed c) tr = 1 /\ count (SlotReleased c) tr = 1 /\
    (forall r, count (ResClose c r) tr = if mem r (c_tracked s) then 1 else 0) /\
    c_inst (conns st c) = false /\ c_slot (conns st c) = false /\ c_open (conns st c) = false /\
    c_tracked (conns st c) = [].
Proof. exact (cleanup_exactly_once (cfg thread pool hk) (cfg_ok thread pool hk) evs c). Qed.

Lemma every_ending_ends_src thread pool hk evs ev c :
  let cf := cfg thread pool hk in
  active (conns (fst (run cf evs)) c) = true -> is_ending ev c = true ->
  c_ended (conns (fst (step cf (fst (run cf evs)) ev)) c) = true.
Proof.
  intros cf A H. apply every_ending_ends; auto. apply cfg_ok. apply run_inv.
Qed.

(* tracking semantics: what a served request does to the tracked set of its connection *)
Lemma mem_del x y l : mem x (del_res y l) = mem x l && negb (Nat.eqb x y).
Proof.
  unfold del_res, mem. induction l as [|z l IH]; simpl; [reflexivity|].
  destruct (Nat.eqb_spec z y) as [->|N]; simpl.
  - rewrite IH. destruct (Nat.eqb_spec x y) as [->|N']; simpl.
    + rewrite !andb_false_r. reflexivity.
    + rewrite !andb_true_r. reflexivity.
  - rewrite IH. destruct (Nat.eqb_spec x z) as [->|N']; simpl; [|reflexivity].
    destruct (Nat.eqb_spec z y); [contradiction|reflexivity].
Qed.
Lemma mem_add x y l : mem x (add_res y l) = Nat.eqb x y || mem x l.
Proof.
  unfold add_res. destruct (mem y l) eqn:M.
  - destruct (Nat.eqb_spec x y) as [->|N]; simpl; [rewrite M|]; reflexivity.
  - unfold mem. simpl. reflexivity.
Qed.
Lemma tracking_semantics cf st c t r :
  active (conns st c) = true ->
  mem r (c_tracked (conns (fst (step cf st (Req c t (Track r)))) c)) = true /\
  mem r (c_tracked (conns (fst (step cf st (Req c t (Untrack r)))) c)) = false /\
  (forall r', r' <> r ->
     mem r' (c_tracked (conns (fst (step cf st (Req c TPlain (Track r)))) c)) = mem r' (c_tracked (conns st c)) /\
     mem r' (c_tracked (conns (fst (step cf st (Req c TPlain (Untrack r)))) c)) = mem r' (c_tracked (conns st c))).
Proof.
  intros A. simpl step. rewrite A. simpl fst. rewrite !upd_same. unfold serve. simpl.
  split; [|split].
  - rewrite mem_add, Nat.eqb_refl. reflexivity.
  - rewrite mem_del, Nat.eqb_refl. apply andb_false_r.
  - intros r' N. rewrite mem_add, mem_del. destruct (Nat.eqb_spec r' r); [contradiction|].
    simpl. rewrite andb_true_r. split; reflexivity.
Qed.

(* a resource tracked by a constructor while a request is being served belongs to that request's connection:
   a session-mode class constructs on the first request of the connection that needs it (and never again), a percall
   class on every request *)
Lemma ctor_tracking cf st c r a :
  active (conns st c) = true ->
  (c_inst (conns st c) = false ->
     mem r (c_tracked (conns (fst (step cf st (Req c (TSession (Some r)) Nop))) c)) = true /\
     c_inst (conns (fst (step cf st (Req c (TSession (Some r)) a))) c) = true) /\
  (c_inst (conns st c) = true ->
     conns (fst (step cf st (Req c (TSession (Some r)) Nop))) c = conns st c) /\
  mem r (c_tracked (conns (fst (step cf st (Req c (TPercall (Some r)) Nop))) c)) = true.
Proof.
  intros A. simpl step. rewrite A. simpl fst. rewrite !upd_same. unfold serve. simpl.
  split; [|split].
  - intros I. rewrite I. simpl. rewrite mem_add, Nat.eqb_refl. split; [reflexivity|]. destruct a; reflexivity.
  - intros I. rewrite I. reflexivity.
  - rewrite mem_add, Nat.eqb_refl. reflexivity.
Qed.

Lemma source_context_bound_first : ctx_client_bound_before_construction = true.
Proof. vm_compute; reflexivity. Qed.
