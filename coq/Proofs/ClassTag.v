(* C04 — lemmas about Model/ClassTag.v: the decision of dict_to_class only ever names classes of the closed
   set (given the computed conditions on the generated chain), the double-underscore refusal, the registry as
   the only escape, and the closed-world property of recreate_classes over arbitrary nested values. *)
From Coq Require Import List NArith ZArith Bool String Ascii Lia.
Import ListNotations.
From V Require Import Model.ClassTagDefs Model.ClassTag.

(* ---------------------------------------------------------------- text equality *)
Lemma text_eqb_eq : forall a b, text_eqb a b = true -> a = b.
Proof.
  induction a as [|x a IH]; destruct b as [|y b]; simpl; intros H; try discriminate; auto.
  apply andb_true_iff in H. destruct H as [H1 H2]. apply N.eqb_eq in H1. subst. f_equal. auto.
Qed.
Lemma text_eqb_refl : forall a, text_eqb a a = true.
Proof. induction a; simpl; auto. rewrite N.eqb_refl. auto. Qed.
Lemma mem_In : forall s l, mem s l = true -> In s l.
Proof.
  unfold mem. intros s l H. apply existsb_exists in H. destruct H as [x [Hi He]].
  apply text_eqb_eq in He. subst. auto.
Qed.
Lemma In_mem : forall s l, In s l -> mem s l = true.
Proof. unfold mem. intros. apply existsb_exists. exists s. split; auto. apply text_eqb_refl. Qed.
Lemma assoc_In : forall A k (l : list (text * A)) v, assoc k l = Some v -> In (k, v) l.
Proof.
  induction l as [|[k' v'] l IH]; simpl; intros v H; try discriminate.
  destruct (text_eqb k k') eqn:Ek.
  - apply text_eqb_eq in Ek. inversion H. subst. auto.
  - right. auto.
Qed.

(* ---------------------------------------------------------------- the decision *)
Definition action_ok (E : env) (reg : list text) (a : action) : Prop :=
  match a with
  | ACustom t => In t reg
  | AReject _ => True
  | ASetState c _ | ANoArgs c | AWrapper c _ => mem c fixed_allowed = true
  | AMakeExc c => allowed_cls E c = true
  end.
Definition imports_ok (imps : list text) : Prop := Forall (fun m => In m allowed_imports) imps.

Lemma in_table_self : forall name e t, assoc name t = Some e -> (exists c x p, e = EntClass c x p) -> in_table name e (Some t) = true.
Proof.
  intros name e t H [c [x [p He]]]. subst. unfold in_table. rewrite H.
  rewrite text_eqb_refl, !eqb_reflx. reflexivity.
Qed.

Lemma ns_lookup_ok : forall E reg ns name g a,
  guard_ok ns g = true -> ns_lookup E ns name g = Some a -> action_ok E reg a.
Proof.
  unfold ns_lookup, env_lookup. intros E reg ns name g a Hg H.
  destruct (assoc ns (e_namespaces E)) as [t|] eqn:Et.
  2:{ inversion H. simpl. auto. }
  destruct (assoc name t) as [e|] eqn:Ee.
  2:{ inversion H. simpl. auto. }
  destruct (guard_passes g e) as [[|]|] eqn:Gp; inversion H; subst; simpl; auto.
  apply andb_true_iff. split.
  - destruct g; simpl in Hg; try discriminate; destruct e as [|c x p]; simpl in Gp; try discriminate; inversion Gp; subst; simpl.
    + apply orb_true_iff in Hg. destruct Hg as [Hg|Hg].
      * apply text_eqb_eq in Hg. subst. reflexivity.
      * rewrite orb_false_r in Hg. apply text_eqb_eq in Hg. subst. reflexivity.
    + rewrite Hg. reflexivity.
  - rewrite Et. apply in_table_self; auto.
    destruct g; destruct e as [|c x p]; simpl in Gp; try discriminate; simpl in Hg; try discriminate; eauto.
Qed.

Lemma run_nss_ok : forall E reg nss nsname short imps oa,
  forallb nsclause_ok nss = true -> run_nss E nss nsname short = (imps, oa) ->
  imports_ok imps /\ forall a, oa = Some a -> action_ok E reg a.
Proof.
  induction nss as [|[names suffix ns imports g] r IH]; simpl; intros nsname short imps oa Hok H.
  - inversion H. split. constructor. intros; discriminate.
  - apply andb_true_iff in Hok. destruct Hok as [Hc Hr]. apply andb_true_iff in Hc. destruct Hc as [Hg Hi].
    destruct (mem nsname names && match suffix with Some suf => suffixb suf short | None => true end).
    + inversion H; subst. split.
      * apply Forall_forall. intros m Hm. rewrite forallb_forall in Hi. apply mem_In. apply Hi. exact Hm.
      * intros a Ha. eapply ns_lookup_ok; eauto.
    + eauto.
Qed.

Lemma run_clause_ok : forall E reg flag s c imps oa,
  env_ok E = true -> clause_ok c = true -> run_clause E flag s c = Some (imps, oa) ->
  imports_ok imps /\ forall a, oa = Some a -> action_ok E reg a.
Proof.
  intros E reg flag s c imps oa HE Hc H. destruct c; simpl in *.
  - destruct (text_eqb s tag); inversion H; subst. split. constructor. intros a Ha; inversion Ha; simpl; auto.
  - destruct (text_eqb s tag); inversion H; subst. split. constructor. intros a Ha; inversion Ha; simpl; auto.
  - destruct (text_eqb s tag); inversion H; subst. split. constructor. intros a Ha; inversion Ha; simpl; auto.
  - destruct (prefixb prefix s); inversion H; subst. split. constructor.
    intros a Ha. destruct (assoc s table) as [cl|] eqn:Ea; inversion Ha; subst. simpl.
    apply assoc_In in Ea. rewrite forallb_forall in Hc. apply (Hc (s, cl)). auto.
  - destruct (prefixb prefix s); inversion H; subst. split. constructor.
    intros a Ha. destruct (nth_error (split_dot (N.to_nat maxsplit) s []) (N.to_nat idx)).
    + eapply ns_lookup_ok; eauto.
    + inversion Ha. simpl. auto.
  - destruct (flag flagkey); try discriminate.
    destruct (if use_all then assoc s (e_all E) else None) as [e|] eqn:Ea.
    + inversion H; subst. split. constructor. intros a Ha; inversion Ha; subst. simpl.
      destruct use_all; try discriminate. apply assoc_In in Ea.
      unfold env_ok in HE. rewrite forallb_forall in HE. apply (HE (s, e)). auto.
    + destruct (split_dot 1 s []) as [|a1 [|a2 [|a3 l]]]; inversion H; subst;
        try (split; [constructor | intros a Ha; inversion Ha; simpl; auto]).
      eapply run_nss_ok; eauto.
Qed.

Lemma run_group_ok : forall E reg flag s g imps oa,
  env_ok E = true -> forallb clause_ok g = true -> run_group E flag s g = Some (imps, oa) ->
  imports_ok imps /\ forall a, oa = Some a -> action_ok E reg a.
Proof.
  induction g as [|c r IH]; simpl; intros imps oa HE Hg H; try discriminate.
  apply andb_true_iff in Hg. destruct Hg as [Hc Hr].
  destruct (run_clause E flag s c) as [[i o]|] eqn:Ec.
  - inversion H; subst. eapply run_clause_ok; eauto.
  - eauto.
Qed.

Lemma run_chain_ok : forall E reg flag s chain imps a,
  env_ok E = true -> chain_ok chain = true -> run_chain E flag s chain = (imps, a) ->
  imports_ok imps /\ action_ok E reg a.
Proof.
  induction chain as [|g r IH]; simpl; intros imps a HE Hc H.
  - inversion H. split. constructor. simpl. auto.
  - apply andb_true_iff in Hc. destruct Hc as [Hg Hr].
    destruct (run_group E flag s g) as [[i [x|]]|] eqn:Eg.
    + inversion H; subst. destruct (run_group_ok _ reg _ _ _ _ _ HE Hg Eg) as [H1 H2]. split; auto.
    + destruct (run_chain E flag s r) as [i2 a2] eqn:Er. inversion H; subst.
      destruct (run_group_ok _ reg _ _ _ _ _ HE Hg Eg) as [H1 _].
      destruct (IH _ _ HE Hr eq_refl) as [H3 H4]. split; auto. apply Forall_app. split; auto.
    + eauto.
Qed.

Lemma run_chain_nonstr_rej : forall flag tag chain, exists e, run_chain_nonstr flag tag chain = AReject e.
Proof.
  induction chain as [|c r IH]; simpl; eauto.
  destruct c; eauto. destruct (flag flagkey); eauto.
Qed.

Lemma run_pre_inr : forall pre reg tag a, run_pre pre reg tag = inr a ->
  (exists e, a = AReject e) \/ (exists t, a = ACustom t /\ In t reg).
Proof.
  induction pre as [|p r IH]; simpl; intros reg tag a H; try discriminate.
  destruct p.
  - destruct tag; eauto. destruct (utf8 b); eauto. inversion H; eauto.
  - destruct (negb (hashable tag)). { inversion H; eauto. }
    destruct tag; eauto. destruct (mem s reg) eqn:Em; eauto.
    inversion H; subst. right. exists s. split; auto. apply mem_In. auto.
  - destruct tag; simpl in H; try (inversion H; eauto; fail); eauto.
    + destruct (substr needle s); eauto. inversion H; eauto.
    + destruct (existsb (key_is needle) l); eauto. inversion H; eauto.
    + destruct (existsb (key_is needle) l); eauto. inversion H; eauto.
    + destruct (existsb (key_is needle) l); eauto. inversion H; eauto.
    + destruct (existsb (key_is needle) l); eauto. inversion H; eauto.
    + destruct (existsb (key_is needle) keys); eauto. inversion H; eauto.
Qed.

(* closed world: whatever the tag, the flag and the registry, dict_to_class refuses, runs a registered converter,
   or builds a class of the closed set; and the only imports are the allowed ones *)
Lemma decide_ok : forall E pre chain reg tag flag imps a,
  env_ok E = true -> chain_ok chain = true -> decide E pre chain reg tag flag = (imps, a) ->
  imports_ok imps /\ action_ok E reg a.
Proof.
  unfold decide. intros E pre chain reg tag flag imps a HE Hc H.
  destruct (run_pre pre reg tag) as [[t|e]|a'] eqn:Ep.
  - destruct t; try (inversion H; subst; split; [constructor|];
                     match goal with |- action_ok _ _ (run_chain_nonstr ?f ?t ?c) => destruct (run_chain_nonstr_rej f t c) as [e He]; rewrite He; simpl; auto end).
    eapply run_chain_ok; eauto.
  - inversion H; subst. split. constructor. simpl. auto.
  - inversion H; subst. split. constructor.
    destruct (run_pre_inr _ _ _ _ Ep) as [[e He]|[t [Ht Hin]]]; subst; simpl; auto.
Qed.

Lemma decide_custom : forall E pre chain reg tag flag imps t,
  env_ok E = true -> chain_ok chain = true -> decide E pre chain reg tag flag = (imps, ACustom t) -> In t reg.
Proof. intros. destruct (decide_ok _ _ _ _ _ _ _ _ H H0 H1) as [_ Ha]. exact Ha. Qed.

(* the double-underscore refusal *)
Lemma run_pre_refuses : forall needle pre reg s,
  existsb (is_refuse needle) pre = true -> substr needle s = true -> mem s reg = false ->
  run_pre pre reg (VStr s) = inr (AReject ESecurity).
Proof.
  induction pre as [|p r IH]; simpl; intros reg s Hin Hs Hm; try discriminate.
  destruct p; simpl in *.
  - auto.
  - rewrite Hm. auto.
  - destruct (substr needle0 s) eqn:Es; auto.
    destruct (text_eqb needle0 needle) eqn:En.
    + apply text_eqb_eq in En. subst. congruence.
    + auto.
Qed.

Lemma decide_dunder_str : forall needle E pre chain reg s flag,
  existsb (is_refuse needle) pre = true -> substr needle s = true -> mem s reg = false ->
  decide E pre chain reg (VStr s) flag = ([], AReject ESecurity).
Proof. intros. unfold decide. erewrite run_pre_refuses; eauto. Qed.

Lemma run_pre_bytes : forall pre reg b s,
  decodes_first pre = true -> utf8 b = Some s -> run_pre pre reg (VBytes b) = run_pre pre reg (VStr s).
Proof.
  intros pre reg b s Hd Hu. destruct pre as [|[] r]; simpl in Hd; try discriminate. simpl. rewrite Hu. reflexivity.
Qed.

Lemma decide_dunder_bytes : forall needle E pre chain reg b s flag,
  decodes_first pre = true -> utf8 b = Some s ->
  existsb (is_refuse needle) pre = true -> substr needle s = true -> mem s reg = false ->
  decide E pre chain reg (VBytes b) flag = ([], AReject ESecurity).
Proof. intros. unfold decide. erewrite run_pre_bytes; eauto. erewrite run_pre_refuses; eauto. Qed.

Lemma run_pre_registered : forall pre reg s,
  registry_before_refuse pre = true -> mem s reg = true -> run_pre pre reg (VStr s) = inr (ACustom s).
Proof.
  induction pre as [|p r IH]; simpl; intros reg s Hr Hm; try discriminate.
  destruct p; simpl in *; try discriminate; auto. rewrite Hm. reflexivity.
Qed.

Lemma decide_registered : forall E pre chain reg s flag,
  registry_before_refuse pre = true -> mem s reg = true -> decide E pre chain reg (VStr s) flag = ([], ACustom s).
Proof. intros. unfold decide. rewrite run_pre_registered; auto. Qed.

(* ---------------------------------------------------------------- induction over nested values *)
Section ValInd.
  Variable P : val -> Prop.
  Hypothesis HNone : P VNone.
  Hypothesis HBool : forall b, P (VBool b).
  Hypothesis HInt : forall z, P (VInt z).
  Hypothesis HFloat : forall b, P (VFloat b).
  Hypothesis HStr : forall s, P (VStr s).
  Hypothesis HBytes : forall b, P (VBytes b).
  Hypothesis HOther : forall b, P (VOther b).
  Hypothesis HExt : forall c d, P (VExt c d).
  Hypothesis HList : forall l, Forall P l -> P (VList l).
  Hypothesis HTuple : forall l, Forall P l -> P (VTuple l).
  Hypothesis HSet : forall l, Forall P l -> P (VSet l).
  Hypothesis HFrozen : forall l, Forall P l -> P (VFrozen l).
  Hypothesis HDict : forall k v, Forall P k -> Forall P v -> P (VDict k v).
  Hypothesis HObj : forall c p, Forall P p -> P (VObj c p).

  Fixpoint val_ind' (v : val) : P v :=
    let go := fix go (l : list val) : Forall P l :=
                match l with [] => Forall_nil P | x :: r => Forall_cons x (val_ind' x) (go r) end in
    match v with
    | VNone => HNone | VBool b => HBool b | VInt z => HInt z | VFloat b => HFloat b | VStr s => HStr s
    | VBytes b => HBytes b | VOther b => HOther b | VExt c d => HExt c d
    | VList l => HList l (go l) | VTuple l => HTuple l (go l) | VSet l => HSet l (go l) | VFrozen l => HFrozen l (go l)
    | VDict k vs => HDict k vs (go k) (go vs)
    | VObj c p => HObj c p (go p)
    end.
End ValInd.

Definition vall_list (P : cls -> Prop) : list val -> Prop :=
  fix all (l : list val) : Prop := match l with [] => True | x :: r => vall P x /\ all r end.
Lemma vall_list_Forall : forall P l, vall_list P l <-> Forall (vall P) l.
Proof.
  induction l as [|x r IH]; simpl; split; intros H; auto.
  - destruct H. constructor; auto. apply IH. auto.
  - inversion H; subst. split; auto. apply IH. auto.
Qed.
Lemma vall_VList : forall P l, vall P (VList l) <-> Forall (vall P) l.
Proof. intros. apply (vall_list_Forall P l). Qed.
Lemma vall_VTuple : forall P l, vall P (VTuple l) <-> Forall (vall P) l.
Proof. intros. apply (vall_list_Forall P l). Qed.
Lemma vall_VSet : forall P l, vall P (VSet l) <-> Forall (vall P) l.
Proof. intros. apply (vall_list_Forall P l). Qed.
Lemma vall_VDict : forall P k v, vall P (VDict k v) <-> Forall (vall P) k /\ Forall (vall P) v.
Proof.
  intros. change (vall P (VDict k v)) with (vall_list P k /\ vall_list P v).
  rewrite !vall_list_Forall. tauto.
Qed.
Lemma vall_VObj : forall P c p, vall P (VObj c p) <-> P c /\ Forall (vall P) p.
Proof.
  intros. change (vall P (VObj c p)) with (P c /\ vall_list P p). rewrite vall_list_Forall. tauto.
Qed.

Lemma vall_mono : forall (P Q : cls -> Prop), (forall c, P c -> Q c) -> forall v, vall P v -> vall Q v.
Proof.
  intros P Q HPQ.
  assert (HF : forall l, Forall (fun v => vall P v -> vall Q v) l -> Forall (vall P) l -> Forall (vall Q) l).
  { induction l; intros H1 H2; constructor; inversion H1; inversion H2; subst; auto. }
  apply (val_ind' (fun v => vall P v -> vall Q v)); try (simpl; auto; fail).
  - intros l IH H. apply vall_VList. apply vall_VList in H. auto.
  - intros l IH H. apply vall_VTuple. apply vall_VTuple in H. auto.
  - intros l IH H. apply vall_VSet. apply vall_VSet in H. auto.
  - intros l IH H. apply (vall_list_Forall Q l). apply (vall_list_Forall P l) in H. auto.
  - intros k v IHk IHv H. apply vall_VDict. apply vall_VDict in H. destruct H. split; auto.
  - intros c p IH H. apply vall_VObj. apply vall_VObj in H. destruct H. split; auto.
Qed.

Lemma plain_vall : forall P v, plain v -> vall P v.
Proof. intros P. apply vall_mono. intros c []. Qed.

(* ---------------------------------------------------------------- results of monadic steps *)
Definition m_ok {A} (EP : event -> Prop) (VP : A -> Prop) (m : M A) : Prop :=
  Forall EP (fst m) /\ forall a, snd m = Ok a -> VP a.

Lemma seqM_ok : forall EP VP ms, Forall (m_ok EP VP) ms -> m_ok EP (Forall VP) (seqM ms).
Proof.
  induction ms as [|[lg o] r IH]; intros H.
  - split; simpl. constructor. intros a Ha. inversion Ha. constructor.
  - inversion H as [|x y [H1 H2] Hr]; subst. simpl in *. destruct o as [v|e].
    + destruct (seqM r) as [lg2 o2] eqn:Es. destruct (IH Hr) as [I1 I2]. simpl in *. split; simpl.
      * apply Forall_app. split; auto.
      * intros a Ha. destruct o2; inversion Ha; subst. constructor; auto.
    + split; simpl; auto. intros; discriminate.
Qed.

Lemma m_ok_events : forall A (EP EQ : event -> Prop) (VP : A -> Prop) m,
  (forall e, EP e -> EQ e) -> m_ok EP VP m -> m_ok EQ VP m.
Proof. intros A EP EQ VP m H [H1 H2]. split; auto. eapply Forall_impl; eauto. Qed.

Lemma lookup_Forall : forall (P : val -> Prop) k keys vals v, Forall P vals -> lookup k keys vals = Some v -> P v.
Proof.
  induction keys as [|kk keys IH]; simpl; intros vals v Hf H; try discriminate.
  destruct vals as [|x vals]; try discriminate. inversion Hf; subst.
  destruct (key_is k kk). inversion H; subst; auto. eauto.
Qed.

Lemma plain_not_proxy : forall v, plain v -> is_proxy v = false.
Proof. intros v H. destruct v; auto. apply vall_VObj in H. destruct H as [[] _]. Qed.

Lemma replace_nth_Forall : forall (P : val -> Prop) i x l, P x -> Forall P l -> Forall P (replace_nth i x l).
Proof.
  induction i; intros x l Hx Hl; destruct l; simpl; auto; inversion Hl; subst; constructor; auto.
Qed.

Section RecreateProofs.
  Variable E : env.
  Variable pre : list prestep.
  Variable chain : list (list clause).
  Variable tagkey argskey : text.
  Variable attrkey : option text.
  Variable hs hl ht hd : bool.
  Variable ext_codes : list N.
  Variable reg : list text.
  Hypothesis HE : env_ok E = true.
  Hypothesis HC : chain_ok chain = true.

  Let EP := event_ok E reg.
  Let CP := class_ok E reg.
  Let VP := vall CP.

  Lemma allowed_CP : forall c, allowed_cls E c = true -> CP c.
  Proof. intros. left. auto. Qed.

  Lemma imports_events : forall imps, imports_ok imps -> Forall EP (map EvImport imps).
  Proof. intros imps H. apply Forall_forall. intros e He. apply in_map_iff in He. destruct He as [m [Hm Hi]]. subst.
         unfold imports_ok in H. rewrite Forall_forall in H. apply H. auto. Qed.

  Lemma make_exception_ok : forall c keys vals,
    allowed_cls E c = true -> Forall plain vals -> m_ok EP VP (make_exception argskey attrkey c keys vals).
  Proof.
    intros c keys vals Hc Hp. unfold make_exception.
    destruct (lookup argskey keys vals) as [args|] eqn:Ea.
    2:{ split; simpl; auto. intros; discriminate. }
    assert (Hargs : plain args) by (eapply (lookup_Forall plain); eauto).
    rewrite (plain_not_proxy _ Hargs).
    destruct (negb (iterable args)). { split; simpl; auto. intros; discriminate. }
    assert (Hobj1 : VP (VObj c [args])).
    { apply vall_VObj. split. apply allowed_CP; auto. constructor; auto. apply plain_vall; auto. }
    assert (Hev : Forall EP [EvConstruct c]) by (constructor; simpl; auto).
    destruct attrkey as [ak|].
    2:{ split; simpl; auto. intros a Ha; inversion Ha; subst; auto. }
    destruct (lookup ak keys vals) as [atv|] eqn:Et.
    2:{ split; simpl; auto. intros a Ha; inversion Ha; subst; auto. }
    assert (Hat : plain atv) by (eapply (lookup_Forall plain); eauto).
    destruct atv; try (split; simpl; auto; intros; discriminate).
    - split; simpl; auto. intros a Ha; inversion Ha; subst.
      apply vall_VObj. split. apply allowed_CP; auto. constructor. apply plain_vall; auto. constructor; auto. apply plain_vall; auto.
    - apply vall_VObj in Hat. destruct Hat as [[] _].
  Qed.

  Lemma d2c_node_ok : forall special sub keys vals,
    Forall plain vals -> Forall (m_ok EP VP) sub -> m_ok EP VP (d2c_node E pre chain tagkey argskey attrkey reg special sub keys vals).
  Proof.
    intros special sub keys vals Hp Hsub. unfold d2c_node.
    set (tag := match lookup tagkey keys vals with Some t => t | None => VStr (txt "<unknown>") end).
    assert (Htag : plain tag).
    { unfold tag. destruct (lookup tagkey keys vals) eqn:El. eapply (lookup_Forall plain); eauto. exact I. }
    match goal with |- m_ok _ _ (match ?X with Some _ => _ | None => _ end) => destruct X as [fkey|] end.
    { destruct (lookup fkey keys vals) as [x|]. 2:{ split; simpl; auto; intros; discriminate. }
      unfold float_special. destruct x; split; simpl; auto; intros a Ha; inversion Ha; subst; exact I. }
    rewrite (plain_not_proxy _ Htag).
    match goal with |- context [decide E pre chain reg tag ?f] => destruct (decide E pre chain reg tag f) as [imps act] eqn:Ed end.
    destruct (decide_ok _ _ _ _ _ _ _ _ HE HC Ed) as [Hi Ha].
    pose proof (imports_events _ Hi) as Hev.
    destruct act; simpl in Ha.
    - (* custom *) split; simpl.
      + apply Forall_app; split; auto; constructor; simpl; auto.
      + intros a H; inversion H; subst. apply vall_VObj. split. right. eauto. constructor.
    - split; simpl; auto. intros; discriminate.
    - (* setstate *)
      destruct (lookup key keys vals) as [st|] eqn:Es. 2:{ split; simpl; auto. intros; discriminate. }
      assert (Hst : plain st) by (eapply (lookup_Forall plain); eauto).
      rewrite (plain_not_proxy _ Hst). split; simpl.
      + apply Forall_app; split; auto; constructor; simpl; auto.
      + intros a H; inversion H; subst. apply vall_VObj. split. apply allowed_CP. simpl. auto. constructor; auto. apply plain_vall; auto.
    - split; simpl.
      + apply Forall_app; split; auto; constructor; simpl; auto.
      + intros a H; inversion H; subst. apply vall_VObj. split. apply allowed_CP. simpl. auto. constructor.
    - (* make_exception *)
      destruct (make_exception argskey attrkey c keys vals) as [lg2 o] eqn:Em.
      pose proof (make_exception_ok c keys vals Ha Hp) as Hm. rewrite Em in Hm. destruct Hm as [M1 M2]. simpl in *.
      split; simpl; auto. apply Forall_app. split; auto.
    - (* wrapper *)
      destruct (lookup key keys vals) as [ex|] eqn:Ex. 2:{ split; simpl; auto. intros; discriminate. }
      destruct (index_of key keys) as [i|]. 2:{ split; simpl; auto. intros; discriminate. }
      assert (Hex : plain ex) by (eapply (lookup_Forall plain); eauto).
      destruct (is_tagged tagkey ex).
      + destruct (nth_error sub i) as [[lg2 [v|e]]|] eqn:En.
        * apply nth_error_In in En. rewrite Forall_forall in Hsub. destruct (Hsub _ En) as [S1 S2]. simpl in *.
          split; simpl.
          -- apply Forall_app. split; auto. apply Forall_app; split; auto; constructor; simpl; auto.
          -- intros a H; inversion H; subst. apply vall_VObj. split. apply allowed_CP. simpl. auto. constructor; auto.
             apply S2. reflexivity.
        * apply nth_error_In in En. rewrite Forall_forall in Hsub. destruct (Hsub _ En) as [S1 S2]. simpl in *.
          split; simpl. apply Forall_app. split; auto. intros; discriminate.
        * split; simpl; auto. intros; discriminate.
      + split; simpl.
        * apply Forall_app; split; auto; constructor; simpl; auto.
        * intros a H; inversion H; subst. apply vall_VObj. split. apply allowed_CP. simpl. auto. constructor; auto. apply plain_vall; auto.
  Qed.

  Lemma Forall_map_ok : forall (f : val -> M val) l,
    Forall (fun v => plain v -> m_ok EP VP (f v)) l -> Forall plain l -> Forall (m_ok EP VP) (map f l).
  Proof.
    induction l as [|x r IH]; simpl; intros H Hp; constructor; inversion H; inversion Hp; subst; auto.
  Qed.

  Lemma d2c_raw_ok : forall v, plain v -> m_ok EP VP (d2c_raw E pre chain tagkey argskey attrkey reg v).
  Proof.
    apply (val_ind' (fun v => plain v -> m_ok EP VP (d2c_raw E pre chain tagkey argskey attrkey reg v)));
      try (intros; split; simpl; auto; intros; discriminate).
    intros k v IHk IHv Hp. apply vall_VDict in Hp. destruct Hp as [Hk Hv]. simpl.
    apply d2c_node_ok; auto. apply Forall_map_ok; auto.
  Qed.

  Lemma lift_ok : forall (f : list val -> val) m,
    (forall l, Forall VP l -> VP (f l)) -> m_ok EP (Forall VP) m -> m_ok EP VP (lift f m).
  Proof.
    intros f [lg o] Hf [H1 H2]. simpl in *. split; simpl; auto.
    intros a Ha. destruct o; inversion Ha; subst. auto.
  Qed.

  Lemma pure_ok : forall v, plain v -> m_ok EP VP ([], Ok v).
  Proof. intros v Hp. split; simpl; auto. intros a Ha; inversion Ha; subst. apply plain_vall; auto. Qed.

  Lemma rc_top_ok : forall special v, plain v ->
    m_ok EP VP (rc_top E pre chain tagkey argskey attrkey hs hl ht hd reg special v).
  Proof.
    intros special.
    apply (val_ind' (fun v => plain v -> m_ok EP VP (rc_top E pre chain tagkey argskey attrkey hs hl ht hd reg special v)));
      try (intros; apply pure_ok; auto; fail).
    - intros l IH Hp. simpl. destruct hl. 2:{ apply pure_ok; auto. }
      apply lift_ok. { intros. apply vall_VList. auto. }
      apply seqM_ok. apply Forall_map_ok; auto. apply vall_VList in Hp. auto.
    - intros l IH Hp. simpl. destruct ht. 2:{ apply pure_ok; auto. }
      apply lift_ok. { intros. apply vall_VTuple. auto. }
      apply seqM_ok. apply Forall_map_ok; auto. apply vall_VTuple in Hp. auto.
    - intros l IH Hp. simpl. destruct hs. 2:{ apply pure_ok; auto. }
      apply lift_ok. { intros. apply vall_VSet. auto. }
      apply seqM_ok. apply Forall_map_ok; auto. apply vall_VSet in Hp. auto.
    - intros k v IHk IHv Hp. simpl. destruct hd. 2:{ apply pure_ok; auto. }
      pose proof Hp as Hp'. apply vall_VDict in Hp'. destruct Hp' as [Hk Hv].
      destruct (has_key tagkey k).
      + apply d2c_node_ok; auto. apply Forall_map_ok; auto.
        apply Forall_forall. intros x _ Hx. apply d2c_raw_ok. auto.
      + apply lift_ok. { intros. apply vall_VDict. split; auto. eapply Forall_impl; [|exact Hk]. intros. apply plain_vall. auto. }
        apply seqM_ok. apply Forall_map_ok; auto.
  Qed.

  (* msgpack's ext_hook produces plain data and no events *)
  Lemma ext_pass_ok : forall eh v, plain v -> m_ok (fun _ => False) plain (ext_pass ext_codes eh v).
  Proof.
    intros eh.
    apply (val_ind' (fun v => plain v -> m_ok (fun _ => False) plain (ext_pass ext_codes eh v)));
      try (intros; split; simpl; auto; intros a Ha; inversion Ha; subst; auto; fail).
    - intros c d _. simpl. unfold ext_value. destruct eh; [destruct (existsb (N.eqb c) ext_codes)|];
        split; simpl; auto; intros a Ha; inversion Ha; subst; exact I.
    - intros l IH Hp. simpl. apply vall_VList in Hp.
      assert (Hm : m_ok (fun _ => False) (Forall plain) (seqM (map (ext_pass ext_codes eh) l))).
      { apply seqM_ok. clear - IH Hp. induction l; simpl; constructor; inversion IH; inversion Hp; subst; auto. }
      destruct (seqM (map (ext_pass ext_codes eh) l)) as [lg o]. destruct Hm as [H1 H2]. simpl in *. split; simpl; auto.
      intros a Ha. destruct o; inversion Ha; subst. apply vall_VList. auto.
    - intros l IH Hp. simpl. apply vall_VTuple in Hp.
      assert (Hm : m_ok (fun _ => False) (Forall plain) (seqM (map (ext_pass ext_codes eh) l))).
      { apply seqM_ok. clear - IH Hp. induction l; simpl; constructor; inversion IH; inversion Hp; subst; auto. }
      destruct (seqM (map (ext_pass ext_codes eh) l)) as [lg o]. destruct Hm as [H1 H2]. simpl in *. split; simpl; auto.
      intros a Ha. destruct o; inversion Ha; subst. apply vall_VTuple. auto.
    - intros k l IHk IH Hp. simpl. apply vall_VDict in Hp. destruct Hp as [Hk Hp].
      assert (Hm : m_ok (fun _ => False) (Forall plain) (seqM (map (ext_pass ext_codes eh) l))).
      { apply seqM_ok. clear - IH Hp. induction l; simpl; constructor; inversion IH; inversion Hp; subst; auto. }
      destruct (seqM (map (ext_pass ext_codes eh) l)) as [lg o]. destruct Hm as [H1 H2]. simpl in *. split; simpl; auto.
      intros a Ha. destruct o; inversion Ha; subst. apply vall_VDict. auto.
  Qed.

  Lemma top_positions_ok : forall special ps orig cur,
    Forall plain orig -> Forall VP cur ->
    m_ok EP (Forall VP) (top_positions E pre chain tagkey argskey attrkey hs hl ht hd reg special ps orig cur).
  Proof.
    induction ps as [|p r IH]; simpl; intros orig cur Ho Hc.
    - split; simpl; auto. intros a Ha; inversion Ha; subst; auto.
    - destruct (nth_error orig (N.to_nat (p - 1))) as [v|] eqn:En. 2:{ split; simpl; auto. intros; discriminate. }
      assert (Hv : plain v). { apply nth_error_In in En. rewrite Forall_forall in Ho. auto. }
      pose proof (rc_top_ok special v Hv) as Hm.
      destruct (rc_top E pre chain tagkey argskey attrkey hs hl ht hd reg special v) as [lg [v'|e]]; destruct Hm as [M1 M2]; simpl in *.
      + specialize (IH orig (replace_nth (N.to_nat (p - 1)) v' cur) Ho (replace_nth_Forall VP _ _ _ (M2 _ eq_refl) Hc)).
        destruct (top_positions E pre chain tagkey argskey attrkey hs hl ht hd reg special r orig (replace_nth (N.to_nat (p - 1)) v' cur)) as [lg2 o].
        destruct IH as [I1 I2]. simpl in *. split; simpl; auto. apply Forall_app. split; auto.
      + split; simpl; auto. intros; discriminate.
  Qed.

  (* closed world for whole messages: with top-down re-creation, whatever the (plain-data) payload, every event is
     a construction of a closed-set class, a registered converter, or an allowed import — and every object in the
     result is of a closed-set class or came from a registered converter *)
  Lemma run_topdown_ok : forall special ps eh parts,
    Forall plain parts ->
    m_ok EP (Forall VP) (run_mode E pre chain tagkey argskey attrkey hs hl ht hd ext_codes reg special (TopDown ps eh) parts).
  Proof.
    intros special ps eh parts Hp. simpl.
    assert (Hm : m_ok (fun _ => False) (Forall plain) (seqM (map (ext_pass ext_codes eh) parts))).
    { apply seqM_ok. apply Forall_forall. intros m Hin. apply in_map_iff in Hin. destruct Hin as [v [Hv Hi]]. subst.
      apply ext_pass_ok. rewrite Forall_forall in Hp. auto. }
    destruct (seqM (map (ext_pass ext_codes eh) parts)) as [lg [parts'|e]]; destruct Hm as [H1 H2]; simpl in *.
    - assert (Hpl : Forall plain parts') by auto.
      assert (Hvp : Forall VP parts'). { eapply Forall_impl; [|exact Hpl]. intros. apply plain_vall. auto. }
      pose proof (top_positions_ok special ps parts' parts' Hpl Hvp) as Ht.
      destruct (top_positions E pre chain tagkey argskey attrkey hs hl ht hd reg special ps parts' parts') as [lg2 o].
      destruct Ht as [T1 T2]. simpl in *. split; simpl; auto. apply Forall_app. split; auto.
      eapply Forall_impl; [|exact H1]. intros a [].
    - split; simpl. eapply Forall_impl; [|exact H1]. intros a []. intros; discriminate.
  Qed.
End RecreateProofs.

Lemma find_mode_In : forall hooks ser call m, find_mode hooks ser call = Some m -> exists h, In h hooks /\ snd h = m.
Proof.
  unfold find_mode. intros hooks ser call m H.
  destruct (find (fun h => (fst (fst h) =? ser)%N && Bool.eqb (snd (fst h)) call) hooks) as [h|] eqn:Ef; try discriminate.
  inversion H; subst. apply find_some in Ef. destruct Ef. eauto.
Qed.

(* ---------------------------------------------------------------- registry histories *)
Lemma text_eqb_sym : forall a b, text_eqb a b = text_eqb b a.
Proof.
  induction a as [|x a IH]; destruct b as [|y b]; simpl; auto. rewrite N.eqb_sym. rewrite IH. reflexivity.
Qed.
Lemma mem_add_tag : forall t u l, mem t (add_tag u l) = if text_eqb t u then true else mem t l.
Proof.
  intros t u l. unfold add_tag. destruct (text_eqb t u) eqn:E.
  - apply text_eqb_eq in E. subst. destruct (mem u l) eqn:M; auto. unfold mem. simpl. rewrite text_eqb_refl. reflexivity.
  - destruct (mem u l); auto. unfold mem. simpl. rewrite E. reflexivity.
Qed.
Lemma mem_del_tag : forall t u l, mem t (del_tag u l) = if text_eqb t u then false else mem t l.
Proof.
  intros t u l. unfold del_tag, mem. induction l as [|x l IH]; simpl.
  - destruct (text_eqb t u); reflexivity.
  - destruct (text_eqb x u) eqn:Ex; simpl.
    + apply text_eqb_eq in Ex. subst. rewrite IH. destruct (text_eqb t u); reflexivity.
    + rewrite IH. destruct (text_eqb t u) eqn:Et; auto.
      apply text_eqb_eq in Et. subst. rewrite text_eqb_sym, Ex. reflexivity.
Qed.
Lemma mem_upd : forall t add u l, mem t (upd add u l) = if text_eqb t u then add else mem t l.
Proof. intros. unfold upd. destruct add. apply mem_add_tag. apply mem_del_tag. Qed.

(* in-place registries whose register and unregister treat the tag argument alike: whatever the entry points and
   spellings, no subclass ever gets its own registry, and the shared one is the map the specification describes *)
Lemma inplace_fold : forall norm t h st b,
  rs_shadow st = [] -> mem t (rs_base st) = b ->
  rs_shadow (fold_left (reg_step true norm norm) h st) = [] /\
  mem t (rs_base (fold_left (reg_step true norm norm) h st)) = fold_left (last_wins norm t) h b.
Proof.
  induction h as [|op h IH]; simpl; intros st b Hs Hm; auto.
  assert (Hstep : rs_shadow (reg_step true norm norm st op) = [] /\
                  mem t (rs_base (reg_step true norm norm st op)) = last_wins norm t b op).
  { unfold reg_step, last_wins. replace (if op_add op then norm else norm) with norm by (destruct (op_add op); reflexivity).
    destruct (key_of norm op) as [k|]; [|auto].
    unfold reg_step_key. destruct (op_ep op); simpl; [|rewrite Hs; simpl]; rewrite mem_upd, Hm; auto. }
  destruct Hstep as [S1 S2]. apply IH; auto.
Qed.

Lemma inplace_history : forall norm k h s t,
  mem t (effective true norm norm k h s) = currently_registered norm k h t.
Proof.
  intros norm k h s t. unfold effective, run_hist, currently_registered, view.
  destruct (inplace_fold norm t (of_kind k h) {| rs_base := []; rs_shadow := [] |} false eq_refl eq_refl) as [H1 H2].
  rewrite H1. simpl. exact H2.
Qed.

(* registry as a map: unregister(x) right after register(x), with the same argument x in any spelling that register
   accepts and through any two entry points, leaves x's key unregistered *)
Lemma fold_left_app2 : forall A B (f : A -> B -> A) l x y a, fold_left f (l ++ [x; y]) a = f (f (fold_left f l a) x) y.
Proof. intros. rewrite fold_left_app. reflexivity. Qed.
Lemma unregister_undoes_register : forall norm k h ep1 ep2 op key,
  op_kind op = k -> key_of norm op = Some key ->
  currently_registered norm k (h ++ [same_arg true ep1 op; same_arg false ep2 op]) key = false.
Proof.
  intros norm k h ep1 ep2 op key Hk Hkey. unfold currently_registered, of_kind.
  rewrite filter_app. simpl. rewrite Hk. assert (Hkk : kind_eqb k k = true) by (destruct k; reflexivity). rewrite Hkk.
  rewrite fold_left_app2. unfold last_wins at 1. unfold key_of, same_arg in *. simpl. rewrite Hkey. rewrite text_eqb_refl. reflexivity.
Qed.

(* ---------------------------------------------------------------- at the tables generated from Pyro5/serializers.py *)
From V Require Import Gen.GenClassTag Harness.H04.

Definition dunder : text := txt "__".
Definition gen_decide (reg : list text) (tag : val) (flag : text -> bool) : list text * action :=
  decide gen_env dtc_pre dtc_chain reg tag flag.
Definition own_modules_only (imps : list text) : bool := forallb (prefixb (txt "Pyro5.")) imps.
Definition tables_ok : bool :=
  chain_ok dtc_chain && env_ok gen_env && decodes_first dtc_pre && registry_before_refuse dtc_pre &&
  existsb (is_refuse dunder) dtc_pre && own_modules_only dtc_imports.

(* computed over what the extractor read from the source on this run *)
Lemma gen_tables_ok : tables_ok = true.
Proof. vm_compute. reflexivity. Qed.
Lemma gen_chain_ok : chain_ok dtc_chain = true. Proof. vm_compute. reflexivity. Qed.
Lemma gen_env_ok : env_ok gen_env = true. Proof. vm_compute. reflexivity. Qed.
Lemma gen_decodes_first : decodes_first dtc_pre = true. Proof. vm_compute. reflexivity. Qed.
Lemma gen_registry_first : registry_before_refuse dtc_pre = true. Proof. vm_compute. reflexivity. Qed.
Lemma gen_refuses_dunder : existsb (is_refuse dunder) dtc_pre = true. Proof. vm_compute. reflexivity. Qed.
Lemma gen_hooks_topdown : hooks_topdown ser_hooks = true. Proof. vm_compute. reflexivity. Qed.

Lemma gen_closed_world : forall reg tag flag imps a,
  gen_decide reg tag flag = (imps, a) -> imports_ok imps /\ action_ok gen_env reg a.
Proof. intros. eapply decide_ok; eauto using gen_env_ok, gen_chain_ok. Qed.

Lemma gen_dunder_refused : forall reg s flag,
  substr dunder s = true -> mem s reg = false -> gen_decide reg (VStr s) flag = ([], AReject ESecurity).
Proof. intros. apply (decide_dunder_str dunder); auto using gen_refuses_dunder. Qed.

Lemma gen_dunder_refused_bytes : forall reg b s flag,
  utf8 b = Some s -> substr dunder s = true -> mem s reg = false -> gen_decide reg (VBytes b) flag = ([], AReject ESecurity).
Proof. intros. apply (decide_dunder_bytes dunder) with (s := s); auto using gen_refuses_dunder, gen_decodes_first. Qed.

Lemma gen_only_registry_escapes : forall reg,
  (forall tag flag imps t, gen_decide reg tag flag = (imps, ACustom t) -> In t reg) /\
  (forall s flag, mem s reg = true -> gen_decide reg (VStr s) flag = ([], ACustom s)).
Proof.
  intros reg. split.
  - intros. eapply decide_custom; eauto using gen_env_ok, gen_chain_ok.
  - intros. apply decide_registered; auto using gen_registry_first.
Qed.

Lemma gen_recreate_types : forall reg ser call parts,
  Forall plain parts ->
  Forall (event_ok gen_env reg) (fst (gen_run reg ser call parts)) /\
  forall out, snd (gen_run reg ser call parts) = Ok out -> Forall (vall (class_ok gen_env reg)) out.
Proof.
  intros reg ser call parts Hp. unfold gen_run.
  destruct (find_mode ser_hooks ser call) as [mode|] eqn:Ef.
  2:{ split; simpl; auto. intros; discriminate. }
  destruct (find_mode_In _ _ _ _ Ef) as [h [Hin Hm]].
  pose proof gen_hooks_topdown as Ht. unfold hooks_topdown in Ht. rewrite forallb_forall in Ht.
  specialize (Ht h Hin). rewrite Hm in Ht. destruct mode as [ps eh|]; try discriminate.
  apply (run_topdown_ok gen_env dtc_pre dtc_chain dtc_tagkey mkexc_argskey mkexc_attrkey
                        rc_handles_set rc_handles_list rc_handles_tuple rc_handles_dict ext_codes reg
                        gen_env_ok gen_chain_ok (find_special ser_float_special ser) ps eh parts Hp).
Qed.

(* with nothing registered: only closed-set classes, no converter, no contact with a daemon *)
Lemma gen_empty_registry : forall ser call parts,
  Forall plain parts ->
  (forall ev, In ev (fst (gen_run [] ser call parts)) ->
     match ev with EvConstruct c => allowed_cls gen_env c = true | EvImport m => In m allowed_imports | _ => False end) /\
  forall out, snd (gen_run [] ser call parts) = Ok out -> Forall (vall (fun c => allowed_cls gen_env c = true)) out.
Proof.
  intros ser call parts Hp. destruct (gen_recreate_types [] ser call parts Hp) as [H1 H2]. split.
  - intros ev Hin. rewrite Forall_forall in H1. specialize (H1 ev Hin). destruct ev; simpl in H1; auto.
  - intros out Ho. specialize (H2 out Ho). eapply Forall_impl; [|exact H2].
    intros v. apply vall_mono. intros c [Hc|[t [_ []]]]. exact Hc.
Qed.

(* the defective variant: msgpack's object_hook hands dict_to_class members that are already live objects;
   a re-created proxy used as the argument list of an exception is iterated, i.e. it connects *)
Definition proxy_dict : val :=
  VDict [VStr dtc_tagkey; VStr (txt "state")]
        [VStr (txt "Pyro5.client.Proxy");
         VList [VStr (txt "PYRO:o@127.0.0.1:9"); VList []; VList []; VList []; VStr (txt "hs"); VNone]].
Definition witness_payload : val :=
  VDict [VStr dtc_tagkey; VStr (txt "__exception__"); VStr mkexc_argskey]
        [VStr (txt "ValueError"); VBool true; proxy_dict].
Definition bottomup_run (parts : list val) : M (list val) :=
  run_mode gen_env dtc_pre dtc_chain dtc_tagkey mkexc_argskey mkexc_attrkey
           rc_handles_set rc_handles_list rc_handles_tuple rc_handles_dict ext_codes [] None (BottomUp true true) parts.
Lemma bottomup_refuted : exists parts, Forall plain parts /\ In EvRemote (fst (bottomup_run parts)).
Proof.
  exists [witness_payload]. split.
  - repeat constructor.
  - vm_compute. auto 10.
Qed.


(* ---------------------------------------------------------------- one tagged dict: the serializer's special tag, then the registry *)
Lemma d2c_node_special : forall E pre chain tagkey argskey attrkey reg special sub keys vals,
  special_hit special (node_tag tagkey keys vals) = true ->
  fst (d2c_node E pre chain tagkey argskey attrkey reg special sub keys vals) = [] /\
  forall v, snd (d2c_node E pre chain tagkey argskey attrkey reg special sub keys vals) = Ok v -> v = VFloat true.
Proof.
  intros E pre chain tagkey argskey attrkey reg special sub keys vals H. unfold d2c_node. fold (node_tag tagkey keys vals).
  destruct special as [[ftag fkey]|]; simpl in H; try discriminate. rewrite H.
  destruct (lookup fkey keys vals) as [x|]. 2:{ split; simpl; auto. intros; discriminate. }
  unfold float_special. destruct x; split; simpl; auto; intros v Hv; inversion Hv; reflexivity.
Qed.

Lemma d2c_node_registered : forall E pre chain tagkey argskey attrkey reg special sub keys vals s,
  registry_before_refuse pre = true ->
  special_hit special (node_tag tagkey keys vals) = false -> node_tag tagkey keys vals = VStr s -> mem s reg = true ->
  d2c_node E pre chain tagkey argskey attrkey reg special sub keys vals = ([EvConverter s], Ok (VObj (CCustom s) [])).
Proof.
  intros E pre chain tagkey argskey attrkey reg special sub keys vals s Hr H Ht Hm. unfold d2c_node. fold (node_tag tagkey keys vals).
  assert (Hsp : match special with Some (ftag, fkey) => if key_is ftag (node_tag tagkey keys vals) then Some fkey else None | None => None end = None).
  { destruct special as [[ftag fkey]|]; simpl in H; auto. rewrite H. reflexivity. }
  rewrite Hsp. rewrite Ht. simpl. rewrite (decide_registered E pre chain reg s _ Hr Hm). reflexivity.
Qed.

(* ---------------------------------------------------------------- registry histories at the generated mode *)
Lemma gen_registries_inplace : reg_d2c_inplace && reg_c2d_inplace = true.
Proof. vm_compute. reflexivity. Qed.
(* register and unregister agree on how they read their tag argument (both decode a bytes tag, or neither does) *)
Lemma gen_registry_keys_agree : Bool.eqb reg_d2c_norm_register reg_d2c_norm_unregister = true.
Proof. vm_compute. reflexivity. Qed.

Definition gen_norm (k : regkind) : bool := gen_norm_register k.
Definition gen_registered (k : regkind) (h : list regop) (t : text) : bool := currently_registered (gen_norm k) k h t.

Lemma gen_registry_histories : forall k h s t, mem t (gen_effective k h s) = gen_registered k h t.
Proof.
  intros k h s t. unfold gen_effective, gen_registered, gen_norm.
  pose proof gen_registries_inplace as H. apply andb_true_iff in H. destruct H as [H1 H2].
  pose proof gen_registry_keys_agree as H3. apply eqb_prop in H3.
  destruct k; unfold gen_inplace, gen_norm_register, gen_norm_unregister.
  - rewrite H1, <- H3. apply inplace_history.
  - rewrite H2. apply inplace_history.
Qed.

Lemma gen_unregister_undoes_register : forall k h ep1 ep2 op key ser,
  op_kind op = k -> key_of (gen_norm k) op = Some key ->
  mem key (gen_effective k (h ++ [same_arg true ep1 op; same_arg false ep2 op]) ser) = false.
Proof. intros. rewrite gen_registry_histories. apply unregister_undoes_register; auto. Qed.

(* only_registry_escapes over histories: after ANY sequence of register / unregister calls through any entry points,
   decoding with ANY serializer runs the converter exactly for the tags whose last call was a register *)
Lemma gen_only_registry_escapes_hist : forall h ser,
  (forall tag flag imps t, gen_decide (gen_effective KD2C h ser) tag flag = (imps, ACustom t) -> gen_registered KD2C h t = true) /\
  (forall s flag, gen_registered KD2C h s = true -> gen_decide (gen_effective KD2C h ser) (VStr s) flag = ([], ACustom s)).
Proof.
  intros h ser. destruct (gen_only_registry_escapes (gen_effective KD2C h ser)) as [H1 H2]. split.
  - intros tag flag imps t Hd. rewrite <- (gen_registry_histories KD2C h ser t). apply In_mem. eapply H1; eauto.
  - intros s flag Hc. apply H2. rewrite gen_registry_histories. exact Hc.
Qed.

Lemma gen_recreate_types_hist : forall h ser call parts,
  Forall plain parts ->
  let reg := gen_effective KD2C h ser in
  Forall (event_ok gen_env reg) (fst (gen_run reg ser call parts)) /\
  (forall t, In (EvConverter t) (fst (gen_run reg ser call parts)) -> gen_registered KD2C h t = true) /\
  forall out, snd (gen_run reg ser call parts) = Ok out -> Forall (vall (class_ok gen_env reg)) out.
Proof.
  intros h ser call parts Hp reg. destruct (gen_recreate_types reg ser call parts Hp) as [H1 H2]. split; [|split]; auto.
  intros t Hin. rewrite Forall_forall in H1. specialize (H1 _ Hin). simpl in H1.
  unfold reg in H1. rewrite <- (gen_registry_histories KD2C h ser t). apply In_mem. exact H1.
Qed.

(* the defective variant: registries rebound through cls.  Registering through a concrete serializer class and
   unregistering through the api leaves the converter active for that serializer. *)
Lemma rebind_refuted : exists h s t, mem t (effective false false false KD2C h s) = true /\ currently_registered false KD2C h t = false.
Proof.
  exists [ {| op_add := true; op_ep := EpSer 3; op_kind := KD2C; op_bytes := false; op_tag := txt "shop.Order" |};
           {| op_add := false; op_ep := EpBase; op_kind := KD2C; op_bytes := false; op_tag := txt "shop.Order" |} ], 3%N, (txt "shop.Order").
  vm_compute. auto.
Qed.

(* one class-tagged dict, at the generated tables, after any history: the serializer's own special tag (serpent: "float")
   is turned into a float without consulting the registry; every other text tag that is currently registered goes to
   its converter and nothing else happens *)
Lemma gen_node_special_or_registry : forall h ser sub keys vals,
  let reg := gen_effective KD2C h ser in
  let special := find_special ser_float_special ser in
  let node := d2c_node gen_env dtc_pre dtc_chain dtc_tagkey mkexc_argskey mkexc_attrkey reg special sub keys vals in
  (special_hit special (node_tag dtc_tagkey keys vals) = true -> fst node = [] /\ forall v, snd node = Ok v -> v = VFloat true) /\
  (forall s, special_hit special (node_tag dtc_tagkey keys vals) = false -> node_tag dtc_tagkey keys vals = VStr s ->
             gen_registered KD2C h s = true -> node = ([EvConverter s], Ok (VObj (CCustom s) []))).
Proof.
  intros h ser sub keys vals reg special node. split.
  - intros H. apply d2c_node_special. exact H.
  - intros s H Ht Hc. apply d2c_node_registered; auto using gen_registry_first.
    unfold reg. rewrite gen_registry_histories. exact Hc.
Qed.

(* the defective variant: register decodes a bytes tag, unregister does not.  unregister(b"shop.Order") right after
   register(b"shop.Order") removes nothing: the converter stays live for the text tag. *)
Lemma key_mismatch_refuted : exists op key,
  key_of true op = Some key /\
  mem key (effective true true false KD2C [same_arg true EpBase op; same_arg false EpBase op] 3) = true.
Proof.
  exists {| op_add := true; op_ep := EpBase; op_kind := KD2C; op_bytes := true; op_tag := txt "shop.Order" |}, (txt "shop.Order").
  vm_compute. auto.
Qed.
