(* C08 — proofs about Model/HandshakeGate.v, part 1: configuration facts and the case analysis of _handshake
   (kept in its own file: the exhaustive case split takes about a minute to check).
   C08 — proofs about Model/HandshakeGate.v.  All statements are for every event list
   (any number of connections, any interleaving, messages / peer-gone / silence events,
   denied connections), both server types, every quirk setting unless said otherwise; the
   structural facts of the source enter through [cfg_ok]. *)
From Coq Require Import List NArith Arith Bool Lia.
Import ListNotations.
From V Require Import Model.HandshakeGate.

(* ------------------------------------------------------------------ small facts *)
Lemma list_eqbN_eq : forall a b, list_eqbN a b = true -> a = b.
Proof.
  induction a as [|x a IH]; destruct b as [|y b]; cbn; intros H; try discriminate; auto.
  apply andb_true_iff in H. destruct H as [H1 H2]. apply N.eqb_eq in H1. subst. f_equal. auto.
Qed.

Record cfg_facts (g : cfg) : Prop := {
  cf_first : c_first_types g = [c_connect g];
  cf_later : c_later_types g = [c_invoke g; c_ping g];
  cf_neq : c_invoke g <> c_ping g;
  cf_gate : forall sty, c_gate g sty = true;
  cf_ok : c_ok_only g = true;
  cf_client : c_client_uses_reply_ser g = true }.

Lemma cfg_ok_facts : forall g, cfg_ok g = true -> cfg_facts g.
Proof.
  intros g H. unfold cfg_ok in H.
  apply andb_true_iff in H. destruct H as [H Hcl].
  apply andb_true_iff in H. destruct H as [H Hok].
  apply andb_true_iff in H. destruct H as [H Hmux].
  apply andb_true_iff in H. destruct H as [H Hthr].
  apply andb_true_iff in H. destruct H as [H Hneq].
  apply andb_true_iff in H. destruct H as [Hfirst Hlater].
  constructor.
  - apply list_eqbN_eq; assumption.
  - apply list_eqbN_eq; assumption.
  - apply negb_true_iff in Hneq. apply N.eqb_neq in Hneq. assumption.
  - intros []; assumption.
  - assumption.
  - assumption.
Qed.

Lemma gated_true : forall g sty, cfg_facts g -> gated g sty = true.
Proof. intros g sty F. unfold gated. rewrite (cf_gate g F), (cf_ok g F). reflexivity. Qed.

Lemma memN_single : forall x y, memN x [y] = (x =? y)%N.
Proof. intros. unfold memN. cbn. apply orb_false_r. Qed.

(* ------------------------------------------------------------------ _handshake *)
Definition abort_msg (g : cfg) (m : msg) : bool :=
  q_abort_unanswered g && validator_reached g m && match m_val m with VAbort _ => true | _ => false end.

(* the three outcomes of _handshake, characterised on the input *)
Lemma hs_result_cases : forall g reg m, cfg_facts g ->
  (is_accepted_msg g reg m = true /\ hs_result g reg m = (Some (RConnectOk, m_seq m, m_ser m), HsAccept)) \/
  (is_accepted_msg g reg m = false /\ abort_msg g m = true /\ exists k, hs_result g reg m = (None, HsAbort k)) \/
  (is_accepted_msg g reg m = false /\ abort_msg g m = false /\
   exists r, hs_result g reg m = (r, HsRefuse) /\ (r = None \/ exists k s i, r = Some (RConnectFail k, s, i))).
Proof.
  intros g reg m F. unfold hs_result, is_accepted_msg, abort_msg, validator_reached, obj_registered.
  rewrite (cf_first g F), memN_single.
  destruct (m_wf m), (m_type m =? c_connect g)%N, (m_ser_known m), (m_hs m) as [| | |[n|]],
    (m_val m) as [[]|[]|kb], (q_silent_unknown_ser g), (q_silent_validator_cce g), (q_abort_unanswered g); cbn;
    try (match goal with |- context [reg ?x] => destruct (reg x) end; cbn);
    first [ left; split; reflexivity
          | right; left; split; [reflexivity|]; split; [reflexivity|]; eexists; reflexivity
          | right; right; split; [reflexivity|]; split; [reflexivity|]; eexists; split; [reflexivity|];
            first [left; reflexivity | right; eexists; eexists; eexists; reflexivity] ].
Qed.

(* with both repaired quirks off a refusal is always answered *)
Lemma hs_result_refuse_answered : forall g reg m, cfg_facts g ->
  q_silent_unknown_ser g = false -> q_silent_validator_cce g = false ->
  is_accepted_msg g reg m = false -> abort_msg g m = false ->
  exists k s i, hs_result g reg m = (Some (RConnectFail k, s, i), HsRefuse).
Proof.
  intros g reg m F Q1 Q2. unfold hs_result, is_accepted_msg, abort_msg, validator_reached, obj_registered.
  rewrite (cf_first g F), memN_single, Q1, Q2.
  destruct (m_wf m), (m_type m =? c_connect g)%N, (m_ser_known m), (m_hs m) as [| | |[n|]],
    (m_val m) as [[]|[]|kb], (q_abort_unanswered g); cbn;
    try (match goal with |- context [reg ?x] => destruct (reg x) end; cbn); intros A B;
    try discriminate A; try discriminate B; eexists; eexists; eexists; reflexivity.
Qed.

Lemma hs_denied_shape : forall g m, exists k s i, hs_denied g m = Some (RConnectFail k, s, i).
Proof.
  intros g m. unfold hs_denied.
  destruct (m_wf m), (negb (memN (m_type m) (c_first_types g))); eexists; eexists; eexists; reflexivity.
Qed.

