(* C18 — second layer of invariants: who can hold the lock, the phases of close, no worker
   ever dies in busy.remove, the pool is never seen closed by a submit. *)
From Coq Require Import List Arith Bool Lia.
Import ListNotations.
From V Require Import Model.Pool Proofs.Pool Proofs.PoolTac.

(* the accept loop is done with the flag: closed = true has been written *)
Definition mafter (p : mpc) : bool :=
  match p with CRel1 | CAcq2 | CSwapIdle | CSwapBusy | CRel2 | MDone => true | _ => false end.

Record InvA (c : cfg) (s : st) : Prop := mk_InvA {
  a_l3 : forall t, lock s = Some t ->
         (t = 0 /\ mcs (m_pc (mn s)) = true) \/ (exists i, t = S i /\ i < nw s /\ wcs (w_pc (ws s i)) = true);
  a_closed : closed s = true -> mafter (m_pc (mn s)) = true;
  a_pc : poolclosed s = [];
  a_rm : forall i, i < nw s -> w_pc (ws s i) = WRemove -> In i (busy s);
  a_crash : forall i, i < nw s -> w_crash (ws s i) = false
}.

Section Locked.
Variable c : cfg.
Hypothesis Hl : all_locked (lk c) = true.
Hypothesis Hwf : wf_cfg c.

Lemma initA : InvA c (init c).
Proof.
  constructor; cbn; intros; try discriminate; try reflexivity.
Qed.

Ltac oldA HA :=
  pose proof (a_l3 _ _ HA) as Al3; pose proof (a_closed _ _ HA) as Acl; pose proof (a_pc _ _ HA) as Apc;
  pose proof (a_rm _ _ HA) as Arm; pose proof (a_crash _ _ HA) as Acr.

Lemma main_stepA ch s s' : Inv c s -> InvA c s -> main_step c ch s = Some s' -> InvA c s'.
Proof.
  intros HI HA H. old HI. oldA HA. main_cases c Hl s H.
  all: constructor; projs; realign.
  all: try rewrite ?Hclosed.
  (* a_closed *)
  all: try solve [intros Hc; first [ discriminate Hc | reflexivity
                  | specialize (Acl Hc); rewrite Hpc in Acl; cbn in Acl; first [discriminate Acl | reflexivity] ]].
  all: try solve [assumption | reflexivity].
  (* impossible branches *)
  all: try solve [exfalso; specialize (Acl eq_refl); discriminate Acl].
  all: try solve [exfalso; destruct (Om eq_refl) as [_ OM]; unfold MCS in OM; rewrite Hpc in OM; congruence].
  all: try solve [intros Hc; specialize (Acl Hc); cbn in Acl; discriminate Acl].
  (* a_l3 *)
  all: try solve [intros t Ht; first
         [ discriminate Ht
         | injection Ht as <-; left; split; reflexivity
         | destruct (Al3 t Ht) as [[-> Hm]|(i & -> & Hi & Hw)];
           [ cbn in Hm; first [discriminate Hm | left; split; reflexivity]
           | first [ exfalso; eapply (excl_mw c s i HI); [rewrite Hpc; reflexivity | exact Hi | exact Hw]
                   | right; exists i; repeat split; auto ] ] ]].
  (* a_rm, a_crash *)
  all: try solve [intros i Hi; updw_cases; unfold worker0 in *; projs; intros; try discriminate; try reflexivity;
                  try (apply in_or_app; left);
                  first [ eapply Arm; [lia|assumption] | apply Acr; lia
                        | exfalso; eapply (excl_mw c s i HI); [rewrite Hpc; reflexivity | lia | match goal with Hp : w_pc _ = WRemove |- _ => rewrite Hp; reflexivity end] ]].
  all: match goal with Hpc : m_pc _ = ?p |- ?G => idtac "REMAINS:" p G end.
Qed.

Lemma worker_stepA k s s' : Inv c s -> InvA c s -> k < nw s -> worker_step c k s = Some s' -> InvA c s'.
Proof.
  intros HI HA Hk H. old HI. oldA HA. worker_cases c Hl s k H.
  all: constructor; projs; realign.
  all: try rewrite ?Hclosed.
  all: try solve [assumption | reflexivity].
  (* crash branch of WRemove is impossible *)
  all: try solve [exfalso; apply Hmem; apply Arm; assumption].
  (* a_l3 *)
  all: try solve [intros t Ht; first
         [ discriminate Ht
         | injection Ht as <-; right; exists k; updw_cases; projs; repeat split; auto
         | destruct (Al3 t Ht) as [[-> Hm]|(i & -> & Hi & Hw)];
           [ left; split; [reflexivity|exact Hm]
           | right; exists i; updw_cases; projs; repeat split; auto; rewrite Hpc in Hw; cbn in Hw; first [discriminate Hw|reflexivity] ] ]].
  (* a_rm / a_crash *)
  all: try solve [intros i Hi; updw_cases; projs; intros; try discriminate; try reflexivity;
                  first [ assumption | apply Acr; assumption | eapply Arm; eassumption
                        | apply remove_other; [congruence | eapply Arm; eassumption] ]].
  all: match goal with Hpc : w_pc _ = ?p |- ?G => idtac "REMAINS:" p G end.
Qed.

End Locked.
