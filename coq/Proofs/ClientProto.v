(* C03 — lemmas about Model/ClientProto.v. *)
From Coq Require Import List NArith ZArith Arith Bool Lia ZifyBool ZifyN.
Import ListNotations.
From V Require Import Model.ClientProto Gen.GenClient Harness.H03.
Ltac Zify.zify_post_hook ::= Z.to_euclidean_division_equations.
Local Open Scope N_scope.

(* ------------------------------------------------------------------ the tie to the source *)
(* both defences are present in the source and the mask is 16 bits wide *)
Definition good (d : defences) : Prop := d_release d = true /\ d_seqcheck d = true /\ d_mask d = 65535.

Lemma gen_def_good : good gen_def.
Proof. repeat split; reflexivity. Qed.

Lemma mask_mod : forall d s, good d -> N.land s (d_mask d) = s mod M16.
Proof.
  intros d s (_ & _ & Hm). rewrite Hm. change 65535 with (N.ones 16). rewrite N.land_ones. reflexivity.
Qed.

(* ------------------------------------------------------------------ invariant *)
Definition wf_reply (n : N) (r : reply) : Prop := r_req r <= n /\ r_seq r = r_req r mod M16.
Definition mine (k : kind) (tok req : N) (r : reply) : Prop :=
  r_req r = req /\ r_tok r = tok /\ rk k = Some (r_kind r).
Definition wf_conn (n : N) (c : conn) : Prop :=
  Forall (wf_reply n) (c_queue c) /\ Forall (wf_reply n) (c_delayed c).

Definition Inv (st : state) : Prop :=
  p_seq st = p_req st mod M16 /\
  Forall (wf_reply (p_req st)) (s_replies st) /\
  match p_conn st with Some c => wf_conn (p_req st) c | None => True end.

Lemma wf_reply_mono : forall n n' r, n <= n' -> wf_reply n r -> wf_reply n' r.
Proof. unfold wf_reply; intros; intuition lia. Qed.

Lemma Forall_wf_mono : forall n n' l, n <= n' -> Forall (wf_reply n) l -> Forall (wf_reply n') l.
Proof. intros n n' l H F. eapply Forall_impl; [|exact F]. intros; eapply wf_reply_mono; eauto. Qed.

Lemma init_inv : forall seq0 connected, seq0 < M16 -> Inv (init_state seq0 connected).
Proof.
  intros seq0 connected H. unfold Inv, init_state; simpl. split; [|split].
  - unfold M16 in *. symmetry. apply N.mod_small. exact H.
  - constructor.
  - destruct connected; simpl; [split; constructor | exact I].
Qed.

(* a strictly older message cannot carry the expected sequence number while it is inside the window *)
Lemma older_rejected : forall m p,
  wf_reply p m ->
  ((r_req m =? p + 1) || (p + 1 - r_req m <? M16)) = true ->
  (r_seq m =? (p + 1) mod M16) = true -> False.
Proof.
  intros m p [Hle Hs] Hw He. unfold M16 in *.
  apply N.eqb_eq in He. rewrite Hs in He.
  apply orb_true_iff in Hw. destruct Hw as [Hw|Hw].
  - apply N.eqb_eq in Hw. lia.
  - apply N.ltb_lt in Hw. lia.
Qed.

(* ------------------------------------------------------------------ the network *)
(* the next message to be read is either strictly older than the current request, or it is the
   current request's own reply (possibly with altered sequence number / type) followed by
   well-formed messages *)
Definition head_ok (k : kind) (tok p : N) (q : list reply) : Prop :=
  match q with
  | [] => True
  | h :: t => wf_reply p h \/ (mine k tok (p + 1) h /\ Forall (wf_reply (p + 1)) t)
  end.

Definition arrive_ok (k : kind) (tok p : N) (q dl : list reply) : Prop :=
  head_ok k tok p q /\
  Forall (wf_reply (p + 1)) dl /\
  (rk k = None -> Forall (wf_reply p) q /\ dl = []).

Lemma own_reply_wf : forall k tok p,
  Forall (wf_reply (p + 1)) (own_reply k tok ((p + 1) mod M16) (p + 1)).
Proof.
  intros. unfold own_reply. destruct (rk k); constructor; [|constructor].
  unfold wf_reply; simpl. split; [lia | reflexivity].
Qed.

Lemma own_reply_mine : forall k tok s p r, In r (own_reply k tok s (p + 1)) -> mine k tok (p + 1) r.
Proof.
  intros k tok s p r. unfold own_reply. destruct (rk k) eqn:E; simpl; [|tauto].
  intros [<-|[]]. unfold mine; simpl. rewrite E. auto.
Qed.

Ltac conj_all := repeat match goal with |- _ /\ _ => split end.

Lemma arrive_spec : forall k tok p f olds q dl br,
  Forall (wf_reply p) olds ->
  arrive f (own_reply k tok ((p + 1) mod M16) (p + 1)) olds = (q, dl, br) ->
  arrive_ok k tok p q dl.
Proof.
  intros k tok p f olds q dl br Hold H.
  pose proof (own_reply_wf k tok p) as Hwf.
  assert (Hmine : forall r, In r (own_reply k tok ((p + 1) mod M16) (p + 1)) -> mine k tok (p + 1) r)
    by (intros; eapply own_reply_mine; eauto).
  assert (Hst : forall n s, nth_error olds n = Some s -> wf_reply p s)
    by (intros n s En; eapply Forall_forall; [exact Hold | eapply nth_error_In; eauto]).
  unfold arrive_ok, head_ok.
  unfold own_reply in *.
  destruct (rk k) as [x|] eqn:Ek.
  - (* a reply exists *)
    assert (Hm : mine k tok (p + 1) (mkReply ((p + 1) mod M16) tok x true (p + 1))) by (apply Hmine; left; reflexivity).
    assert (Hw : wf_reply (p + 1) (mkReply ((p + 1) mod M16) tok x true (p + 1))) by (inversion Hwf; assumption).
    destruct f; simpl in H; try (destruct (nth_error olds k0) as [s|] eqn:En; [specialize (Hst _ _ En)|]; simpl in H);
      inversion H; subst; clear H; simpl; conj_all;
      try exact I; try (intros; discriminate); try (constructor; auto; fail);
      try (left; assumption);
      try (right; split; [exact Hm | constructor; auto]; fail);
      try (right; split; [unfold mine in *; simpl in *; intuition | constructor]; fail).
  - (* oneway: nothing of our own is on the wire *)
    destruct f; simpl in H; try (destruct (nth_error olds k0) as [s|] eqn:En; [specialize (Hst _ _ En)|]; simpl in H);
      inversion H; subst; clear H; simpl; conj_all;
      try exact I; try reflexivity; try (constructor; auto; fail); try (left; assumption);
      try (intros _; conj_all; try reflexivity; constructor; auto; fail).
Qed.

(* ------------------------------------------------------------------ reading the reply *)
Definition own_out (k : kind) (tok n : N) (o : outcome) : Prop :=
  match o with
  | OResult t q => rk k = Some RResult /\ t = tok /\ q = n
  | ORaised t q => rk k = Some RExc /\ t = tok /\ q = n
  | OSec t q => rk k = Some RSec /\ t = tok /\ q = n
  | ONone => rk k = None
  | OErr _ => False
  end.

Lemma outcome_of_mine : forall k tok n m, mine k tok n m -> own_out k tok n (outcome_of m).
Proof.
  unfold mine, outcome_of, own_out. intros k tok n m (H1 & H2 & H3). destruct (r_kind m); auto.
Qed.

Lemma read_spec : forall d k tok p st2 c2 fs2,
  good d ->
  p_req st2 = p + 1 -> p_seq st2 = (p + 1) mod M16 ->
  Forall (wf_reply (p + 1)) (s_replies st2) ->
  head_ok k tok p (c_queue c2) ->
  Forall (wf_reply (p + 1)) (c_delayed c2) ->
  s_window_ok (a_st (read_reply d st2 c2 fs2)) = true ->
  let a := read_reply d st2 c2 fs2 in
  Inv (a_st a) /\ s_window_ok st2 = true /\ p_req (a_st a) = p + 1 /\ s_log (a_st a) = s_log st2 /\
  match a_res a with
  | inl _ => p_conn (a_st a) = None
  | inr o => own_out k tok (p + 1) o /\ exists h t, c_queue c2 = h :: t /\ mine k tok (p + 1) h
  end.
Proof.
  intros d k tok p st2 c2 fs2 Hg Hreq Hseq Hreps Hhead Hdl Hw.
  destruct Hg as (Hrel & Hchk & Hmask).
  unfold read_reply in *.
  destruct (c_queue c2) as [|m q'] eqn:Hq.
  - (* nothing to read *)
    unfold fail in *. rewrite Hrel in *. simpl in *.
    unfold Inv; simpl. rewrite Hreq, Hseq. repeat split; auto.
  - simpl in Hhead.
    destruct (negb (r_type_ok m)) eqn:Hty.
    + unfold fail in *. rewrite Hrel in *. simpl in *.
      apply andb_true_iff in Hw. destruct Hw as [Hw0 _].
      unfold Inv; simpl. rewrite Hreq, Hseq. repeat split; auto.
    + rewrite Hchk in *. simpl andb in *.
      destruct (negb (r_seq m =? p_seq st2)) eqn:Hsq.
      * unfold fail in *. rewrite Hrel in *. simpl in *.
        apply andb_true_iff in Hw. destruct Hw as [Hw0 _].
        unfold Inv; simpl. rewrite Hreq, Hseq. repeat split; auto.
      * simpl in *.
        apply andb_true_iff in Hw. destruct Hw as [Hw0 Hw1].
        apply negb_false_iff in Hsq.
        destruct Hhead as [Hold | [Hmine Ht]].
        { exfalso. rewrite Hreq in Hw1. rewrite Hseq in Hsq. eapply older_rejected; eauto. }
        unfold Inv; simpl. rewrite Hreq, Hseq. repeat split; auto.
        { apply outcome_of_mine; auto. }
        { exists m, q'. split; auto. }
Qed.

(* ------------------------------------------------------------------ the server and the network *)
Lemma serve_spec : forall k tok p pre c log reps fs c2 log2 reps2 fs2,
  Forall (wf_reply p) pre -> Forall (wf_reply p) reps ->
  serve k tok ((p + 1) mod M16) (p + 1) pre c log reps fs = (c2, log2, reps2, fs2) ->
  (c_queue c2 = pre /\ c_delayed c2 = [] /\ log2 = log /\ reps2 = reps) \/
  (exists q, c_queue c2 = pre ++ q /\ arrive_ok k tok p q (c_delayed c2) /\ log2 = tok :: log /\
             Forall (wf_reply (p + 1)) reps2).
Proof.
  intros k tok p pre c log reps fs c2 log2 reps2 fs2 Hpre Hreps H.
  unfold serve in H.
  destruct (c_srvclosed c).
  { inversion H; subst; left; simpl; auto. }
  destruct (next_fault fs) as [f fs'].
  assert (Hgen : forall q dl br,
     arrive f (own_reply k tok ((p + 1) mod M16) (p + 1)) reps = (q, dl, br) ->
     (mkConn (pre ++ q) dl br (is_sec k), tok :: log, own_reply k tok ((p + 1) mod M16) (p + 1) ++ reps, fs') = (c2, log2, reps2, fs2) ->
     exists q0, c_queue c2 = pre ++ q0 /\ arrive_ok k tok p q0 (c_delayed c2) /\ log2 = tok :: log /\ Forall (wf_reply (p + 1)) reps2).
  { intros q dl br Ha E. inversion E; subst. exists q. simpl.
    split; [reflexivity|]. split; [eapply arrive_spec; eauto|]. split; [reflexivity|].
    apply Forall_app. split; [apply own_reply_wf | eapply Forall_wf_mono; [|exact Hreps]; lia]. }
  destruct f;
    try (inversion H; subst; left; simpl; auto; fail);
    try (match type of H with context [arrive ?F ?O ?R] => destruct (arrive F O R) as [[q dl] br] eqn:Ha end;
         right; eapply Hgen; eauto; fail).
  (* FResetDelivered: executed, nothing is sent *)
  inversion H; subst. right. exists []. simpl. rewrite app_nil_r.
  split; [reflexivity|]. split.
  { unfold arrive_ok, head_ok. split; [exact I|]. split; [constructor|]. intros _. split; [constructor | reflexivity]. }
  split; [reflexivity|]. eapply Forall_wf_mono; [|exact Hreps]. lia.
Qed.

Lemma seq_step : forall d st, good d -> p_seq st = p_req st mod M16 ->
  N.land (p_seq st + 1) (d_mask d) = (p_req st + 1) mod M16.
Proof.
  intros d st Hg Hs. rewrite (mask_mod d _ Hg). rewrite Hs. unfold M16. lia.
Qed.

(* ------------------------------------------------------------------ one attempt *)
Definition att_ok (k : kind) (tok : N) (st : state) (a : att) : Prop :=
  Inv (a_st a) /\ s_window_ok st = true /\
  p_req st <= p_req (a_st a) <= p_req st + 1 /\
  exists b : bool, s_log (a_st a) = (if b then [tok] else []) ++ s_log st /\
    match a_res a with
    | inl _ => p_conn (a_st a) = None /\ (rk k = None -> b = false)
    | inr o => own_out k tok (p_req st + 1) o /\ (rk k <> None -> b = true) /\ p_req (a_st a) = p_req st + 1
    end.

Lemma head_ok_app : forall k tok p pre q,
  Forall (wf_reply p) pre -> head_ok k tok p q -> head_ok k tok p (pre ++ q).
Proof.
  intros k tok p pre q Hpre Hq. destruct pre as [|h t]; simpl; [exact Hq|].
  inversion Hpre; subst. left; assumption.
Qed.

Lemma invoke_spec : forall d k tok st c fs,
  good d ->
  p_seq st = p_req st mod M16 ->
  Forall (wf_reply (p_req st)) (s_replies st) ->
  wf_conn (p_req st) c ->
  s_window_ok (a_st (invoke d k tok st c fs)) = true ->
  att_ok k tok st (invoke d k tok st c fs).
Proof.
  intros d k tok st c fs Hg Hseq Hreps [Hcq Hcd] Hw.
  pose proof (seq_step d st Hg Hseq) as Hs'.
  pose proof Hg as (Hrel & Hchk & Hmask).
  unfold invoke in *. rewrite Hs' in *.
  set (p := p_req st) in *.
  assert (Hreps1 : Forall (wf_reply (p + 1)) (s_replies st)) by (eapply Forall_wf_mono; [|exact Hreps]; lia).
  destruct (c_broken c).
  { (* send fails *)
    unfold fail in *. rewrite Hrel in *. simpl in *. unfold att_ok; simpl.
    split; [unfold Inv; simpl; auto|]. split; [auto|]. split; [lia|].
    exists false. simpl. auto. }
  assert (Hpre : Forall (wf_reply p) (c_queue c ++ c_delayed c)) by (apply Forall_app; auto).
  assert (Hpre1 : Forall (wf_reply (p + 1)) (c_queue c ++ c_delayed c)) by (eapply Forall_wf_mono; [|exact Hpre]; lia).
  destruct (serve k tok ((p + 1) mod M16) (p + 1) (c_queue c ++ c_delayed c) c (s_log st) (s_replies st) fs)
    as [[[c2 log2] reps2] fs2] eqn:Hsv.
  pose proof (serve_spec _ _ _ _ _ _ _ _ _ _ _ _ Hpre Hreps Hsv) as Hsp.
  destruct (rk k) as [x|] eqn:Hrk.
  - (* a reply is awaited *)
    assert (Hh : head_ok k tok p (c_queue c2) /\ Forall (wf_reply (p + 1)) (c_delayed c2) /\
                 Forall (wf_reply (p + 1)) reps2 /\
                 exists b : bool, log2 = (if b then [tok] else []) ++ s_log st /\
                   ((exists h t, c_queue c2 = h :: t /\ mine k tok (p + 1) h) -> b = true)).
    { destruct Hsp as [(Hq & Hd & Hl & Hr) | (q & Hq & Ha & Hl & Hr)].
      - rewrite Hq, Hd, Hl, Hr. split; [|split; [constructor|split; [auto|]]].
        + rewrite <- (app_nil_r (c_queue c ++ c_delayed c)). apply head_ok_app; [auto | exact I].
        + exists false. split; [reflexivity|].
          intros (h & t & E & Hm). exfalso.
          rewrite E in Hpre. inversion Hpre; subst. destruct H1 as [Hle _]. destruct Hm as [Hm _]. lia.
      - destruct Ha as (Hhead & Hdl & _). rewrite Hq.
        split; [apply head_ok_app; auto|]. split; [auto|]. split; [auto|].
        exists true. split; [rewrite Hl; reflexivity | auto]. }
    destruct Hh as (Hhead & Hdl & Hr2 & b & Hlog & Hb).
    pose proof (read_spec d k tok p
                  (mkState ((p + 1) mod M16) (p + 1) (Some c2) log2 reps2 (s_window_ok st)) c2 fs2
                  Hg eq_refl eq_refl Hr2 Hhead Hdl Hw) as Hrd.
    cbv zeta in Hrd. simpl s_window_ok in Hrd. simpl s_log in Hrd.
    destruct Hrd as (HInv & Hw0 & Hreq' & Hlog' & Hres).
    unfold att_ok. split; [exact HInv|]. split; [exact Hw0|]. split; [fold p; lia|].
    exists b. split; [rewrite Hlog'; exact Hlog|].
    destruct (a_res _) as [e|o].
    + split; [exact Hres | intros; congruence].
    + destruct Hres as [Ho Hm]. split; [exact Ho|]. split; [intros _; apply Hb; exact Hm | exact Hreq'].
  - (* oneway: return without reading *)
    simpl in *. unfold att_ok; simpl.
    destruct Hsp as [(Hq & Hd & Hl & Hr) | (q & Hq & Ha & Hl & Hr)].
    + split; [unfold Inv, wf_conn; simpl; rewrite Hq, Hd, Hr; auto|]. split; [auto|]. split; [fold p; lia|].
      exists false. split; [rewrite Hl; reflexivity|]. split; [exact Hrk|]. split; [intros Hc; congruence | reflexivity].
    + destruct Ha as (_ & _ & Hno). destruct (Hno Hrk) as [Hqq Hdd].
      split; [unfold Inv, wf_conn; simpl; rewrite Hq, Hdd; repeat split; auto;
              apply Forall_app; split; [auto | eapply Forall_wf_mono; [|exact Hqq]; lia]|].
      split; [auto|]. split; [fold p; lia|].
      exists true. split; [rewrite Hl; reflexivity|]. split; [exact Hrk|]. split; [auto | reflexivity].
Qed.

Lemma connect_wf : forall st f c, Inv st -> connect st f = inr c -> wf_conn (p_req st) c.
Proof.
  intros st f c (Hs & _ & _) H. unfold connect in H.
  destruct f; try discriminate; try (inversion H; subst; split; constructor; fail).
  - destruct (nth_error (s_replies st) k); [discriminate|]. inversion H; subst; split; constructor.
  - inversion H; subst. split; simpl; constructor; [|constructor].
    unfold wf_reply; simpl. split; [lia | exact Hs].
Qed.

Lemma attempt_spec : forall d k tok st fs,
  good d -> Inv st ->
  s_window_ok (a_st (attempt d k tok st fs)) = true ->
  att_ok k tok st (attempt d k tok st fs).
Proof.
  intros d k tok st fs Hg HI Hw. pose proof HI as (Hs & Hr & Hc).
  assert (Hstay : s_window_ok st = true -> forall e fs', att_ok k tok st (mkAtt (inl e) st fs') \/ p_conn st <> None).
  { intros Hw0 e fs'. destruct (p_conn st) eqn:E; [right; congruence|left].
    unfold att_ok; simpl. split; [exact HI|]. split; [exact Hw0|]. split; [lia|].
    exists false. simpl. auto. }
  unfold attempt in *.
  destruct (p_conn st) as [c|] eqn:Ec.
  - apply invoke_spec; auto.
  - destruct (is_stream k).
    + simpl in Hw. destruct (Hstay Hw EClosed fs); [assumption | congruence].
    + destruct (next_fault fs) as [f fs'].
      destruct (connect st f) as [e|c] eqn:Ecn.
      * simpl in Hw. destruct (Hstay Hw e fs'); [assumption | congruence].
      * apply invoke_spec; auto. eapply connect_wf; eauto.
Qed.

(* the ghost window flag can only go from true to false *)
Lemma read_window_mono : forall d st2 c2 fs2,
  s_window_ok (a_st (read_reply d st2 c2 fs2)) = true -> s_window_ok st2 = true.
Proof.
  intros d st2 c2 fs2. unfold read_reply, fail, with_conn.
  destruct (c_queue c2); simpl; [auto|].
  destruct (negb (r_type_ok r)); simpl; [intros H; apply andb_true_iff in H; tauto|].
  destruct (d_seqcheck d && negb (r_seq r =? p_seq st2)); simpl; intros H; apply andb_true_iff in H; tauto.
Qed.

Lemma invoke_window_mono : forall d k tok st c fs,
  s_window_ok (a_st (invoke d k tok st c fs)) = true -> s_window_ok st = true.
Proof.
  intros d k tok st c fs. unfold invoke.
  destruct (c_broken c); [unfold fail, with_conn; simpl; auto|].
  destruct (serve _ _ _ _ _ _ _ _ _) as [[[c2 log2] reps2] fs2].
  destruct (rk k); [|simpl; auto].
  intros H. apply read_window_mono in H. exact H.
Qed.

Lemma attempt_window_mono : forall d k tok st fs,
  s_window_ok (a_st (attempt d k tok st fs)) = true -> s_window_ok st = true.
Proof.
  intros d k tok st fs. unfold attempt.
  destruct (p_conn st); [apply invoke_window_mono|].
  destruct (is_stream k); [simpl; auto|].
  destruct (next_fault fs) as [f fs']. destruct (connect st f); [simpl; auto | apply invoke_window_mono].
Qed.

Lemma attempts_window_mono : forall d k tok n st fs,
  s_window_ok (snd (attempts d k tok n st fs)) = true -> s_window_ok st = true.
Proof.
  intros d k tok n. induction n as [|n IH]; intros st fs; simpl.
  - destruct (a_res (attempt d k tok st fs)); simpl; apply attempt_window_mono.
  - destruct (a_res (attempt d k tok st fs)) as [e|o] eqn:E; simpl; [|apply attempt_window_mono].
    destruct (retryable d e); simpl; [|apply attempt_window_mono].
    intros H. apply IH in H. eapply attempt_window_mono; eauto.
Qed.

(* ------------------------------------------------------------------ one call (with its retries) *)
Definition returned_own (k : kind) (tok : N) (st st' : state) (o : outcome) : Prop :=
  match o with
  | OResult t q | ORaised t q | OSec t q => own_out k tok q o /\ p_req st < q <= p_req st'
  | ONone => rk k = None
  | OErr _ => True
  end.

Definition call_ok (k : kind) (tok : N) (n : nat) (st : state) (r : outcome * state) : Prop :=
  Inv (snd r) /\ s_window_ok st = true /\ p_req st <= p_req (snd r) /\
  returned_own k tok st (snd r) (fst r) /\
  exists m : nat, s_log (snd r) = repeat tok m ++ s_log st /\ (m <= S n)%nat /\
    match fst r with
    | OErr _ => p_conn (snd r) = None /\ (rk k = None -> m = 0%nat)
    | ONone => (m <= 1)%nat
    | _ => (1 <= m)%nat /\ (n = 0%nat -> m = 1%nat)
    end.

Lemma att_to_call : forall k tok n st a,
  att_ok k tok st a ->
  call_ok k tok n st (match a_res a with inl e => OErr e | inr o => o end, a_st a).
Proof.
  intros k tok n st a (HI' & Hw0 & Hreq & b & Hlog & Hres).
  assert (Hl : s_log (a_st a) = repeat tok (if b then 1 else 0)%nat ++ s_log st) by (destruct b; exact Hlog).
  unfold call_ok. destruct (a_res a) as [e|o]; simpl.
  - destruct Hres as [Hc Hb].
    split; [auto|]. split; [auto|]. split; [lia|]. split; [exact I|].
    exists (if b then 1 else 0)%nat. split; [exact Hl|]. split; [destruct b; lia|].
    split; [exact Hc|]. intros Hk. rewrite (Hb Hk). reflexivity.
  - destruct Hres as (Ho & Hb & Hq).
    split; [auto|]. split; [auto|]. split; [lia|].
    split.
    { destruct o; simpl in *; auto; (split; [intuition | lia]). }
    exists (if b then 1 else 0)%nat. split; [exact Hl|]. split; [destruct b; lia|].
    destruct o; simpl in Ho; try contradiction; try (destruct b; lia);
      (assert (b = true) by (apply Hb; destruct Ho as [Hk _]; congruence); subst b; split; [lia | reflexivity]).
Qed.

Lemma repeat_cons_app : forall (A : Type) (x : A) m l, x :: repeat x m ++ l = repeat x m ++ x :: l.
Proof. intros A x m l. induction m; simpl; [reflexivity|]. rewrite IHm. reflexivity. Qed.

Lemma attempts_spec : forall d k tok n st fs,
  good d -> Inv st ->
  s_window_ok (snd (attempts d k tok n st fs)) = true ->
  call_ok k tok n st (attempts d k tok n st fs).
Proof.
  intros d k tok n. induction n as [|n IH]; intros st fs Hg HI Hw.
  - (* no retry left *)
    simpl in *.
    assert (Hw1 : s_window_ok (a_st (attempt d k tok st fs)) = true)
      by (destruct (a_res (attempt d k tok st fs)); exact Hw).
    pose proof (att_to_call k tok 0 st _ (attempt_spec d k tok st fs Hg HI Hw1)) as H.
    destruct (a_res (attempt d k tok st fs)); exact H.
  - simpl in *.
    destruct (a_res (attempt d k tok st fs)) as [e|o] eqn:Eres.
    + destruct (retryable d e) eqn:Ert.
      * (* retry *)
        pose proof (attempts_window_mono _ _ _ _ _ _ Hw) as Hw1.
        pose proof (attempt_spec d k tok st fs Hg HI Hw1) as (HI' & Hw0 & Hreq & b & Hlog & Hres).
        rewrite Eres in Hres. destruct Hres as [Hc Hb].
        pose proof (IH _ _ Hg HI' Hw) as (HI2 & _ & Hreq2 & Hown & m & Hlog2 & Hm & Hres2).
        set (r := attempts d k tok n (a_st (attempt d k tok st fs)) (a_fs (attempt d k tok st fs))) in *.
        unfold call_ok. split; [auto|]. split; [auto|]. split; [lia|].
        split.
        { destruct (fst r); simpl in *; auto; (split; [tauto | lia]). }
        exists ((if b then 1 else 0) + m)%nat.
        split.
        { rewrite Hlog2, Hlog. destruct b; simpl; [|reflexivity]. symmetry. apply repeat_cons_app. }
        split; [destruct b; lia|].
        destruct (fst r) eqn:Er; simpl in *; try (split; [lia | intros; discriminate]).
        { (* ONone *) rewrite (Hb Hown). simpl. lia. }
        { destruct Hres2 as [Hc2 Hz]. split; [auto|]. intros Hk. rewrite (Hb Hk), (Hz Hk). reflexivity. }
      * (* not retryable *)
        simpl in Hw.
        pose proof (att_to_call k tok (S n) st _ (attempt_spec d k tok st fs Hg HI Hw)) as H.
        rewrite Eres in H. exact H.
    + simpl in Hw.
      pose proof (att_to_call k tok (S n) st _ (attempt_spec d k tok st fs Hg HI Hw)) as H.
      rewrite Eres in H. exact H.
Qed.

(* ------------------------------------------------------------------ histories *)
Fixpoint run_ok (retries : nat) (st : state) (cs : list call) (rs : list (outcome * state)) : Prop :=
  match cs, rs with
  | [], [] => True
  | c :: cs', r :: rs' =>
      call_ok (c_kind c) (c_tok c) (eff_retries retries (c_kind c)) st r /\ run_ok retries (snd r) cs' rs'
  | _, _ => False
  end.

Lemma last_default : forall (A : Type) (l : list A) a d1 d2, last (a :: l) d1 = last (a :: l) d2.
Proof. intros A l. induction l as [|b l IH]; intros; [reflexivity|]. simpl in *. apply (IH b). Qed.

Lemma final_cons : forall st r rs, final st (r :: rs) = final (snd r) rs.
Proof.
  intros st r rs. unfold final. simpl. destruct (map snd rs) as [|s l] eqn:E; [reflexivity|].
  apply last_default.
Qed.

Lemma run_window_mono : forall d retries cs st,
  s_window_ok (final st (run d retries st cs)) = true -> s_window_ok st = true.
Proof.
  intros d retries cs. induction cs as [|c cs IH]; intros st H; simpl in *; [exact H|].
  rewrite final_cons in H. apply IH in H. unfold do_call in H. eapply attempts_window_mono; eauto.
Qed.

Lemma run_spec : forall d retries cs st,
  good d -> Inv st ->
  s_window_ok (final st (run d retries st cs)) = true ->
  run_ok retries st cs (run d retries st cs) /\ Inv (final st (run d retries st cs)).
Proof.
  intros d retries cs. induction cs as [|c cs IH]; intros st Hg HI Hw; simpl in *; [split; [exact I | exact HI]|].
  rewrite final_cons in *.
  pose proof (run_window_mono _ _ _ _ Hw) as Hw1.
  pose proof (attempts_spec d (c_kind c) (c_tok c) (eff_retries retries (c_kind c)) st (c_faults c) Hg HI Hw1) as Hc.
  fold (do_call d retries st c) in *.
  destruct (IH (snd (do_call d retries st c)) Hg) as [Hr Hf]; [apply Hc | exact Hw |].
  split; [split; [exact Hc | exact Hr] | exact Hf].
Qed.

Lemma run_ok_nth : forall retries cs rs st i c r,
  run_ok retries st cs rs ->
  nth_error cs i = Some c -> nth_error rs i = Some r ->
  call_ok (c_kind c) (c_tok c) (eff_retries retries (c_kind c)) (before st rs i) r.
Proof.
  intros retries cs. induction cs as [|c0 cs IH]; intros rs st i c r Hok Hc Hr.
  - destruct i; discriminate.
  - destruct rs as [|r0 rs]; [contradiction|]. destruct Hok as [H0 Hrest].
    destruct i as [|i]; simpl in *.
    + inversion Hc; inversion Hr; subst. exact H0.
    + specialize (IH rs (snd r0) i c r Hrest Hc Hr).
      unfold before in *.
      change (nth (S i) (st :: map snd (r0 :: rs)) st) with (nth i (snd r0 :: map snd rs) st).
      rewrite (nth_indep _ st (snd r0)); [exact IH|].
      simpl. rewrite map_length.
      assert (i < length rs)%nat by (apply nth_error_Some; congruence). lia.
Qed.

Lemma run_length : forall d retries cs st, length (run d retries st cs) = length cs.
Proof. intros d retries cs. induction cs; intros; simpl; [reflexivity | rewrite IHcs; reflexivity]. Qed.

(* own reply or communication error *)
Lemma own_reply_or_comm_error : forall d retries st cs,
  good d -> Inv st ->
  let rs := run d retries st cs in
  s_window_ok (final st rs) = true ->
  length rs = length cs /\
  forall i c o st', nth_error cs i = Some c -> nth_error rs i = Some (o, st') ->
    own_outcome c (before st rs i) st' o.
Proof.
  intros d retries st cs Hg HI rs Hw. split; [apply run_length|].
  intros i c o st' Hc Hr.
  destruct (run_spec d retries cs st Hg HI Hw) as [Hok _].
  pose proof (run_ok_nth _ _ _ _ _ _ _ Hok Hc Hr) as (_ & _ & _ & Hown & _).
  simpl in Hown. unfold own_outcome. destruct o; simpl in *; auto; intuition.
Qed.

Lemma exec_counts : forall d retries st cs,
  good d -> Inv st ->
  let rs := run d retries st cs in
  s_window_ok (final st rs) = true ->
  forall i c o st', nth_error cs i = Some c -> nth_error rs i = Some (o, st') ->
    exists m : nat, s_log st' = repeat (c_tok c) m ++ s_log (before st rs i) /\
                    exec_bound (eff_retries retries (c_kind c)) c o m.
Proof.
  intros d retries st cs Hg HI rs Hw i c o st' Hc Hr.
  destruct (run_spec d retries cs st Hg HI Hw) as [Hok _].
  pose proof (run_ok_nth _ _ _ _ _ _ _ Hok Hc Hr) as (_ & _ & _ & _ & m & Hlog & Hm & Hres).
  simpl in *. exists m. split; [exact Hlog|]. unfold exec_bound. split; [lia|].
  destruct o; simpl in *; auto; tauto.
Qed.

(* a failed call leaves the proxy without a connection ... *)
Lemma failed_call_releases : forall d retries st c e st1,
  good d -> Inv st ->
  do_call d retries st c = (OErr e, st1) -> s_window_ok st1 = true ->
  p_conn st1 = None /\ Inv st1.
Proof.
  intros d retries st c e st1 Hg HI Hc Hw.
  pose proof (attempts_spec d (c_kind c) (c_tok c) (eff_retries retries (c_kind c)) st (c_faults c) Hg HI) as H.
  unfold do_call in Hc. rewrite Hc in H. destruct (H Hw) as (HI1 & _ & _ & _ & m & _ & _ & Hn & _).
  simpl in *. auto.
Qed.

(* ... and a proxy without a connection serves a call over a healthy transport correctly: executed exactly once *)
Lemma healthy_call : forall d k tok n st,
  good d -> p_conn st = None -> is_stream k = false ->
  exists st', attempts d k tok n st [] = (expected k tok (p_req st + 1), st') /\
              s_log st' = tok :: s_log st /\ p_conn st' <> None.
Proof.
  intros d k tok n st (Hrel & Hchk & Hmask) Hnone Hs.
  destruct n; simpl; unfold attempt; rewrite Hnone, Hs; simpl; unfold invoke, serve, read_reply; simpl;
    destruct k; try discriminate; simpl; unfold expected, outcome_of; simpl;
    rewrite ?N.eqb_refl, ?andb_false_r; simpl; eexists; (split; [reflexivity | split; [reflexivity | discriminate]]).
Qed.

Lemma recovers : forall d retries st c1 c2 e st1,
  good d -> Inv st ->
  do_call d retries st c1 = (OErr e, st1) -> s_window_ok st1 = true ->
  c_faults c2 = [] -> is_stream (c_kind c2) = false ->
  exists st2, do_call d retries st1 c2 = (expected (c_kind c2) (c_tok c2) (p_req st1 + 1), st2) /\
              s_log st2 = c_tok c2 :: s_log st1 /\ p_conn st2 <> None.
Proof.
  intros d retries st c1 c2 e st1 Hg HI Hc Hw Hf Hs.
  destruct (failed_call_releases d retries st c1 e st1 Hg HI Hc Hw) as [Hn _].
  unfold do_call. rewrite Hf. apply healthy_call; auto.
Qed.

(* 65535 -> 0 does not raise a false out-of-sync: a healthy call on a connected, drained proxy at any
   sequence number returns its own result *)
Lemma healthy_connected_call : forall d k tok n st,
  good d -> p_conn st = Some empty_conn ->
  exists st', attempts d k tok n st [] = (expected k tok (p_req st + 1), st') /\
              s_log st' = tok :: s_log st /\ p_seq st' = (p_seq st + 1) mod M16.
Proof.
  intros d k tok n st Hg Hc. pose proof Hg as (Hrel & Hchk & Hmask).
  destruct n; simpl; unfold attempt; rewrite Hc; simpl; unfold invoke, serve, read_reply; simpl;
    destruct k; simpl; unfold expected, outcome_of; simpl;
    rewrite ?N.eqb_refl, ?andb_false_r; simpl; eexists; (split; [reflexivity | split; [reflexivity | apply mask_mod; exact Hg]]).
Qed.

(* ------------------------------------------------------------------ each defence is necessary *)
(* without the sequence check (release kept): a duplicated reply is returned to the next call *)
Lemma no_seqcheck_refuted :
  map fst (run d_no_seqcheck 0 (init_state 0 true) dup_history) = [OResult 1 1; OResult 1 1] /\
  map c_tok dup_history = [1; 2].
Proof. split; vm_compute; reflexivity. Qed.

(* without the release (sequence check kept): after one late reply the proxy never gets back in sync ... *)
Lemma no_release_never_recovers :
  map fst (run d_no_release 0 (init_state 0 true) late_history) = [OErr ETimeout; OErr EProtocol; OErr EProtocol].
Proof. vm_compute; reflexivity. Qed.

(* ... and once the 16-bit counter has gone round, the late reply is returned to another call, although
   it is only 65536 requests old *)
Lemma no_release_refuted :
  nth_error (map fst (run d_no_release 0 (init_state 0 true) wrap_history)) (N.to_nat 65536) = Some (OResult 1 1) /\
  nth_error (map c_tok wrap_history) (N.to_nat 65536) = Some 70000.
Proof. split; vm_compute; reflexivity. Qed.

(* with both defences the same three histories behave *)
Lemma defended_histories :
  map fst (run gen_def 0 (init_state 0 true) dup_history) = [OResult 1 1; OErr EProtocol] /\
  map fst (run gen_def 0 (init_state 0 true) late_history) = [OErr ETimeout; OResult 2 2; OResult 3 3] /\
  nth_error (map fst (run gen_def 0 (init_state 0 true) wrap_history)) (N.to_nat 65536) = Some (OResult 70000 65537).
Proof. repeat split; vm_compute; reflexivity. Qed.

(* the same, for the state reached by any history of a fresh (or pre-advanced) proxy *)
Lemma recovers_after_history : forall d retries seq0 connected cs c1 c2 e st1,
  good d -> seq0 < M16 ->
  let st0 := init_state seq0 connected in
  let st := final st0 (run d retries st0 cs) in
  s_window_ok st = true ->
  do_call d retries st c1 = (OErr e, st1) -> s_window_ok st1 = true ->
  c_faults c2 = [] -> is_stream (c_kind c2) = false ->
  exists st2, do_call d retries st1 c2 = (expected (c_kind c2) (c_tok c2) (p_req st1 + 1), st2) /\
              s_log st2 = c_tok c2 :: s_log st1 /\ p_conn st2 <> None.
Proof.
  intros d retries seq0 connected cs c1 c2 e st1 Hg Hlt st0 st Hw Hc Hw1 Hf Hs.
  destruct (run_spec d retries cs st0 Hg (init_inv seq0 connected Hlt) Hw) as [_ HI].
  eapply recovers; eauto.
Qed.

Lemma own_reply_from_init : forall d retries seq0 connected cs,
  good d -> seq0 < M16 ->
  let st0 := init_state seq0 connected in
  let rs := run d retries st0 cs in
  s_window_ok (final st0 rs) = true ->
  length rs = length cs /\
  forall i c o st', nth_error cs i = Some c -> nth_error rs i = Some (o, st') ->
    own_outcome c (before st0 rs i) st' o.
Proof.
  intros d retries seq0 connected cs Hg Hlt st0 rs Hw.
  exact (own_reply_or_comm_error d retries st0 cs Hg (init_inv seq0 connected Hlt) Hw).
Qed.

Lemma exec_counts_from_init : forall d retries seq0 connected cs,
  good d -> seq0 < M16 ->
  let st0 := init_state seq0 connected in
  let rs := run d retries st0 cs in
  s_window_ok (final st0 rs) = true ->
  forall i c o st', nth_error cs i = Some c -> nth_error rs i = Some (o, st') ->
    exists m : nat, s_log st' = repeat (c_tok c) m ++ s_log (before st0 rs i) /\
                    exec_bound (eff_retries retries (c_kind c)) c o m.
Proof.
  intros d retries seq0 connected cs Hg Hlt st0 rs Hw.
  exact (exec_counts d retries st0 cs Hg (init_inv seq0 connected Hlt) Hw).
Qed.

(* ------------------------------------------------------------------ the window hypothesis is implied by a short history *)
(* every message in flight was produced by a request numbered >= base *)
Definition lb (base : N) (r : reply) : Prop := base <= r_req r.
Definition LB (base : N) (st : state) : Prop :=
  base <= p_req st /\ Forall (lb base) (s_replies st) /\
  match p_conn st with Some c => Forall (lb base) (c_queue c) /\ Forall (lb base) (c_delayed c) | None => True end.

Ltac fin := repeat split; auto; try lia; try (constructor; fail).

Definition step_lb (base : N) (st st' : state) : Prop :=
  LB base st' /\ p_req st <= p_req st' /\
  (p_req st' < base + M16 -> s_window_ok st = true -> s_window_ok st' = true).

Lemma own_lb : forall base k tok s req, base <= req -> Forall (lb base) (own_reply k tok s req).
Proof. intros. unfold own_reply. destruct (rk k); constructor; [exact H | constructor]. Qed.

Lemma arrive_lb : forall base f own olds q dl br,
  Forall (lb base) own -> Forall (lb base) olds -> arrive f own olds = (q, dl, br) ->
  Forall (lb base) q /\ Forall (lb base) dl.
Proof.
  intros base f own olds q dl br Ho Hold H.
  assert (Hst : forall n s, nth_error olds n = Some s -> lb base s)
    by (intros n s En; eapply Forall_forall; [exact Hold | eapply nth_error_In; eauto]).
  assert (Hmap : forall g, (forall r, r_req (g r) = r_req r) -> Forall (lb base) (map g own)).
  { intros g Hg. apply Forall_forall. intros x Hx. apply in_map_iff in Hx. destruct Hx as (r & <- & Hr).
    unfold lb. rewrite Hg. eapply Forall_forall in Ho; eauto. }
  destruct f; simpl in H; try (destruct (nth_error olds k) as [s|] eqn:En; [specialize (Hst _ _ En)|]; simpl in H);
    inversion H; subst; clear H; split; auto; try constructor; auto;
    try (apply Forall_app; split; auto); try (apply Hmap; intros; reflexivity).
Qed.

Lemma serve_lb : forall base k tok s req pre c log reps fs c2 log2 reps2 fs2,
  base <= req -> Forall (lb base) pre -> Forall (lb base) reps ->
  serve k tok s req pre c log reps fs = (c2, log2, reps2, fs2) ->
  Forall (lb base) (c_queue c2) /\ Forall (lb base) (c_delayed c2) /\ Forall (lb base) reps2.
Proof.
  intros base k tok s req pre c log reps fs c2 log2 reps2 fs2 Hb Hpre Hreps H.
  unfold serve in H. destruct (c_srvclosed c).
  { inversion H; subst; simpl; auto. }
  destruct (next_fault fs) as [f fs'].
  assert (Hgen : forall q dl br,
     arrive f (own_reply k tok s req) reps = (q, dl, br) ->
     (mkConn (pre ++ q) dl br (is_sec k), tok :: log, own_reply k tok s req ++ reps, fs') = (c2, log2, reps2, fs2) ->
     Forall (lb base) (c_queue c2) /\ Forall (lb base) (c_delayed c2) /\ Forall (lb base) reps2).
  { intros q dl br Ha E. inversion E; subst. simpl.
    destruct (arrive_lb base _ _ _ _ _ _ (own_lb base k tok s req Hb) Hreps Ha) as [Hq Hd].
    split; [apply Forall_app; auto|]. split; [auto|]. apply Forall_app. split; [apply own_lb; auto | auto]. }
  destruct f;
    try (inversion H; subst; simpl; auto; fail);
    match type of H with context [arrive ?F ?O ?R] => destruct (arrive F O R) as [[q dl] br] eqn:Ha end;
    eapply Hgen; eauto.
Qed.

Lemma read_lb : forall base d st2 c2 fs2,
  base <= p_req st2 -> Forall (lb base) (s_replies st2) ->
  Forall (lb base) (c_queue c2) -> Forall (lb base) (c_delayed c2) ->
  step_lb base st2 (a_st (read_reply d st2 c2 fs2)).
Proof.
  intros base d st2 c2 fs2 Hb Hr Hq Hd. unfold read_reply, fail, with_conn, step_lb, LB.
  destruct (c_queue c2) as [|m q] eqn:Eq; simpl.
  { destruct (d_release d); simpl; rewrite ?Eq; fin. }
  inversion Hq; subst.
  assert (Hx : p_req st2 < base + M16 -> ((r_req m =? p_req st2) || (p_req st2 - r_req m <? M16)) = true).
  { intros Hlt. apply orb_true_iff. right. apply N.ltb_lt. unfold lb, M16 in *. lia. }
  destruct (negb (r_type_ok m)); simpl;
    [|destruct (d_seqcheck d && negb (r_seq m =? p_seq st2)); simpl];
    try (destruct (d_release d)); simpl; fin;
    intros Hlt Hw; rewrite Hw, (Hx Hlt); reflexivity.
Qed.

Lemma invoke_lb : forall base d k tok st c fs,
  base <= p_req st -> Forall (lb base) (s_replies st) ->
  Forall (lb base) (c_queue c) -> Forall (lb base) (c_delayed c) ->
  step_lb base st (a_st (invoke d k tok st c fs)).
Proof.
  intros base d k tok st c fs Hb Hr Hq Hd. unfold invoke.
  destruct (c_broken c).
  { unfold fail, with_conn, step_lb, LB; simpl. destruct (d_release d); simpl; fin. }
  destruct (serve _ _ _ _ _ _ _ _ _) as [[[c2 log2] reps2] fs2] eqn:Hs.
  assert (Hb1 : base <= p_req st + 1) by lia.
  destruct (serve_lb base _ _ _ _ _ _ _ _ _ _ _ _ _ Hb1 (proj2 (Forall_app _ _ _) (conj Hq Hd)) Hr Hs) as (Hq2 & Hd2 & Hr2).
  destruct (rk k).
  - pose proof (read_lb base d (mkState (N.land (p_seq st + 1) (d_mask d)) (p_req st + 1) (Some c2) log2 reps2 (s_window_ok st))
                  c2 fs2 Hb1 Hr2 Hq2 Hd2) as (HL & Hle & Hwin).
    simpl in *. split; [exact HL|]. split; [lia | exact Hwin].
  - unfold step_lb, LB; simpl. fin.
Qed.

Lemma attempt_lb : forall base d k tok st fs, LB base st -> step_lb base st (a_st (attempt d k tok st fs)).
Proof.
  intros base d k tok st fs (Hb & Hr & Hc).
  assert (Hsame : step_lb base st st) by (unfold step_lb, LB; repeat split; auto; lia).
  unfold attempt. destruct (p_conn st) as [c|] eqn:Ec.
  - destruct Hc. apply invoke_lb; auto.
  - destruct (is_stream k); [exact Hsame|].
    destruct (next_fault fs) as [f fs']. destruct (connect st f) as [e|c] eqn:Ecn; [exact Hsame|].
    apply invoke_lb; auto; unfold connect in Ecn;
      destruct f; try discriminate; try (inversion Ecn; subst; simpl; constructor; fail);
      try (destruct (nth_error (s_replies st) k0); [discriminate | inversion Ecn; subst; simpl; constructor]);
      inversion Ecn; subst; simpl; constructor; [exact Hb | constructor].
Qed.

Lemma step_lb_trans : forall base a b c, step_lb base a b -> step_lb base b c -> step_lb base a c.
Proof.
  intros base a b c (L1 & P1 & W1) (L2 & P2 & W2). split; [exact L2|]. split; [lia|].
  intros Hlt Hw. apply W2; [exact Hlt|]. apply W1; [lia | exact Hw].
Qed.

Lemma attempts_lb : forall base d k tok n st fs, LB base st -> step_lb base st (snd (attempts d k tok n st fs)).
Proof.
  intros base d k tok n. induction n as [|n IH]; intros st fs HL; simpl.
  - destruct (a_res (attempt d k tok st fs)); simpl; apply attempt_lb; auto.
  - pose proof (attempt_lb base d k tok st fs HL) as Hs.
    destruct (a_res (attempt d k tok st fs)) as [e|o]; simpl; [|exact Hs].
    destruct (retryable d e); simpl; [|exact Hs].
    eapply step_lb_trans; [exact Hs | apply IH; apply Hs].
Qed.

Lemma run_lb : forall base d retries cs st, LB base st -> step_lb base st (final st (run d retries st cs)).
Proof.
  intros base d retries cs. induction cs as [|c cs IH]; intros st HL; simpl.
  - unfold final; simpl. destruct HL as (Hb & Hr & Hc). unfold step_lb, LB; fin.
  - rewrite final_cons.
    pose proof (attempts_lb base d (c_kind c) (c_tok c) (eff_retries retries (c_kind c)) st (c_faults c) HL) as Hs.
    fold (do_call d retries st c) in Hs.
    eapply step_lb_trans; [exact Hs | apply IH; apply Hs].
Qed.

(* fewer than 2^16 requests sent in the whole history => the window hypothesis holds *)
Lemma window_ok_short_history : forall d retries seq0 connected cs,
  let st0 := init_state seq0 connected in
  p_req (final st0 (run d retries st0 cs)) < seq0 + M16 ->
  s_window_ok (final st0 (run d retries st0 cs)) = true.
Proof.
  intros d retries seq0 connected cs st0 Hlt.
  assert (HL : LB seq0 st0).
  { unfold LB, st0, init_state; simpl. split; [lia|]. split; [constructor|]. destruct connected; simpl; auto. }
  destruct (run_lb seq0 d retries cs st0 HL) as (_ & _ & Hw). apply Hw; [exact Hlt | reflexivity].
Qed.

(* ------------------------------------------------------------------ delivered => executed exactly once *)
Lemma read_log : forall d st2 c2 fs2, s_log (a_st (read_reply d st2 c2 fs2)) = s_log st2.
Proof.
  intros. unfold read_reply, fail, with_conn. destruct (c_queue c2); simpl; [reflexivity|].
  destruct (negb (r_type_ok r)); simpl; [reflexivity|].
  destruct (d_seqcheck d && negb (r_seq r =? p_seq st2)); reflexivity.
Qed.

(* the fault lets the request reach the server *)
Definition delivers (f : fault) : bool := match f with FDropReq | FResetBefore => false | _ => true end.

(* On a live connection, one attempt whose request reaches the server — whatever happens to the
   connection or the reply afterwards, including a reset between delivery and handling — runs the
   method exactly once; a oneway call returns None. *)
Lemma delivered_executed_once : forall d k tok st c f fs,
  p_conn st = Some c -> c_broken c = false -> c_srvclosed c = false -> delivers f = true ->
  let a := attempt d k tok st (f :: fs) in
  s_log (a_st a) = tok :: s_log st /\ (rk k = None -> a_res a = inr ONone).
Proof.
  intros d k tok st c f fs Hc Hb Hs Hf. unfold attempt. rewrite Hc. unfold invoke. rewrite Hb.
  unfold serve. rewrite Hs. simpl next_fault. cbv beta iota.
  destruct f; try discriminate; simpl;
    try (match goal with |- context [arrive ?F ?O ?R] => destruct (arrive F O R) as [[q dl] br] end);
    destruct (rk k); simpl; try rewrite read_log; simpl; split; auto; intros; discriminate.
Qed.

(* and a request that does not reach the server is not executed *)
Lemma undelivered_not_executed : forall d k tok st c f fs,
  p_conn st = Some c -> c_broken c = false -> delivers f = false ->
  s_log (a_st (attempt d k tok st (f :: fs))) = s_log st.
Proof.
  intros d k tok st c f fs Hc Hb Hf. unfold attempt. rewrite Hc. unfold invoke. rewrite Hb.
  unfold serve. destruct (c_srvclosed c); simpl next_fault; cbv beta iota;
    destruct f; try discriminate; simpl; destruct (rk k); simpl; try rewrite read_log; reflexivity.
Qed.

(* ------------------------------------------------------------------ nothing is ever sent in answer to a oneway request *)
(* whatever the network does and whatever the method does: the server produces no reply for a oneway
   request (the list of replies it ever produced is unchanged) and the client consumes none *)
Lemma oneway_attempt_no_reply : forall d k tok st fs,
  rk k = None ->
  s_replies (a_st (attempt d k tok st fs)) = s_replies st.
Proof.
  intros d k tok st fs Hk.
  assert (Hinv : forall c fs0, s_replies (a_st (invoke d k tok st c fs0)) = s_replies st).
  { intros c fs0. unfold invoke. destruct (c_broken c); [reflexivity|].
    unfold serve, own_reply. rewrite Hk.
    destruct (c_srvclosed c); [simpl; rewrite ?Hk; reflexivity|].
    destruct (next_fault fs0) as [f fs'].
    destruct f; simpl;
      try (match goal with |- context [arrive ?F ?O ?R] => destruct (arrive F O R) as [[q dl] br] end);
      rewrite ?Hk; reflexivity. }
  unfold attempt. destruct (p_conn st); [apply Hinv|].
  destruct (is_stream k); [reflexivity|].
  destruct (next_fault fs) as [f fs']. destruct (connect st f); [reflexivity | apply Hinv].
Qed.

Lemma oneway_call_no_reply : forall d k tok n st fs,
  rk k = None ->
  s_replies (snd (attempts d k tok n st fs)) = s_replies st.
Proof.
  intros d k tok n. induction n as [|n IH]; intros st fs Hk; simpl.
  - destruct (a_res (attempt d k tok st fs)); simpl; apply oneway_attempt_no_reply; exact Hk.
  - destruct (a_res (attempt d k tok st fs)) as [e|o]; simpl; [|apply oneway_attempt_no_reply; exact Hk].
    destruct (retryable d e); simpl; [|apply oneway_attempt_no_reply; exact Hk].
    rewrite IH by exact Hk. apply oneway_attempt_no_reply; exact Hk.
Qed.

(* a oneway attempt never reads: whatever was waiting in the connection is still there, in order *)
Lemma oneway_attempt_reads_nothing : forall d k tok st c fs,
  rk k = None -> p_conn st = Some c -> c_broken c = false ->
  exists c' extra, p_conn (a_st (attempt d k tok st fs)) = Some c' /\ c_queue c' = c_queue c ++ c_delayed c ++ extra.
Proof.
  intros d k tok st c fs Hk Hc Hb. unfold attempt. rewrite Hc. unfold invoke. rewrite Hb.
  unfold serve, own_reply. rewrite Hk.
  destruct (c_srvclosed c); [simpl; rewrite ?Hk; simpl; eexists; exists []; split; [reflexivity | simpl; rewrite app_nil_r; reflexivity]|].
  destruct (next_fault fs) as [f fs'].
  destruct f; simpl;
    try (match goal with |- context [arrive ?F ?O ?R] => destruct (arrive F O R) as [[q dl] br] eqn:Ha end);
    rewrite ?Hk; simpl; eexists;
    first [ exists []; split; [reflexivity | simpl; rewrite app_nil_r; reflexivity]
          | eexists; split; [reflexivity | simpl; rewrite <- app_assoc; reflexivity] ].
Qed.
