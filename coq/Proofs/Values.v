(* C01 — induction principle for the nested value type and list/status helper lemmas. *)
From Coq Require Import List NArith ZArith Bool.
Import ListNotations.
From V Require Import Model.Values.

Definition atom (v : val) : bool :=
  match v with
  | VList _ | VTuple _ | VSet _ | VFrozenSet _ | VDict _ | VExt _ _ => false
  | _ => true
  end.

(* Structural induction over [val]: the automatically generated principle gives no hypothesis
   for the values nested inside lists, so it is written by hand with a nested [fix]. *)
Section ValInd.
  Variable P : val -> Prop.
  Hypothesis H_atom : forall v, atom v = true -> P v.
  Hypothesis H_list : forall l, Forall P l -> P (VList l).
  Hypothesis H_tuple : forall l, Forall P l -> P (VTuple l).
  Hypothesis H_set : forall l, Forall P l -> P (VSet l).
  Hypothesis H_fset : forall l, Forall P l -> P (VFrozenSet l).
  Hypothesis H_dict : forall d, Forall (fun kv => P (fst kv) /\ P (snd kv)) d -> P (VDict d).
  Hypothesis H_ext : forall c p, P p -> P (VExt c p).

  Fixpoint val_induction (v : val) : P v :=
    let all := fix all (l : list val) : Forall P l :=
      match l with
      | [] => Forall_nil P
      | x :: r => Forall_cons x (val_induction x) (all r)
      end in
    match v with
    | VList l => H_list l (all l)
    | VTuple l => H_tuple l (all l)
    | VSet l => H_set l (all l)
    | VFrozenSet l => H_fset l (all l)
    | VDict d =>
        H_dict d ((fix alld (d : list (val * val)) : Forall (fun kv => P (fst kv) /\ P (snd kv)) d :=
                     match d with
                     | [] => Forall_nil _
                     | kv :: r => Forall_cons kv (conj (val_induction (fst kv)) (val_induction (snd kv))) (alld r)
                     end) d)
    | VExt c p => H_ext c p (val_induction p)
    | VNone => H_atom VNone eq_refl
    | VBool b => H_atom (VBool b) eq_refl
    | VInt z => H_atom (VInt z) eq_refl
    | VFloat f => H_atom (VFloat f) eq_refl
    | VStr s => H_atom (VStr s) eq_refl
    | VBytes b => H_atom (VBytes b) eq_refl
    | VComplex r i => H_atom (VComplex r i) eq_refl
    | VUuid s => H_atom (VUuid s) eq_refl
    | VDecimal s => H_atom (VDecimal s) eq_refl
    | VDate o s => H_atom (VDate o s) eq_refl
    | VDateTime o s => H_atom (VDateTime o s) eq_refl
    end.
End ValInd.

(* ------------------------------------------------------------------ Forall helpers *)
Lemma Forall_mp {A} (P Q : A -> Prop) l : Forall (fun x => P x -> Q x) l -> Forall P l -> Forall Q l.
Proof. induction 1; intros HP; inversion HP; subst; constructor; auto. Qed.

Lemma Forall_conj {A} (P Q : A -> Prop) l : Forall (fun x => P x /\ Q x) l <-> Forall P l /\ Forall Q l.
Proof.
  split.
  - induction 1 as [|x l [Hp Hq] _ [IH1 IH2]]; split; constructor; auto.
  - intros [H1 H2]. induction H1; inversion H2; subst; constructor; auto.
Qed.

Lemma forallb_Forall_iff {A} (f : A -> bool) l : forallb f l = true <-> Forall (fun x => f x = true) l.
Proof.
  induction l as [|x l IH]; simpl.
  - split; auto.
  - rewrite andb_true_iff, IH. split.
    + intros [H1 H2]. constructor; auto.
    + intros H. inversion H; subst. auto.
Qed.

Lemma map_id_Forall {A} (f : A -> A) l : Forall (fun x => f x = x) l -> map f l = l.
Proof. induction 1; simpl; congruence. Qed.

Lemma map_map_Forall {A B} (f g : A -> B) l : Forall (fun x => f x = g x) l -> map f l = map g l.
Proof. induction 1; simpl; congruence. Qed.

Lemma Forall_map_iff {A B} (f : A -> B) (P : B -> Prop) l : Forall P (map f l) <-> Forall (fun x => P (f x)) l.
Proof.
  induction l as [|x l IH]; simpl.
  - split; constructor.
  - split; intros H; inversion H; subst; constructor; auto; apply IH; auto.
Qed.

(* ------------------------------------------------------------------ status helpers *)
Lemma st_and_ok a b : st_and a b = SOk <-> a = SOk /\ b = SOk.
Proof. destruct a, b; simpl; split; try intros [? ?]; try discriminate; auto. Qed.

Lemma st_all_ok {A} (f : A -> st) l : st_all (map f l) = SOk <-> Forall (fun x => f x = SOk) l.
Proof.
  induction l as [|x l IH]; simpl.
  - split; auto.
  - unfold st_all in *. simpl. rewrite st_and_ok, IH. split.
    + intros [? ?]. constructor; auto.
    + intros H. inversion H; subst; auto.
Qed.

Lemma guard_ok b : guard b = SOk <-> b = true.
Proof. destruct b; simpl; split; try discriminate; auto. Qed.

Lemma text_eqb_refl s : text_eqb s s = true.
Proof. induction s; simpl; auto. rewrite N.eqb_refl. auto. Qed.

Lemma text_eqb_eq a b : text_eqb a b = true -> a = b.
Proof.
  revert b. induction a as [|x a IH]; destruct b as [|y b]; simpl; try discriminate; auto.
  rewrite andb_true_iff. intros [H1 H2]. apply N.eqb_eq in H1. f_equal; auto.
Qed.
