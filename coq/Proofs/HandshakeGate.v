(* C08 — proofs about Model/HandshakeGate.v.  All statements are for every event list
   (any number of connections, any interleaving), both server types, every quirk setting
   unless said otherwise; the structural facts of the source enter through [cfg_ok]. *)
From Coq Require Import List NArith Arith Bool Lia.
Import ListNotations.
From V Require Import Model.HandshakeGate.

(* ------------------------------------------------------------------ small facts *)
Lemma list_eqbN_eq : forall a b, list_eqbN a b = true -> a = b.
Proof.
  induction a as [|x a IH]; destruct b as [|y b]; cbn; intros H; try discriminate; auto.
  apply andb_true_iff in H. destruct H as [H1 H2]. apply N.eqb_eq in H1. subst. f_equal. auto.
Qed.

Record cfg_facts (g : cfg) : Prop := {
  cf_first : c_first_types g = [c_connect g];
  cf_later : c_later_types g = [c_invoke g; c_ping g];
  cf_neq : c_invoke g <> c_ping g;
  cf_gate : forall sty, c_gate g sty = true;
  cf_ok : c_ok_only g = true }.

Lemma cfg_ok_facts : forall g, cfg_ok g = true -> cfg_facts g.
Proof.
  intros g H. unfold cfg_ok in H.
  apply andb_true_iff in H. destruct H as [H Hok].
  apply andb_true_iff in H. destruct H as [H Hmux].
  apply andb_true_iff in H. destruct H as [H Hthr].
  apply andb_true_iff in H. destruct H as [H Hneq].
  apply andb_true_iff in H. destruct H as [Hfirst Hlater].
  constructor.
  - apply list_eqbN_eq; assumption.
  - apply list_eqbN_eq; assumption.
  - apply negb_true_iff in Hneq. apply N.eqb_neq in Hneq. assumption.
  - intros []; assumption.
  - assumption.
Qed.

Lemma gated_true : forall g sty, cfg_facts g -> gated g sty = true.
Proof. intros g sty F. unfold gated. rewrite (cf_gate g F), (cf_ok g F). reflexivity. Qed.

Lemma memN_single : forall x y, memN x [y] = (x =? y)%N.
Proof. intros. unfold memN. cbn. apply orb_false_r. Qed.

(* ------------------------------------------------------------------ _handshake *)
(* accepted  <->  the input is a well-formed CONNECT for a registered object that the validator accepts *)
Lemma hs_result_accept : forall g m, cfg_facts g ->
  snd (hs_result g m) = is_accepted_connect g m.
Proof.
  intros g m F. unfold hs_result, is_accepted_connect.
  rewrite (cf_first g F), memN_single.
  destruct (m_wf m), (m_type m =? c_connect g)%N, (m_ser_known m), (m_hs m) as [| | |[]],
    (m_val m) as [[]|[]], (q_silent_unknown_ser g), (q_silent_validator_cce g); reflexivity.
Qed.

(* an accepted handshake answers CONNECTOK with the request's sequence number and serializer *)
Lemma hs_result_acc_reply : forall g m, snd (hs_result g m) = true ->
  fst (hs_result g m) = Some (RConnectOk, m_seq m, m_ser m).
Proof.
  intros g m. unfold hs_result.
  destruct (m_wf m), (negb (memN (m_type m) (c_first_types g))), (m_ser_known m), (m_hs m) as [| | |[]],
    (m_val m) as [[]|[]], (q_silent_unknown_ser g), (q_silent_validator_cce g); cbn;
    intros H; try discriminate H; reflexivity.
Qed.

(* a refused handshake answers nothing or exactly one CONNECTFAIL *)
Lemma hs_result_fail_shape : forall g m, snd (hs_result g m) = false ->
  fst (hs_result g m) = None \/ exists r s i, fst (hs_result g m) = Some (RConnectFail r, s, i).
Proof.
  intros g m. unfold hs_result.
  destruct (m_wf m), (negb (memN (m_type m) (c_first_types g))), (m_ser_known m), (m_hs m) as [| | |[]],
    (m_val m) as [[]|[]], (q_silent_unknown_ser g), (q_silent_validator_cce g); cbn;
    intros H; try discriminate H; eauto.
Qed.

(* with both quirks off a refused handshake is always answered *)
Lemma hs_result_fail_answered : forall g m,
  q_silent_unknown_ser g = false -> q_silent_validator_cce g = false ->
  snd (hs_result g m) = false ->
  exists r s i, fst (hs_result g m) = Some (RConnectFail r, s, i).
Proof.
  intros g m Q1 Q2. unfold hs_result. rewrite Q1, Q2.
  destruct (m_wf m), (negb (memN (m_type m) (c_first_types g))), (m_ser_known m), (m_hs m) as [| | |[]],
    (m_val m) as [[]|[]]; cbn; intros H; try discriminate H; eauto.
Qed.

(* ------------------------------------------------------------------ one step *)
Lemma step_first_no_exec : forall g sty c m c' tok, ~ In (Exec c' tok) (snd (step_first g sty c m)).
Proof.
  intros g sty c m c' tok. unfold step_first.
  destruct (hs_result g m) as [r acc].
  assert (R : ~ In (Exec c' tok) (reply_outs c r)).
  { unfold reply_outs. destruct r as [[[k s] i]|]; cbn; intros H; auto. destruct H as [H|H]; auto; discriminate. }
  destruct acc; cbn; auto. destruct (gated g sty); cbn; auto.
  intros H. apply in_app_or in H. destruct H as [H|[H|H]]; auto; discriminate.
Qed.

Lemma step_first_state : forall g sty c m, cfg_facts g ->
  fst (step_first g sty c m) = if is_accepted_connect g m then Accepted else Closed.
Proof.
  intros g sty c m F. unfold step_first.
  rewrite <- (hs_result_accept g m F).
  destruct (hs_result g m) as [r acc]. cbn.
  destruct acc; cbn; auto. rewrite (gated_true g sty F). reflexivity.
Qed.

Lemma step_first_outs_fail : forall g sty c m, cfg_facts g -> is_accepted_connect g m = false ->
  snd (step_first g sty c m) = reply_outs c (fst (hs_result g m)) ++ [SockClosed c].
Proof.
  intros g sty c m F A. unfold step_first.
  rewrite <- (hs_result_accept g m F) in A.
  destruct (hs_result g m) as [r acc]. cbn in *. subst acc.
  rewrite (gated_true g sty F). reflexivity.
Qed.

Lemma step_first_outs_acc : forall g sty c m, is_accepted_connect g m = true -> cfg_facts g ->
  snd (step_first g sty c m) = [Reply c RConnectOk (m_seq m) (m_ser m)].
Proof.
  intros g sty c m A F. unfold step_first.
  rewrite <- (hs_result_accept g m F) in A.
  pose proof (hs_result_acc_reply g m A) as R.
  destruct (hs_result g m) as [r acc]. cbn in *. subst acc r. reflexivity.
Qed.

(* an execution in the request loop is on behalf of the connection itself, and (given the
   accepted types of handleRequest) comes from an INVOKE message *)
Lemma step_later_exec : forall g c m c' tok,
  In (Exec c' tok) (snd (step_later g c m)) ->
  c' = c /\ (cfg_facts g -> m_type m = c_invoke g).
Proof.
  intros g c m c' tok. unfold step_later.
  assert (NR : forall k, ~ In (Exec c' tok) (if m_oneway m then [] else [Reply c k (m_seq m) (m_ser m)])).
  { intros k. destruct (m_oneway m); cbn; intros H; auto. destruct H as [H|H]; auto; discriminate. }
  assert (NC : ~ In (Exec c' tok) [SockClosed c]).
  { cbn. intros [H|H]; auto; discriminate. }
  assert (TY : cfg_facts g -> negb (memN (m_type m) (c_later_types g)) = false ->
               (m_type m =? c_ping g)%N = false -> m_type m = c_invoke g).
  { intros F H1 H2. rewrite (cf_later g F) in H1. unfold memN in H1. cbn in H1.
    rewrite H2 in H1. cbn in H1. apply negb_false_iff in H1. rewrite orb_false_r in H1.
    apply N.eqb_eq in H1. assumption. }
  destruct (m_wf m); cbn; try (intros H; exfalso; apply NC; exact H);
    destruct (negb (memN (m_type m) (c_later_types g))) eqn:E1; cbn; try (intros H; exfalso; apply NC; exact H);
    destruct (m_type m =? c_ping g)%N eqn:E2; cbn;
    try (intros [H|H]; [discriminate|contradiction]);
    destruct (m_ser_known m); cbn;
    try (destruct (m_oneway m); cbn; intros H; exfalso; [exact H | apply NC; exact H]);
    destruct (m_call m) as [d|known me tk]; cbn.
  - destruct d; cbn; intros H.
    + exfalso. eapply NR; exact H.
    + exfalso. apply in_app_or in H. destruct H as [H|H]; [eapply NR; exact H | apply NC; exact H].
    + exfalso. apply NC; exact H.
  - destruct known; cbn.
    + destruct me; cbn; intros H.
      * exfalso. eapply NR; exact H.
      * destruct H as [H|H]; [inversion H; subst; split; auto | exfalso; eapply NR; exact H].
      * destruct H as [H|H]; [inversion H; subst; split; auto | exfalso; eapply NR; exact H].
    + intros H. exfalso. eapply NR; exact H.
Qed.

Lemma step_fst_same : forall g sty st e,
  fst (step g sty st e) (e_conn e) =
  match st (e_conn e) with
  | Closed => Closed
  | NotHandshaken => fst (step_first g sty (e_conn e) (e_msg e))
  | Accepted => fst (step_later g (e_conn e) (e_msg e))
  end.
Proof.
  intros. unfold step. destruct (st (e_conn e)) eqn:E.
  - destruct (step_first g sty (e_conn e) (e_msg e)). cbn. unfold upd. rewrite Nat.eqb_refl. reflexivity.
  - destruct (step_later g (e_conn e) (e_msg e)). cbn. unfold upd. rewrite Nat.eqb_refl. reflexivity.
  - cbn. assumption.
Qed.

Lemma step_fst_other : forall g sty st e c, c <> e_conn e -> fst (step g sty st e) c = st c.
Proof.
  intros g sty st e c N. unfold step.
  assert (U : forall s, upd st (e_conn e) s c = st c).
  { intros s. unfold upd. destruct (Nat.eqb_spec c (e_conn e)); [contradiction|reflexivity]. }
  destruct (st (e_conn e)).
  - destruct (step_first g sty (e_conn e) (e_msg e)). cbn. apply U.
  - destruct (step_later g (e_conn e) (e_msg e)). cbn. apply U.
  - reflexivity.
Qed.

Lemma step_snd : forall g sty st e,
  snd (step g sty st e) =
  match st (e_conn e) with
  | Closed => []
  | NotHandshaken => snd (step_first g sty (e_conn e) (e_msg e))
  | Accepted => snd (step_later g (e_conn e) (e_msg e))
  end.
Proof.
  intros. unfold step. destruct (st (e_conn e)).
  - destruct (step_first g sty (e_conn e) (e_msg e)); reflexivity.
  - destruct (step_later g (e_conn e) (e_msg e)); reflexivity.
  - reflexivity.
Qed.

(* an Exec can only come out of a step taken in state Accepted, for that very connection *)
Lemma step_exec_accepted : forall g sty st e c tok,
  In (Exec c tok) (snd (step g sty st e)) ->
  c = e_conn e /\ st c = Accepted /\ (cfg_facts g -> m_type (e_msg e) = c_invoke g).
Proof.
  intros g sty st e c tok H. rewrite step_snd in H.
  destruct (st (e_conn e)) eqn:E.
  - exfalso. eapply step_first_no_exec; exact H.
  - apply step_later_exec in H. destruct H as [H1 H2]. subst c. auto.
  - contradiction.
Qed.

(* ------------------------------------------------------------------ histories *)
Lemma final_app : forall g sty evs1 evs2 st,
  final g sty st (evs1 ++ evs2) = final g sty (final g sty st evs1) evs2.
Proof. induction evs1 as [|e r IH]; cbn; intros; auto. Qed.

Lemma final_snoc : forall g sty pre e st,
  final g sty st (pre ++ [e]) = fst (step g sty (final g sty st pre) e).
Proof. intros. rewrite final_app. reflexivity. Qed.

(* a connection nobody has written to is still NotHandshaken *)
Lemma untouched_not_handshaken : forall g sty pre c,
  (forall x, In x pre -> e_conn x <> c) -> final g sty init pre c = NotHandshaken.
Proof.
  intros g sty pre. induction pre as [|e pre IH] using rev_ind; intros c H.
  - reflexivity.
  - rewrite final_snoc, step_fst_other.
    + apply IH. intros x Hx. apply H. apply in_or_app. auto.
    + intros E. apply (H e); [apply in_or_app; right; left; reflexivity | auto].
Qed.

(* and conversely: once written to, a connection is never NotHandshaken again *)
Lemma touched_not_fresh : forall g sty pre c,
  final g sty init pre c = NotHandshaken -> forall x, In x pre -> e_conn x <> c.
Proof.
  intros g sty pre. induction pre as [|e pre IH] using rev_ind; intros c H x Hx.
  - contradiction.
  - rewrite final_snoc in H.
    destruct (Nat.eq_dec c (e_conn e)) as [E|N].
    + exfalso. subst c. rewrite step_fst_same in H.
      destruct (final g sty init pre (e_conn e)); try discriminate.
      * unfold step_first in H. destruct (hs_result g (e_msg e)) as [r acc].
        destruct acc; cbn in H; try discriminate. destruct (gated g sty); discriminate.
      * unfold step_later in H.
        repeat (match type of H with context [match ?X with _ => _ end] => destruct X end; cbn in H; try discriminate).
    + rewrite step_fst_other in H by assumption.
      apply in_app_or in Hx. destruct Hx as [Hx|[Hx|[]]].
      * eapply IH; eassumption.
      * subst x. auto.
Qed.

(* THE INVARIANT: a connection is in state Accepted only if its first event was an accepted CONNECT *)
Lemma accepted_has_connect : forall g sty, cfg_facts g -> forall pre c,
  final g sty init pre c = Accepted ->
  exists p1 e0 p2, pre = p1 ++ e0 :: p2 /\ e_conn e0 = c /\
    (forall x, In x p1 -> e_conn x <> c) /\ is_accepted_connect g (e_msg e0) = true.
Proof.
  intros g sty F pre. induction pre as [|e pre IH] using rev_ind; intros c H.
  - discriminate.
  - rewrite final_snoc in H.
    destruct (Nat.eq_dec c (e_conn e)) as [E|N].
    + subst c. rewrite step_fst_same in H.
      destruct (final g sty init pre (e_conn e)) eqn:S.
      * (* first event of this connection *)
        rewrite (step_first_state g sty _ _ F) in H.
        destruct (is_accepted_connect g (e_msg e)) eqn:A; try discriminate.
        exists pre, e, []. repeat split; auto.
        eapply touched_not_fresh; eassumption.
      * destruct (IH _ S) as (p1 & e0 & p2 & -> & C & Fr & A).
        exists p1, e0, (p2 ++ [e]). repeat split; auto.
        rewrite <- app_assoc. reflexivity.
      * discriminate.
    + rewrite step_fst_other in H by assumption.
      destruct (IH _ H) as (p1 & e0 & p2 & -> & C & Fr & A).
      exists p1, e0, (p2 ++ [e]). repeat split; auto.
      rewrite <- app_assoc. reflexivity.
Qed.

(* Closed is absorbing, and a closed connection produces nothing *)
Lemma closed_stays : forall g sty mid st c, st c = Closed -> final g sty st mid c = Closed.
Proof.
  intros g sty mid. induction mid as [|e mid IH]; cbn; intros st c H; auto.
  apply IH. destruct (Nat.eq_dec c (e_conn e)) as [E|N].
  - subst c. rewrite step_fst_same, H. reflexivity.
  - rewrite step_fst_other; assumption.
Qed.

Lemma closed_silent : forall g sty st e, st (e_conn e) = Closed -> snd (step g sty st e) = [].
Proof. intros. rewrite step_snd, H. reflexivity. Qed.

(* ------------------------------------------------------------------ main theorems *)

(* event form: whatever is executed is executed for an INVOKE of a connection whose first
   event was an accepted CONNECT *)
Theorem exec_needs_accepted_connect : forall g sty, cfg_ok g = true ->
  forall pre e c tok, In (Exec c tok) (outs_of g sty pre e) ->
  e_conn e = c /\ m_type (e_msg e) = c_invoke g /\
  exists p1 e0 p2, pre = p1 ++ e0 :: p2 /\ e_conn e0 = c /\
    (forall x, In x p1 -> e_conn x <> c) /\
    is_accepted_connect g (e_msg e0) = true /\
    outs_of g sty p1 e0 = [Reply c RConnectOk (m_seq (e_msg e0)) (m_ser (e_msg e0))].
Proof.
  intros g sty OK pre e c tok H. apply cfg_ok_facts in OK.
  unfold outs_of in H. apply step_exec_accepted in H. destruct H as (E & S & T).
  split; [auto|]. split; [auto|].
  destruct (accepted_has_connect g sty OK pre c S) as (p1 & e0 & p2 & P & C & Fr & A).
  exists p1, e0, p2. repeat split; auto.
  unfold outs_of. rewrite step_snd.
  rewrite (untouched_not_handshaken g sty p1 (e_conn e0)) by (rewrite C; assumption).
  rewrite step_first_outs_acc by assumption. rewrite C. reflexivity.
Qed.

(* trace form, by an invariant relating the state to the trace emitted so far *)
Lemma exec_after_connectok_gen : forall g sty, cfg_facts g -> forall evs st acc c tok t1 t2,
  (forall c', st c' = Accepted -> exists s i, In (Reply c' RConnectOk s i) acc) ->
  concat (run g sty st evs) = t1 ++ Exec c tok :: t2 ->
  exists s i, In (Reply c RConnectOk s i) (acc ++ t1).
Proof.
  intros g sty F evs. induction evs as [|e evs IH]; intros st acc c tok t1 t2 I H.
  - cbn in H. destruct t1; discriminate.
  - cbn in H. apply app_eq_app in H. destruct H as [l [[H1 H2]|[H1 H2]]].
    + (* the Exec is in (or starts the rest after) this step's output *)
      destruct l as [|x l].
      * (* boundary: Exec is the head of the rest *)
        rewrite app_nil_r in H1. cbn in H2.
        destruct (IH (fst (step g sty st e)) (acc ++ snd (step g sty st e)) c tok [] t2) as (s & i & R).
        -- intros c' A. destruct (Nat.eq_dec c' (e_conn e)) as [E|N].
           ++ subst c'. rewrite step_fst_same in A. rewrite step_snd.
              destruct (st (e_conn e)) eqn:S.
              ** rewrite (step_first_state g sty _ _ F) in A.
                 destruct (is_accepted_connect g (e_msg e)) eqn:AC; try discriminate.
                 rewrite step_first_outs_acc by assumption.
                 eexists; eexists. apply in_or_app. right. left. reflexivity.
              ** destruct (I _ S) as (s & i & R). exists s, i. apply in_or_app. auto.
              ** discriminate.
           ++ rewrite step_fst_other in A by assumption.
              destruct (I _ A) as (s & i & R). exists s, i. apply in_or_app. auto.
        -- symmetry. exact H2.
        -- exists s, i. rewrite app_nil_r in R. rewrite <- H1. exact R.
      * cbn in H2. inversion H2; subst x. clear H2.
        assert (In (Exec c tok) (snd (step g sty st e))).
        { rewrite H1. apply in_or_app. right. left. reflexivity. }
        apply step_exec_accepted in H. destruct H as (E & S & _).
        destruct (I _ S) as (s & i & R). exists s, i. apply in_or_app. auto.
    + (* the Exec is in the rest *)
      destruct (IH (fst (step g sty st e)) (acc ++ snd (step g sty st e)) c tok l t2) as (s & i & R).
      * intros c' A. destruct (Nat.eq_dec c' (e_conn e)) as [E|N].
        -- subst c'. rewrite step_fst_same in A. rewrite step_snd.
           destruct (st (e_conn e)) eqn:S.
           ++ rewrite (step_first_state g sty _ _ F) in A.
              destruct (is_accepted_connect g (e_msg e)) eqn:AC; try discriminate.
              rewrite step_first_outs_acc by assumption.
              eexists; eexists. apply in_or_app. right. left. reflexivity.
           ++ destruct (I _ S) as (s & i & R). exists s, i. apply in_or_app. auto.
           ++ discriminate.
        -- rewrite step_fst_other in A by assumption.
           destruct (I _ A) as (s & i & R). exists s, i. apply in_or_app. auto.
      * exact H2.
      * exists s, i. rewrite H1. rewrite app_assoc. exact R.
Qed.

Theorem no_exec_before_handshake : forall g sty, cfg_ok g = true ->
  forall evs t1 c tok t2, trace g sty evs = t1 ++ Exec c tok :: t2 ->
  exists s i, In (Reply c RConnectOk s i) t1.
Proof.
  intros g sty OK evs t1 c tok t2 H. apply cfg_ok_facts in OK.
  apply (exec_after_connectok_gen g sty OK evs init [] c tok t1 t2); auto.
  intros c' A. discriminate.
Qed.

(* CONNECTOK is only ever sent in answer to an accepted CONNECT that is the connection's first event *)
Theorem connectok_only_for_accepted_connect : forall g sty, cfg_ok g = true ->
  forall pre e c s i, In (Reply c RConnectOk s i) (outs_of g sty pre e) ->
  e_conn e = c /\ (forall x, In x pre -> e_conn x <> c) /\ is_accepted_connect g (e_msg e) = true.
Proof.
  intros g sty OK pre e c s i H. apply cfg_ok_facts in OK.
  unfold outs_of in H. rewrite step_snd in H.
  destruct (final g sty init pre (e_conn e)) eqn:S.
  - destruct (is_accepted_connect g (e_msg e)) eqn:A.
    + rewrite step_first_outs_acc in H by assumption.
      destruct H as [H|[]]. inversion H; subst. repeat split; auto.
      eapply touched_not_fresh; eassumption.
    + exfalso. rewrite step_first_outs_fail in H by assumption.
      pose proof (hs_result_accept g (e_msg e) OK) as AR. rewrite A in AR.
      apply in_app_or in H. destruct H as [H|[H|[]]]; try discriminate.
      destruct (hs_result_fail_shape g (e_msg e) AR) as [N|(r & s' & i' & N)]; rewrite N in H; cbn in H.
      * contradiction.
      * destruct H as [H|[]]. discriminate.
  - exfalso. unfold step_later in H.
    repeat (match type of H with context [match ?X with _ => _ end] => destruct X end; cbn in H;
            try contradiction);
      repeat (match type of H with
              | _ \/ _ => destruct H as [H|H]
              | In _ (_ ++ _) => apply in_app_or in H
              | In _ (_ :: _) => cbn in H
              | In _ [] => contradiction
              | False => contradiction
              | _ = _ => discriminate
              end).
  - contradiction.
Qed.

(* a failing first event: at most one reply, a CONNECTFAIL, then the socket is closed;
   and nothing the connection sends afterwards produces anything *)
Theorem failed_handshake_closes : forall g sty, cfg_ok g = true ->
  forall pre e c, e_conn e = c -> (forall x, In x pre -> e_conn x <> c) ->
  is_accepted_connect g (e_msg e) = false ->
  (exists rs, outs_of g sty pre e = rs ++ [SockClosed c] /\
              (rs = [] \/ exists r s i, rs = [Reply c (RConnectFail r) s i])) /\
  (forall mid e', e_conn e' = c -> outs_of g sty (pre ++ e :: mid) e' = []).
Proof.
  intros g sty OK pre e c C Fr A. apply cfg_ok_facts in OK. subst c. split.
  - unfold outs_of. rewrite step_snd, (untouched_not_handshaken g sty pre _ Fr).
    rewrite step_first_outs_fail by assumption.
    eexists. split; [reflexivity|].
    pose proof (hs_result_accept g (e_msg e) OK) as AR. rewrite A in AR.
    destruct (hs_result_fail_shape g (e_msg e) AR) as [N|(r & s & i & N)]; rewrite N; cbn; eauto.
  - intros mid e' C'. unfold outs_of.
    apply closed_silent. rewrite C'.
    replace (pre ++ e :: mid) with ((pre ++ [e]) ++ mid) by (rewrite <- app_assoc; reflexivity).
    rewrite final_app. apply closed_stays.
    rewrite final_snoc, step_fst_same, (untouched_not_handshaken g sty pre _ Fr).
    rewrite (step_first_state g sty _ _ OK), A. reflexivity.
Qed.

(* the reason is carried, for the three causes the property names *)
Theorem failure_reason_carried : forall g sty, cfg_ok g = true ->
  forall pre e c, e_conn e = c -> (forall x, In x pre -> e_conn x <> c) ->
  let m := e_msg e in
  (* (a) the first message is well-framed but not a CONNECT *)
  (m_wf m <> WfBadHeader -> m_type m <> c_connect g ->
     outs_of g sty pre e = [Reply c (RConnectFail RsnOther) 0%N (c_marshal g); SockClosed c]) /\
  (* (b) the validator is reached and raises (and it is not the silent quirk) *)
  (forall o cc, m_wf m = WfOk -> m_type m = c_connect g -> m_ser_known m = true ->
     m_hs m = HsFull o -> m_val m = VRaise cc -> cc && q_silent_validator_cce g = false ->
     outs_of g sty pre e = [Reply c (RConnectFail RsnValidator) (m_seq m) (m_ser m); SockClosed c]) /\
  (* (c) the validator accepts but the requested object is not registered *)
  (forall s, m_wf m = WfOk -> m_type m = c_connect g -> m_ser_known m = true ->
     m_hs m = HsFull ObjUnknown -> m_val m = VAccept s ->
     outs_of g sty pre e = [Reply c (RConnectFail RsnUnknownObject) (m_seq m) (m_ser m); SockClosed c]).
Proof.
  intros g sty OK pre e c C Fr m. apply cfg_ok_facts in OK. subst c m.
  assert (O : outs_of g sty pre e = snd (step_first g sty (e_conn e) (e_msg e))).
  { unfold outs_of. rewrite step_snd, (untouched_not_handshaken g sty pre _ Fr). reflexivity. }
  rewrite O. unfold step_first, hs_result.
  rewrite (gated_true g sty OK), (cf_first g OK), memN_single.
  split; [|split].
  - intros W T. apply N.eqb_neq in T. rewrite T.
    destruct (m_wf (e_msg e)); try contradiction; reflexivity.
  - intros o cc W T K H V Q. rewrite W, T, N.eqb_refl, K, H, V. cbn. rewrite Q. reflexivity.
  - intros s W T K H V. rewrite W, T, N.eqb_refl, K, H, V. reflexivity.
Qed.

(* with both quirks off (the repaired code) every failing first event is answered *)
Theorem failed_handshake_always_answered : forall g sty, cfg_ok g = true ->
  q_silent_unknown_ser g = false -> q_silent_validator_cce g = false ->
  forall pre e c, e_conn e = c -> (forall x, In x pre -> e_conn x <> c) ->
  is_accepted_connect g (e_msg e) = false ->
  exists r s i, outs_of g sty pre e = [Reply c (RConnectFail r) s i; SockClosed c].
Proof.
  intros g sty OK Q1 Q2 pre e c C Fr A. apply cfg_ok_facts in OK. subst c.
  unfold outs_of. rewrite step_snd, (untouched_not_handshaken g sty pre _ Fr).
  rewrite step_first_outs_fail by assumption.
  pose proof (hs_result_accept g (e_msg e) OK) as AR. rewrite A in AR.
  destruct (hs_result_fail_answered g (e_msg e) Q1 Q2 AR) as (r & s & i & N).
  rewrite N. cbn. eauto.
Qed.
