(* C08 — proofs about Model/HandshakeGate.v, part 2: steps, histories, the invariant and the main theorems.
   All statements are for every event list (any number of connections, any interleaving, messages /
   peer-gone / silence events, denied connections), both server types, every quirk setting unless said
   otherwise; the structural facts of the source enter through [cfg_ok]. *)
From Coq Require Import List NArith Arith Bool Lia.
Import ListNotations.
From V Require Import Model.HandshakeGate Proofs.HandshakeGateHs.

(* ------------------------------------------------------------------ the first event *)
Definition dead (s : cstate) : bool := match s with Closed | Abandoned => true | _ => false end.

Lemma reply_outs_no_exec : forall c r c' t tok, ~ In (Exec c' t tok) (reply_outs c r).
Proof.
  intros c r c' t tok. unfold reply_outs. destruct r as [[[k s] i]|]; cbn; intros H; auto.
  destruct H as [H|H]; auto; discriminate.
Qed.

(* the three outcomes of a first event, characterised on the input *)
Lemma step_first_cases : forall g sty reg e, cfg_facts g ->
  (is_accepted_connect g sty reg e = true /\ validator_aborts g sty e = false /\
   exists m, e_in e = InMsg m /\
     step_first g sty reg e = (Accepted, [Reply (e_conn e) RConnectOk (m_seq m) (m_ser m)], false)) \/
  (is_accepted_connect g sty reg e = false /\ validator_aborts g sty e = true /\
   exists s o, step_first g sty reg e = (s, o, match sty with Multiplex => true | Thread => false end) /\
     dead s = true /\ (o = [] \/ o = [SockClosed (e_conn e)]) /\ (sty = Thread -> o = [])) \/
  (is_accepted_connect g sty reg e = false /\ validator_aborts g sty e = false /\
   exists rs, step_first g sty reg e = (Closed, rs ++ [SockClosed (e_conn e)], false) /\
     (rs = [] \/ exists k s i, rs = [Reply (e_conn e) (RConnectFail k) s i])).
Proof.
  intros g sty reg e F. unfold step_first, is_accepted_connect, validator_aborts.
  rewrite (gated_true g sty F).
  destruct (denied_applies sty e); cbn.
  - (* denied by the thread-pool server *)
    right; right. split; [reflexivity|]. split; [reflexivity|].
    destruct (e_in e) as [m| |].
    + destruct (hs_denied_shape g m) as (k & s & i & H). rewrite H. cbn.
      exists [Reply (e_conn e) (RConnectFail k) s i]. split; [reflexivity|]. right. eauto.
    + exists []. split; [reflexivity|]. left; reflexivity.
    + exists [Reply (e_conn e) (RConnectFail RsnOther) 0%N (c_marshal g)]. split; [reflexivity|]. right. eauto.
  - destruct (e_in e) as [m| |].
    + destruct (hs_result_cases g reg m F) as [[A H]|[[A [B [kb H]]]|[A [B (r & H & S)]]]]; rewrite H, A.
      * left. split; [reflexivity|]. split.
        -- destruct (q_abort_unanswered g); cbn; [|reflexivity].
           unfold is_accepted_msg in A. destruct (m_val m) as [[]|[]|kb]; try rewrite andb_false_r; try reflexivity.
           rewrite andb_false_r in A. discriminate.
        -- exists m. split; reflexivity.
      * right; left. split; [reflexivity|]. split.
        -- unfold abort_msg in B. rewrite <- andb_assoc in B. exact B.
        -- destruct sty; [|destruct kb]; eexists; eexists; (split; [reflexivity|]); (split; [reflexivity|]);
             (split; [auto|]); intros T; try reflexivity; discriminate T.
      * right; right. split; [reflexivity|]. split.
        -- unfold abort_msg in B. rewrite <- andb_assoc in B. exact B.
        -- exists (reply_outs (e_conn e) r). split; [reflexivity|].
           destruct S as [->|(k & s & i & ->)]; cbn; eauto.
    + right; right. rewrite andb_false_r. split; [reflexivity|]. split; [reflexivity|].
      exists []. split; [reflexivity|]. left; reflexivity.
    + right; right. rewrite andb_false_r. split; [reflexivity|]. split; [reflexivity|].
      exists [Reply (e_conn e) (RConnectFail RsnOther) 0%N (c_marshal g)]. split; [reflexivity|]. right. eauto.
Qed.

Lemma step_first_no_exec : forall g sty reg e, cfg_facts g -> forall c' t tok,
  ~ In (Exec c' t tok) (snd (fst (step_first g sty reg e))).
Proof.
  intros g sty reg e F c' t tok H.
  destruct (step_first_cases g sty reg e F) as [(_ & _ & m & _ & S)|[(_ & _ & s0 & o & S & _ & Ro & _)|(_ & _ & rs & S & R)]];
    rewrite S in H; cbn in H.
  - destruct H as [H|H]; [discriminate|contradiction].
  - destruct Ro as [->| ->]; cbn in H; [contradiction|]. destruct H as [H|[]]. discriminate.
  - apply in_app_or in H. destruct H as [H|[H|[]]]; try discriminate.
    destruct R as [->|(k & s & i & ->)]; cbn in H; [contradiction|].
    destruct H as [H|[]]. discriminate.
Qed.

(* ------------------------------------------------------------------ later events *)
(* an execution in the request loop is on behalf of the connection itself, and (given the
   accepted types of handleRequest) comes from an INVOKE message *)
Lemma step_later_msg_exec : forall g reg c m c' t tok,
  In (Exec c' t tok) (snd (step_later_msg g reg c m)) ->
  c' = c /\ (cfg_facts g -> m_type m = c_invoke g).
Proof.
  intros g reg c m c' t tok. unfold step_later_msg.
  assert (NR : forall k, ~ In (Exec c' t tok) (if m_oneway m then [] else [Reply c k (m_seq m) (m_ser m)])).
  { intros k. destruct (m_oneway m); cbn; intros H; auto. destruct H as [H|H]; auto; discriminate. }
  assert (NC : ~ In (Exec c' t tok) [SockClosed c]).
  { cbn. intros [H|H]; auto; discriminate. }
  assert (TY : cfg_facts g -> negb (memN (m_type m) (c_later_types g)) = false ->
               (m_type m =? c_ping g)%N = false -> m_type m = c_invoke g).
  { intros F H1 H2. rewrite (cf_later g F) in H1. unfold memN in H1. cbn in H1.
    rewrite H2 in H1. cbn in H1. apply negb_false_iff in H1. rewrite orb_false_r in H1.
    apply N.eqb_eq in H1. assumption. }
  destruct (m_wf m); cbn; try (intros H; exfalso; apply NC; exact H);
    destruct (negb (memN (m_type m) (c_later_types g))) eqn:E1; cbn; try (intros H; exfalso; apply NC; exact H);
    destruct (m_type m =? c_ping g)%N eqn:E2; cbn;
    try (intros [H|H]; [discriminate|contradiction]);
    destruct (m_ser_known m); cbn;
    try (destruct (m_oneway m); cbn; intros H; exfalso; [exact H | apply NC; exact H]);
    destruct (m_call m) as [d|o tg me tk]; cbn.
  - destruct d; cbn; intros H.
    + exfalso. eapply NR; exact H.
    + exfalso. apply in_app_or in H. destruct H as [H|H]; [eapply NR; exact H | apply NC; exact H].
    + exfalso. apply NC; exact H.
  - destruct (match o with Some n => reg n | None => false end); cbn.
    + destruct me; cbn; intros H.
      * exfalso. eapply NR; exact H.
      * destruct H as [H|H]; [inversion H; subst; split; auto | exfalso; eapply NR; exact H].
      * destruct H as [H|H]; [inversion H; subst; split; auto | exfalso; eapply NR; exact H].
    + intros H. exfalso. eapply NR; exact H.
Qed.

Lemma step_later_exec : forall g sty reg c i c' t tok,
  In (Exec c' t tok) (snd (step_later g sty reg c i)) ->
  c' = c /\ exists m, i = InMsg m /\ (cfg_facts g -> m_type m = c_invoke g).
Proof.
  intros g sty reg c i c' t tok H. destruct i as [m| |]; cbn in H.
  - apply step_later_msg_exec in H. destruct H as [H1 H2]. split; [auto|]. exists m. auto.
  - destruct H as [H|[]]. discriminate.
  - destruct sty; cbn in H; [destruct H as [H|[]]; discriminate | contradiction].
Qed.

Lemma step_later_no_connectok : forall g sty reg c i c' s j,
  ~ In (Reply c' RConnectOk s j) (snd (step_later g sty reg c i)).
Proof.
  intros g sty reg c i c' s j H. destruct i as [m| |]; cbn in H.
  - unfold step_later_msg in H.
    repeat (match type of H with context [match ?X with _ => _ end] => destruct X end; cbn in H;
            try contradiction);
      repeat (match type of H with
              | _ \/ _ => destruct H as [H|H]
              | In _ (_ ++ _) => apply in_app_or in H
              | In _ (_ :: _) => cbn in H
              | In _ [] => contradiction
              | False => contradiction
              | _ = _ => discriminate
              end).
  - destruct H as [H|[]]. discriminate.
  - destruct sty; cbn in H; [destruct H as [H|[]]; discriminate | contradiction].
Qed.

Lemma step_later_state : forall g sty reg c i, fst (step_later g sty reg c i) = Accepted \/ fst (step_later g sty reg c i) = Closed.
Proof.
  intros g sty reg c i. destruct i as [m| |]; cbn; auto.
  - unfold step_later_msg.
    repeat (match goal with |- context [match ?X with _ => _ end] => destruct X end; cbn; auto).
  - destruct sty; cbn; auto.
Qed.

(* ------------------------------------------------------------------ one step *)
Lemma step_dead : forall g sty reg st e, dead (st (e_conn e)) = true -> step_conn g sty reg st e = (st, []).
Proof. intros g sty reg st e H. unfold step_conn. destruct (st (e_conn e)); try discriminate; reflexivity. Qed.

Lemma step_fresh : forall g sty reg st e, st (e_conn e) = NotHandshaken ->
  step_conn g sty reg st e =
  (upd (if snd (step_first g sty reg e) then abandon_open st else st) (e_conn e) (fst (fst (step_first g sty reg e))),
   snd (fst (step_first g sty reg e))).
Proof.
  intros g sty reg st e H. unfold step_conn. rewrite H. destruct (step_first g sty reg e) as [[s o] k]. reflexivity.
Qed.

Lemma step_accepted : forall g sty reg st e, st (e_conn e) = Accepted ->
  step_conn g sty reg st e =
  (upd st (e_conn e) (fst (step_later g sty reg (e_conn e) (e_in e))), snd (step_later g sty reg (e_conn e) (e_in e))).
Proof.
  intros g sty reg st e H. unfold step_conn. rewrite H. destruct (step_later g sty reg (e_conn e) (e_in e)). reflexivity.
Qed.

Lemma upd_same : forall st c s, upd st c s c = s.
Proof. intros. unfold upd. rewrite Nat.eqb_refl. reflexivity. Qed.
Lemma upd_other : forall st c s c', c' <> c -> upd st c s c' = st c'.
Proof. intros. unfold upd. destruct (Nat.eqb_spec c' c); [contradiction|reflexivity]. Qed.

(* an Exec can only come out of a step taken in state Accepted, for that very connection *)
Lemma step_exec_accepted : forall g sty reg st e c t tok, cfg_facts g ->
  In (Exec c t tok) (snd (step_conn g sty reg st e)) ->
  c = e_conn e /\ st c = Accepted /\ exists m, e_in e = InMsg m /\ m_type m = c_invoke g.
Proof.
  intros g sty reg st e c t tok F H.
  destruct (st (e_conn e)) eqn:E.
  - rewrite step_fresh in H by assumption. cbn in H. exfalso. eapply step_first_no_exec; eassumption.
  - rewrite step_accepted in H by assumption. cbn in H.
    apply step_later_exec in H. destruct H as (H1 & m & H2 & H3). subst c.
    split; [reflexivity|]. split; [assumption|]. exists m. auto.
  - rewrite step_dead in H by (rewrite E; reflexivity). contradiction.
  - rewrite step_dead in H by (rewrite E; reflexivity). contradiction.
Qed.

(* how a connection can come to be in state Accepted after a step *)
Lemma step_accepted_inv : forall g sty reg st e c, cfg_facts g ->
  fst (step_conn g sty reg st e) c = Accepted ->
  st c = Accepted \/
  (c = e_conn e /\ st c = NotHandshaken /\ is_accepted_connect g sty reg e = true /\
   exists m, e_in e = InMsg m /\ snd (step_conn g sty reg st e) = [Reply c RConnectOk (m_seq m) (m_ser m)]).
Proof.
  intros g sty reg st e c F H.
  destruct (st (e_conn e)) eqn:E.
  - rewrite step_fresh in H |- * by assumption. cbn in H |- *.
    destruct (step_first_cases g sty reg e F) as [(A & _ & m & I & S)|[(_ & _ & s0 & o & S & D & _ & _)|(_ & _ & rs & S & _)]];
      rewrite S in H |- *; cbn in H |- *.
    + destruct (Nat.eq_dec c (e_conn e)) as [->|N].
      * right. split; [reflexivity|]. split; [assumption|]. split; [assumption|]. exists m. auto.
      * rewrite upd_other in H by assumption. auto.
    + destruct (Nat.eq_dec c (e_conn e)) as [->|N].
      * rewrite upd_same in H. rewrite H in D. discriminate.
      * rewrite upd_other in H by assumption. destruct sty; cbn in H; [auto|].
        unfold abandon_open in H. destruct (st c); discriminate.
    + destruct (Nat.eq_dec c (e_conn e)) as [->|N]; [rewrite upd_same in H; discriminate|].
      rewrite upd_other in H by assumption. auto.
  - rewrite step_accepted in H by assumption. cbn in H.
    destruct (Nat.eq_dec c (e_conn e)) as [->|N]; [auto|].
    rewrite upd_other in H by assumption. auto.
  - rewrite step_dead in H by (rewrite E; reflexivity). auto.
  - rewrite step_dead in H by (rewrite E; reflexivity). auto.
Qed.

(* a step never makes a connection NotHandshaken; a connection that is still NotHandshaken was not the one stepped *)
Lemma step_fresh_inv : forall g sty reg st e c, cfg_facts g ->
  fst (step_conn g sty reg st e) c = NotHandshaken -> st c = NotHandshaken /\ c <> e_conn e.
Proof.
  intros g sty reg st e c F H.
  destruct (st (e_conn e)) eqn:E.
  - rewrite step_fresh in H by assumption. cbn in H.
    destruct (step_first_cases g sty reg e F) as [(_ & _ & m & _ & S)|[(_ & _ & s0 & o & S & D & _ & _)|(_ & _ & rs & S & _)]];
      rewrite S in H; cbn in H;
      (destruct (Nat.eq_dec c (e_conn e)) as [->|N];
       [rewrite upd_same in H; try discriminate; rewrite H in D; discriminate|];
       rewrite upd_other in H by assumption;
       try (destruct sty; cbn in H; try (unfold abandon_open in H; destruct (st c); discriminate)); auto).
  - rewrite step_accepted in H by assumption. cbn in H.
    destruct (Nat.eq_dec c (e_conn e)) as [->|N].
    + rewrite upd_same in H. destruct (step_later_state g sty reg (e_conn e) (e_in e)) as [X|X]; rewrite X in H; discriminate.
    + rewrite upd_other in H by assumption. auto.
  - rewrite step_dead in H by (rewrite E; reflexivity). cbn in H. split; [assumption|].
    intros ->. rewrite E in H. discriminate.
  - rewrite step_dead in H by (rewrite E; reflexivity). cbn in H. split; [assumption|].
    intros ->. rewrite E in H. discriminate.
Qed.

(* a step on another connection leaves c alone, unless it ends the daemon's request loop *)
Lemma step_other : forall g sty reg st e c, cfg_facts g -> c <> e_conn e ->
  fst (step_conn g sty reg st e) c = st c \/
  (fst (step_conn g sty reg st e) c = Abandoned /\ sty = Multiplex /\ st (e_conn e) = NotHandshaken /\
   validator_aborts g sty e = true).
Proof.
  intros g sty reg st e c F N.
  destruct (st (e_conn e)) eqn:E.
  - rewrite step_fresh by assumption. cbn.
    destruct (step_first_cases g sty reg e F) as [(_ & _ & m & _ & S)|[(_ & V & s0 & o & S & _)|(_ & _ & rs & S & _)]];
      rewrite S; cbn; rewrite upd_other by assumption.
    + left. reflexivity.
    + destruct sty; cbn.
      * left. reflexivity.
      * unfold abandon_open. destruct (st c) eqn:SC; auto.
    + left. reflexivity.
  - rewrite step_accepted by assumption. cbn. left. apply upd_other; assumption.
  - rewrite step_dead by (rewrite E; reflexivity). auto.
  - rewrite step_dead by (rewrite E; reflexivity). auto.
Qed.

(* ------------------------------------------------------------------ the whole daemon: one step *)
Lemma step_app : forall g sty s a,
  step g sty s (EvApp a) = ({| s_conns := s_conns s; s_reg := app_reg (s_reg s) a |}, []).
Proof. reflexivity. Qed.

Lemma step_conn_ev : forall g sty s ce,
  s_conns (fst (step g sty s (EvConn ce))) = fst (step_conn g sty (s_reg s) (s_conns s) ce) /\
  s_reg (fst (step g sty s (EvConn ce))) = s_reg s /\
  snd (step g sty s (EvConn ce)) = snd (step_conn g sty (s_reg s) (s_conns s) ce).
Proof. intros. cbn. auto. Qed.

(* how a connection can come to be in state Accepted after a step of the daemon *)
Lemma state_accepted_inv : forall g sty s e c, cfg_facts g ->
  s_conns (fst (step g sty s e)) c = Accepted ->
  s_conns s c = Accepted \/
  (exists ce, e = EvConn ce /\ c = e_conn ce /\ s_conns s c = NotHandshaken /\
     is_accepted_connect g sty (s_reg s) ce = true /\
     exists m, e_in ce = InMsg m /\ snd (step g sty s e) = [Reply c RConnectOk (m_seq m) (m_ser m)]).
Proof.
  intros g sty s e c F H. destruct e as [ce|a].
  - cbn in H. apply step_accepted_inv in H; [|assumption].
    destruct H as [H|(E & S & A & m & I & O)]; [auto|].
    right. exists ce. cbn. repeat split; auto. exists m. auto.
  - cbn in H. auto.
Qed.

Lemma state_exec : forall g sty s e c t tok, cfg_facts g ->
  In (Exec c t tok) (snd (step g sty s e)) ->
  s_conns s c = Accepted /\ exists ce, e = EvConn ce /\ e_conn ce = c /\
    exists m, e_in ce = InMsg m /\ m_type m = c_invoke g.
Proof.
  intros g sty s e c t tok F H. destruct e as [ce|a]; [|contradiction].
  cbn in H. apply step_exec_accepted in H; [|assumption]. destruct H as (E & S & M).
  split; [assumption|]. exists ce. auto.
Qed.

(* ------------------------------------------------------------------ histories *)
Lemma final_app : forall g sty evs1 evs2 st,
  final g sty st (evs1 ++ evs2) = final g sty (final g sty st evs1) evs2.
Proof. induction evs1 as [|e r IH]; cbn; intros; auto. Qed.

Lemma final_snoc : forall g sty pre e st,
  final g sty st (pre ++ [e]) = fst (step g sty (final g sty st pre) e).
Proof. intros. rewrite final_app. reflexivity. Qed.

(* connection events never touch the registry: it is what the application's own calls made it *)
Lemma reg_final : forall g sty evs s, s_reg (final g sty s evs) = reg_of_history (s_reg s) evs.
Proof.
  intros g sty evs. induction evs as [|e r IH]; intros s; cbn; [reflexivity|].
  rewrite IH. destruct e; reflexivity.
Qed.

Theorem reg_after_spec : forall g sty pre, reg_after g sty pre = reg_of_history reg_init pre.
Proof. intros. unfold reg_after. rewrite reg_final. reflexivity. Qed.

Lemma reg_of_history_app : forall a b r, reg_of_history r (a ++ b) = reg_of_history (reg_of_history r a) b.
Proof. induction a as [|e a IH]; intros; cbn; [reflexivity|]. destruct e; apply IH. Qed.

Definition removes (a : appev) (n : N) : bool :=
  match a with
  | Register _ => false
  | UnregisterById i | UnregisterByObject i | GcWeak i => (i =? n)%N
  end.

(* an id that is registered after a history is the daemon's own, or was registered by the application and not
   removed since (by id, by object, or by the collection of a weak registration) *)
Theorem registered_means_registered : forall pre n,
  reg_of_history reg_init pre n = true ->
  n = daemon_oid \/
  exists p1 p2, pre = p1 ++ EvApp (Register n) :: p2 /\ forall a, In (EvApp a) p2 -> removes a n = false.
Proof.
  induction pre as [|e pre IH] using rev_ind; intros n H.
  - cbn in H. unfold reg_init in H. apply N.eqb_eq in H. auto.
  - rewrite reg_of_history_app in H. cbn in H.
    assert (EXT : forall a0, removes a0 n = false -> reg_of_history reg_init pre n = true ->
                  n = daemon_oid \/ exists p1 p2, pre ++ [EvApp a0] = p1 ++ EvApp (Register n) :: p2 /\
                    forall a, In (EvApp a) p2 -> removes a n = false).
    { intros a0 R P. destruct (IH n P) as [D|(p1 & p2 & -> & K)]; [auto|]. right.
      exists p1, (p2 ++ [EvApp a0]). split; [rewrite <- app_assoc; reflexivity|].
      intros a Ha. apply in_app_or in Ha. destruct Ha as [Ha|[Ha|[]]]; [auto|]. inversion Ha; subst. assumption. }
    destruct e as [ce|a].
    + destruct (IH n H) as [D|(p1 & p2 & -> & K)]; [auto|]. right.
      exists p1, (p2 ++ [EvConn ce]). split; [rewrite <- app_assoc; reflexivity|].
      intros a Ha. apply in_app_or in Ha. destruct Ha as [Ha|[Ha|[]]]; [auto|discriminate].
    + assert (REM : forall i, a = UnregisterById i \/ a = UnregisterByObject i \/ a = GcWeak i ->
                    reg_remove (reg_of_history reg_init pre) i n = true ->
                    n = daemon_oid \/ exists p1 p2, pre ++ [EvApp a] = p1 ++ EvApp (Register n) :: p2 /\
                      forall a', In (EvApp a') p2 -> removes a' n = false).
      { intros i Ai R. unfold reg_remove in R.
        destruct (N.eqb_spec i daemon_oid) as [Ed|Nd].
        - destruct (N.eqb_spec i n) as [En|Nn]; [left; congruence|].
          apply EXT; [|assumption]. destruct Ai as [->|[->| ->]]; cbn; apply N.eqb_neq; assumption.
        - unfold reg_set in R. destruct (N.eqb_spec n i) as [En|Nn]; [discriminate|].
          apply EXT; [|assumption].
          destruct Ai as [->|[->| ->]]; cbn; apply N.eqb_neq; intros X; apply Nn; auto. }
      destruct a as [i|i|i|i]; cbn in H.
      * unfold reg_set in H. destruct (N.eqb_spec n i) as [En|Nn].
        -- subst i. right. exists pre, []. split; [reflexivity|]. intros a [].
        -- apply EXT; [reflexivity|assumption].
      * apply (REM i); auto.
      * apply (REM i); auto.
      * apply (REM i); auto.
Qed.

(* a fresh connection has not been written to *)
Lemma fresh_untouched : forall g sty, cfg_facts g -> forall pre c,
  fresh g sty pre c -> forall x, In x pre -> ev_conn x <> Some c.
Proof.
  intros g sty F pre. unfold fresh. induction pre as [|e pre IH] using rev_ind; intros c H x Hx.
  - contradiction.
  - rewrite final_snoc in H. apply in_app_or in Hx. destruct e as [ce|a].
    + cbn in H. apply step_fresh_inv in H; [|assumption]. destruct H as [H N].
      destruct Hx as [Hx|[Hx|[]]].
      * eapply IH; eassumption.
      * subst x. cbn. intros E. inversion E. auto.
    + cbn in H. destruct Hx as [Hx|[Hx|[]]].
      * eapply IH; eassumption.
      * subst x. cbn. discriminate.
Qed.

(* a connection nobody has written to is fresh, unless the daemon's request loop was ended
   (multiplex server, a validator raising a BaseException-only class) *)
Lemma untouched_cases : forall g sty, cfg_facts g -> forall pre c,
  (forall x, In x pre -> ev_conn x <> Some c) ->
  fresh g sty pre c \/
  (s_conns (final g sty init_state pre) c = Abandoned /\ sty = Multiplex /\
   exists ce, In (EvConn ce) pre /\ validator_aborts g sty ce = true).
Proof.
  intros g sty F pre. unfold fresh. induction pre as [|e pre IH] using rev_ind; intros c H.
  - left. reflexivity.
  - rewrite final_snoc.
    assert (H' : forall x, In x pre -> ev_conn x <> Some c). { intros x Hx. apply H. apply in_or_app. auto. }
    assert (LIFT : s_conns (final g sty init_state pre) c = NotHandshaken \/
                   (s_conns (final g sty init_state pre) c = Abandoned /\ sty = Multiplex /\
                    exists ce, In (EvConn ce) (pre ++ [e]) /\ validator_aborts g sty ce = true)).
    { destruct (IH c H') as [I|(I & M & x & Hx & V)]; [left; assumption|].
      right. split; [assumption|]. split; [assumption|]. exists x. split; [apply in_or_app; auto|assumption]. }
    destruct e as [ce|a].
    + assert (N : c <> e_conn ce).
      { intros E. apply (H (EvConn ce)); [apply in_or_app; right; left; reflexivity | cbn; congruence]. }
      cbn.
      destruct (step_other g sty (s_reg (final g sty init_state pre)) (s_conns (final g sty init_state pre)) ce c F N)
        as [S|(S & M & _ & V)].
      * rewrite S. exact LIFT.
      * right. split; [assumption|]. split; [assumption|]. exists ce.
        split; [apply in_or_app; right; left; reflexivity|assumption].
    + cbn. exact LIFT.
Qed.

Lemma fresh_if_untouched : forall g sty, cfg_facts g -> forall pre c,
  (forall x, In x pre -> ev_conn x <> Some c) ->
  (forall ce, In (EvConn ce) pre -> sty = Multiplex -> validator_aborts g sty ce = false) ->
  fresh g sty pre c.
Proof.
  intros g sty F pre c H K. destruct (untouched_cases g sty F pre c H) as [I|(_ & M & x & Hx & V)]; [assumption|].
  rewrite (K x Hx M) in V. discriminate.
Qed.

(* THE INVARIANT: a connection is in state Accepted only if its first event was a CONNECT that was accepted
   against the registry of that moment *)
Lemma accepted_has_connect : forall g sty, cfg_facts g -> forall pre c,
  s_conns (final g sty init_state pre) c = Accepted ->
  exists p1 ce0 p2, pre = p1 ++ EvConn ce0 :: p2 /\ e_conn ce0 = c /\ fresh g sty p1 c /\
    is_accepted_connect g sty (reg_after g sty p1) ce0 = true /\
    exists m0, e_in ce0 = InMsg m0 /\ outs_of g sty p1 (EvConn ce0) = [Reply c RConnectOk (m_seq m0) (m_ser m0)].
Proof.
  intros g sty F pre. induction pre as [|e pre IH] using rev_ind; intros c H.
  - discriminate.
  - rewrite final_snoc in H. apply state_accepted_inv in H; [|assumption].
    destruct H as [H|(ce & -> & E & S & A & m & I & O)].
    + destruct (IH _ H) as (p1 & e0 & p2 & -> & C & Fr & A & M).
      exists p1, e0, (p2 ++ [e]). split; [rewrite <- app_assoc; reflexivity|]. auto.
    + exists pre, ce, []. split; [reflexivity|]. split; [auto|]. split; [exact S|]. split; [exact A|].
      exists m. split; [assumption|]. exact O.
Qed.

(* Closed and Abandoned are absorbing, and such a connection produces nothing *)
Lemma dead_stays : forall g sty, cfg_facts g -> forall mid s c,
  dead (s_conns s c) = true -> dead (s_conns (final g sty s mid) c) = true.
Proof.
  intros g sty F mid. induction mid as [|e mid IH]; cbn; intros s c H; auto.
  apply IH. destruct e as [ce|a]; cbn; [|assumption].
  destruct (Nat.eq_dec c (e_conn ce)) as [E|N].
  - subst c. rewrite step_dead by assumption. assumption.
  - destruct (step_other g sty (s_reg s) (s_conns s) ce c F N) as [S|(S & _)]; rewrite S; [assumption|reflexivity].
Qed.

Lemma dead_silent : forall g sty s ce, dead (s_conns s (e_conn ce)) = true -> snd (step g sty s (EvConn ce)) = [].
Proof. intros. cbn. rewrite step_dead by assumption. reflexivity. Qed.

Lemma dead_later_silent : forall g sty, cfg_facts g -> forall pre c,
  dead (s_conns (final g sty init_state pre) c) = true ->
  forall mid ce', e_conn ce' = c -> outs_of g sty (pre ++ mid) (EvConn ce') = [].
Proof.
  intros g sty F pre c D mid ce' C. unfold outs_of. apply dead_silent. rewrite C, final_app.
  apply dead_stays; assumption.
Qed.

(* ------------------------------------------------------------------ main theorems *)

(* event form: whatever is executed (on an application object or on the daemon's own object) is
   executed for an INVOKE of a connection whose first event was a CONNECT accepted against the registry
   of that moment *)
Theorem exec_needs_accepted_connect : forall g sty, cfg_ok g = true ->
  forall pre e c t tok, In (Exec c t tok) (outs_of g sty pre e) ->
  (exists ce, e = EvConn ce /\ e_conn ce = c /\ exists m, e_in ce = InMsg m /\ m_type m = c_invoke g) /\
  exists p1 ce0 p2, pre = p1 ++ EvConn ce0 :: p2 /\ e_conn ce0 = c /\ fresh g sty p1 c /\
    is_accepted_connect g sty (reg_after g sty p1) ce0 = true /\
    exists m0, e_in ce0 = InMsg m0 /\ outs_of g sty p1 (EvConn ce0) = [Reply c RConnectOk (m_seq m0) (m_ser m0)].
Proof.
  intros g sty OK pre e c t tok H. apply cfg_ok_facts in OK.
  unfold outs_of in H. apply state_exec in H; [|assumption]. destruct H as (S & T).
  split; [assumption|].
  exact (accepted_has_connect g sty OK pre c S).
Qed.

(* an accepted CONNECT names an object id that the application has registered and not removed at that moment *)
Theorem accepted_connect_object_registered : forall g sty pre ce,
  is_accepted_connect g sty (reg_after g sty pre) ce = true ->
  exists m n, e_in ce = InMsg m /\ m_hs m = HsFull (ObjId n) /\ reg_of_history reg_init pre n = true /\
    (n = daemon_oid \/
     exists p1 p2, pre = p1 ++ EvApp (Register n) :: p2 /\ forall a, In (EvApp a) p2 -> removes a n = false).
Proof.
  intros g sty pre ce H. unfold is_accepted_connect in H. rewrite reg_after_spec in H.
  apply andb_true_iff in H. destruct H as [_ H].
  destruct (e_in ce) as [m| |]; try discriminate.
  unfold is_accepted_msg in H.
  apply andb_true_iff in H. destruct H as [H _].
  apply andb_true_iff in H. destruct H as [_ H].
  destruct (m_hs m) as [| | |[n|]] eqn:HS; try discriminate. cbn in H.
  exists m, n. split; [reflexivity|]. split; [exact HS|]. split; [assumption|].
  apply registered_means_registered. assumption.
Qed.

(* trace form, by an invariant relating the state to the trace emitted so far *)
Lemma exec_after_connectok_gen : forall g sty, cfg_facts g -> forall evs st acc c t tok t1 t2,
  (forall c', s_conns st c' = Accepted -> exists s i, In (Reply c' RConnectOk s i) acc) ->
  concat (run g sty st evs) = t1 ++ Exec c t tok :: t2 ->
  exists s i, In (Reply c RConnectOk s i) (acc ++ t1).
Proof.
  intros g sty F evs. induction evs as [|e evs IH]; intros st acc c t tok t1 t2 I H.
  - cbn in H. destruct t1; discriminate.
  - cbn in H.
    assert (I' : forall c', s_conns (fst (step g sty st e)) c' = Accepted ->
                 exists s i, In (Reply c' RConnectOk s i) (acc ++ snd (step g sty st e))).
    { intros c' A. apply state_accepted_inv in A; [|assumption].
      destruct A as [A|(ce & _ & _ & _ & _ & m & _ & O)].
      - destruct (I _ A) as (s & i & R). exists s, i. apply in_or_app. auto.
      - rewrite O. eexists; eexists. apply in_or_app. right. left. reflexivity. }
    apply app_eq_app in H. destruct H as [l [[H1 H2]|[H1 H2]]].
    + destruct l as [|x l].
      * rewrite app_nil_r in H1. cbn in H2.
        destruct (IH (fst (step g sty st e)) (acc ++ snd (step g sty st e)) c t tok [] t2 I') as (s & i & R).
        -- symmetry. exact H2.
        -- exists s, i. rewrite app_nil_r in R. rewrite <- H1. exact R.
      * cbn in H2. inversion H2; subst x. clear H2.
        assert (X : In (Exec c t tok) (snd (step g sty st e))).
        { rewrite H1. apply in_or_app. right. left. reflexivity. }
        apply state_exec in X; [|assumption]. destruct X as (S & _).
        destruct (I _ S) as (s & i & R). exists s, i. apply in_or_app. auto.
    + destruct (IH (fst (step g sty st e)) (acc ++ snd (step g sty st e)) c t tok l t2 I' H2) as (s & i & R).
      exists s, i. rewrite H1. rewrite app_assoc. exact R.
Qed.

Theorem no_exec_before_handshake : forall g sty, cfg_ok g = true ->
  forall evs t1 c t tok t2, trace g sty evs = t1 ++ Exec c t tok :: t2 ->
  exists s i, In (Reply c RConnectOk s i) t1.
Proof.
  intros g sty OK evs t1 c t tok t2 H. apply cfg_ok_facts in OK.
  apply (exec_after_connectok_gen g sty OK evs init_state [] c t tok t1 t2); auto.
  intros c' A. discriminate.
Qed.

(* CONNECTOK is only ever sent in answer to a CONNECT that is the connection's first event and is accepted
   against the registry of that moment *)
Theorem connectok_only_for_accepted_connect : forall g sty, cfg_ok g = true ->
  forall pre e c s i, In (Reply c RConnectOk s i) (outs_of g sty pre e) ->
  exists ce, e = EvConn ce /\ e_conn ce = c /\ fresh g sty pre c /\
    is_accepted_connect g sty (reg_after g sty pre) ce = true.
Proof.
  intros g sty OK pre e c s i H. apply cfg_ok_facts in OK.
  unfold outs_of in H. destruct e as [ce|a]; [|contradiction]. exists ce. split; [reflexivity|].
  cbn in H. unfold fresh, reg_after.
  destruct (s_conns (final g sty init_state pre) (e_conn ce)) eqn:S.
  - rewrite step_fresh in H by assumption. cbn in H.
    destruct (step_first_cases g sty (s_reg (final g sty init_state pre)) ce OK)
      as [(A & _ & m & I & X)|[(_ & _ & s0 & o & X & _ & Ro & _)|(_ & _ & rs & X & R)]];
      rewrite X in H; cbn in H.
    + destruct H as [H|[]]. inversion H; subst. auto.
    + exfalso. destruct Ro as [->| ->]; cbn in H; [contradiction|]. destruct H as [H|[]]. discriminate.
    + exfalso. apply in_app_or in H. destruct H as [H|[H|[]]]; try discriminate.
      destruct R as [->|(k & s' & i' & ->)]; cbn in H; [contradiction|].
      destruct H as [H|[]]. discriminate.
  - exfalso. rewrite step_accepted in H by assumption. cbn in H.
    eapply step_later_no_connectok; exact H.
  - rewrite step_dead in H by (rewrite S; reflexivity). contradiction.
  - rewrite step_dead in H by (rewrite S; reflexivity). contradiction.
Qed.

(* what the first event of a fresh connection produces *)
Lemma first_outs : forall g sty pre ce, fresh g sty pre (e_conn ce) ->
  outs_of g sty pre (EvConn ce) = snd (fst (step_first g sty (reg_after g sty pre) ce)) /\
  s_conns (final g sty init_state (pre ++ [EvConn ce])) (e_conn ce) = fst (fst (step_first g sty (reg_after g sty pre) ce)).
Proof.
  intros g sty pre ce Fr. unfold outs_of, reg_after. rewrite final_snoc. cbn. rewrite step_fresh by exact Fr. cbn.
  split; [reflexivity|]. apply upd_same.
Qed.

Lemma snoc_mid : forall (pre : list event) e mid, pre ++ e :: mid = (pre ++ [e]) ++ mid.
Proof. intros. rewrite <- app_assoc. reflexivity. Qed.

(* A failing first event of a fresh connection.  Either the validator raised a BaseException-only class
   (open finding): no reply comes out, nothing is executed.  Or: at most one reply, a CONNECTFAIL, then the
   socket is closed.  In both cases nothing the connection sends afterwards produces anything. *)
Theorem failed_handshake_closes : forall g sty, cfg_ok g = true ->
  forall pre ce c, e_conn ce = c -> fresh g sty pre c ->
  is_accepted_connect g sty (reg_after g sty pre) ce = false ->
  ((validator_aborts g sty ce = true /\
    (outs_of g sty pre (EvConn ce) = [] \/ outs_of g sty pre (EvConn ce) = [SockClosed c])) \/
   (validator_aborts g sty ce = false /\
    exists rs, outs_of g sty pre (EvConn ce) = rs ++ [SockClosed c] /\
               (rs = [] \/ exists r s i, rs = [Reply c (RConnectFail r) s i]))) /\
  (forall mid ce', e_conn ce' = c -> outs_of g sty (pre ++ EvConn ce :: mid) (EvConn ce') = []).
Proof.
  intros g sty OK pre e c C Fr A. apply cfg_ok_facts in OK. subst c.
  destruct (first_outs g sty pre e Fr) as [O S].
  destruct (step_first_cases g sty (reg_after g sty pre) e OK)
    as [(A' & _)|[(_ & V & s0 & o & X & D & Ro & _)|(_ & V & rs & X & R)]].
  - rewrite A in A'. discriminate.
  - split.
    + left. split; [assumption|]. rewrite O, X. cbn. exact Ro.
    + intros mid e' C'. rewrite snoc_mid.
      apply (dead_later_silent g sty OK (pre ++ [EvConn e]) (e_conn e)); [|assumption].
      rewrite S, X. cbn. exact D.
  - split.
    + right. split; [assumption|]. exists rs. rewrite O, X. cbn. auto.
    + intros mid e' C'. rewrite snoc_mid.
      apply (dead_later_silent g sty OK (pre ++ [EvConn e]) (e_conn e)); [|assumption].
      rewrite S, X. reflexivity.
Qed.

(* the outcome of a validator that raises a BaseException-only class, stated on its own *)
Theorem validator_abort_outcome : forall g sty, cfg_ok g = true ->
  forall pre ce c, e_conn ce = c -> fresh g sty pre c -> validator_aborts g sty ce = true ->
  (outs_of g sty pre (EvConn ce) = [] \/ outs_of g sty pre (EvConn ce) = [SockClosed c]) /\
  (sty = Thread -> outs_of g sty pre (EvConn ce) = []) /\
  (forall mid ce', e_conn ce' = c -> outs_of g sty (pre ++ EvConn ce :: mid) (EvConn ce') = []) /\
  (sty = Multiplex -> forall mid e', outs_of g sty (pre ++ EvConn ce :: mid) e' = []).
Proof.
  intros g sty OK pre e c C Fr V. pose proof (cfg_ok_facts g OK) as F. subst c.
  destruct (first_outs g sty pre e Fr) as [O S].
  destruct (step_first_cases g sty (reg_after g sty pre) e F)
    as [(_ & V' & _)|[(A & _ & s0 & o & X & D & Ro & RT)|(_ & V' & _)]];
    try (rewrite V in V'; discriminate).
  destruct (failed_handshake_closes g sty OK pre e (e_conn e) eq_refl Fr A) as [_ L].
  split; [rewrite O, X; exact Ro|]. split; [|split; [exact L|]].
  - intros T. rewrite O, X. cbn. exact (RT T).
  - intros M mid e'. subst sty. destruct e' as [ce'|a]; [|reflexivity].
    rewrite snoc_mid.
    apply (dead_later_silent g Multiplex F (pre ++ [EvConn e]) (e_conn ce')); [|reflexivity].
    rewrite final_snoc. cbn. rewrite step_fresh by exact Fr. unfold reg_after in X. rewrite X. cbn.
    destruct (Nat.eq_dec (e_conn ce') (e_conn e)) as [E|N].
    + rewrite E, upd_same. exact D.
    + rewrite upd_other by assumption. unfold abandon_open.
      destruct (s_conns (final g Multiplex init_state pre) (e_conn ce')); reflexivity.
Qed.

(* a connection that was never written to but is not fresh: the multiplex daemon's loop was ended by such a
   validator earlier; nothing is served (hence nothing executed) for it *)
Theorem loop_killed_nothing_served : forall g sty, cfg_ok g = true ->
  forall pre c, (forall x, In x pre -> ev_conn x <> Some c) -> ~ fresh g sty pre c ->
  sty = Multiplex /\ (exists ce, In (EvConn ce) pre /\ validator_aborts g sty ce = true) /\
  forall mid ce', e_conn ce' = c -> outs_of g sty (pre ++ mid) (EvConn ce') = [].
Proof.
  intros g sty OK pre c U NF. apply cfg_ok_facts in OK.
  destruct (untouched_cases g sty OK pre c U) as [I|(I & M & X)]; [contradiction|].
  split; [assumption|]. split; [assumption|].
  apply dead_later_silent; [assumption|]. rewrite I. reflexivity.
Qed.

(* the reason is carried, for the causes the property names and for the transport-level refusals *)
Theorem failure_reason_carried : forall g sty, cfg_ok g = true ->
  forall pre ce c, e_conn ce = c -> fresh g sty pre c ->
  (* (a) the first message is well-framed but not a CONNECT *)
  (forall m, e_in ce = InMsg m -> m_wf m <> WfBadHeader -> m_type m <> c_connect g ->
     outs_of g sty pre (EvConn ce) = [Reply c (RConnectFail RsnOther) 0%N (c_marshal g); SockClosed c]) /\
  (* (b) the validator is reached and raises an Exception (and it is not the repaired silent quirk) *)
  (forall m o cc, e_in ce = InMsg m -> denied_applies sty ce = false ->
     m_wf m = WfOk -> m_type m = c_connect g -> m_ser_known m = true ->
     m_hs m = HsFull o -> m_val m = VRaise cc -> cc && q_silent_validator_cce g = false ->
     outs_of g sty pre (EvConn ce) = [Reply c (RConnectFail RsnValidator) (m_seq m) (m_ser m); SockClosed c]) /\
  (* (c) the validator accepts but the requested object id is not registered at this moment *)
  (forall m n s, e_in ce = InMsg m -> denied_applies sty ce = false ->
     m_wf m = WfOk -> m_type m = c_connect g -> m_ser_known m = true ->
     m_hs m = HsFull (ObjId n) -> reg_of_history reg_init pre n = false -> m_val m = VAccept s ->
     outs_of g sty pre (EvConn ce) = [Reply c (RConnectFail RsnUnknownObject) (m_seq m) (m_ser m); SockClosed c]) /\
  (* (d) the thread-pool server had no free worker: any well-formed CONNECT is refused with that reason *)
  (forall m, e_in ce = InMsg m -> denied_applies sty ce = true -> m_wf m = WfOk -> m_type m = c_connect g ->
     outs_of g sty pre (EvConn ce) = [Reply c (RConnectFail RsnDenied) (m_seq m) (c_marshal g); SockClosed c]) /\
  (* (e) the peer says nothing within COMMTIMEOUT *)
  (e_in ce = InSilence ->
     outs_of g sty pre (EvConn ce) = [Reply c (RConnectFail RsnOther) 0%N (c_marshal g); SockClosed c]).
Proof.
  intros g sty OK pre e c C Fr. apply cfg_ok_facts in OK. subst c.
  destruct (first_outs g sty pre e Fr) as [O _]. rewrite O.
  unfold step_first. rewrite (gated_true g sty OK).
  split; [|split; [|split; [|split]]].
  - intros m I W T. rewrite I. apply N.eqb_neq in T.
    destruct (denied_applies sty e); cbn.
    + unfold hs_denied. rewrite (cf_first g OK), memN_single, T.
      destruct (m_wf m); try contradiction; reflexivity.
    + unfold hs_result. rewrite (cf_first g OK), memN_single, T.
      destruct (m_wf m); try contradiction; reflexivity.
  - intros m o cc I D W T K H V Q. rewrite I, D. unfold hs_result.
    rewrite (cf_first g OK), memN_single, W, T, N.eqb_refl, K, H, V. cbn. rewrite Q. reflexivity.
  - intros m n s I D W T K H R V. rewrite I, D. unfold hs_result.
    rewrite (cf_first g OK), memN_single, W, T, N.eqb_refl, K, H, V. cbn.
    rewrite reg_after_spec, R. reflexivity.
  - intros m I D W T. rewrite I, D. unfold hs_denied.
    rewrite (cf_first g OK), memN_single, W, T, N.eqb_refl. reflexivity.
  - intros I. rewrite I. destruct (denied_applies sty e); reflexivity.
Qed.

(* with the two repaired quirks off, every failing first event of a fresh connection is answered — with the
   honest exceptions: a peer that has already gone away cannot be answered, and the BaseException finding *)
Theorem failed_handshake_always_answered : forall g sty, cfg_ok g = true ->
  q_silent_unknown_ser g = false -> q_silent_validator_cce g = false ->
  forall pre ce c, e_conn ce = c -> fresh g sty pre c ->
  is_accepted_connect g sty (reg_after g sty pre) ce = false -> peer_gone ce = false ->
  validator_aborts g sty ce = false ->
  exists r s i, outs_of g sty pre (EvConn ce) = [Reply c (RConnectFail r) s i; SockClosed c].
Proof.
  intros g sty OK Q1 Q2 pre e c C Fr A PG V. apply cfg_ok_facts in OK. subst c.
  destruct (first_outs g sty pre e Fr) as [O _]. rewrite O.
  unfold step_first. rewrite (gated_true g sty OK).
  unfold is_accepted_connect, validator_aborts, peer_gone in *.
  destruct (denied_applies sty e); cbn in *.
  - destruct (e_in e) as [m| |]; try discriminate.
    + destruct (hs_denied_shape g m) as (k & s & i & H). rewrite H. cbn.
      eexists; eexists; eexists; reflexivity.
    + eexists; eexists; eexists; reflexivity.
  - destruct (e_in e) as [m| |]; try discriminate.
    + assert (B : abort_msg g m = false).
      { unfold abort_msg. rewrite <- andb_assoc. exact V. }
      destruct (hs_result_refuse_answered g (reg_after g sty pre) m OK Q1 Q2 A B) as (k & s & i & H).
      rewrite H. cbn. eexists; eexists; eexists; reflexivity.
    + cbn. eexists; eexists; eexists; reflexivity.
Qed.

(* a peer that goes away before completing its first message: closed, nothing else *)
Theorem peer_gone_first : forall g sty, cfg_ok g = true ->
  forall pre ce c, e_conn ce = c -> fresh g sty pre c -> e_in ce = InPeerGone ->
  outs_of g sty pre (EvConn ce) = [SockClosed c].
Proof.
  intros g sty OK pre e c C Fr I. apply cfg_ok_facts in OK. subst c.
  destruct (first_outs g sty pre e Fr) as [O _]. rewrite O.
  unfold step_first. rewrite (gated_true g sty OK), I. destruct (denied_applies sty e); reflexivity.
Qed.

(* what the application does with its registry never produces output by itself *)
Theorem app_event_silent : forall g sty pre a, outs_of g sty pre (EvApp a) = [].
Proof. reflexivity. Qed.

(* ------------------------------------------------------------------ the proxy's side of the handshake *)
(* what the proxy makes of the daemon's answer does not depend on the serializer the proxy is configured with, nor
   on the one the daemon chose for the answer: it is a function of the answer alone *)
Theorem client_outcome_of_answer : forall g, cfg_ok g = true -> forall cs k s i,
  client_reads g cs (Some (k, s, i)) =
  match k with RConnectOk => CConnected | RConnectFail r => CRejected r | _ => CProtocol end.
Proof.
  intros g OK cs k s i. apply cfg_ok_facts in OK. unfold client_reads. rewrite (cf_client g OK).
  destruct k; try reflexivity; rewrite N.eqb_refl; reflexivity.
Qed.

(* end to end: a proxy whose CONNECT is refused (for whatever reason, answered through whatever serializer) raises the
   rejection carrying the very reason the daemon put into its CONNECTFAIL *)
Theorem proxy_learns_reason : forall g sty, cfg_ok g = true ->
  q_silent_unknown_ser g = false -> q_silent_validator_cce g = false ->
  forall pre ce c m, e_conn ce = c -> fresh g sty pre c -> e_in ce = InMsg m ->
  is_accepted_connect g sty (reg_after g sty pre) ce = false -> validator_aborts g sty ce = false ->
  exists r s i, outs_of g sty pre (EvConn ce) = [Reply c (RConnectFail r) s i; SockClosed c] /\
    client_reads g (m_ser m) (answer_of c (outs_of g sty pre (EvConn ce))) = CRejected r.
Proof.
  intros g sty OK Q1 Q2 pre ce c m C Fr I A V.
  assert (PG : peer_gone ce = false). { unfold peer_gone. rewrite I. reflexivity. }
  destruct (failed_handshake_always_answered g sty OK Q1 Q2 pre ce c C Fr A PG V) as (r & s & i & O).
  exists r, s, i. split; [exact O|]. rewrite O. cbn. rewrite Nat.eqb_refl.
  apply (client_outcome_of_answer g OK).
Qed.

(* ... and when it is accepted, the proxy is connected *)
Theorem proxy_connected_iff_accepted : forall g sty, cfg_ok g = true ->
  forall pre ce c m, e_conn ce = c -> fresh g sty pre c -> e_in ce = InMsg m ->
  is_accepted_connect g sty (reg_after g sty pre) ce = true ->
  client_reads g (m_ser m) (answer_of c (outs_of g sty pre (EvConn ce))) = CConnected.
Proof.
  intros g sty OK pre ce c m C Fr I A. pose proof (cfg_ok_facts g OK) as F. subst c.
  destruct (first_outs g sty pre ce Fr) as [O _]. rewrite O.
  destruct (step_first_cases g sty (reg_after g sty pre) ce F)
    as [(_ & _ & m0 & I0 & X)|[(A' & _)|(A' & _)]]; try (rewrite A in A'; discriminate).
  rewrite X. cbn. rewrite Nat.eqb_refl. apply (client_outcome_of_answer g OK).
Qed.
