(* C17 — proofs about the socket read/write model. *)
From Coq Require Import List NArith Arith Bool Lia.
Import ListNotations.
From V Require Import Model.Bytes Model.SockIO.

Section Proofs.
Variable retries : list N.
Variable cap : nat.

Notation acc_loop := (acc_loop retries cap).
Notation wa_loop := (wa_loop retries cap).
Notation receive_data := (receive_data retries cap).
Notation send_loop := (send_loop retries).
Notation send_data := (send_data retries).

(* What a read may do to the stream: it consumed a prefix [p] of what was
   there, and the result is classified against that prefix. *)
Definition recv_spec (size : nat) (orig : bytes) (o : rout) : Prop :=
  exists p, orig = p ++ r_stream o /\
  match r_res o with
  | ROk d => d = p /\ length d = size
  | RClosed (Some q) => q = p /\ length q < size
  | RClosed None | RTimeout | RScriptEnd => length p <= size
  end.

Lemma finish_spec size stream data script delays :
  length data <= size ->
  recv_spec size (data ++ stream) (finish size stream data script delays).
Proof.
  intros Hle. unfold finish, recv_spec.
  destruct (Nat.eqb_spec (length data) size) as [He|Hne]; cbn [r_res r_stream];
    exists data; (split; [reflexivity|]).
  - auto.
  - split; [reflexivity|lia].
Qed.

Lemma firstn_nonempty_lt {A} n (l : list A) a c :
  firstn n l = a :: c -> 0 < n.
Proof. destruct n; cbn; [discriminate|lia]. Qed.

Lemma acc_loop_spec size script :
  forall stream data delays,
    length data <= size ->
    recv_spec size (data ++ stream) (acc_loop size script stream data delays).
Proof.
  induction script as [|ev rest IH]; intros stream data delays Hle; cbn [SockIO.acc_loop].
  - destruct (Nat.leb_spec size (length data)) as [H|H].
    + apply finish_spec; assumption.
    + exists data. cbn. split; [reflexivity|lia].
  - destruct (Nat.leb_spec size (length data)) as [H|H].
    + apply finish_spec; assumption.
    + destruct ev as [k| |e|].
      * remember (Nat.min k (Nat.min cap (size - length data))) as n eqn:Hn.
        destruct (firstn n stream) as [|a c] eqn:Hc.
        -- apply finish_spec; assumption.
        -- assert (Hlen : length (a :: c) <= n) by (rewrite <- Hc; apply firstn_le_length).
           specialize (IH (skipn n stream) (data ++ a :: c) delays).
           rewrite <- app_assoc, <- Hc, firstn_skipn in IH.
           rewrite Hc in IH. apply IH. rewrite app_length. lia.
      * apply finish_spec; assumption.
      * destruct (retryable retries e).
        -- apply IH; assumption.
        -- exists data. cbn. split; [reflexivity|lia].
      * exists data. cbn. split; [reflexivity|lia].
Qed.

Lemma wa_loop_spec size script :
  forall stream delays, recv_spec size stream (wa_loop size script stream delays).
Proof.
  induction script as [|ev rest IH]; intros stream delays; cbn [SockIO.wa_loop].
  - exists []. cbn. split; [reflexivity|lia].
  - destruct ev as [k| |e|].
    + assert (Hlen : length (firstn (Nat.min k size) stream) <= size).
      { etransitivity; [apply firstn_le_length|lia]. }
      destruct (Nat.eqb_spec (length (firstn (Nat.min k size) stream)) size) as [He|Hne].
      * exists (firstn (Nat.min k size) stream). cbn.
        split; [symmetry; apply firstn_skipn|auto].
      * pose proof (acc_loop_spec size rest (skipn (Nat.min k size) stream)
                      (firstn (Nat.min k size) stream) delays Hlen) as H.
        rewrite firstn_skipn in H. exact H.
    + destruct (Nat.eqb_spec 0 size) as [He|Hne].
      * exists []. cbn. auto.
      * apply (acc_loop_spec size rest stream [] delays). cbn; lia.
    + destruct (retryable retries e).
      * apply IH.
      * exists []. cbn. split; [reflexivity|lia].
    + exists []. cbn. split; [reflexivity|lia].
Qed.

Lemma receive_data_spec waitall size script stream :
  recv_spec size stream (receive_data waitall size script stream).
Proof.
  unfold SockIO.receive_data. destruct waitall.
  - apply wa_loop_spec.
  - apply (acc_loop_spec size script stream [] 0). cbn; lia.
Qed.

Lemma app_prefix_firstn {A} (p s : list A) : firstn (length p) (p ++ s) = p.
Proof. rewrite firstn_app, Nat.sub_diag, firstn_O, firstn_all, app_nil_r. reflexivity. Qed.
Lemma app_prefix_skipn {A} (p s : list A) : skipn (length p) (p ++ s) = s.
Proof. rewrite skipn_app, Nat.sub_diag, skipn_all. reflexivity. Qed.

(* recv_exact: a successful read is exactly the next [size] bytes. *)
Lemma recv_exact waitall size script stream d :
  r_res (receive_data waitall size script stream) = ROk d ->
  d = firstn size stream /\
  r_stream (receive_data waitall size script stream) = skipn size stream /\
  length d = size.
Proof.
  intros Hres. destruct (receive_data_spec waitall size script stream) as [p [Hs Hc]].
  rewrite Hres in Hc. destruct Hc as [Hd Hl]. subst d.
  set (o := receive_data waitall size script stream) in *.
  rewrite <- Hl. rewrite Hs at 1 2.
  rewrite app_prefix_firstn, app_prefix_skipn. auto.
Qed.

(* recv_error_prefix: partialData is exactly what was consumed, and it is short. *)
Lemma recv_error_prefix waitall size script stream q :
  r_res (receive_data waitall size script stream) = RClosed (Some q) ->
  q = firstn (length q) stream /\
  r_stream (receive_data waitall size script stream) = skipn (length q) stream /\
  length q < size.
Proof.
  intros Hres. destruct (receive_data_spec waitall size script stream) as [p [Hs Hc]].
  rewrite Hres in Hc. destruct Hc as [Hd Hl]. subst q.
  set (o := receive_data waitall size script stream) in *.
  rewrite Hs at 1 2.
  rewrite app_prefix_firstn, app_prefix_skipn. auto.
Qed.

(* whatever happens, bytes are never lost, duplicated or reordered:
   the stream left behind is a suffix of the original one. *)
Lemma recv_stream_suffix waitall size script stream :
  exists p, stream = p ++ r_stream (receive_data waitall size script stream) /\ length p <= size.
Proof.
  destruct (receive_data_spec waitall size script stream) as [p [Hs Hc]].
  exists p. split; [exact Hs|].
  destruct (r_res _) as [d|[q|]| |]; try lia.
  - destruct Hc as [-> ?]; lia.
  - destruct Hc as [-> ?]; lia.
Qed.

(* ---- retry transparency ---- *)
Definition not_retry (ev : sock_ev) : bool :=
  match ev with Err e => negb (retryable retries e) | _ => true end.

Definition same_outcome (a b : rout) : Prop :=
  r_res a = r_res b /\ r_stream a = r_stream b.

Lemma acc_loop_retry size script :
  forall stream data d1 d2,
    same_outcome (acc_loop size script stream data d1)
                 (acc_loop size (filter not_retry script) stream data d2).
Proof.
  induction script as [|ev rest IH]; intros stream data d1 d2; cbn [filter SockIO.acc_loop].
  - destruct (size <=? length data); [|split; reflexivity].
    unfold finish. destruct (length data =? size); split; reflexivity.
  - destruct ev as [k| |e|]; cbn [not_retry].
    + cbn [SockIO.acc_loop]. destruct (size <=? length data).
      * unfold finish. destruct (length data =? size); split; reflexivity.
      * destruct (firstn _ stream).
        -- unfold finish. destruct (length data =? size); split; reflexivity.
        -- apply IH.
    + cbn [SockIO.acc_loop]. destruct (size <=? length data);
        unfold finish; destruct (length data =? size); split; reflexivity.
    + destruct (retryable retries e) eqn:Hr; cbn [negb].
      * destruct (size <=? length data) eqn:Hle.
        -- (* finished before consuming: filtered script also finishes *)
           destruct (filter not_retry rest) as [|ev' rest'] eqn:Hf; cbn [SockIO.acc_loop]; rewrite Hle;
             unfold finish; destruct (length data =? size); split; reflexivity.
        -- apply IH.
      * cbn [SockIO.acc_loop]. rewrite Hr. destruct (size <=? length data).
        -- unfold finish. destruct (length data =? size); split; reflexivity.
        -- split; reflexivity.
    + cbn [SockIO.acc_loop]. destruct (size <=? length data).
      * unfold finish. destruct (length data =? size); split; reflexivity.
      * split; reflexivity.
Qed.

Lemma wa_loop_retry size script :
  forall stream d1 d2,
    same_outcome (wa_loop size script stream d1)
                 (wa_loop size (filter not_retry script) stream d2).
Proof.
  induction script as [|ev rest IH]; intros stream d1 d2; cbn [filter SockIO.wa_loop].
  - split; reflexivity.
  - destruct ev as [k| |e|]; cbn [not_retry].
    + cbn [SockIO.wa_loop]. destruct (length _ =? size); [split; reflexivity|apply acc_loop_retry].
    + cbn [SockIO.wa_loop]. destruct (0 =? size); [split; reflexivity|apply acc_loop_retry].
    + destruct (retryable retries e) eqn:Hr; cbn [negb].
      * apply IH.
      * cbn [SockIO.wa_loop]. rewrite Hr. split; reflexivity.
    + cbn [SockIO.wa_loop]. split; reflexivity.
Qed.

Lemma recv_retry_transparent waitall size script stream :
  same_outcome (receive_data waitall size script stream)
               (receive_data waitall size (filter not_retry script) stream).
Proof.
  unfold SockIO.receive_data. destruct waitall; [apply wa_loop_retry|apply acc_loop_retry].
Qed.

(* ---- sending ---- *)
Definition send_spec (data peer : bytes) (o : sout) : Prop :=
  match s_res o with
  | SOk => s_peer o = peer ++ data
  | _ => exists k, s_peer o = peer ++ firstn k data
  end.

Lemma firstn_skipn_firstn {A} k j (l : list A) :
  firstn k l ++ firstn j (skipn k l) = firstn (Nat.min k (length l) + j) l.
Proof.
  revert k; induction l as [|x l IH]; intros k.
  - rewrite skipn_nil, !firstn_nil. reflexivity.
  - destruct k; cbn [firstn skipn app length Nat.min Nat.add]; [reflexivity|].
    rewrite IH. reflexivity.
Qed.

Lemma sendall_spec script : forall data peer, send_spec data peer (sendall data script peer).
Proof.
  induction script as [|ev rest IH]; intros data peer; destruct data as [|b data'];
    cbn [SockIO.sendall]; unfold send_spec; cbn [s_res s_peer].
  - rewrite app_nil_r; reflexivity.
  - exists 0. rewrite firstn_O, app_nil_r. reflexivity.
  - rewrite app_nil_r; reflexivity.
  - destruct ev as [k| |e|]; cbn [s_res s_peer].
    + specialize (IH (skipn k (b :: data')) (peer ++ firstn k (b :: data'))).
      unfold send_spec in IH.
      destruct (s_res _).
      * rewrite IH, <- app_assoc, firstn_skipn. reflexivity.
      * destruct IH as [j Hj]. rewrite Hj, <- app_assoc, firstn_skipn_firstn. eexists; reflexivity.
      * destruct IH as [j Hj]. rewrite Hj, <- app_assoc, firstn_skipn_firstn. eexists; reflexivity.
      * destruct IH as [j Hj]. rewrite Hj, <- app_assoc, firstn_skipn_firstn. eexists; reflexivity.
    + apply IH.
    + exists 0. rewrite firstn_O, app_nil_r. reflexivity.
    + exists 0. rewrite firstn_O, app_nil_r. reflexivity.
Qed.

Lemma send_loop_spec script :
  forall data peer delays, send_spec data peer (send_loop data script peer delays).
Proof.
  induction script as [|ev rest IH]; intros data peer delays; destruct data as [|b data'];
    cbn [SockIO.send_loop]; unfold send_spec; cbn [s_res s_peer].
  - rewrite app_nil_r; reflexivity.
  - exists 0. rewrite firstn_O, app_nil_r. reflexivity.
  - rewrite app_nil_r; reflexivity.
  - destruct ev as [k| |e|]; cbn [s_res s_peer].
    + specialize (IH (skipn k (b :: data')) (peer ++ firstn k (b :: data')) delays).
      unfold send_spec in IH.
      destruct (s_res _).
      * rewrite IH, <- app_assoc, firstn_skipn. reflexivity.
      * destruct IH as [j Hj]. rewrite Hj, <- app_assoc, firstn_skipn_firstn. eexists; reflexivity.
      * destruct IH as [j Hj]. rewrite Hj, <- app_assoc, firstn_skipn_firstn. eexists; reflexivity.
      * destruct IH as [j Hj]. rewrite Hj, <- app_assoc, firstn_skipn_firstn. eexists; reflexivity.
    + apply IH.
    + destruct (retryable retries e).
      * apply IH.
      * exists 0. cbn [s_res s_peer]. rewrite firstn_O, app_nil_r. reflexivity.
    + exists 0. rewrite firstn_O, app_nil_r. reflexivity.
Qed.

Lemma send_exact blocking data script peer :
  send_spec data peer (send_data blocking data script peer).
Proof.
  unfold SockIO.send_data. destruct blocking; [apply sendall_spec|apply send_loop_spec].
Qed.

(* retryable errors never change what is sent *)
Lemma send_loop_retry script :
  forall data peer d1 d2,
    s_res (send_loop data script peer d1) = s_res (send_loop data (filter not_retry script) peer d2) /\
    s_peer (send_loop data script peer d1) = s_peer (send_loop data (filter not_retry script) peer d2).
Proof.
  induction script as [|ev rest IH]; intros data peer d1 d2; cbn [filter].
  - destruct data; cbn; auto.
  - destruct ev as [k| |e|]; cbn [not_retry].
    + destruct data; cbn [SockIO.send_loop s_res s_peer]; auto.
    + destruct data; cbn [SockIO.send_loop s_res s_peer]; auto.
    + destruct (retryable retries e) eqn:Hr; cbn [negb].
      * destruct data as [|b data'].
        -- destruct (filter not_retry rest); cbn; auto.
        -- cbn [SockIO.send_loop]. rewrite Hr. apply IH.
      * destruct data; cbn [SockIO.send_loop s_res s_peer]; auto. rewrite Hr. cbn. auto.
    + destruct data; cbn [SockIO.send_loop s_res s_peer]; auto.
Qed.

End Proofs.
