(* C18 — invariants of the thread pool machine (Model/Pool.v) when process / notify_done /
   both phases of close run under count_lock; refutation for the unlocked variant. *)
From Coq Require Import List Arith Bool Lia.
Import ListNotations.
From V Require Import Model.Pool.

(* ---------------------------------------------------------------- lists *)
Lemma mem_nat_In x l : mem_nat x l = true <-> In x l.
Proof.
  unfold mem_nat. rewrite existsb_exists. split.
  - intros (y & Hy & E). apply Nat.eqb_eq in E. subst. exact Hy.
  - intros H. exists x. split; [exact H|apply Nat.eqb_refl].
Qed.
Lemma mem_nat_false x l : mem_nat x l = false <-> ~ In x l.
Proof. rewrite <- mem_nat_In. destruct (mem_nat x l); split; congruence. Qed.

Lemma remove_In y x l : In y (remove_nat x l) -> In y l.
Proof.
  induction l as [|a l IH]; cbn; [tauto|]. destruct (Nat.eqb_spec a x); cbn; intuition.
Qed.
Lemma remove_other y x l : y <> x -> In y l -> In y (remove_nat x l).
Proof.
  intros Hne. induction l as [|a l IH]; cbn; [tauto|]. destruct (Nat.eqb_spec a x); cbn; intros [E|H]; subst; intuition.
Qed.
Lemma remove_NoDup x l : NoDup l -> NoDup (remove_nat x l).
Proof.
  induction 1 as [|a l Hn Hd IH]; cbn; [constructor|]. destruct (Nat.eqb_spec a x); [exact Hd|].
  constructor; [|exact IH]. intros H. apply Hn. eapply remove_In; eauto.
Qed.
Lemma remove_notin x l : NoDup l -> ~ In x (remove_nat x l).
Proof.
  induction 1 as [|a l Hn Hd IH]; cbn; [tauto|]. destruct (Nat.eqb_spec a x); [subst; exact Hn|].
  cbn. intros [E|H]; [congruence|tauto].
Qed.
Lemma remove_length x l : In x l -> S (length (remove_nat x l)) = length l.
Proof.
  induction l as [|a l IH]; cbn; [tauto|]. destruct (Nat.eqb_spec a x); [reflexivity|].
  intros [E|H]; [congruence|]. cbn. rewrite IH; auto.
Qed.
Lemma pick_In ch l : l <> [] -> In (pick ch l) l.
Proof.
  intros H. unfold pick. apply nth_In. apply Nat.mod_upper_bound. destruct l; [congruence|cbn; lia].
Qed.
Lemma NoDup_snoc (x : nat) l : NoDup l -> ~ In x l -> NoDup (l ++ [x]).
Proof.
  induction 1 as [|a l Hn Hd IH]; cbn; intros Hx; [constructor; [tauto|constructor]|].
  constructor; [|apply IH; tauto]. rewrite in_app_iff. cbn. intros [H|[E|[]]]; [tauto|subst; tauto].
Qed.
Lemma In_snoc (y x : nat) l : In y (l ++ [x]) <-> In y l \/ y = x.
Proof. rewrite in_app_iff. cbn. intuition. Qed.

(* ---------------------------------------------------------------- vocabulary *)
(* program counters inside a count_lock region *)
Definition mcs (p : mpc) : bool :=
  match p with MAcq | MDeny | CClosedRd | CAcq1 | CAcq2 | MDone => false | _ => true end.
Definition wcs (p : wpc) : bool :=
  match p with WContains | WRemove | WClosedRd | WLenIdle | WIdleAdd | WRetSlot | WRetEv | WRel => true | _ => false end.
(* a worker that is parked or about to find out that it has nothing to do *)
Definition wpark (p : wpc) : bool := match p with WWait | WClear | WRead1 | WExit => true | _ => false end.
(* a worker that has taken a job and not yet left Pool.busy *)
Definition wjob (p : wpc) : bool :=
  match p with WRead2 | WJobEnd | WSlotClr | WAcq | WContains | WRemove => true | _ => false end.
(* after `self.job = None`, until the worker is back at wait() *)
Definition wpost (p : wpc) : bool :=
  match p with WAcq | WContains | WRemove | WClosedRd | WLenIdle | WIdleAdd | WRetEv | WRel => true | _ => false end.
Definition mclosed (p : mpc) : bool :=
  match p with CRel1 | CAcq2 | CSwapIdle | CSwapBusy | CRel2 => true | _ => false end.

Definition cnt (s : st) : nat := length (idle s) + length (busy s).
Definition PM (s : st) : Prop :=
  let w := ws s (m_w (mn s)) in w_slot w = None /\ wpark (w_pc w) = true /\ m_w (mn s) < nw s.

Definition MCS (c : cfg) (s : st) : Prop :=
  match m_pc (mn s) with
  | MBusyAdd => PM s /\ ~ In (m_w (mn s)) (idle s) /\ (In (m_w (mn s)) (busy s) \/ cnt s < size c)
  | MSlotWr => PM s /\ In (m_w (mn s)) (busy s)
  | MLenBusy => idle s = []
  | MLenIdle => idle s = [] /\ m_lenb (mn s) = length (busy s)
  | MSpawn => cnt s < size c
  | MRelRefuse => idle s = [] /\ length (busy s) = size c
  | MPop => idle s <> []
  | _ => True
  end.
Definition WCS (c : cfg) (s : st) (i : nat) : Prop :=
  match w_pc (ws s i) with
  | WClosedRd => ~ In i (busy s) /\ (closed s = false -> cnt s < size c)
  | WLenIdle | WIdleAdd => ~ In i (busy s) /\ cnt s < size c
  | _ => True
  end.

Record Inv (c : cfg) (s : st) : Prop := mk_Inv {
  i_m : mcs (m_pc (mn s)) = true -> lock s = Some 0 /\ MCS c s;
  i_w : forall i, i < nw s -> wcs (w_pc (ws s i)) = true -> lock s = Some (S i) /\ WCS c s i;
  i_ndi : NoDup (idle s);
  i_ndb : NoDup (busy s);
  i_dis : forall x, In x (idle s) -> In x (busy s) -> False;
  i_rng : forall x, In x (idle s) \/ In x (busy s) -> x < nw s;
  i_cnt : cnt s <= size c;
  i_idle : forall i, In i (idle s) -> w_slot (ws s i) = None /\ (wpark (w_pc (ws s i)) = true \/ w_pc (ws s i) = WRel);
  i_job : forall i, i < nw s -> wjob (w_pc (ws s i)) = true -> closed s = false -> In i (busy s);
  i_slot : forall i j, i < nw s -> w_slot (ws s i) = Some j -> closed s = false -> In i (busy s);
  i_post : forall i, i < nw s -> wpost (w_pc (ws s i)) = true -> w_slot (ws s i) = None;
  i_mclosed : mclosed (m_pc (mn s)) = true -> closed s = true
}.

Section Locked.
Variable c : cfg.
Hypothesis Hl : all_locked (lk c) = true.
Hypothesis Hwf : wf_cfg c.

Lemma lk_all : lk_process (lk c) = true /\ lk_notify (lk c) = true /\ lk_close1 (lk c) = true /\ lk_close2 (lk c) = true.
Proof. pose proof Hl as H. unfold all_locked in H. rewrite !andb_true_iff in H. tauto. Qed.
Lemma lkp : lk_process (lk c) = true. Proof. apply lk_all. Qed.
Lemma lkn : lk_notify (lk c) = true. Proof. apply lk_all. Qed.
Lemma lk1 : lk_close1 (lk c) = true. Proof. apply lk_all. Qed.
Lemma lk2 : lk_close2 (lk c) = true. Proof. apply lk_all. Qed.

Lemma after_submit_ncs n : mcs (after_submit c n) = false /\ mclosed (after_submit c n) = false.
Proof. unfold after_submit. rewrite lkp. destruct (Nat.ltb n (njobs c)); [split; reflexivity|]. destruct (do_close c); split; reflexivity. Qed.

Lemma excl_mw s i : Inv c s -> mcs (m_pc (mn s)) = true -> i < nw s -> wcs (w_pc (ws s i)) = true -> False.
Proof. intros HI Hm Hi Hw. destruct (i_m _ _ HI Hm) as [L1 _]. destruct (i_w _ _ HI i Hi Hw) as [L2 _]. congruence. Qed.
Lemma excl_ww s i k : Inv c s -> i < nw s -> k < nw s -> wcs (w_pc (ws s i)) = true -> wcs (w_pc (ws s k)) = true -> i = k.
Proof. intros HI Hi Hk Hwi Hwk. destruct (i_w _ _ HI i Hi Hwi) as [L1 _]. destruct (i_w _ _ HI k Hk Hwk) as [L2 _]. congruence. Qed.
Lemma free_m s : Inv c s -> lock s = None -> mcs (m_pc (mn s)) = false.
Proof. intros HI Hf. destruct (mcs (m_pc (mn s))) eqn:E; [|reflexivity]. destruct (i_m _ _ HI E) as [L _]. congruence. Qed.
Lemma free_w s i : Inv c s -> lock s = None -> i < nw s -> wcs (w_pc (ws s i)) = false.
Proof. intros HI Hf Hi. destruct (wcs (w_pc (ws s i))) eqn:E; [|reflexivity]. destruct (i_w _ _ HI i Hi E) as [L _]. congruence. Qed.

Lemma init_inv : Inv c (init c).
Proof.
  destruct Hwf as [H1 H2].
  constructor; cbn; intros.
  - pose proof (after_submit_ncs 0) as [E _]. unfold main_start in H. congruence.
  - discriminate.
  - apply seq_NoDup.
  - constructor.
  - assumption.
  - destruct H as [H|[]]. apply in_seq in H. lia.
  - unfold cnt. cbn. rewrite seq_length. lia.
  - split; [reflexivity|left; reflexivity].
  - discriminate.
  - discriminate.
  - discriminate.
  - pose proof (after_submit_ncs 0) as [_ E]. unfold main_start in H. congruence.
Qed.

Ltac updw_cases :=
  unfold updw in *;
  repeat match goal with
  | |- context [Nat.eqb ?i ?k] => destruct (Nat.eqb_spec i k); subst; try (exfalso; congruence)
  | H : context [Nat.eqb ?i ?k] |- _ => destruct (Nat.eqb_spec i k); subst; try (exfalso; congruence)
  end.

Ltac projs := cbn [lock idle busy closed nw ws mn started ended refused poolclosed m_pc m_next m_w m_lenb m_snap
                   w_pc w_slot w_ev w_cur w_found w_crash set_main set_lock set_idle set_busy set_closed set_w
                   mpc_of goto finish_submit set_pc set_slot set_ev cnt PM] in *.

(* facts about the old state, all at once *)
Ltac old HI :=
  pose proof (i_m _ _ HI) as Om; pose proof (i_w _ _ HI) as Ow; pose proof (i_ndi _ _ HI) as Ondi;
  pose proof (i_ndb _ _ HI) as Ondb; pose proof (i_dis _ _ HI) as Odis; pose proof (i_rng _ _ HI) as Orng;
  pose proof (i_cnt _ _ HI) as Ocnt; pose proof (i_idle _ _ HI) as Oidle; pose proof (i_job _ _ HI) as Ojob;
  pose proof (i_slot _ _ HI) as Oslot; pose proof (i_post _ _ HI) as Opost; pose proof (i_mclosed _ _ HI) as Omc.

Lemma wpark_not_post p : wpark p = true -> wpost p = true -> False.
Proof. destruct p; cbn; congruence. Qed.
Lemma wpark_not_cs p : wpark p = true -> wcs p = true -> False.
Proof. destruct p; cbn; congruence. Qed.
Lemma wpark_not_job p : wpark p = true -> wjob p = true -> False.
Proof. destruct p; cbn; congruence. Qed.
Lemma remove_len_le x l : length (remove_nat x l) <= length l.
Proof. induction l as [|a l IH]; cbn; [lia|]. destruct (Nat.eqb a x); cbn; lia. Qed.
Lemma app_len1 (l : list nat) x : length (l ++ [x]) = S (length l).
Proof. rewrite app_length. cbn. lia. Qed.

#[local] Hint Resolve remove_NoDup remove_In remove_notin NoDup_snoc pick_In remove_other NoDup_nil : pool.
#[local] Hint Rewrite In_snoc app_len1 : pool.

Ltac wexcl HI Hpc :=
  let i := fresh "i" in let Hi := fresh "Hi" in let Hw := fresh "Hw" in
  intros i Hi Hw; updw_cases; projs; try discriminate; exfalso; eapply (excl_mw _ _ HI); [rewrite Hpc; reflexivity | | exact Hw]; lia.

Ltac bools :=
  repeat match goal with
         | H : mem_nat _ _ = true |- _ => apply mem_nat_In in H
         | H : mem_nat _ _ = false |- _ => apply mem_nat_false in H
         | H : (_ <? _) = true |- _ => apply Nat.ltb_lt in H
         | H : (_ <? _) = false |- _ => apply Nat.ltb_ge in H
         | H : (_ <=? _) = true |- _ => apply Nat.leb_le in H
         | H : (_ <=? _) = false |- _ => apply Nat.leb_gt in H
         end.

Ltac crush :=
  intros; updw_cases; unfold worker0 in *; projs; cbn [In length app wcs wjob wpost wpark] in *; subst; autorewrite with pool in *;
  repeat match goal with H : _ /\ _ |- _ => destruct H end;
  try solve [ discriminate | lia | congruence | tauto | eauto 6 with pool
            | exfalso; eauto using wpark_not_post, wpark_not_cs, wpark_not_job
            | intuition (eauto 6 with pool; try lia; try congruence) ].

Lemma main_step_inv ch s s' : Inv c s -> main_step c ch s = Some s' -> Inv c s'.
Proof.
  intros HI H. old HI. unfold main_step in H. rewrite ?lkp, ?lk1, ?lk2 in H. unfold close_after_notify1 in H. rewrite ?lkp, ?lk1, ?lk2 in H.
  unfold MCS, WCS, PM, cnt in *.
  destruct (m_pc (mn s)) eqn:Hpc; cbn [mcs mclosed] in *;
  try (destruct (Om eq_refl) as [OL OM]; clear Om);
  repeat match type of H with
         | context [match lock s with _ => _ end] => destruct (lock s) eqn:Hlock
         | context [if closed s then _ else _] => destruct (closed s) eqn:Hclosed
         | context [match idle s with _ => _ end] => destruct (idle s) eqn:Hidle
         | context [match m_snap (mn s) with _ => _ end] => destruct (m_snap (mn s)) eqn:Hsnap
         | context [if ?b then _ else _] => destruct b eqn:?
         end; try discriminate;
  try match goal with Hidle : idle s = _ :: _ |- _ => rewrite <- Hidle in * end;
  injection H as <-; bools.
  all: constructor; unfold MCS, WCS, PM, cnt; projs; rewrite ?Hpc; cbn [mcs mclosed].
  all: try match goal with Hidle : idle _ = [] |- _ => rewrite ?Hidle end.
  all: try match goal with Hclosed : closed _ = _ |- _ => rewrite ?Hclosed end.
  all: try match goal with Hb : busy _ = _ |- _ => rewrite ?Hb end.
  all: try (intros Hx; exfalso; first [pose proof (after_submit_ncs (S (m_next (mn s)))) as [E1 E2]; congruence | discriminate Hx]).
  all: try solve [assumption | auto with pool].
  all: try solve [wexcl HI Hpc].
  all: try solve [intros i Hi Hw; rewrite (free_w s i HI Hlock Hi) in Hw; discriminate].
  all: try solve [intros _; split; [first [exact OL|reflexivity]|]; crush].
  all: try solve [crush].
  all: try solve [intros i Hin; updw_cases; projs; destruct (Oidle _ Hin); auto].
  all: try solve [destruct OM as [E1 E2]; rewrite ?E1, ?E2 in *; cbn [length] in *; intros _; split; [first [exact OL|reflexivity]|]; try split; auto; lia].
  all: try solve [destruct OM as [E1 E2]; intros _; split; [first [exact OL|reflexivity]|]; split; [exact E1|]; rewrite E1 in *; cbn [length] in *; lia].
  (* MPop *)
  all: try solve [assert (Hin : In (pick ch (idle s)) (idle s)) by (apply pick_In; assumption);
                  pose proof (remove_length _ _ Hin); pose proof (Oidle _ Hin) as [Hs [Hp|Hp]];
                  [ intros _; split; [first [exact OL|reflexivity]|]; split; [split; [exact Hs|split; [exact Hp|apply Orng; auto]]|split; [apply remove_notin; exact Ondi|right; lia]]
                  | exfalso; eapply (excl_mw s (pick ch (idle s)) HI); [rewrite Hpc; reflexivity|apply Orng; auto|rewrite Hp; reflexivity] ]].
  all: try solve [assert (Hin : In (pick ch (idle s)) (idle s)) by (apply pick_In; assumption);
                  pose proof (remove_length _ _ Hin); lia].
  (* MSpawn *)
  all: try solve [assert (Hf : ~ In (nw s) (idle s) /\ ~ In (nw s) (busy s)) by (split; intros Hx; [specialize (Orng (nw s) (or_introl Hx))|specialize (Orng (nw s) (or_intror Hx))]; lia);
                  intros _; split; [first [exact OL|reflexivity]|]; unfold updw; rewrite Nat.eqb_refl; unfold worker0; cbn; repeat split; try tauto; try lia; right; lia].
  all: try solve [intros x Hx; specialize (Orng x Hx); lia].
  all: try solve [intros; updw_cases; unfold worker0 in *; projs; cbn [wcs wjob wpost wpark] in *; try discriminate; try reflexivity;
                  first [ eapply Ojob; eauto; lia | eapply Oslot; eauto; lia | eapply Opost; eauto; lia
                        | exfalso; eapply (excl_mw s _ HI); [rewrite Hpc; reflexivity| |eassumption]; lia ]].
Qed.

Lemma worker_step_inv k s s' : Inv c s -> k < nw s -> worker_step c k s = Some s' -> Inv c s'.
Proof.
  intros HI Hk H. old HI. unfold worker_step in H. unfold notify_exit in H. rewrite ?lkn in H.
  unfold MCS, WCS, PM, cnt in *.
  pose proof (Ow k Hk) as Owk.
  destruct (w_pc (ws s k)) eqn:Hpc; cbn [wcs] in *;
  try (destruct (Owk eq_refl) as [OL OW]; clear Owk);
  repeat match type of H with
         | context [match lock s with _ => _ end] => destruct (lock s) eqn:Hlock
         | context [if closed s then _ else _] => destruct (closed s) eqn:Hclosed
         | context [if w_ev ?w then _ else _] => destruct (w_ev w) eqn:Hev
         | context [if w_crash ?w then _ else _] => destruct (w_crash w) eqn:Hcrash
         | context [match w_slot ?w with _ => _ end] => destruct (w_slot w) eqn:Hslot
         | context [match w_cur ?w with _ => _ end] => destruct (w_cur w) eqn:Hcur
         | context [if mem_nat ?a ?b then _ else _] => destruct (mem_nat a b) eqn:Hmem
         | context [if (?a <=? ?b) then _ else _] => destruct (a <=? b) eqn:Hleb
         end; try discriminate;
  injection H as <-; bools.
  all: constructor; unfold MCS, WCS, PM, cnt; projs.
  all: try match goal with Hclosed : closed _ = _ |- _ => rewrite ?Hclosed end.
  all: try solve [assumption | auto with pool].
  (* main cannot be inside a region while this worker is *)
  all: try solve [intros Hm; exfalso; eapply (excl_mw s k HI); [exact Hm|exact Hk|rewrite Hpc; reflexivity]].
  all: try solve [intros Hm; rewrite (free_m s HI Hlock) in Hm; discriminate].
  (* the accept loop's facts survive a step of a worker that is outside every region *)
  all: try solve [intros Hm; destruct (Om Hm) as [OLm OMm]; split; [exact OLm|];
                  destruct (m_pc (mn s)) eqn:Hmpc; try exact OMm; try exact I;
                  unfold updw; (destruct (Nat.eqb_spec (m_w (mn s)) k) as [E|E]; [|exact OMm]);
                  rewrite E in *; destruct OMm as [[P1 [P2 P3]] R]; rewrite Hpc in P2; cbn in P2; try discriminate; try congruence;
                  projs; repeat split; auto].
  all: try solve [intros i Hin; destruct (Oidle i Hin) as [I1 I2]; updw_cases; projs; rewrite ?Hpc in *; cbn [wpark] in *;
                  intuition (try discriminate; try congruence)].
  all: try solve [intros i Hi Hj Hc; updw_cases; projs; cbn [wjob] in *; try discriminate;
                  first [eapply Ojob; eauto; rewrite ?Hpc; reflexivity | eapply Oslot; eauto]].
  all: try solve [intros i j Hi Hj Hc; updw_cases; projs; try discriminate; first [eapply Oslot; eauto | eapply Ojob; eauto; rewrite ?Hpc; reflexivity]].
  all: try solve [intros i Hi Hp; updw_cases; projs; cbn [wpost] in *; try discriminate; try reflexivity; first [eapply Opost; eauto; rewrite ?Hpc; reflexivity | eauto]].
  all: try solve [intros i Hi Hw; updw_cases; projs; cbn [wcs] in *; try discriminate;
                  first [ exact (Ow i Hi Hw)
                        | exfalso; pose proof (excl_ww s i k HI Hi Hk Hw) as E; rewrite Hpc in E; specialize (E eq_refl); congruence
                        | rewrite (free_w s i HI Hlock Hi) in Hw; discriminate ]].
  all: try solve [intros Hm; destruct (Om Hm) as [OLm OMm]; split; [exact OLm|];
                  destruct (m_pc (mn s)) eqn:Hmpc; try exact OMm; try exact I;
                  unfold updw; (destruct (Nat.eqb_spec (m_w (mn s)) k) as [E|E]; [|exact OMm]);
                  destruct OMm as [[P1 [P2 P3]] R]; rewrite E in P1, P2; rewrite Hpc in P2; cbn in P2; try discriminate; try congruence;
                  projs; cbn [wpark]; repeat split; auto; try tauto].
  (* goals about the workers inside regions *)
  all: try solve [intros i Hi Hw; updw_cases; projs; cbn [wcs] in *; try discriminate;
                  first [ exfalso; pose proof (excl_ww s i k HI Hi Hk Hw) as E; rewrite Hpc in E; specialize (E eq_refl); congruence
                        | rewrite (free_w s i HI Hlock Hi) in Hw; discriminate
                        | split; [first [exact OL | reflexivity]|]; cbn;
                          first [ exact I
                                | split; [exact Hmem | intros Hc; exfalso; apply Hmem; eapply Ojob; eauto; rewrite Hpc; reflexivity]
                                | split; [apply remove_notin; exact Ondb | intros _; pose proof (remove_length _ _ Hmem); lia]
                                | destruct OW as [A B]; split; [exact A | apply B; reflexivity] ] ]].
  (* WRemove *)
  all: try solve [intros x Hx Hy; apply remove_In in Hy; eauto].
  all: try solve [intros x [Hx|Hx]; [|apply remove_In in Hx]; eauto].
  all: try solve [pose proof (remove_len_le k (busy s)); lia].
  all: try solve [intros i Hi Hj Hc; updw_cases; projs; cbn [wjob] in *; try discriminate; apply remove_other; [congruence|eapply Ojob; eauto]].
  all: try solve [intros i j Hi Hj Hc; updw_cases; projs;
                  [ rewrite (Opost k Hk) in Hj; [discriminate|rewrite Hpc; reflexivity]
                  | apply remove_other; [congruence|eapply Oslot; eauto] ]].
  (* WIdleAdd *)
  all: try solve [destruct OW as [A B]; intros x Hx Hy; apply In_snoc in Hx; destruct Hx as [Hx|Hx]; [eauto|subst; tauto]].
  all: try solve [intros x [Hx|Hx]; [apply In_snoc in Hx; destruct Hx as [Hx|Hx]; [eauto|subst; exact Hk]|eauto]].
  all: try solve [destruct OW as [A B]; rewrite app_len1; lia].
  all: try solve [intros i Hin; apply In_snoc in Hin; updw_cases; projs;
                  [ split; [apply (Opost k Hk); rewrite Hpc; reflexivity|right; reflexivity]
                  | destruct Hin as [Hin|Hin]; [exact (Oidle i Hin)|congruence] ]].
  all: match goal with Hpc : w_pc _ = ?p |- ?G => idtac "REMAINS:" p G end.
Qed.

Lemma step_inv tc s : Inv c s -> Inv c (step c tc s).
Proof.
  intros HI. unfold step, step_opt. destruct tc as [t ch]. cbn [fst snd]. destruct t as [|i].
  - destruct (main_step c ch s) eqn:E; [eapply main_step_inv; eauto|exact HI].
  - destruct (Nat.ltb_spec i (nw s)); [|exact HI].
    destruct (worker_step c i s) eqn:E; [eapply worker_step_inv; eauto|exact HI].
Qed.

Lemma run_inv sched : forall s, Inv c s -> Inv c (run c sched s).
Proof.
  induction sched as [|tc sched IH]; intros s HI; [exact HI|]. cbn [run fold_left]. apply IH. apply step_inv. exact HI.
Qed.

End Locked.

Lemma NoDup_app_intro (a b : list nat) : NoDup a -> NoDup b -> (forall x, In x a -> In x b -> False) -> NoDup (a ++ b).
Proof.
  induction 1 as [|x a Hn Hd IH]; cbn; intros Hb Hdis; [exact Hb|].
  constructor; [|apply IH; [exact Hb|intros y Hy; apply Hdis; right; exact Hy]].
  rewrite in_app_iff. intros [H|H]; [tauto|]. eapply Hdis; [left; reflexivity|exact H].
Qed.

(* The bookkeeping part of the property, for every pool configuration, every number of
   connections, every schedule and every choice of set.pop(): with the four regions under
   count_lock, after ANY prefix of ANY execution
   (1) idle and busy are duplicate-free and disjoint, and hold only created workers;
   (2) the pool never has more than THREADPOOL_SIZE workers;
   (3) a connection is refused only in a state where no worker is idle and exactly SIZE are busy
       (the accept loop still holds the lock, so this is the state at the decision);
   (4) the accept loop never pops from an empty idle set;
   (5) a worker that holds a job, or is between taking it and leaving Pool.busy, is in busy
       (until close); a worker in idle holds no job. *)
Theorem pool_invariants (c : cfg) (sched : list (nat * nat)) :
  all_locked (lk c) = true -> wf_cfg c ->
  let s := run c sched (init c) in
  NoDup (idle s ++ busy s)
  /\ (forall x, In x (idle s ++ busy s) -> x < nw s)
  /\ length (idle s) + length (busy s) <= size c
  /\ (m_pc (mn s) = MRelRefuse -> idle s = [] /\ length (busy s) = size c)
  /\ (m_pc (mn s) = MPop -> idle s <> [])
  /\ (forall i j, i < nw s -> w_slot (ws s i) = Some j -> closed s = false -> In i (busy s) /\ ~ In i (idle s))
  /\ (forall i, In i (idle s) -> w_slot (ws s i) = None).
Proof.
  intros Hl Hwf s. pose proof (run_inv c Hl sched (init c) (init_inv c Hl Hwf)) as HI. fold s in HI.
  split; [|split; [|split; [|split; [|split; [|split]]]]].
  - apply NoDup_app_intro; [apply (i_ndi _ _ HI)|apply (i_ndb _ _ HI)|apply (i_dis _ _ HI)].
  - intros x Hx. apply in_app_iff in Hx. apply (i_rng _ _ HI). exact Hx.
  - apply (i_cnt _ _ HI).
  - intros H. pose proof (i_m _ _ HI) as Hm. unfold MCS in Hm. rewrite H in Hm. apply (Hm eq_refl).
  - intros H. pose proof (i_m _ _ HI) as Hm. unfold MCS in Hm. rewrite H in Hm. apply (Hm eq_refl).
  - intros i j Hi Hs Hc. split; [eapply (i_slot _ _ HI); eauto|].
    intros Hin. destruct (i_idle _ _ HI i Hin) as [E _]. congruence.
  - intros i Hin. apply (i_idle _ _ HI i Hin).
Qed.

(* mutual exclusion and absence of self-deadlock on the (non re-entrant) lock: the holder of
   count_lock is exactly the thread whose program counter is inside a region *)
Theorem pool_lock_discipline (c : cfg) (sched : list (nat * nat)) :
  all_locked (lk c) = true -> wf_cfg c ->
  let s := run c sched (init c) in
  (mcs (m_pc (mn s)) = true -> lock s = Some 0)
  /\ (forall i, i < nw s -> wcs (w_pc (ws s i)) = true -> lock s = Some (S i))
  /\ (forall i, i < nw s -> mcs (m_pc (mn s)) = true -> wcs (w_pc (ws s i)) = true -> False)
  /\ (forall i k, i < nw s -> k < nw s -> wcs (w_pc (ws s i)) = true -> wcs (w_pc (ws s k)) = true -> i = k).
Proof.
  intros Hl Hwf s. pose proof (run_inv c Hl sched (init c) (init_inv c Hl Hwf)) as HI. fold s in HI.
  split; [|split; [|split]].
  - intros H. apply (i_m _ _ HI H).
  - intros i Hi H. apply (i_w _ _ HI i Hi H).
  - intros i Hi Hm Hw. eapply excl_mw; eauto.
  - intros i k Hi Hk Hwi Hwk. eapply excl_ww; eauto.
Qed.

(* ---- the code as it was: no method takes count_lock.  SIZE = MIN = 1, two connections:
   the first worker is preempted inside notify_done between busy.remove and idle.add, the
   accept loop sees 0 workers and starts a second one; the pool ends with 2 workers. *)
Definition unlocked : lockcfg := mk_lockcfg false false false false.
Definition witness_cfg : cfg := mk_cfg 1 1 2 false unlocked.
Definition witness_sched : list (nat * nat) := [(0, 0); (0, 0); (0, 0); (0, 0); (0, 0); (0, 0); (0, 0); (0, 0); (1, 0); (1, 0); (1, 0); (1, 0); (1, 0); (1, 0); (1, 0); (1, 0); (0, 0); (0, 0); (0, 0); (0, 0); (0, 0); (0, 0); (0, 0); (0, 0); (0, 0); (0, 0); (0, 0); (0, 0); (0, 0); (0, 0); (2, 0); (2, 0); (2, 0); (2, 0); (2, 0); (2, 0); (0, 0); (0, 0); (0, 0); (1, 0); (1, 0); (1, 0)].

Theorem pool_unlocked_refuted :
  exists c sched, wf_cfg c /\ all_locked (lk c) = false /\
    let s := run c sched (init c) in size c < length (idle s) + length (busy s).
Proof.
  exists witness_cfg, witness_sched. split; [split; cbn; lia|]. split; [reflexivity|]. vm_compute. lia.
Qed.

(* the hypotheses of pool_invariants are satisfiable, and the machine does something *)
Example pool_nonvacuous :
  let c := mk_cfg 2 1 3 true (mk_lockcfg true true true true) in
  let s := run c (concat (repeat [(0,0); (0,1); (1,0); (2,0); (0,0); (1,0); (0,2); (2,0)] 30)) (init c) in
  all_locked (lk c) = true /\ wf_cfg c /\ started s = [0; 1] /\ ended s = [0; 1] /\ refused s = [2] /\ closed s = true /\ nw s = 2
  /\ w_pc (ws s 0) = WExit /\ w_pc (ws s 1) = WExit /\ m_pc (mn s) = MDone.
Proof. vm_compute. repeat split; try reflexivity; lia. Qed.
