(* C18 — third layer: no lost wake-up.  Who may be waiting with an unset event, which worker
   the accept loop is handing a job to, what a worker knows inside notify_done. *)
From Coq Require Import List Arith Bool Lia.
Import ListNotations.
From V Require Import Model.Pool Proofs.Pool Proofs.PoolTac Proofs.PoolLock.

(* close has started to overwrite job slots / set events *)
Definition mnotify (p : mpc) : bool :=
  match p with CSlot1 | CEv1 | CIterIdle | CSlot2 | CEv2 | CClosedWr => true | _ => false end.
Definition m2 (p : mpc) : bool := match p with CSlot2 | CEv2 => true | _ => false end.
(* the accept loop has chosen worker m_w and has not yet set its event *)
Definition mtarget (p : mpc) : bool := match p with MBusyAdd | MSlotWr | MEvSet => true | _ => false end.
Definition wevok (p : wpc) : bool := match p with WWait | WClear | WRel => true | _ => false end.

Definition WB (s : st) (i : nat) : Prop :=
  match w_pc (ws s i) with
  | WLenIdle | WIdleAdd => closed s = false
  | WRel => w_ev (ws s i) = true \/ (In i (idle s) /\ closed s = false)
  | WRetSlot | WRetEv => w_slot (ws s i) = None
  | _ => True
  end.

Record InvB (c : cfg) (s : st) : Prop := mk_InvB {
  b_tgt : mtarget (m_pc (mn s)) = true ->
          w_pc (ws s (m_w (mn s))) = WWait /\ w_ev (ws s (m_w (mn s))) = false /\ m_w (mn s) < nw s /\ ~ In (m_w (mn s)) (idle s);
  b_idle : closed s = false -> mnotify (m_pc (mn s)) = false -> forall i, In i (idle s) ->
           w_ev (ws s i) = false /\ (w_pc (ws s i) = WWait \/ w_pc (ws s i) = WRel);
  b_ev : closed s = false -> mnotify (m_pc (mn s)) = false -> forall i, i < nw s -> w_ev (ws s i) = true -> wevok (w_pc (ws s i)) = true;
  b_wait : forall i, i < nw s -> w_pc (ws s i) = WWait -> w_ev (ws s i) = false ->
           (i = m_w (mn s) /\ mtarget (m_pc (mn s)) = true) \/
           (In i (idle s) /\ closed s = false /\ m_pc (mn s) <> CClosedWr /\ (m2 (m_pc (mn s)) = true -> In i (m_snap (mn s))));
  b_wcs : forall i, i < nw s -> WB s i
}.

Section Locked.
Variable c : cfg.
Hypothesis Hl : all_locked (lk c) = true.
Hypothesis Hwf : wf_cfg c.

Lemma after_submit_cases n : after_submit c n = MAcq \/ after_submit c n = CClosedRd \/ after_submit c n = MDone.
Proof. unfold after_submit. rewrite (lkp c Hl). destruct (Nat.ltb n (njobs c)); [tauto|]. destruct (do_close c); tauto. Qed.

Lemma initB : InvB c (init c).
Proof.
  constructor; cbn.
  - intros H. destruct (after_submit_cases 0) as [E|[E|E]]; unfold main_start in H; rewrite E in H; discriminate.
  - intros _ _ i Hi. split; [reflexivity|left; reflexivity].
  - intros _ _ i Hi H. discriminate.
  - intros i Hi _ _. right. split; [apply in_seq; lia|]. split; [reflexivity|].
    unfold main_start. destruct (after_submit_cases 0) as [E|[E|E]]; rewrite E; split; try congruence; intros; discriminate.
  - intros i Hi. exact I.
Qed.

Ltac oldA HA :=
  pose proof (a_l3 _ _ HA) as Al3; pose proof (a_closed _ _ HA) as Acl; pose proof (a_pc _ _ HA) as Apc;
  pose proof (a_rm _ _ HA) as Arm; pose proof (a_crash _ _ HA) as Acr.
Ltac oldB HB :=
  pose proof (b_tgt _ _ HB) as Btgt; pose proof (b_idle _ _ HB) as Bidle; pose proof (b_ev _ _ HB) as Bev;
  pose proof (b_wait _ _ HB) as Bwait; pose proof (b_wcs _ _ HB) as Bwcs.

Lemma main_stepB ch s s' : Inv c s -> InvA c s -> InvB c s -> main_step c ch s = Some s' -> InvB c s'.
Proof.
  intros HI HA HB H. old HI. oldA HA. oldB HB. unfold WB in *. main_cases c Hl s H.
  all: constructor; unfold WB; projs; realign.
  all: try rewrite ?Hclosed.
  all: try match goal with |- context [after_submit c ?n] => destruct (after_submit_cases n) as [Eas|[Eas|Eas]]; rewrite ?Eas end.
  all: cbn [mtarget mnotify m2].
  all: try solve [assumption | reflexivity | discriminate | intros; discriminate].
  (* the state seen as closed by a submit / a pop from the empty set: impossible *)
  all: try solve [exfalso; specialize (Acl eq_refl); discriminate Acl].
  all: try solve [exfalso; destruct (Om eq_refl) as [_ OM]; unfold MCS in OM; rewrite Hpc in OM; congruence].
  (* b_wcs: a worker inside a region while main moves *)
  all: try solve [intros i Hi; updw_cases; unfold worker0 in *; projs; try exact I;
                  first [ exact (Bwcs i Hi) | apply Bwcs; lia
                        | pose proof (Bwcs i Hi) as W; destruct (w_pc (ws s i)) eqn:Hwpc; try exact I; try exact W;
                          exfalso; eapply (excl_mw c s i HI); [rewrite Hpc; reflexivity | exact Hi | rewrite Hwpc; reflexivity] ]].
  (* b_wait, nothing but the pc changed *)
  all: try solve [intros i Hi Hp He; destruct (Bwait i Hi Hp He) as [[E T]|(Hin & Hc & Hne & H2)];
                  [ cbn in T; first [discriminate T | left; split; [exact E|reflexivity]]
                  | first [ right; split; [exact Hin|]; split; [first [exact Hc|reflexivity]|]; split; [discriminate|intros X; discriminate X]
                          | exfalso; rewrite (Omc eq_refl) in Hc; discriminate Hc
                          | exfalso; congruence ] ]].
  (* b_idle / b_ev, nothing relevant changed *)
  all: try solve [intros Hc Hn i Hi; first [ apply Bidle; auto | exfalso; congruence ]].
  all: try solve [intros Hc Hn i Hi He; first [ apply Bev; auto | exfalso; congruence ]].
  (* b_tgt kept *)
  all: try solve [intros _; destruct (Btgt eq_refl) as (T1 & T2 & T3 & T4); repeat split; assumption].
  (* b_wcs with a modified worker record *)
  all: try solve [intros i Hi; pose proof (Bwcs i Hi) as W; updw_cases; projs;
                  first [ exact W
                        | match goal with |- context [w_pc ?w] => destruct (w_pc w) eqn:Hwpc end; try exact I;
                          exfalso; eapply (excl_mw c s _ HI); [rewrite Hpc; reflexivity | exact Hi | rewrite Hwpc; reflexivity] ]].
  (* b_wait with a modified worker record / snapshot *)
  all: try solve [intros i Hi Hp He; updw_cases; unfold worker0 in *; projs; try discriminate;
                  try solve [left; split; reflexivity];
                  assert (Hi' : i < nw s) by lia;
                  (destruct (Bwait i Hi' Hp He) as [[E T]|(Hin & Hc & Hne & H2)];
                  [ cbn in T; first [discriminate T | congruence | left; split; [exact E|reflexivity]]
                  | first [ solve [exfalso; destruct (H2 eq_refl) as [X|[]]; congruence]
                          | solve [exfalso; destruct Hin]
                          | solve [exfalso; destruct (H2 eq_refl)]
                          | right; split; [first [exact Hin | apply remove_other; [congruence|exact Hin]]|]; split; [first [exact Hc|reflexivity]|];
                            split; [discriminate|];
                            first [ intros X; discriminate X | intros _; exact Hin
                                  | intros _; exact (H2 eq_refl)
                                  | intros _; destruct (H2 eq_refl) as [X|X]; [congruence|exact X] ] ] ])].
  all: try solve [intros Hc; rewrite (Omc eq_refl) in Hc; discriminate Hc].
  all: try solve [intros i Hi Hp He; destruct (Nat.eq_dec i (pick ch (idle s))) as [E|E]; [left; split; [exact E|reflexivity]|];
                  destruct (Bwait i Hi Hp He) as [[E' T]|(Hin & Hc & Hne & H2)]; [discriminate T|];
                  right; split; [apply remove_other; assumption|]; split; [exact Hc|]; split; [discriminate|intros X; discriminate X]].
  (* b_idle *)
  all: try solve [intros Hc Hn i Hin; try apply remove_In in Hin; updw_cases; unfold worker0 in *; projs;
                  first [ apply Bidle; auto
                        | exfalso; destruct (Btgt eq_refl) as (T1 & T2 & T3 & T4); tauto
                        | exfalso; specialize (Orng _ (or_introl Hin)); lia ]].
  (* b_ev *)
  all: try solve [intros Hc Hn i Hi He; updw_cases; unfold worker0 in *; projs; try discriminate;
                  first [ apply Bev; auto; lia
                        | destruct (Btgt eq_refl) as (T1 & T2 & T3 & T4); rewrite T1; reflexivity ]].
  (* b_tgt *)
  all: try solve [intros _; destruct (Btgt eq_refl) as (T1 & T2 & T3 & T4); updw_cases; projs; repeat split; assumption].
  all: try solve [intros _; unfold updw; rewrite Nat.eqb_refl; unfold worker0; cbn; repeat split; try lia;
                  intros Hx; specialize (Orng _ (or_introl Hx)); lia].
  all: try solve [intros _; assert (Hin : In (pick ch (idle s)) (idle s)) by (apply pick_In; destruct (Om eq_refl) as [_ OM]; unfold MCS in OM; rewrite Hpc in OM; exact OM);
                  assert (Hc : closed s = false) by (destruct (closed s) eqn:Ec; [specialize (Acl eq_refl); discriminate Acl|reflexivity]);
                  destruct (Bidle Hc eq_refl _ Hin) as [B1 [B2|B2]];
                  [ repeat split; auto; [apply Orng; auto | apply remove_notin; exact Ondi]
                  | exfalso; eapply (excl_mw c s _ HI); [rewrite Hpc; reflexivity | apply Orng; left; exact Hin | rewrite B2; reflexivity] ]].
  all: try solve [intros _; assert (Hin : In (pick ch (idle s)) (idle s)) by (apply pick_In; destruct (Om eq_refl) as [_ OM]; unfold MCS in OM; rewrite Hpc in OM; exact OM);
                  assert (Hc : closed s = false) by (destruct (closed s) eqn:Ec; [specialize (Acl eq_refl); discriminate Acl|reflexivity]);
                  destruct (Bidle Hc eq_refl _ Hin) as [B1 [B2|B2]];
                  [ split; [exact B2|split; [exact B1|split; [apply Orng; left; exact Hin|apply remove_notin; exact Ondi]]]
                  | exfalso; eapply (excl_mw c s _ HI); [rewrite Hpc; reflexivity | apply Orng; left; exact Hin | rewrite B2; reflexivity] ]].
  all: try solve [intros i Hi; pose proof (Bwcs i Hi) as W; updw_cases; projs; try exact W;
                  match goal with |- context [w_pc ?w] => destruct (w_pc w) eqn:Hwpc end; try exact I;
                  exfalso; eapply (excl_mw c s _ HI); [rewrite Hpc; reflexivity | exact Hi | ]; rewrite Hwpc; reflexivity].
  all: try solve [intros i Hi; pose proof (Bwcs i Hi) as W; updw_cases; projs; try exact W;
                  match goal with |- context [w_pc ?w] => destruct (w_pc w) eqn:Hwpc end; try exact I;
                  exfalso; (eapply (excl_mw c s _ HI); [rewrite Hpc; reflexivity | exact Hi | rewrite Hwpc; reflexivity])].
  all: try solve [intros i Hi Hp He; updw_cases; unfold worker0 in *; projs; try discriminate;
                  match goal with Hp' : w_pc (ws _ ?j) = WWait, He' : w_ev (ws _ ?j) = false |- _ =>
                    assert (Hj : j < nw _) by (eassumption || lia);
                    (destruct (Bwait j Hj Hp' He') as [[E T]|(Hin & Hc & Hne & H2)];
                     [ cbn in T; discriminate T
                     | right; split; [exact Hin|]; split; [exact Hc|]; split; [discriminate|];
                       first [intros X; discriminate X | intros _; exact (H2 eq_refl)] ]) end].
Qed.

Lemma worker_stepB k s s' : Inv c s -> InvA c s -> InvB c s -> k < nw s -> worker_step c k s = Some s' -> InvB c s'.
Proof.
  intros HI HA HB Hk H. old HI. oldA HA. oldB HB. pose proof (Bwcs k Hk) as Wk. unfold WB in *. worker_cases c Hl s k H.
  all: try (exfalso; apply Hmem; apply Arm; assumption).
  all: try (rewrite (Acr k Hk) in Hcrash; discriminate Hcrash).
  all: constructor; unfold WB; projs; realign.
  all: try rewrite ?Hclosed.
  (* b_tgt *)
  all: try solve [intros T; destruct (Btgt T) as (T1 & T2 & T3 & T4); updw_cases; projs; rewrite ?In_snoc;
                  first [ congruence | repeat split; auto; intros [X|X]; [tauto|congruence] | repeat split; auto ]].
  (* b_ev *)
  all: try solve [intros Hc Hn i Hi He; updw_cases; projs; try discriminate; try reflexivity;
                  first [ apply Bev; assumption
                        | pose proof (Bev Hc Hn _ Hk He) as X; rewrite Hpc in X; discriminate X ]].
  (* b_idle *)
  all: try solve [intros Hc Hn i Hin; rewrite ?In_snoc in Hin; updw_cases; projs; try solve [apply Bidle; tauto];
                  try solve [destruct (Bidle Hc Hn _ Hin) as [B1 [B2|B2]]; rewrite Hpc in B2; try discriminate B2; try congruence; (split; [assumption|left; reflexivity])]].
  all: try solve [intros Hc Hn i Hin; apply In_snoc in Hin; updw_cases; projs;
                  [ split; [|right; reflexivity]; destruct (w_ev (ws s k)) eqn:Ee; [|reflexivity];
                    pose proof (Bev Hc Hn _ Hk Ee) as X; rewrite Hpc in X; discriminate X
                  | destruct Hin as [Hin|Hin]; [|congruence]; apply Bidle; assumption ]].
  (* b_wait *)
  all: try solve [intros i Hi Hp He; updw_cases; projs; try discriminate;
                  try solve [ destruct (Bwait _ Hi Hp He) as [[E T]|(Hin & Hc & Hne & H2)];
                              [ left; split; assumption | right; rewrite ?In_snoc; repeat split; auto ] ];
                  try solve [ destruct Wk as [X|[Hin Hc]]; [congruence|];
                              pose proof (worker_cs_excl_m c s k Hl HI Hk) as M; rewrite Hpc in M; specialize (M eq_refl);
                              right; split; [exact Hin|]; split; [exact Hc|]; split;
                              [ intros E; rewrite E in M; discriminate M | intros X; destruct (m_pc (mn s)); discriminate ] ] ].
  (* b_wcs *)
  all: try solve [intros i Hi; pose proof (Bwcs i Hi) as W; updw_cases; projs;
                  try solve [ exact W ];
                  try solve [ destruct (w_pc (ws s i)) eqn:Hwi; try exact I; try exact W; rewrite In_snoc; tauto ];
                  try solve [ exact I | reflexivity | assumption | left; reflexivity | left; assumption
                            | right; split; [apply In_snoc; right; reflexivity | assumption]
                            | right; split; assumption
                            | apply Opost; [assumption | rewrite Hpc; reflexivity] ] ].
Qed.

End Locked.
