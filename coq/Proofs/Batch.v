(* C11 — lemmas about Model/Batch.v: a batch (with the `break`) is the sequential run. *)
From Coq Require Import List ZArith Arith Bool Lia.
Import ListNotations.
From V Require Import Model.Batch.

Section BatchProofs.
  Variables state call value exn : Type.
  Variable gate : state -> call -> option exn.
  Variable step : state -> call -> state * outcome value exn.

  Notation seq := (run_seq gate step).
  Notation loop := (server_loop gate step).
  Notation batch := (run_batch gate step).

  (* shape of a sequential run: successes, then at most one failure, and the executed
     calls are exactly the prefix of the call list up to the failure *)
  Definition seq_shape_stmt (calls : list call) (s : state) : Prop :=
    let q := seq calls s in
    exists vs : list value,
      (r_outs q = map Ok vs /\ r_log q = calls /\ length vs = length calls)
      \/ (exists e c, r_outs q = map Ok vs ++ [Exc e] /\ nth_error calls (length vs) = Some c /\
            ((gate (r_state q) c = Some e /\ r_log q = firstn (length vs) calls)       (* refused: not executed *)
             \/ r_log q = firstn (S (length vs)) calls)).                              (* raised: executed, nothing after *)

  Lemma seq_shape : forall calls s, seq_shape_stmt calls s.
  Proof.
    unfold seq_shape_stmt.
    induction calls as [|c rest IH]; intros s; cbn [run_seq].
    - exists []. left. cbn. auto.
    - destruct (gate s c) as [e|] eqn:G.
      + exists []. right. exists e, c. cbn. repeat split; auto.
      + destruct (step s c) as [s' [v|e]] eqn:S.
        * destruct (IH s') as [vs [[Ho [Hl Hn]] | [e [c' [Ho [Hn H]]]]]].
          -- exists (v :: vs). left. cbn. rewrite Ho, Hl, Hn. auto.
          -- exists (v :: vs). right. exists e, c'. cbn. rewrite Ho. repeat split; auto.
             destruct H as [[Hg Hl] | Hl]; [left | right]; rewrite Hl; auto.
        * exists []. right. exists e, c. cbn. repeat split; auto.
  Qed.

  Lemma loop_state_log : forall calls s,
    sv_state (loop true calls s) = r_state (seq calls s) /\ sv_log (loop true calls s) = r_log (seq calls s).
  Proof.
    induction calls as [|c rest IH]; intros s; cbn [server_loop run_seq].
    - auto.
    - destruct (gate s c); [auto|].
      destruct (step s c) as [s' [v|e]]; [|auto].
      destruct (IH s') as [H1 H2]. cbn. rewrite H1, H2. auto.
  Qed.

  Lemma loop_results : forall calls s l,
    sv_reply (loop true calls s) = RResults l -> results_generator l = r_outs (seq calls s).
  Proof.
    induction calls as [|c rest IH]; intros s l; cbn [server_loop run_seq].
    - cbn. intros H. inversion H. reflexivity.
    - destruct (gate s c); [cbn; discriminate|].
      destruct (step s c) as [s' [v|e]].
      + cbn. destruct (sv_reply (loop true rest s')) as [l'|e'] eqn:R; [|discriminate].
        intros H. inversion H. subst l. cbn. f_equal. apply IH. exact R.
      + cbn. intros H. inversion H. reflexivity.
  Qed.

  Lemma loop_error : forall calls s e,
    sv_reply (loop true calls s) = RError e ->
    exists vs c, r_outs (seq calls s) = map Ok vs ++ [Exc e] /\ nth_error calls (length vs) = Some c /\
                 gate (r_state (seq calls s)) c = Some e /\ r_log (seq calls s) = firstn (length vs) calls.
  Proof.
    induction calls as [|c rest IH]; intros s e; cbn [server_loop run_seq].
    - cbn. discriminate.
    - destruct (gate s c) as [e0|] eqn:G.
      + cbn. intros H. inversion H. subst e0. exists [], c. cbn. auto.
      + destruct (step s c) as [s' [v|e1]].
        * cbn. destruct (sv_reply (loop true rest s')) as [l'|e'] eqn:R; [discriminate|].
          intros H. inversion H. subst e'.
          destruct (IH s' e R) as [vs [c' [Ho [Hn [Hg Hl]]]]].
          exists (v :: vs), c'. cbn. rewrite Ho, Hl. auto.
        * cbn. discriminate.
  Qed.

  (* what "the batch gave the caller the same as the sequential run" means, per kind of answer *)
  Definition same_results (calls : list call) (obs : client_obs value exn) (q : run state call value exn) : Prop :=
    match obs with
    | CStream outs => outs = r_outs q
    | CRaised e => exists vs c, r_outs q = map Ok vs ++ [Exc e] /\ nth_error calls (length vs) = Some c /\
                                gate (r_state q) c = Some e /\ r_log q = firstn (length vs) calls
    | CNothing => False
    end.

  Theorem batch_equiv : forall brk, brk = true -> forall calls s,
    let b := batch brk false calls s in
    let q := seq calls s in
    b_state b = r_state q /\ b_log b = r_log q /\ same_results calls (b_obs b) q.
  Proof.
    intros brk -> calls s. cbn zeta. unfold run_batch. cbn [b_state b_log b_obs client_view].
    destruct (loop_state_log calls s) as [H1 H2]. split; [exact H1|]. split; [exact H2|].
    destruct (sv_reply (loop true calls s)) as [l|e] eqn:R; cbn.
    - apply loop_results. exact R.
    - apply loop_error. exact R.
  Qed.

  Theorem oneway_batch : forall brk, brk = true -> forall calls s,
    let b := batch brk true calls s in
    let q := seq calls s in
    b_state b = r_state q /\ b_log b = r_log q /\ b_obs b = CNothing.
  Proof.
    intros brk -> calls s. cbn zeta. unfold run_batch. cbn.
    destruct (loop_state_log calls s) as [H1 H2]. auto.
  Qed.

  (* a failure inside the result stream is the last thing in it *)
  Lemma generator_failure_last : forall (l : list (item value exn)) i e,
    nth_error (results_generator l) i = Some (Exc e) -> S i = length (results_generator l).
  Proof.
    induction l as [|[v|e0] l IH]; intros i e; cbn.
    - destruct i; discriminate.
    - destruct i; cbn; [discriminate|]. intros H. f_equal. eapply IH. exact H.
    - destruct i; cbn; [reflexivity|]. destruct i; discriminate.
  Qed.

  Lemma loop_stream_failure : forall calls s l i e,
    sv_reply (loop true calls s) = RResults l ->
    nth_error (results_generator l) i = Some (Exc e) ->
    sv_log (loop true calls s) = firstn (S i) calls.
  Proof.
    induction calls as [|c rest IH]; intros s l i e; cbn [server_loop].
    - cbn. intros H. inversion H. subst l. destruct i; discriminate.
    - destruct (gate s c); [cbn; discriminate|].
      destruct (step s c) as [s' [v|e1]].
      + cbn. destruct (sv_reply (loop true rest s')) as [l'|e'] eqn:R; [|discriminate].
        intros H. inversion H. subst l. cbn [results_generator].
        destruct i; cbn [nth_error]; [discriminate|].
        intros Hn. rewrite (IH s' l' i e R Hn). reflexivity.
      + cbn. intros H. inversion H. subst l. cbn.
        destruct i; cbn; [reflexivity|]. destruct i; discriminate.
  Qed.

  (* an exception met while replaying the results is the last item, it is the sequential
     run's exception at the same index, and the executed calls are exactly the first i+1 *)
  Theorem stream_failure_position : forall brk, brk = true -> forall calls s outs i e,
    b_obs (batch brk false calls s) = CStream outs ->
    nth_error outs i = Some (Exc e) ->
    S i = length outs /\ nth_error (r_outs (seq calls s)) i = Some (Exc e) /\
    b_log (batch brk false calls s) = firstn (S i) calls.
  Proof.
    intros brk -> calls s outs i e. unfold run_batch. cbn [b_obs b_log client_view].
    destruct (sv_reply (loop true calls s)) as [l|e'] eqn:R; [|discriminate].
    intros H Hn. inversion H. subst outs.
    split; [eapply generator_failure_last; exact Hn|].
    split; [rewrite <- (loop_results calls s l R); exact Hn|].
    eapply loop_stream_failure; eauto.
  Qed.


  (* ---- histories of a re-used BatchProxy ------------------------------------------- *)
  Lemma loop_results_len : forall calls s l,
    sv_reply (loop true calls s) = RResults l ->
    length (r_outs (seq calls s)) = length (r_log (seq calls s)).
  Proof.
    induction calls as [|c rest IH]; intros s l; cbn [server_loop run_seq].
    - reflexivity.
    - destruct (gate s c); [cbn; discriminate|].
      destruct (step s c) as [s' [v|e]].
      + cbn. destruct (sv_reply (loop true rest s')) as [l'|e'] eqn:R; [|discriminate].
        intros _. f_equal. eapply IH. exact R.
      + reflexivity.
  Qed.

  Lemma firstn_length_nth : forall (A : Type) (l : list A) n x, nth_error l n = Some x -> length (firstn n l) = n.
  Proof.
    intros A l n x H. rewrite firstn_length. apply Nat.min_l.
    apply Nat.lt_le_incl. apply nth_error_Some. congruence.
  Qed.

  Lemma stream_spec : forall ow calls s,
    stream_of (b_obs (batch true ow calls s)) =
    if ow || seq_refused (seq calls s) then [] else r_outs (seq calls s).
  Proof.
    intros ow calls s. unfold run_batch. cbn [b_obs client_view].
    destruct ow; [reflexivity|]. cbn [orb].
    destruct (sv_reply (loop true calls s)) as [l|e] eqn:R; cbn [stream_of].
    - unfold seq_refused. rewrite (loop_results_len calls s l R), Nat.ltb_irrefl.
      apply loop_results. exact R.
    - destruct (loop_error calls s e R) as [vs [c [Ho [Hn [_ Hl]]]]].
      unfold seq_refused. rewrite Ho, Hl, (firstn_length_nth _ _ _ _ Hn), app_length, map_length.
      cbn [length].
      assert (Hlt : (length vs <? length vs + 1)%nat = true) by (apply Nat.ltb_lt; lia).
      rewrite Hlt. reflexivity.
  Qed.

  Definition item_rel (h : hitem state call value exn) (p : sitem state call value exn) : Prop :=
    match h, p with
    | HQueued, SQueued => True
    | HSub calls b, SSub calls' ow q =>
        calls = calls' /\ b_state b = r_state q /\ b_log b = r_log q /\
        (if ow then b_obs b = CNothing else same_results calls (b_obs b) q)
    | HIter o, SIter o' => o = o'
    | _, _ => False
    end.

  Theorem history_equiv : forall brk, brk = true -> forall evs s queue subs,
    Forall2 item_rel (fst (run_history gate step brk false evs s queue subs))
                     (fst (spec_history gate step evs s queue subs))
    /\ snd (run_history gate step brk false evs s queue subs) = snd (spec_history gate step evs s queue subs).
  Proof.
    intros brk ->. induction evs as [|ev evs IH]; intros s queue subs.
    - cbn. split; [constructor|reflexivity].
    - destruct ev as [c|ow|k n]; cbn [run_history spec_history].
      + specialize (IH s (queue ++ [c]) subs).
        destruct (run_history gate step true false evs s (queue ++ [c]) subs) as [t s1].
        destruct (spec_history gate step evs s (queue ++ [c]) subs) as [t' s1'].
        cbn in *. destruct IH as [H1 H2]. split; [constructor; [exact I|exact H1]|exact H2].
      + rewrite andb_false_r.
        assert (Hst : b_state (batch true ow queue s) = r_state (seq queue s)).
        { destruct ow; [apply (oneway_batch true eq_refl) | apply (batch_equiv true eq_refl)]. }
        rewrite (stream_spec ow queue s), Hst.
        specialize (IH (r_state (seq queue s)) [] (subs ++ [if ow || seq_refused (seq queue s) then [] else r_outs (seq queue s)])).
        destruct (run_history gate step true false evs (r_state (seq queue s)) []
                    (subs ++ [if ow || seq_refused (seq queue s) then [] else r_outs (seq queue s)])) as [t s1].
        destruct (spec_history gate step evs (r_state (seq queue s)) []
                    (subs ++ [if ow || seq_refused (seq queue s) then [] else r_outs (seq queue s)])) as [t' s1'].
        cbn in *. destruct IH as [H1 H2]. split; [|exact H2].
        constructor; [|exact H1].
        cbn. split; [reflexivity|].
        destruct ow.
        * destruct (oneway_batch true eq_refl queue s) as [A [B C]]. auto.
        * destruct (batch_equiv true eq_refl queue s) as [A [B C]]. auto.
      + specialize (IH s queue subs).
        destruct (run_history gate step true false evs s queue subs) as [t s1].
        destruct (spec_history gate step evs s queue subs) as [t' s1'].
        cbn in *. destruct IH as [H1 H2]. split; [constructor; [reflexivity|exact H1]|exact H2].
  Qed.

End BatchProofs.

(* ---- the accumulator instance: without the `break` the batch is NOT the sequential run *)
Local Open Scope Z_scope.
Definition nobreak_witness : list acall :=
  [ {| c_meth := MAdd; c_arg := 3 |}; {| c_meth := MSub; c_arg := 9 |}; {| c_meth := MAdd; c_arg := 1 |} ].

Lemma nobreak_refuted :
  exists calls s, b_state (acc_batch false false calls s) <> r_state (acc_seq calls s)
               /\ b_log (acc_batch false false calls s) <> r_log (acc_seq calls s).
Proof.
  exists nobreak_witness, 0. vm_compute. split; intros H; discriminate H.
Qed.

(* the defective submission (finding marshal-batch) loses the whole batch *)
Lemma submit_fails_refuted :
  exists calls s, b_state (run_batch_submit_fails (value:=aval) ESubmit calls s) <> r_state (acc_seq calls s).
Proof.
  exists nobreak_witness, 0. vm_compute. intros H; discriminate H.
Qed.

(* the defective re-use (finding reuse-after-failed-submit): a batch refused at submission stays
   queued, the next submission runs its executed prefix again and never reaches the new call *)
Definition keep_witness : list (event acall) :=
  [ EvQueue {| c_meth := MAdd; c_arg := 1 |}; EvQueue {| c_meth := MHidden; c_arg := 1 |}; EvSubmit false;
    EvQueue {| c_meth := MAdd; c_arg := 5 |}; EvSubmit false ].

Lemma keep_on_raise_refuted :
  exists evs s, snd (acc_history true true evs s [] []) <> snd (acc_spec_history evs s [] []).
Proof.
  exists keep_witness, 0. vm_compute. intros H; discriminate H.
Qed.
