(* If every shared access of every thread lies inside a critical section of the one
   lock, every interleaving is equivalent to executing the critical sections atomically,
   one after another, in the order in which they were released (Proofs for C15/C18/C09). *)
From Coq Require Import List Arith Bool Lia.
Import ListNotations.
From V Require Import Model.Atomic.

Section Proofs.
Variables (S R : Type).
Notation prog := (prog S R).
Notation thread := (thread S R).
Notation config := (config S R).

Lemma upd_same (ts : nat -> thread) t th : upd ts t th t = th.
Proof. unfold upd. rewrite Nat.eqb_refl. reflexivity. Qed.
Lemma upd_other (ts : nat -> thread) t th i : i <> t -> upd ts t th i = ts i.
Proof. intros H. unfold upd. destruct (Nat.eqb_spec i t); [contradiction|reflexivity]. Qed.

(* the coarse configuration is always between units *)
Definition quiescent (ca : config) : Prop :=
  owner ca = None /\ (forall i, cur (threads ca i) = None) /\
  (forall i, all_locked_units (todo (threads ca i)) = true).

Definition sim (c ca : config) : Prop :=
  quiescent ca /\
  match owner c with
  | None => shared c = shared ca /\ forall i, threads c i = threads ca i
  | Some t =>
      exists p0 rest p,
        todo (threads ca t) = Locked p0 :: rest /\
        cur (threads c t) = Some p /\ todo (threads c t) = rest /\
        run_prog p (shared c) (tregs (threads c t)) = run_prog p0 (shared ca) (tregs (threads ca t)) /\
        forall i, i <> t -> threads c i = threads ca i
  end.

Definition completes (k : kind) : bool := match k with KRelease | KBare => true | _ => false end.

Lemma all_locked_tail (u : unit_ S R) us : all_locked_units (u :: us) = true -> all_locked_units us = true.
Proof. unfold all_locked_units. cbn [forallb]. intros H. apply andb_true_iff in H. tauto. Qed.

Lemma step_sim t c ca :
  sim c ca ->
  sim (fst (step_kind t c)) (if completes (snd (step_kind t c)) then astep t ca else ca).
Proof.
  intros [Hq Hs]. destruct Hq as (Hown & Hcur & Hall).
  unfold step_kind.
  destruct (owner c) as [o|] eqn:Ho.
  - (* somebody holds the lock *)
    destruct Hs as (p0 & rest & p & Htodo & Hc & Ht & Hrun & Hoth).
    destruct (Nat.eq_dec t o) as [->|Hne].
    + (* the owner moves *)
      rewrite Hc. destruct p as [|f k].
      * (* release *)
        cbn [fst snd completes]. unfold astep. rewrite Htodo.
        cbn [run_prog] in Hrun. rewrite <- Hrun.
        split.
        -- repeat split; cbn [owner threads].
           ++ exact Hown.
           ++ intros i. destruct (Nat.eq_dec i o) as [->|Hi]; [rewrite upd_same; reflexivity|rewrite upd_other by exact Hi; apply Hcur].
           ++ intros i. destruct (Nat.eq_dec i o) as [->|Hi].
              ** rewrite upd_same. cbn [todo]. specialize (Hall o). rewrite Htodo in Hall. exact (all_locked_tail _ _ Hall).
              ** rewrite upd_other by exact Hi. apply Hall.
        -- cbn [owner shared threads]. split; [reflexivity|].
           intros i. destruct (Nat.eq_dec i o) as [->|Hi].
           ++ rewrite !upd_same. rewrite Ht. reflexivity.
           ++ rewrite !upd_other by exact Hi. apply Hoth. exact Hi.
      * (* one access inside the critical section *)
        destruct (f (shared c) (tregs (threads c o))) as [s' r'] eqn:Hf.
        cbn [fst snd completes]. split; [repeat split; assumption|].
        cbn [owner]. rewrite ?Ho. exists p0, rest, (k r').
        cbn [threads shared]. rewrite upd_same. cbn [cur todo tregs].
        repeat split; try assumption.
        -- cbn [run_prog] in Hrun. rewrite Hf in Hrun. exact Hrun.
        -- intros i Hi. rewrite upd_other by exact Hi. apply Hoth. exact Hi.
    + (* another thread: it is between units and all its units are locked: blocked or finished *)
      rewrite (Hoth t Hne). rewrite Hcur.
      pose proof (Hall t) as Hallt. destruct (todo (threads ca t)) as [|[q|g] us] eqn:Htd.
      * cbn [fst snd completes]. split; [repeat split; assumption|]. rewrite ?Ho. exists p0, rest, p. repeat split; assumption.
      * rewrite ?Ho. cbn [fst snd completes]. split; [repeat split; assumption|]. rewrite ?Ho. exists p0, rest, p. repeat split; assumption.
      * cbn in Hallt. discriminate.
  - (* the lock is free *)
    destruct Hs as [Hsh Hth].
    rewrite (Hth t). rewrite Hcur.
    pose proof (Hall t) as Hallt. destruct (todo (threads ca t)) as [|[q|g] us] eqn:Htd.
    + cbn [fst snd completes]. split; [repeat split; assumption|]. rewrite ?Ho. split; assumption.
    + (* acquire *)
      rewrite ?Ho. cbn [fst snd completes]. split; [repeat split; assumption|].
      cbn [owner]. exists q, us, q. cbn [threads shared]. rewrite upd_same. cbn [cur todo tregs].
      repeat split; try assumption.
      * rewrite Hsh. reflexivity.
      * intros i Hi. rewrite upd_other by exact Hi. apply Hth.
    + cbn in Hallt. discriminate.
Qed.

Lemma run_sim sched : forall c ca,
  sim c ca -> sim (run sched c) (arun (lin sched c) ca).
Proof.
  induction sched as [|t sched IH]; intros c ca H; [exact H|].
  cbn [run fold_left lin]. fold (run sched (step t c)).
  pose proof (step_sim t c ca H) as Hst. unfold step.
  destruct (step_kind t c) as [c' k]. cbn [fst snd] in Hst |- *.
  destruct k; cbn [completes] in Hst; cbn [arun fold_left]; try (apply IH; exact Hst).
Qed.

(* the property-level statement: from a quiescent start, whenever the lock is free the
   concurrent execution has produced exactly the state, registers (operation results)
   and remaining code of the atomic execution of the released units in release order *)
Theorem locked_ops_atomic (c0 : config) (sched : list nat) :
  quiescent c0 ->
  owner (run sched c0) = None ->
  shared (run sched c0) = shared (arun (lin sched c0) c0) /\
  forall i, threads (run sched c0) i = threads (arun (lin sched c0) c0) i.
Proof.
  intros Hq Hfree.
  assert (H0 : sim c0 c0).
  { split; [exact Hq|]. destruct Hq as (Ho & _ & _). rewrite ?Ho. split; reflexivity. }
  pose proof (run_sim sched c0 c0 H0) as [_ Hs]. rewrite Hfree in Hs. exact Hs.
Qed.

(* and while a unit is in progress, only its owner differs from the atomic execution *)
Theorem locked_ops_atomic_midway (c0 : config) (sched : list nat) t :
  quiescent c0 ->
  owner (run sched c0) = Some t ->
  forall i, i <> t -> threads (run sched c0) i = threads (arun (lin sched c0) c0) i.
Proof.
  intros Hq Hown.
  assert (H0 : sim c0 c0).
  { split; [exact Hq|]. destruct Hq as (Ho & _ & _). rewrite ?Ho. split; reflexivity. }
  pose proof (run_sim sched c0 c0 H0) as [_ Hs]. rewrite Hown in Hs.
  destruct Hs as (p0 & rest & p & _ & _ & _ & _ & Hoth). exact Hoth.
Qed.

(* the linearisation is a subsequence of the schedule *)
Inductive subseq {A} : list A -> list A -> Prop :=
| sub_nil : subseq [] []
| sub_skip x l l' : subseq l l' -> subseq l (x :: l')
| sub_take x l l' : subseq l l' -> subseq (x :: l) (x :: l').

Lemma lin_subseq sched : forall c : config, subseq (lin sched c) sched.
Proof.
  induction sched as [|t sched IH]; intros c; cbn [lin]; [constructor|].
  destruct (step_kind t c) as [c' k]. destruct k; try (apply sub_skip; apply IH); apply sub_take; apply IH.
Qed.

End Proofs.
