(* "however the stream is fragmented": reading a message through the socket model gives
   exactly the result of reading it from the plain byte stream, for every script. *)
From Coq Require Import List NArith ZArith Arith Bool Lia ZifyBool ZifyN.
Import ListNotations.
From V Require Import Model.Bytes Model.SockIO Model.Wire Model.WireIO Gen.GenProtocol Gen.GenSockutil
                      Harness.H17 Proofs.Bytes Proofs.SockIO Proofs.Wire.
Local Open Scope N_scope.

Lemma io_recv_spec waitall n script stream d s' sc' :
  io_recv waitall n script stream = Some (d, s', sc') ->
  recv_n n stream = Some (d, s') .
Proof.
  unfold io_recv. intros H.
  destruct (Nlen stream <? n) eqn:Hguard; [discriminate|].
  destruct (r_res (receive_data errno_retries cap_nat waitall (N.to_nat n) script stream)) eqn:E; try discriminate.
  injection H as <- <- <-.
  destruct (recv_exact errno_retries cap_nat waitall (N.to_nat n) script stream d0 E) as (Hd & Hs & Hl).
  unfold recv_n.
  assert (Hle : n <= Nlen stream).
  { unfold Nlen. rewrite Hd in Hl. rewrite firstn_length in Hl. lia. }
  destruct (N.leb_spec n (Nlen stream)) as [_|Hc]; [|lia].
  unfold takeN, dropN. rewrite <- Hd, <- Hs. reflexivity.
Qed.

Theorem recv_stub_fragmentation c acc unz waitall script stream r n :
  recv_stub_io c acc unz waitall script stream = Some (r, n) ->
  recv_stub c acc unz stream = (r, n).
Proof.
  unfold recv_stub_io, recv_stub. intros H.
  destruct (io_recv waitall 6 script stream) as [[[h6 s1] sc1]|] eqn:E1; [|discriminate].
  rewrite (io_recv_spec _ _ _ _ _ _ _ E1).
  destruct (negb (bytes_eqb (sub 0 4 h6) tag_PYRO)); [injection H as <- <-; reflexivity|].
  destruct (negb (bytes_eqb (sub 4 2 h6) (be16 protocol_version))); [injection H as <- <-; reflexivity|].
  destruct (io_recv waitall (header_size - 6) sc1 s1) as [[[h34 s2] sc2]|] eqn:E2; [|discriminate].
  rewrite (io_recv_spec _ _ _ _ _ _ _ E2).
  destruct (negb (check_header c (parse_header (h6 ++ h34)))); [injection H as <- <-; reflexivity|].
  destruct (max_size c <? h_dsize (parse_header (h6 ++ h34)) + h_asize (parse_header (h6 ++ h34)));
    [injection H as <- <-; reflexivity|].
  match type of H with (if ?X then _ else _) = _ => destruct X end; [injection H as <- <-; reflexivity|].
  destruct (io_recv waitall (h_asize (parse_header (h6 ++ h34)) + h_dsize (parse_header (h6 ++ h34))) sc2 s2)
    as [[[payload s3] sc3]|] eqn:E3; [|discriminate].
  rewrite (io_recv_spec _ _ _ _ _ _ _ E3).
  injection H as <- <-. reflexivity.
Qed.

(* with the round trip: whatever socket behaviour delivers the sender's bytes, the receiver gets the message *)
Theorem decode_encode_over_socket c m z bs rest acc unz waitall script r n :
  NoDup (map fst (s_anns m)) ->
  (forall cid, s_corr m = Some cid -> length cid = 16%nat) ->
  accepts acc (s_type m) ->
  (compresses c m = true -> unz = Some (s_payload m)) ->
  encode c m z = Ok bs ->
  recv_stub_io c acc unz waitall script (bs ++ rest) = Some (r, n) ->
  r = Ok (received m) /\ n = Nlen bs.
Proof.
  intros H1 H2 H3 H4 H5 H6.
  apply recv_stub_fragmentation in H6.
  rewrite (decode_encode c m z bs rest acc unz H1 H2 H3 H4 H5) in H6.
  injection H6 as <- <-. split; reflexivity.
Qed.
