(* C01 — compression is transparent for the serialized payload (on top of C06's round trip). *)
From Coq Require Import List NArith Arith Bool.
Import ListNotations.
From V Require Import Model.Bytes Model.Wire Gen.GenProtocol Proofs.Wire.
Local Open Scope N_scope.

(* Whatever the serializer produced as payload of a message — below, at or above the compression
   threshold, COMPRESSION on or off — is exactly what the receiving side hands to loads/loadsCall,
   together with the serializer id that selects the deserializer. *)
Theorem compression_transparent c m z bs acc unz :
  NoDup (map fst (s_anns m)) ->
  (forall cid, s_corr m = Some cid -> length cid = 16%nat) ->
  accepts acc (s_type m) ->
  (compresses c m = true -> unz = Some (s_payload m)) ->
  encode c m z = Ok bs ->
  exists r, recv_stub c acc unz bs = (Ok r, Nlen bs) /\ r_data r = s_payload m /\ r_ser r = s_ser m.
Proof.
  intros Hnd Hc Ha Hu He. exists (received m).
  pose proof (decode_encode c m z bs [] acc unz Hnd Hc Ha Hu He) as H. rewrite app_nil_r in H.
  repeat split; auto.
Qed.

(* both sides of the threshold are covered by the statement above *)
Lemma compresses_iff c m :
  compresses c m = true <-> compression c = true /\ compress_threshold < Nlen (s_payload m).
Proof. unfold compresses. rewrite andb_true_iff, N.ltb_lt. reflexivity. Qed.
