(* C09 — proofs about Model/Instances.v *)
From Coq Require Import List Arith Bool Lia.
Import ListNotations.
From V Require Import Model.Atomic Model.Instances Proofs.Atomic.

(* ---------- list helpers ---------- *)
Lemma snoc_split {A} (l : list A) x l1 y l2 :
  l ++ [x] = l1 ++ y :: l2 ->
  (l2 = [] /\ x = y /\ l = l1) \/ (exists l2', l2 = l2' ++ [x] /\ l = l1 ++ y :: l2').
Proof.
  intros H. destruct l2 as [|z l2] using rev_ind.
  - left. apply app_inj_tail in H. destruct H as [H1 H2]. auto.
  - right. clear IHl2. exists l2.
    change (l1 ++ y :: l2 ++ [z]) with (l1 ++ (y :: l2) ++ [z]) in H.
    rewrite app_assoc in H. apply app_inj_tail in H. destruct H as [H1 H2]. subst.
    split; reflexivity.
Qed.

Lemma snoc_split2 {A} (l : list A) x l1 y l2 z l3 :
  l ++ [x] = l1 ++ y :: l2 ++ z :: l3 ->
  (l3 = [] /\ x = z /\ l = l1 ++ y :: l2) \/ (exists l3', l3 = l3' ++ [x] /\ l = l1 ++ y :: l2 ++ z :: l3').
Proof.
  intros H.
  replace (l1 ++ y :: l2 ++ z :: l3) with ((l1 ++ y :: l2) ++ z :: l3) in H
    by (rewrite <- app_assoc; reflexivity).
  apply snoc_split in H. destruct H as [(H1 & H2 & H3)|(l3' & H1 & H2)].
  - left. auto.
  - right. exists l3'. split; [assumption|]. rewrite H2. rewrite <- app_assoc. reflexivity.
Qed.

Lemma nth_error_snoc {A} (l : list A) x n y :
  nth_error (l ++ [x]) n = Some y -> (n < length l /\ nth_error l n = Some y) \/ (n = length l /\ x = y).
Proof.
  intros H. destruct (Nat.lt_ge_cases n (length l)) as [Hlt|Hge].
  - left. rewrite nth_error_app1 in H by assumption. auto.
  - right. rewrite nth_error_app2 in H by assumption.
    destruct (n - length l) as [|m] eqn:E.
    + cbn in H. inversion H. split; [lia|reflexivity].
    + cbn in H. destruct m; discriminate.
Qed.

Lemma nth_error_snoc_old {A} (l : list A) x n y :
  nth_error l n = Some y -> nth_error (l ++ [x]) n = Some y.
Proof.
  intros H. rewrite nth_error_app1; [assumption|]. apply nth_error_Some. congruence.
Qed.

Lemma nth_error_snoc_new {A} (l : list A) x : nth_error (l ++ [x]) (length l) = Some x.
Proof. rewrite nth_error_app2 by lia. rewrite Nat.sub_diag. reflexivity. Qed.

Lemma flat_map_single {A B} (f : A -> B) l : flat_map (fun x => [f x]) l = map f l.
Proof. induction l as [|x l IH]; [reflexivity|]. cbn. rewrite IH. reflexivity. Qed.

(* ---------- counting (used by the property statements) ---------- *)
Lemma filter_snoc_len {A} (f : A -> bool) l x :
  length (filter f (l ++ [x])) = length (filter f l) + (if f x then 1 else 0).
Proof. rewrite filter_app, app_length. cbn. destruct (f x); reflexivity. Qed.

Section Seq.
Variable sh : shape.
Hypothesis Hok : shape_ok sh = true.
Variables (w : world) (modes : nat -> imode).

Lemma ok_parts : single_test sh = TIsNone /\ session_test sh = TIsNone /\ single_locked sh = true /\ close_clears sh = true.
Proof.
  pose proof Hok as H. unfold shape_ok in H.
  apply andb_true_iff in H. destruct H as [H _].
  apply andb_true_iff in H. destruct H as [H H4].
  apply andb_true_iff in H. destruct H as [H H3].
  apply andb_true_iff in H. destruct H as [H1 H2].
  destruct (single_test sh), (session_test sh); try discriminate. auto.
Qed.

Notation srv k c a := (Call k c, Served a).

Notation reach := (Model.Instances.reach sh w modes).

Lemma run_hist_snoc h e s :
  run_hist sh w modes (h ++ [e]) s =
  (fst (step_ev sh w modes e (fst (run_hist sh w modes h s))),
   snd (run_hist sh w modes h s) ++ [(e, snd (step_ev sh w modes e (fst (run_hist sh w modes h s))))]).
Proof.
  unfold run_hist. rewrite fold_left_app. cbn [fold_left].
  destruct (step_ev sh w modes e _) as [s' o]. reflexivity.
Qed.

Lemma run_hist_reach h : reach (fst (run_hist sh w modes h st0)) (snd (run_hist sh w modes h st0)).
Proof.
  induction h as [|e h IH] using rev_ind; [constructor|].
  rewrite run_hist_snoc. cbn [fst snd]. constructor. exact IH.
Qed.

(* the four things one event can do (under shape_ok) *)
Definition fresh (s : st) (c : nat) (t e : bool) : inst := mk_inst (length (log s)) c t e.

Inductive stepR (s : st) : event -> st -> obs -> Prop :=
| R_close k how s' : singles s' = singles s -> sessions s' = clear2 (sessions s) k -> log s' = log s ->
    stepR s (Close k how) s' Closed
| R_hit k c a : (modes c = MSingle /\ singles s c = Some a) \/ (modes c = MSession /\ sessions s k c = Some a) ->
    stepR s (Call k c) s (Served a)
| R_new k c t e s' : w (length (log s)) c = OMade t e ->
    log s' = log s ++ [(c, OMade t e)] ->
    match modes c with
    | MSingle => singles s c = None /\ singles s' = set1 (singles s) c (fresh s c t e) /\ sessions s' = sessions s
    | MSession => sessions s k c = None /\ singles s' = singles s /\ sessions s' = set2 (sessions s) k c (fresh s c t e)
    | MPercall => singles s' = singles s /\ sessions s' = sessions s
    end ->
    stepR s (Call k c) s' (Served (fresh s c t e))
| R_fail k c b s' : is_made (w (length (log s)) c) = false ->
    b = match w (length (log s)) c with OWrong => true | _ => false end ->
    log s' = log s ++ [(c, w (length (log s)) c)] ->
    singles s' = singles s -> sessions s' = sessions s ->
    match modes c with
    | MSingle => singles s c = None
    | MSession => sessions s k c = None
    | MPercall => True
    end ->
    stepR s (Call k c) s' (Failed b).

Lemma create_cases c s :
  (exists t e, w (length (log s)) c = OMade t e /\
     create w c s = (mk_st (singles s) (sessions s) (log s ++ [(c, OMade t e)]), Served (fresh s c t e))) \/
  (is_made (w (length (log s)) c) = false /\
     create w c s = (mk_st (singles s) (sessions s) (log s ++ [(c, w (length (log s)) c)]),
                     Failed match w (length (log s)) c with OWrong => true | _ => false end)).
Proof.
  unfold create. destruct (w (length (log s)) c) as [| |t e] eqn:E.
  - right. split; reflexivity.
  - right. split; reflexivity.
  - left. exists t, e. split; reflexivity.
Qed.

Lemma step_stepR e s : is_admin e = false -> stepR s e (fst (step_ev sh w modes e s)) (snd (step_ev sh w modes e s)).
Proof.
  intros Hadm. destruct ok_parts as (H1 & H2 & H3 & H4).
  destruct e as [k c|k how|c i f|i]; cbn [step_ev]; [| |discriminate|discriminate].
  - unfold get_instance. destruct (modes c) eqn:Hm.
    + unfold get_single. rewrite H1. destruct (singles s c) as [a|] eqn:Hs; cbn [absent].
      * cbn [fst snd]. apply R_hit. left. auto.
      * destruct (create_cases c s) as [(t & e & Hw & Hc)|(Hw & Hc)]; rewrite Hc; cbn [fst snd].
        -- eapply R_new; [exact Hw|reflexivity|]. rewrite Hm. auto.
        -- apply R_fail; try reflexivity; [exact Hw|]. rewrite Hm. exact Hs.
    + unfold get_session. rewrite H2. destruct (sessions s k c) as [a|] eqn:Hs; cbn [absent].
      * cbn [fst snd]. apply R_hit. right. auto.
      * destruct (create_cases c s) as [(t & e & Hw & Hc)|(Hw & Hc)]; rewrite Hc; cbn [fst snd].
        -- eapply R_new; [exact Hw|reflexivity|]. rewrite Hm. auto.
        -- apply R_fail; try reflexivity; [exact Hw|]. rewrite Hm. exact Hs.
    + destruct (create_cases c s) as [(t & e & Hw & Hc)|(Hw & Hc)]; rewrite Hc; cbn [fst snd].
      * eapply R_new; [exact Hw|reflexivity|]. rewrite Hm. auto.
      * apply R_fail; try reflexivity; [exact Hw|]. rewrite Hm. exact I.
  - rewrite H4. cbn [fst snd]. apply R_close; reflexivity.
Qed.

(* induction principle over reachable (state, trace) pairs in terms of stepR *)
Lemma reach_ind' (P : st -> trace -> Prop) :
  P st0 [] ->
  (forall s tr e s' o, reach s tr -> P s tr -> stepR s e s' o -> P s' (tr ++ [(e, o)])) ->
  (forall s tr e, reach s tr -> P s tr -> is_admin e = true -> P s (tr ++ [(e, Admin)])) ->
  forall s tr, reach s tr -> P s tr.
Proof.
  intros H0 HS HA s tr H. induction H as [|s tr e H IH]; [exact H0|].
  destruct (is_admin e) eqn:Hadm.
  - destruct e; try discriminate; cbn [step_ev fst snd]; apply HA; auto.
  - eapply HS; [exact H|exact IH|apply step_stepR; exact Hadm].
Qed.

Lemma set1_same f c a : set1 f c a c = Some a.
Proof. unfold set1. rewrite Nat.eqb_refl. reflexivity. Qed.
Lemma set1_other f c a x : x <> c -> set1 f c a x = f x.
Proof. intros H. unfold set1. destruct (Nat.eqb_spec x c); [contradiction|reflexivity]. Qed.
Lemma set2_same f k c a : set2 f k c a k c = Some a.
Proof. unfold set2. rewrite !Nat.eqb_refl. reflexivity. Qed.
Lemma set2_other f k c a x y : (x <> k \/ y <> c) -> set2 f k c a x y = f x y.
Proof.
  intros H. unfold set2. destruct (Nat.eqb_spec x k), (Nat.eqb_spec y c); cbn; try reflexivity.
  destruct H; contradiction.
Qed.
Lemma set2_inv f k c a x y b : set2 f k c a x y = Some b -> (x = k /\ y = c /\ b = a) \/ ((x <> k \/ y <> c) /\ f x y = Some b).
Proof.
  unfold set2. destruct (Nat.eqb_spec x k), (Nat.eqb_spec y c); cbn; intros H.
  - left. inversion H. auto.
  - right. auto.
  - right. auto.
  - right. auto.
Qed.
Lemma set1_inv f c a x b : set1 f c a x = Some b -> (x = c /\ b = a) \/ (x <> c /\ f x = Some b).
Proof.
  unfold set1. destruct (Nat.eqb_spec x c); intros H.
  - left. inversion H. auto.
  - right. auto.
Qed.
Lemma clear2_inv f k x y b : clear2 f k x y = Some b -> x <> k /\ f x y = Some b.
Proof. unfold clear2. destruct (Nat.eqb_spec x k); intros H; [discriminate|auto]. Qed.
Lemma clear2_other f k x y : x <> k -> clear2 f k x y = f x y.
Proof. intros H. unfold clear2. destruct (Nat.eqb_spec x k); [contradiction|reflexivity]. Qed.
Lemma clear2_same f k y : clear2 f k k y = None.
Proof. unfold clear2. rewrite Nat.eqb_refl. reflexivity. Qed.

Lemma in_snoc {A} (x y : A) l : In x (l ++ [y]) -> In x l \/ x = y.
Proof. intros H. apply in_app_or in H. destruct H as [H|[H|[]]]; auto. Qed.


(* ---------- basic invariant: provenance of every instance ---------- *)
Definition good (l : list (nat * outcome)) (c : nat) (a : inst) : Prop :=
  iid a < length l /\ nth_error l (iid a) = Some (c, OMade (itruthy a) (ieqnone a)) /\
  icls a = c /\ w (iid a) c = OMade (itruthy a) (ieqnone a).

Lemma good_snoc l x c a : good l c a -> good (l ++ [x]) c a.
Proof.
  intros (H1 & H2 & H3 & H4). repeat split; try assumption.
  - rewrite app_length. cbn. lia.
  - apply nth_error_snoc_old. assumption.
Qed.

Lemma good_fresh s c t e : w (length (log s)) c = OMade t e -> good (log s ++ [(c, OMade t e)]) c (fresh s c t e).
Proof.
  intros Hw. unfold good. cbn [fresh iid icls itruthy ieqnone]. rewrite app_length. cbn [length].
  split; [lia|]. split; [apply nth_error_snoc_new|]. auto.
Qed.

Definition basic (s : st) (tr : trace) : Prop :=
  (forall k c a, In (srv k c a) tr -> good (log s) c a) /\
  (forall c a, singles s c = Some a -> modes c = MSingle /\ exists k, In (srv k c a) tr) /\
  (forall k c a, sessions s k c = Some a -> modes c = MSession /\ In (srv k c a) tr) /\
  (forall n c t e, nth_error (log s) n = Some (c, OMade t e) -> exists k a, In (srv k c a) tr /\ iid a = n).

Lemma basic_inv s tr : reach s tr -> basic s tr.
Proof.
  revert s tr. apply reach_ind'.
  - repeat split; cbn; try contradiction; try discriminate.
    intros n c t e H. destruct n; discriminate.
  - intros s tr ev s' o Hr (B1 & B2 & B3 & B4) Hst.
    destruct Hst as [k how s' Hs1 Hs2 Hl | k c a Hhit | k c t e s' Hw Hl Hm | k c b s' Hw Hb Hl Hs1 Hs2 Hm].
    + (* close *)
      split; [|split; [|split]].
      * intros k0 c a H. apply in_snoc in H. destruct H as [H|H]; [|discriminate]. rewrite Hl. eauto.
      * intros c a H. rewrite Hs1 in H. destruct (B2 _ _ H) as [Hm [k0 H0]]. split; [assumption|].
        exists k0. apply in_or_app. auto.
      * intros k0 c a H. rewrite Hs2 in H. apply clear2_inv in H. destruct (B3 _ _ _ (proj2 H)).
        split; [assumption|]. apply in_or_app. auto.
      * intros n c t e H. rewrite Hl in H. destruct (B4 _ _ _ _ H) as (k0 & a & Hin & Hid).
        exists k0, a. split; [apply in_or_app; auto|assumption].
    + (* hit *)
      assert (Hg : good (log s) c a).
      { destruct Hhit as [[_ H]|[_ H]].
        - destruct (B2 _ _ H) as [_ [k0 H0]]. eauto.
        - destruct (B3 _ _ _ H) as [_ H0]. eauto. }
      split; [|split; [|split]].
      * intros k0 c0 a0 H. apply in_snoc in H. destruct H as [H|H]; [eauto|]. inversion H; subst. assumption.
      * intros c0 a0 H. destruct (B2 _ _ H) as [Hm [k0 H0]]. split; [assumption|].
        exists k0. apply in_or_app. auto.
      * intros k0 c0 a0 H. destruct (B3 _ _ _ H). split; [assumption|]. apply in_or_app. auto.
      * intros n c0 t e H. destruct (B4 _ _ _ _ H) as (k0 & a0 & Hin & Hid).
        exists k0, a0. split; [apply in_or_app; auto|assumption].
    + (* new *)
      split; [|split; [|split]].
      * intros k0 c0 a0 H. apply in_snoc in H. rewrite Hl. destruct H as [H|H].
        -- apply good_snoc. eauto.
        -- inversion H; subst. apply good_fresh. assumption.
      * intros c0 a0 H. destruct (modes c) eqn:Hmc.
        -- destruct Hm as (Hn & Hs1 & Hs2). rewrite Hs1 in H. apply set1_inv in H.
           destruct H as [[-> ->]|[Hne H]].
           ++ split; [assumption|]. exists k. apply in_or_app. right. left. reflexivity.
           ++ destruct (B2 _ _ H) as [Hm0 [k0 H0]]. split; [assumption|]. exists k0. apply in_or_app. auto.
        -- destruct Hm as (Hn & Hs1 & Hs2). rewrite Hs1 in H.
           destruct (B2 _ _ H) as [Hm0 [k0 H0]]. split; [assumption|]. exists k0. apply in_or_app. auto.
        -- destruct Hm as (Hs1 & Hs2). rewrite Hs1 in H.
           destruct (B2 _ _ H) as [Hm0 [k0 H0]]. split; [assumption|]. exists k0. apply in_or_app. auto.
      * intros k0 c0 a0 H. destruct (modes c) eqn:Hmc.
        -- destruct Hm as (Hn & Hs1 & Hs2). rewrite Hs2 in H.
           destruct (B3 _ _ _ H). split; [assumption|]. apply in_or_app. auto.
        -- destruct Hm as (Hn & Hs1 & Hs2). rewrite Hs2 in H. apply set2_inv in H.
           destruct H as [(-> & -> & ->)|[Hne H]].
           ++ split; [assumption|]. apply in_or_app. right. left. reflexivity.
           ++ destruct (B3 _ _ _ H). split; [assumption|]. apply in_or_app. auto.
        -- destruct Hm as (Hs1 & Hs2). rewrite Hs2 in H.
           destruct (B3 _ _ _ H). split; [assumption|]. apply in_or_app. auto.
      * intros n c0 t0 e0 H. rewrite Hl in H. apply nth_error_snoc in H. destruct H as [[_ H]|[Hn H]].
        -- destruct (B4 _ _ _ _ H) as (k0 & a0 & Hin & Hid).
           exists k0, a0. split; [apply in_or_app; auto|assumption].
        -- inversion H; subst. exists k, (fresh s c0 t0 e0). split; [apply in_or_app; right; left; reflexivity|reflexivity].
    + (* fail *)
      split; [|split; [|split]].
      * intros k0 c0 a0 H. apply in_snoc in H. destruct H as [H|H]; [|discriminate]. rewrite Hl. apply good_snoc. eauto.
      * intros c0 a0 H. rewrite Hs1 in H. destruct (B2 _ _ H) as [Hm0 [k0 H0]]. split; [assumption|].
        exists k0. apply in_or_app. auto.
      * intros k0 c0 a0 H. rewrite Hs2 in H. destruct (B3 _ _ _ H). split; [assumption|]. apply in_or_app. auto.
      * intros n c0 t e H. rewrite Hl in H. apply nth_error_snoc in H. destruct H as [[_ H]|[Hn H]].
        -- destruct (B4 _ _ _ _ H) as (k0 & a0 & Hin & Hid).
           exists k0, a0. split; [apply in_or_app; auto|assumption].
        -- injection H as Hc Ho. subst c0. rewrite Ho in Hw. discriminate.
  - intros s tr ev Hr (B1 & B2 & B3 & B4) Hadm. split; [|split; [|split]].
    + intros k0 c a H. apply in_snoc in H. destruct H as [H|H]; [eauto|discriminate].
    + intros c a H. destruct (B2 _ _ H) as [Hm [k0 H0]]. split; [assumption|]. exists k0. apply in_or_app. auto.
    + intros k0 c a H. destruct (B3 _ _ _ H). split; [assumption|]. apply in_or_app. auto.
    + intros n c t e H. destruct (B4 _ _ _ _ H) as (k0 & a & Hin & Hid).
      exists k0, a. split; [apply in_or_app; auto|assumption].
Qed.

(* ---------- single ---------- *)
Lemma single_inv s tr : reach s tr ->
  forall k c a, modes c = MSingle -> In (srv k c a) tr -> singles s c = Some a.
Proof.
  revert s tr.
  apply (reach_ind' (fun s tr => forall k c a, modes c = MSingle -> In (srv k c a) tr -> singles s c = Some a)).
  - intros k c a _ [].
  - intros s tr ev s' o Hr IH Hst k0 c0 a0 Hm0 Hin. apply in_snoc in Hin.
    destruct Hst as [k how s' Hs1 Hs2 Hl | k c a Hhit | k c t e s' Hw Hl Hm | k c b s' Hw Hb Hl Hs1 Hs2 Hm].
    + destruct Hin as [Hin|Hin]; [|discriminate]. rewrite Hs1. eauto.
    + destruct Hin as [Hin|Hin]; [eauto|]. inversion Hin; subst.
      destruct Hhit as [[_ H]|[H _]]; [assumption|congruence].
    + destruct Hin as [Hin|Hin].
      * pose proof (IH _ _ _ Hm0 Hin) as Hold.
        destruct (modes c) eqn:Hmc.
        -- destruct Hm as (Hn & Hs1 & Hs2). rewrite Hs1.
           destruct (Nat.eq_dec c0 c) as [->|Hne]; [congruence|]. rewrite set1_other by assumption. assumption.
        -- destruct Hm as (Hn & Hs1 & Hs2). rewrite Hs1. assumption.
        -- destruct Hm as (Hs1 & Hs2). rewrite Hs1. assumption.
      * inversion Hin; subst. rewrite Hm0 in Hm. destruct Hm as (Hn & Hs1 & Hs2). rewrite Hs1. apply set1_same.
    + destruct Hin as [Hin|Hin]; [|discriminate]. rewrite Hs1. eauto.
  - intros s tr ev Hr IH Hadm k0 c0 a0 Hm0 Hin. apply in_snoc in Hin.
    destruct Hin as [Hin|Hin]; [eauto|discriminate].
Qed.

(* ---------- session ---------- *)
Definition no_close (k : nat) (t : trace) : Prop := forall how o, ~ In (Close k how, o) t.

Lemma no_close_snoc k t x : no_close k (t ++ [x]) -> no_close k t.
Proof. intros H how o Hin. apply (H how o). apply in_or_app. auto. Qed.

Lemma session_live s tr : reach s tr ->
  forall t1 t2 k c a, tr = t1 ++ srv k c a :: t2 -> modes c = MSession -> no_close k t2 ->
  sessions s k c = Some a.
Proof.
  revert s tr.
  apply (reach_ind' (fun s tr => forall t1 t2 k c a, tr = t1 ++ srv k c a :: t2 -> modes c = MSession ->
     no_close k t2 -> sessions s k c = Some a)).
  - intros t1 t2 k c a H. destruct t1; discriminate.
  - intros s tr ev s' o Hr IH Hst t1 t2 k0 c0 a0 Hdec Hm0 Hnc.
    apply snoc_split in Hdec. destruct Hdec as [(-> & Hx & ->)|(t2' & -> & ->)].
    + (* the served call is the new entry *)
      inversion Hx; subst. clear Hx.
      inversion Hst as [ | k c a Hhit | k c t e s'' Hw Hl Hm | ]; subst.
      * destruct Hhit as [[H _]|[_ H]]; [congruence|assumption].
      * rewrite Hm0 in Hm. destruct Hm as (Hn & Hs1 & Hs2). rewrite Hs2. apply set2_same.
    + (* it is an old entry *)
      pose proof (IH _ _ _ _ _ eq_refl Hm0 (no_close_snoc _ _ _ Hnc)) as Hold.
      destruct Hst as [k how s' Hs1 Hs2 Hl | k c a Hhit | k c t e s' Hw Hl Hm | k c b s' Hw Hb Hl Hs1 Hs2 Hm].
      * rewrite Hs2. rewrite clear2_other; [assumption|].
        intros ->. apply (Hnc how Closed). apply in_or_app. right. left. reflexivity.
      * assumption.
      * destruct (modes c) eqn:Hmc.
        -- destruct Hm as (Hn & Hs1 & Hs2). rewrite Hs2. assumption.
        -- destruct Hm as (Hn & Hs1 & Hs2). rewrite Hs2.
           destruct (Nat.eq_dec k0 k) as [->|Hk]; [destruct (Nat.eq_dec c0 c) as [->|Hc]|].
           ++ congruence.
           ++ rewrite set2_other by auto. assumption.
           ++ rewrite set2_other by auto. assumption.
        -- destruct Hm as (Hs1 & Hs2). rewrite Hs2. assumption.
      * rewrite Hs2. assumption.
  - intros s tr ev Hr IH Hadm t1 t2 k0 c0 a0 Hdec Hm0 Hnc.
    apply snoc_split in Hdec. destruct Hdec as [(-> & Hx & ->)|(t2' & -> & ->)]; [discriminate|].
    exact (IH _ _ _ _ _ eq_refl Hm0 (no_close_snoc _ _ _ Hnc)).
Qed.

Lemma session_owner s tr : reach s tr ->
  forall k' c b, sessions s k' c = Some b ->
  forall t1 t2 k a, tr = t1 ++ srv k c a :: t2 -> iid a = iid b -> k = k' /\ no_close k t2.
Proof.
  intros Hr0. pose proof Hr0 as Hr1. revert s tr Hr1 Hr0. intros s tr Hr. revert s tr Hr.
  apply (reach_ind' (fun s tr => reach s tr -> forall k' c b, sessions s k' c = Some b ->
     forall t1 t2 k a, tr = t1 ++ srv k c a :: t2 -> iid a = iid b -> k = k' /\ no_close k t2)).
  - intros _ k' c b H. discriminate.
  - intros s tr ev s' o Hr IH0 Hst Hr' k' c0 b Hslot t1 t2 k0 a0 Hdec Hid.
    pose proof (IH0 Hr) as IH. clear IH0.
    destruct (basic_inv _ _ Hr) as (B1 & B2 & B3 & B4).
    apply snoc_split in Hdec.
    destruct Hst as [k how s' Hs1 Hs2 Hl | k c a Hhit | k c t e s' Hw Hl Hm | k c b' s' Hw Hb Hl Hs1 Hs2 Hm].
    + (* close k *)
      rewrite Hs2 in Hslot. apply clear2_inv in Hslot. destruct Hslot as [Hne Hslot].
      destruct Hdec as [(-> & Hx & ->)|(t2' & -> & ->)]; [discriminate|].
      destruct (IH _ _ _ Hslot _ _ _ _ eq_refl Hid) as [-> Hnc]. split; [reflexivity|].
      intros how' o' Hin. apply in_snoc in Hin. destruct Hin as [Hin|Hin]; [exact (Hnc _ _ Hin)|].
      inversion Hin. congruence.
    + (* hit *)
      destruct Hdec as [(-> & Hx & ->)|(t2' & -> & ->)].
      * inversion Hx; subst. clear Hx.
        destruct (B3 _ _ _ Hslot) as [Hms _].
        destruct Hhit as [[H _]|[_ H]]; [congruence|].
        destruct (B3 _ _ _ H) as [_ Hin]. apply in_split in Hin. destruct Hin as (u1 & u2 & Hu).
        destruct (IH _ _ _ Hslot _ _ _ _ Hu Hid) as [-> _]. split; [reflexivity|]. intros how' o' [].
      * destruct (IH _ _ _ Hslot _ _ _ _ eq_refl Hid) as [-> Hnc]. split; [reflexivity|].
        intros how' o' Hin. apply in_snoc in Hin. destruct Hin as [Hin|Hin]; [exact (Hnc _ _ Hin)|discriminate].
    + (* new *)
      assert (Hslot' : (k' = k /\ c0 = c /\ b = fresh s c t e /\ modes c = MSession) \/ sessions s k' c0 = Some b).
      { destruct (modes c) eqn:Hmc.
        - destruct Hm as (Hn & Hs1 & Hs2). rewrite Hs2 in Hslot. auto.
        - destruct Hm as (Hn & Hs1 & Hs2). rewrite Hs2 in Hslot. apply set2_inv in Hslot.
          destruct Hslot as [(-> & -> & ->)|[_ H]]; auto.
        - destruct Hm as (Hs1 & Hs2). rewrite Hs2 in Hslot. auto. }
      destruct Hdec as [(-> & Hx & ->)|(t2' & -> & ->)].
      * inversion Hx; subst. clear Hx.
        destruct Hslot' as [(-> & _ & _ & _)|Hold].
        -- split; [reflexivity|]. intros how' o' [].
        -- destruct (B3 _ _ _ Hold) as [_ Hin]. destruct (B1 _ _ _ Hin) as (Hlt & _).
           cbn [fresh iid] in Hid. lia.
      * destruct Hslot' as [(-> & -> & -> & _)|Hold].
        -- assert (Hin : In (srv k0 c a0) (t1 ++ srv k0 c a0 :: t2')) by (apply in_or_app; right; left; reflexivity).
           destruct (B1 _ _ _ Hin) as (Hlt & _). cbn [fresh iid] in Hid. lia.
        -- destruct (IH _ _ _ Hold _ _ _ _ eq_refl Hid) as [-> Hnc]. split; [reflexivity|].
           intros how' o' Hin. apply in_snoc in Hin. destruct Hin as [Hin|Hin]; [exact (Hnc _ _ Hin)|discriminate].
    + (* fail *)
      rewrite Hs2 in Hslot.
      destruct Hdec as [(-> & Hx & ->)|(t2' & -> & ->)]; [discriminate|].
      destruct (IH _ _ _ Hslot _ _ _ _ eq_refl Hid) as [-> Hnc]. split; [reflexivity|].
      intros how' o' Hin. apply in_snoc in Hin. destruct Hin as [Hin|Hin]; [exact (Hnc _ _ Hin)|discriminate].
  - intros s tr ev Hr IH0 Hadm Hr' k' c0 b Hslot t1 t2 k0 a0 Hdec Hid.
    apply snoc_split in Hdec. destruct Hdec as [(-> & Hx & ->)|(t2' & -> & ->)]; [discriminate|].
    destruct (IH0 Hr _ _ _ Hslot _ _ _ _ eq_refl Hid) as [-> Hnc]. split; [reflexivity|].
    intros how' o' Hin. apply in_snoc in Hin. destruct Hin as [Hin|Hin]; [exact (Hnc _ _ Hin)|].
    injection Hin as He _. subst ev. discriminate.
Qed.

(* ---------- the sequential theorems over reachable (state, trace) ---------- *)
Lemma r_single_one s tr : reach s tr ->
  forall k k' c a b, modes c = MSingle -> In (srv k c a) tr -> In (srv k' c b) tr -> a = b.
Proof.
  intros Hr k k' c a b Hm Ha Hb.
  pose proof (single_inv _ _ Hr _ _ _ Hm Ha). pose proof (single_inv _ _ Hr _ _ _ Hm Hb). congruence.
Qed.

Lemma r_creator_bijection s tr : reach s tr ->
  forall n c, (exists t e, nth_error (log s) n = Some (c, OMade t e)) <-> (exists k a, In (srv k c a) tr /\ iid a = n).
Proof.
  intros Hr n c. destruct (basic_inv _ _ Hr) as (B1 & B2 & B3 & B4). split.
  - intros (t & e & H). eauto.
  - intros (k & a & Hin & <-). destruct (B1 _ _ _ Hin) as (_ & H & _). eauto.
Qed.

Lemma r_single_created_once s tr : reach s tr ->
  forall c n1 n2 t1 e1 t2 e2, modes c = MSingle ->
  nth_error (log s) n1 = Some (c, OMade t1 e1) -> nth_error (log s) n2 = Some (c, OMade t2 e2) -> n1 = n2.
Proof.
  intros Hr c n1 n2 t1 e1 t2 e2 Hm H1 H2. destruct (basic_inv _ _ Hr) as (B1 & B2 & B3 & B4).
  destruct (B4 _ _ _ _ H1) as (k1 & a1 & Hin1 & <-). destruct (B4 _ _ _ _ H2) as (k2 & a2 & Hin2 & <-).
  rewrite (r_single_one _ _ Hr _ _ _ _ _ Hm Hin1 Hin2). reflexivity.
Qed.

Lemma r_session_private s tr : reach s tr ->
  forall t1 t2 t3 k k' c a b, tr = t1 ++ srv k c a :: t2 ++ srv k' c b :: t3 -> modes c = MSession ->
  (iid a = iid b <-> (k = k' /\ no_close k t2)) /\ (iid a = iid b -> a = b).
Proof.
  revert s tr.
  apply (reach_ind' (fun s tr => forall t1 t2 t3 k k' c a b, tr = t1 ++ srv k c a :: t2 ++ srv k' c b :: t3 ->
     modes c = MSession -> (iid a = iid b <-> (k = k' /\ no_close k t2)) /\ (iid a = iid b -> a = b))).
  - intros t1 t2 t3 k k' c a b H. destruct t1; discriminate.
  - intros s tr ev s' o Hr IH Hst t1 t2 t3 k0 k0' c0 a0 b0 Hdec Hm0.
    apply snoc_split2 in Hdec. destruct Hdec as [(-> & Hx & ->)|(t3' & -> & ->)]; [|eauto].
    inversion Hx; subst. clear Hx.
    destruct (basic_inv _ _ Hr) as (B1 & B2 & B3 & B4).
    inversion Hst as [ | k c a Hhit | k c t e s'' Hw Hl Hm | ]; subst.
    + (* hit *)
      destruct Hhit as [[H _]|[_ Hslot]]; [congruence|].
      assert (Himp : k0 = k0' /\ no_close k0 t2 -> a0 = b0).
      { intros [-> Hnc]. pose proof (session_live _ _ Hr _ _ _ _ _ eq_refl Hm0 Hnc). congruence. }
      split; [split|].
      * intros Hid. exact (session_owner _ _ Hr _ _ _ Hslot _ _ _ _ eq_refl Hid).
      * intros H. rewrite (Himp H). reflexivity.
      * intros Hid. apply Himp. exact (session_owner _ _ Hr _ _ _ Hslot _ _ _ _ eq_refl Hid).
    + (* new: a fresh identity *)
      assert (Hin : In (srv k0 c0 a0) (t1 ++ srv k0 c0 a0 :: t2)) by (apply in_or_app; right; left; reflexivity).
      destruct (B1 _ _ _ Hin) as (Hlt & _).
      assert (Hne : iid a0 <> iid (fresh s c0 t e)) by (cbn [fresh iid]; lia).
      split; [split|]; try (intros Hid; contradiction).
      intros [-> Hnc]. pose proof (session_live _ _ Hr _ _ _ _ _ eq_refl Hm0 Hnc) as Hl'.
      rewrite Hm0 in Hm. destruct Hm as (Hn & _). congruence.
  - intros s tr ev Hr IH Hadm t1 t2 t3 k0 k0' c0 a0 b0 Hdec Hm0.
    apply snoc_split2 in Hdec. destruct Hdec as [(-> & Hx & ->)|(t3' & -> & ->)]; [discriminate|eauto].
Qed.

Lemma r_percall_fresh s tr : reach s tr ->
  forall t1 t2 t3 k k' c a b, tr = t1 ++ srv k c a :: t2 ++ srv k' c b :: t3 -> modes c = MPercall ->
  iid a <> iid b.
Proof.
  revert s tr.
  apply (reach_ind' (fun s tr => forall t1 t2 t3 k k' c a b, tr = t1 ++ srv k c a :: t2 ++ srv k' c b :: t3 ->
     modes c = MPercall -> iid a <> iid b)).
  - intros t1 t2 t3 k k' c a b H. destruct t1; discriminate.
  - intros s tr ev s' o Hr IH Hst t1 t2 t3 k0 k0' c0 a0 b0 Hdec Hm0.
    apply snoc_split2 in Hdec. destruct Hdec as [(-> & Hx & ->)|(t3' & -> & ->)]; [|eauto].
    inversion Hx; subst. clear Hx.
    destruct (basic_inv _ _ Hr) as (B1 & B2 & B3 & B4).
    inversion Hst as [ | k c a Hhit | k c t e s'' Hw Hl Hm | ]; subst.
    + destruct Hhit as [[H _]|[H _]]; congruence.
    + assert (Hin : In (srv k0 c0 a0) (t1 ++ srv k0 c0 a0 :: t2)) by (apply in_or_app; right; left; reflexivity).
      destruct (B1 _ _ _ Hin) as (Hlt & _). cbn [fresh iid]. lia.
  - intros s tr ev Hr IH Hadm t1 t2 t3 k0 k0' c0 a0 b0 Hdec Hm0.
    apply snoc_split2 in Hdec. destruct Hdec as [(-> & Hx & ->)|(t3' & -> & ->)]; [discriminate|eauto].
Qed.

(* creator invocations are counted exactly: failures, and (percall) one per call *)
Lemma r_counts s tr : reach s tr ->
  forall c, failed_invocations c (log s) = failed_calls c tr /\
            (modes c = MPercall -> invocations c (log s) = calls_on c tr).
Proof.
  revert s tr.
  apply (reach_ind' (fun s tr => forall c, failed_invocations c (log s) = failed_calls c tr /\
            (modes c = MPercall -> invocations c (log s) = calls_on c tr))).
  - intros c. split; reflexivity.
  - intros s tr ev s' o Hr IH Hst c0. destruct (IH c0) as [IH1 IH2].
    unfold failed_invocations, failed_calls, invocations, calls_on in *.
    destruct Hst as [k how s' Hs1 Hs2 Hl | k c a Hhit | k c t e s' Hw Hl Hm | k c b s' Hw Hb Hl Hs1 Hs2 Hm].
    + rewrite Hl, !filter_snoc_len. cbn. split; [lia|intros H; rewrite IH2 by assumption; lia].
    + rewrite !filter_snoc_len. cbn [is_failed_call is_call]. split; [lia|]. intros H.
      destruct (Nat.eqb_spec c c0) as [->|Hne]; [|rewrite IH2 by assumption; lia].
      destruct Hhit as [[H' _]|[H' _]]; congruence.
    + rewrite Hl, !filter_snoc_len. cbn [is_failed_call is_call fst snd is_made negb]. rewrite andb_false_r.
      split; [lia|]. intros H. rewrite IH2 by assumption. reflexivity.
    + rewrite Hl, !filter_snoc_len. cbn [is_failed_call is_call fst snd]. rewrite Hw. cbn [negb]. rewrite andb_true_r.
      split; [lia|]. intros H. rewrite IH2 by assumption. reflexivity.
  - intros s tr ev Hr IH Hadm c0. destruct (IH c0) as [IH1 IH2].
    unfold failed_invocations, failed_calls, invocations, calls_on in *.
    rewrite !filter_snoc_len. destruct ev; cbn [is_failed_call is_call]; try discriminate.
    + split; [lia|intros H; rewrite IH2 by assumption; lia].
    + split; [lia|intros H; rewrite IH2 by assumption; lia].
Qed.
End Seq.

(* ---------- statements over histories ---------- *)
Section Hist.
Variable sh : shape.
Hypothesis Hok : shape_ok sh = true.
Variables (w : world) (modes : nat -> imode).
Notation St h := (fst (run_hist sh w modes h st0)).
Notation Tr h := (snd (run_hist sh w modes h st0)).

Theorem single_one_instance h c : modes c = MSingle ->
  (forall k k' a b, In (Call k c, Served a) (Tr h) -> In (Call k' c, Served b) (Tr h) -> a = b) /\
  (forall n1 n2 t1 e1 t2 e2, nth_error (log (St h)) n1 = Some (c, OMade t1 e1) ->
                             nth_error (log (St h)) n2 = Some (c, OMade t2 e2) -> n1 = n2).
Proof.
  intros Hm. pose proof (run_hist_reach sh w modes h) as Hr. split.
  - intros k k' a b. exact (r_single_one sh Hok w modes _ _ Hr k k' c a b Hm).
  - intros n1 n2 t1 e1 t2 e2. exact (r_single_created_once sh Hok w modes _ _ Hr c n1 n2 t1 e1 t2 e2 Hm).
Qed.

Theorem single_failing_creator s k c : modes c = MSingle ->
  (forall b, snd (step_ev sh w modes (Call k c) s) = Failed b ->
     singles s c = None /\ singles (fst (step_ev sh w modes (Call k c) s)) c = None) /\
  (singles s c = None ->
     log (fst (step_ev sh w modes (Call k c) s)) = log s ++ [(c, w (length (log s)) c)] /\
     snd (step_ev sh w modes (Call k c) s) = obs_of (length (log s)) c (w (length (log s)) c)).
Proof.
  intros Hm. destruct (ok_parts sh Hok) as (H1 & _).
  cbn [step_ev]. unfold get_instance. rewrite Hm. unfold get_single. rewrite H1.
  destruct (singles s c) as [a|] eqn:Hs; cbn [absent].
  - split; [intros b Hb; discriminate|intros; discriminate].
  - unfold create. destruct (w (length (log s)) c) eqn:Hw; cbn [obs_of fst snd store_single singles log].
    + split; [intros b _; split; [reflexivity|exact Hs]|intros _; split; reflexivity].
    + split; [intros b _; split; [reflexivity|exact Hs]|intros _; split; reflexivity].
    + split; [intros b Hb; discriminate|intros _; split; reflexivity].
Qed.

Theorem session_private h t1 t2 t3 k k' c a b :
  Tr h = t1 ++ (Call k c, Served a) :: t2 ++ (Call k' c, Served b) :: t3 -> modes c = MSession ->
  (iid a = iid b <-> (k = k' /\ forall how o, ~ In (Close k how, o) t2)) /\ (iid a = iid b -> a = b).
Proof.
  intros Hd Hm. exact (r_session_private sh Hok w modes _ _ (run_hist_reach sh w modes h) _ _ _ _ _ _ _ _ Hd Hm).
Qed.

Theorem session_dropped h k how c : sessions (St (h ++ [Close k how])) k c = None.
Proof.
  destruct (ok_parts sh Hok) as (_ & _ & _ & H4).
  rewrite run_hist_snoc. cbn [fst step_ev]. rewrite H4. cbn [sessions]. apply clear2_same.
Qed.

Theorem percall_fresh h c : modes c = MPercall ->
  (forall t1 t2 t3 k k' a b, Tr h = t1 ++ (Call k c, Served a) :: t2 ++ (Call k' c, Served b) :: t3 -> iid a <> iid b) /\
  invocations c (log (St h)) = calls_on c (Tr h).
Proof.
  intros Hm. pose proof (run_hist_reach sh w modes h) as Hr. split.
  - intros t1 t2 t3 k k' a b Hd. exact (r_percall_fresh sh Hok w modes _ _ Hr _ _ _ _ _ _ _ _ Hd Hm).
  - apply (r_counts sh Hok w modes _ _ Hr c). exact Hm.
Qed.

Theorem creator_exactly_once h c :
  (forall n, (exists t e, nth_error (log (St h)) n = Some (c, OMade t e)) <->
             (exists k a, In (Call k c, Served a) (Tr h) /\ iid a = n)) /\
  (forall k a, In (Call k c, Served a) (Tr h) -> icls a = c /\ w (iid a) c = OMade (itruthy a) (ieqnone a)) /\
  failed_invocations c (log (St h)) = failed_calls c (Tr h).
Proof.
  pose proof (run_hist_reach sh w modes h) as Hr. split; [|split].
  - intros n. exact (r_creator_bijection sh Hok w modes _ _ Hr n c).
  - intros k a Hin. destruct (basic_inv sh Hok w modes _ _ Hr) as (B1 & _).
    destruct (B1 _ _ _ Hin) as (_ & _ & H3 & H4). auto.
  - apply (r_counts sh Hok w modes _ _ Hr c).
Qed.
End Hist.

(* ---------- concurrent calls on 'single' classes ---------- *)
Section Conc.
Variable sh : shape.
Hypothesis Hok : shape_ok sh = true.
Variables (w : world) (modes : nat -> imode).

Lemma run_single_prog c s r :
  run_prog (single_prog sh w c) s r =
  (fst (get_single sh w c s), mk_regs (done r ++ [(c, snd (get_single sh w c s))]) false None).
Proof.
  unfold single_prog, get_single. cbn [run_prog]. unfold p_lookup.
  destruct (absent (single_test sh) (singles s c)) eqn:Ha.
  - cbn [pend run_prog]. unfold p_create, create.
    destruct (w (length (log s)) c) eqn:Hw; cbn [obs_of made run_prog fst snd]; try reflexivity.
  - destruct (singles s c) as [a|]; cbn [pend run_prog fst snd]; reflexivity.
Qed.

Definition single_todo (l : list nat) : list (unit_ st regs) := map (fun c => Locked (single_prog sh w c)) l.

Lemma todo_form l : flat_map (single_units sh w) l = single_todo l.
Proof.
  destruct (ok_parts sh Hok) as (_ & _ & H3 & _). unfold single_units. rewrite H3.
  apply flat_map_single.
Qed.

Lemma single_todo_locked l : all_locked_units (single_todo l) = true.
Proof. induction l as [|c l IH]; [reflexivity|]. cbn. exact IH. Qed.

Definition wf (cf : config st regs) : Prop :=
  owner cf = None /\
  forall i, cur (threads cf i) = None /\
            exists l, todo (threads cf i) = single_todo l /\ forall c, In c l -> modes c = MSingle.

Definition J (tr0 : trace) (cf : config st regs) : Prop :=
  wf cf /\ exists tr, reach sh w modes (shared cf) (tr0 ++ tr) /\
    forall i c o, In (c, o) (done (tregs (threads cf i))) -> exists k, In (Call k c, o) (tr0 ++ tr).

Lemma astep_J tr0 t cf : J tr0 cf -> J tr0 (astep t cf).
Proof.
  intros [(Ho & Hth) (tr & Hr & Hd)]. unfold astep.
  destruct (Hth t) as (Hc & l & Hl & Hml). rewrite Hl. destruct l as [|c l]; cbn [single_todo map].
  - split; [split; assumption|eauto].
  - rewrite run_single_prog.
    assert (Hstep : step_ev sh w modes (Call t c) (shared cf) = get_single sh w c (shared cf)).
    { cbn [step_ev]. unfold get_instance. rewrite (Hml c (or_introl eq_refl)). reflexivity. }
    split.
    + split; cbn [owner threads]; [assumption|]. intros i. destruct (Nat.eq_dec i t) as [->|Hi].
      * rewrite upd_same. cbn [cur todo]. split; [reflexivity|]. exists l. split; [reflexivity|].
        intros c0 Hin. apply Hml. right. assumption.
      * rewrite upd_other by assumption. apply Hth.
    + exists (tr ++ [(Call t c, snd (get_single sh w c (shared cf)))]). rewrite app_assoc. split.
      * pose proof (reachS sh w modes _ _ (Call t c) Hr) as Hr'. rewrite Hstep in Hr'. exact Hr'.
      * cbn [threads]. intros i c0 o0 Hin. destruct (Nat.eq_dec i t) as [->|Hi].
        -- rewrite upd_same in Hin. cbn [tregs done] in Hin. apply in_snoc in Hin. destruct Hin as [Hin|Hin].
           ++ destruct (Hd _ _ _ Hin) as [k Hk]. exists k. apply in_or_app; auto.
           ++ inversion Hin; subst. exists t. apply in_or_app. right. left. reflexivity.
        -- rewrite upd_other in Hin by assumption. destruct (Hd _ _ _ Hin) as [k Hk]. exists k. apply in_or_app; auto.
Qed.

Lemma arun_J tr0 l : forall cf, J tr0 cf -> J tr0 (arun l cf).
Proof.
  induction l as [|t l IH]; intros cf H; [exact H|]. cbn [arun fold_left]. apply IH. apply astep_J. exact H.
Qed.

Lemma conc_init_quiescent s0 calls : quiescent st regs (conc_init sh w s0 calls).
Proof.
  split; [reflexivity|]. split; [intros i; reflexivity|].
  intros i. cbn [conc_init threads conc_threads todo]. rewrite todo_form. apply single_todo_locked.
Qed.

Lemma conc_init_J h calls :
  (forall i c, In c (nth i calls []) -> modes c = MSingle) ->
  J (snd (run_hist sh w modes h st0)) (conc_init sh w (fst (run_hist sh w modes h st0)) calls).
Proof.
  intros Hcalls. split.
  - split; [reflexivity|]. intros i. split; [reflexivity|]. exists (nth i calls []).
    cbn [conc_init threads conc_threads todo]. rewrite todo_form. split; [reflexivity|apply Hcalls].
  - exists []. rewrite app_nil_r. split; [apply run_hist_reach|]. intros i c o [].
Qed.

(* whenever the lock is free, everything observed so far — the sequential history and the calls
   the concurrent threads have completed — is explained by ONE sequential history of the daemon *)
Lemma sched_explained h calls sched :
  (forall i c, In c (nth i calls []) -> modes c = MSingle) ->
  let tr0 := snd (run_hist sh w modes h st0) in
  let cf := run sched (conc_init sh w (fst (run_hist sh w modes h st0)) calls) in
  owner cf = None ->
  exists tr, reach sh w modes (shared cf) (tr0 ++ tr) /\
    forall i c o, In (c, o) (done (tregs (threads cf i))) -> exists k, In (Call k c, o) (tr0 ++ tr).
Proof.
  intros Hcalls tr0 cf Hfree.
  destruct (locked_ops_atomic st regs _ sched (conc_init_quiescent _ calls) Hfree) as [Hs Ht].
  pose proof (arun_J tr0 (lin sched (conc_init sh w (fst (run_hist sh w modes h st0)) calls)) _ (conc_init_J h calls Hcalls))
    as [_ (tr & Hr & Hd)].
  exists tr. fold cf in Hs, Ht. rewrite Hs. split; [exact Hr|].
  intros i c o Hin. rewrite Ht in Hin. eauto.
Qed.

Theorem single_one_instance_sched h calls sched :
  (forall i c, In c (nth i calls []) -> modes c = MSingle) ->
  let tr0 := snd (run_hist sh w modes h st0) in
  let cf := run sched (conc_init sh w (fst (run_hist sh w modes h st0)) calls) in
  owner cf = None ->
  forall c, modes c = MSingle ->
  (forall a b, served_in tr0 cf c a -> served_in tr0 cf c b -> a = b) /\
  (forall n1 n2 t1 e1 t2 e2, nth_error (log (shared cf)) n1 = Some (c, OMade t1 e1) ->
                             nth_error (log (shared cf)) n2 = Some (c, OMade t2 e2) -> n1 = n2) /\
  (forall a, served_in tr0 cf c a ->
             nth_error (log (shared cf)) (iid a) = Some (c, OMade (itruthy a) (ieqnone a)) /\ singles (shared cf) c = Some a).
Proof.
  intros Hcalls tr0 cf Hfree c Hm.
  destruct (sched_explained h calls sched Hcalls Hfree) as (tr & Hr & Hd). fold tr0 in Hr, Hd. fold cf in Hr, Hd.
  assert (Hin : forall a, served_in tr0 cf c a -> exists k, In (Call k c, Served a) (tr0 ++ tr)).
  { intros a [[k H]|[i H]]; [exists k; apply in_or_app; auto|eauto]. }
  split; [|split].
  - intros a b Ha Hb. destruct (Hin _ Ha) as [k Hka]. destruct (Hin _ Hb) as [k' Hkb].
    exact (r_single_one sh Hok w modes _ _ Hr _ _ _ _ _ Hm Hka Hkb).
  - intros n1 n2 t1 e1 t2 e2. exact (r_single_created_once sh Hok w modes _ _ Hr c n1 n2 t1 e1 t2 e2 Hm).
  - intros a Ha. destruct (Hin _ Ha) as [k Hka]. split.
    + destruct (basic_inv sh Hok w modes _ _ Hr) as (B1 & _). destruct (B1 _ _ _ Hka) as (_ & H & _). exact H.
    + exact (single_inv sh Hok w modes _ _ Hr _ _ _ Hm Hka).
Qed.
End Conc.

Lemma code_shape_of_bools a b c d e :
  shape_ok (mk_shape a b c d e) = ltest_is_none a && ltest_is_none b && c && d && e.
Proof. reflexivity. Qed.

(* ---------- the excluded shapes are really wrong ---------- *)
Lemma falsy_single_refuted :
  exists w modes h k k' c a b, modes c = MSingle /\
    In (Call k c, Served a) (snd (run_hist shape_falsy w modes h st0)) /\
    In (Call k' c, Served b) (snd (run_hist shape_falsy w modes h st0)) /\ a <> b.
Proof.
  exists (script_world [] (OMade false false)), (fun _ => MSingle), [Call 0 0; Call 1 0], 0, 1, 0,
         (mk_inst 0 0 false false), (mk_inst 1 0 false false).
  split; [reflexivity|]. split; [vm_compute; auto|]. split; [vm_compute; auto|discriminate].
Qed.

Lemma falsy_session_refuted :
  exists w modes h k c a b, modes c = MSession /\
    snd (run_hist shape_falsy w modes h st0) = [(Call k c, Served a); (Call k c, Served b)] /\ iid a <> iid b.
Proof.
  exists (script_world [] (OMade false false)), (fun _ => MSession), [Call 0 0; Call 0 0], 0, 0,
         (mk_inst 0 0 false false), (mk_inst 1 0 false false).
  split; [reflexivity|]. split; [vm_compute; reflexivity|cbn; discriminate].
Qed.

Lemma eq_none_single_refuted :
  exists w modes h k k' c a b, modes c = MSingle /\
    In (Call k c, Served a) (snd (run_hist shape_eqnone w modes h st0)) /\
    In (Call k' c, Served b) (snd (run_hist shape_eqnone w modes h st0)) /\ a <> b.
Proof.
  exists (script_world [] (OMade true true)), (fun _ => MSingle), [Call 0 0; Call 1 0], 0, 1, 0,
         (mk_inst 0 0 true true), (mk_inst 1 0 true true).
  split; [reflexivity|]. split; [vm_compute; auto|]. split; [vm_compute; auto|discriminate].
Qed.

Lemma unlocked_single_refuted :
  exists w calls sched a b,
    let cf := run sched (conc_init shape_unlocked w st0 calls) in
    owner cf = None /\ In (0, Served a) (done (tregs (threads cf 0))) /\
    In (0, Served b) (done (tregs (threads cf 1))) /\ a <> b.
Proof.
  exists (script_world [] (OMade true false)), [[0]; [0]], [0; 1; 0; 1; 0; 1],
         (mk_inst 0 0 true false), (mk_inst 1 0 true false).
  split; [reflexivity|]. split; [vm_compute; auto|]. split; [vm_compute; auto|discriminate].
Qed.

(* ---------- several daemons: each one behaves as if it were alone ---------- *)
Lemma run_hist_snoc' sh w modes h e s :
  run_hist sh w modes (h ++ [e]) s =
  (fst (step_ev sh w modes e (fst (run_hist sh w modes h s))),
   snd (run_hist sh w modes h s) ++ [(e, snd (step_ev sh w modes e (fst (run_hist sh w modes h s))))]).
Proof.
  unfold run_hist. rewrite fold_left_app. cbn [fold_left].
  destruct (step_ev sh w modes e _) as [s' o]. reflexivity.
Qed.

Theorem daemons_independent sh (w : nat -> world) modes (h : list (nat * event)) (d : nat) :
  mrun sh w modes h d = run_hist sh (w d) modes (proj d h) st0.
Proof.
  induction h as [|[d' e] h IH] using rev_ind; [reflexivity|].
  unfold mrun. rewrite fold_left_app. cbn [fold_left]. fold (mrun sh w modes h).
  unfold proj. rewrite filter_app, map_app. cbn [filter fst snd]. fold (proj d h).
  unfold mstep. cbn [fst snd].
  destruct (Nat.eqb_spec d' d) as [->|Hne].
  - rewrite Nat.eqb_refl. cbn [map]. rewrite run_hist_snoc'. rewrite IH. reflexivity.
  - destruct (Nat.eqb_spec d d') as [Heq|_]; [congruence|]. cbn [map]. rewrite app_nil_r. exact IH.
Qed.

Lemma single_per_daemon sh (Hok : shape_ok sh = true) (w : nat -> world) modes (h : list (nat * event)) (d c : nat) :
  modes c = MSingle ->
  (forall k k' a b, In (Call k c, Served a) (snd (mrun sh w modes h d)) ->
                    In (Call k' c, Served b) (snd (mrun sh w modes h d)) -> a = b) /\
  (forall k a, In (Call k c, Served a) (snd (mrun sh w modes h d)) ->
     nth_error (log (fst (mrun sh w modes h d))) (iid a) = Some (c, OMade (itruthy a) (ieqnone a)) /\
     w d (iid a) c = OMade (itruthy a) (ieqnone a)).
Proof.
  intros Hm. rewrite daemons_independent. split.
  - apply (single_one_instance sh Hok (w d) modes (proj d h) c Hm).
  - intros k a Hin. pose proof (run_hist_reach sh (w d) modes (proj d h)) as Hr.
    destruct (basic_inv sh Hok (w d) modes _ _ Hr) as (B1 & _).
    destruct (B1 _ _ _ Hin) as (_ & H2 & _ & H4). auto.
Qed.
