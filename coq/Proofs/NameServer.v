(* C14 — lemmas: generic facts about storage programs (failure points, atomicity), the
   NameServer class refines the specification over any correct storage, the memory and the
   sqlite storage are correct. *)
From Coq Require Import List NArith Arith Bool Lia Permutation.
Import ListNotations.
From V Require Import Model.Bytes Proofs.Bytes Model.NameServer.

(* ------------------------------------------------------------------ text, tag sets *)
Lemma text_eqb_eq a b : text_eqb a b = true <-> a = b.
Proof. apply bytes_eqb_eq. Qed.
Lemma text_eqb_refl a : text_eqb a a = true.
Proof. apply bytes_eqb_refl. Qed.
Lemma text_eqb_neq a b : text_eqb a b = false <-> a <> b.
Proof.
  split.
  - intros H E. subst. rewrite text_eqb_refl in H. discriminate.
  - intros H. destruct (text_eqb a b) eqn:E; [|reflexivity]. apply text_eqb_eq in E. contradiction.
Qed.
Lemma text_eqb_sym a b : text_eqb a b = text_eqb b a.
Proof.
  destruct (text_eqb a b) eqn:E.
  - apply text_eqb_eq in E. subst. symmetry. apply text_eqb_refl.
  - symmetry. apply text_eqb_neq. apply text_eqb_neq in E. congruence.
Qed.

Lemma tmem_In x l : tmem x l = true <-> In x l.
Proof.
  induction l as [|y l IH]; cbn.
  - split; [discriminate|tauto].
  - rewrite orb_true_iff, IH, text_eqb_eq. tauto.
Qed.
Lemma tmem_false x l : tmem x l = false <-> ~ In x l.
Proof. rewrite <- tmem_In. destruct (tmem x l); split; congruence. Qed.

Lemma dedup_In x l : In x (dedup l) <-> In x l.
Proof.
  induction l as [|y l IH]; cbn; [tauto|].
  destruct (tmem y l) eqn:E.
  - rewrite IH. apply tmem_In in E. split; [tauto|]. intros [->|H]; assumption.
  - cbn. rewrite IH. tauto.
Qed.
Lemma dedup_NoDup l : NoDup (dedup l).
Proof.
  induction l as [|y l IH]; cbn; [constructor|].
  destruct (tmem y l) eqn:E; [assumption|].
  constructor; [|assumption]. rewrite dedup_In. apply tmem_false. assumption.
Qed.
Lemma norm_meta_NoDup m : NoDup (norm_meta m).
Proof. destruct m; cbn; [apply dedup_NoDup|constructor]. Qed.

Lemma prefixb_spec p n : prefixb p n = true <-> exists r, n = p ++ r.
Proof.
  revert n; induction p as [|x p IH]; intros n; cbn.
  - split; [intros _; exists n; reflexivity|reflexivity].
  - destruct n as [|y n].
    + split; [discriminate|intros [r H]; discriminate].
    + rewrite andb_true_iff, N.eqb_eq, IH. split.
      * intros [-> [r ->]]. exists r. reflexivity.
      * intros [r H]. inversion H; subst. split; [reflexivity|exists r; reflexivity].
Qed.

Lemma subsetb_spec a b : subsetb a b = true <-> forall t, In t a -> In t b.
Proof.
  unfold subsetb. rewrite forallb_forall. split; intros H t Ht.
  - apply tmem_In. apply H. assumption.
  - apply tmem_In. apply H. assumption.
Qed.
Lemma meetsb_spec a b : meetsb a b = true <-> exists t, In t a /\ In t b.
Proof.
  unfold meetsb. rewrite existsb_exists. split; intros [t [H1 H2]]; exists t; split; try assumption; apply tmem_In; assumption.
Qed.

(* ------------------------------------------------------------------ finite maps *)
Notation keys d := (map fst d).

Lemma d_find_In n e (d : dict) : NoDup (keys d) -> In (n, e) d -> d_find n d = Some e.
Proof.
  induction d as [|[k v] d IH]; cbn; intros ND H; [tauto|].
  inversion ND as [|? ? Hk ND']; subst.
  destruct H as [H|H].
  - inversion H; subst. rewrite text_eqb_refl. reflexivity.
  - destruct (text_eqb k n) eqn:E.
    + apply text_eqb_eq in E. subst. exfalso. apply Hk. apply in_map_iff. exists (n, e). split; [reflexivity|assumption].
    + apply IH; assumption.
Qed.
Lemma d_find_Some n e (d : dict) : d_find n d = Some e -> In (n, e) d.
Proof.
  induction d as [|[k v] d IH]; cbn; [discriminate|].
  destruct (text_eqb k n) eqn:E.
  - intros H. inversion H; subst. apply text_eqb_eq in E. subst. left; reflexivity.
  - intros H. right. apply IH. assumption.
Qed.
Lemma d_find_None n (d : dict) : d_find n d = None <-> ~ In n (keys d).
Proof.
  induction d as [|[k v] d IH]; cbn; [tauto|].
  destruct (text_eqb k n) eqn:E.
  - apply text_eqb_eq in E. subst. split; [discriminate|tauto].
  - apply text_eqb_neq in E. rewrite IH. tauto.
Qed.
Lemma d_has_In n (d : dict) : d_has n d = true <-> In n (keys d).
Proof.
  unfold d_has. destruct (d_find n d) eqn:E.
  - split; [intros _|reflexivity]. apply d_find_Some in E. apply in_map_iff. exists (n, e). split; [reflexivity|assumption].
  - apply d_find_None in E. split; [discriminate|tauto].
Qed.

Lemma d_find_keep P n (d : dict) : d_find n (keep P d) = if P n then d_find n d else None.
Proof.
  unfold keep. induction d as [|[k v] d IH]; cbn; [destruct (P n); reflexivity|].
  destruct (P k) eqn:Pk; cbn; destruct (text_eqb k n) eqn:E.
  - apply text_eqb_eq in E. subst. rewrite Pk. reflexivity.
  - assumption.
  - apply text_eqb_eq in E. subst. rewrite Pk in IH |- *. assumption.
  - assumption.
Qed.
Lemma d_del_keep n d : d_del n d = keep (fun k => negb (text_eqb k n)) d.
Proof. reflexivity. Qed.
Lemma d_find_del n k d : d_find k (d_del n d) = if text_eqb k n then None else d_find k d.
Proof. rewrite d_del_keep, d_find_keep. destruct (text_eqb k n); reflexivity. Qed.
Lemma d_find_app k (a b : dict) : d_find k (a ++ b) = match d_find k a with Some e => Some e | None => d_find k b end.
Proof. induction a as [|[k' v] a IH]; cbn; [reflexivity|]. destruct (text_eqb k' k); [reflexivity|assumption]. Qed.
Lemma d_find_set n e k d : d_find k (d_set n e d) = if text_eqb k n then Some e else d_find k d.
Proof.
  unfold d_set. rewrite d_find_app, d_find_del. cbn. rewrite (text_eqb_sym n k).
  destruct (text_eqb k n); [reflexivity|]. destruct (d_find k d); reflexivity.
Qed.

Lemma keys_keep_incl P (d : dict) x : In x (keys (keep P d)) -> In x (keys d) /\ P x = true.
Proof.
  unfold keep. rewrite !in_map_iff. intros [kv [<- H]]. apply filter_In in H. destruct H as [H1 H2].
  split; [exists kv; tauto|assumption].
Qed.
Lemma keys_keep_NoDup P (d : dict) : NoDup (keys d) -> NoDup (keys (keep P d)).
Proof.
  unfold keep. induction d as [|[k v] d IH]; cbn; intros ND; [constructor|].
  inversion ND; subst. destruct (P k); cbn; [|auto].
  constructor; [|auto]. intros H. apply (keys_keep_incl P) in H. tauto.
Qed.

Lemma dict_ok_keep P d : dict_ok d -> dict_ok (keep P d).
Proof.
  intros [H1 H2]. split; [apply keys_keep_NoDup; assumption|].
  intros kv H. apply H2. unfold keep in H. apply filter_In in H. tauto.
Qed.
Lemma dict_ok_del n d : dict_ok d -> dict_ok (d_del n d).
Proof. rewrite d_del_keep. apply dict_ok_keep. Qed.
Lemma NoDup_app_snoc {A} (l : list A) x : NoDup l -> ~ In x l -> NoDup (l ++ [x]).
Proof.
  induction l as [|y l IH]; cbn; intros ND H.
  - constructor; [tauto|constructor].
  - inversion ND; subst. constructor.
    + rewrite in_app_iff. cbn. intros [H'|[H'|[]]]; [tauto|]. subst. tauto.
    + apply IH; tauto.
Qed.
Lemma dict_ok_set n u m d : dict_ok d -> NoDup m -> dict_ok (d_set n (u, m) d).
Proof.
  intros Hd Hm. pose proof (dict_ok_del n d Hd) as [H1 H2]. unfold d_set. split.
  - rewrite map_app. cbn. apply NoDup_app_snoc; [assumption|].
    intros H. rewrite d_del_keep in H. apply keys_keep_incl in H. destruct H as [_ H]. rewrite text_eqb_refl in H. discriminate.
  - intros kv H. apply in_app_or in H. destruct H as [H|[<-|[]]]; [apply H2; assumption|assumption].
Qed.

(* ------------------------------------------------------------------ storage programs *)
Section ProgFacts.
Variable St : Type.
Notation prog := (prog St).
Notation oprog := (oprog St).

Lemma run_none {A} (p : prog A) s : run p None s = Some (prog_state p s, None).
Proof.
  revert s. induction p as [a|B q k IH|B f k IH]; intros s; cbn.
  - reflexivity.
  - apply IH.
  - destruct (f s) as [b s']. apply IH.
Qed.

Lemma run_fuel_lt {A} (p : prog A) : forall k s, (k < nstmts p s)%nat -> run p (Some k) s = None.
Proof.
  induction p as [a|B q k0 IH|B f k0 IH]; intros k s H; cbn in *.
  - lia.
  - destruct k as [|k]; cbn; [reflexivity|]. apply IH. lia.
  - destruct k as [|k]; cbn; [reflexivity|]. destruct (f s) as [b s']. apply IH. lia.
Qed.
Lemma run_fuel_ge {A} (p : prog A) : forall k s, (nstmts p s <= k)%nat ->
  run p (Some k) s = Some (prog_state p s, Some (k - nstmts p s)%nat).
Proof.
  induction p as [a|B q k0 IH|B f k0 IH]; intros k s H; cbn in *.
  - rewrite Nat.sub_0_r. reflexivity.
  - destruct k as [|k]; [lia|]. cbn. rewrite IH by lia. reflexivity.
  - destruct (f s) as [b s']. destruct k as [|k]; [lia|]. cbn. rewrite IH by lia. reflexivity.
Qed.

Lemma orun_txn_none {A B} (p : prog B) (k : B -> oprog A) s :
  orun (OTxn p k) None s = orun (k (fst (prog_state p s))) None (snd (prog_state p s)).
Proof. cbn. rewrite run_none. destruct (prog_state p s). reflexivity. Qed.

Lemma orun_none_result {A} (o : oprog A) : forall s, exists s' a, orun o None s = (s', Some a, None).
Proof.
  induction o as [a|B p k IH]; intros s.
  - exists s, a. reflexivity.
  - rewrite orun_txn_none. apply IH.
Qed.

(* a failure point at or beyond the end of the operation changes nothing *)
Lemma orun_fuel_ge {A} (o : oprog A) : forall k s, (onstmts o s <= k)%nat ->
  orun o (Some k) s = (fst (fst (orun o None s)), snd (fst (orun o None s)), Some (k - onstmts o s)%nat).
Proof.
  induction o as [a|B p k0 IH]; intros k s H.
  - cbn. rewrite Nat.sub_0_r. reflexivity.
  - rewrite orun_txn_none. cbn [orun onstmts] in *. destruct (prog_state p s) as [b s'] eqn:E.
    rewrite run_fuel_ge by lia. rewrite E. cbn [fst snd]. rewrite IH by lia.
    replace (k - nstmts p s - onstmts (k0 b) s')%nat with (k - (nstmts p s + onstmts (k0 b) s'))%nat by lia.
    reflexivity.
Qed.

(* read-only transactions; operations whose only writing transaction is the last one *)
Fixpoint prog_ro {A} (p : prog A) : Prop :=
  match p with
  | Ret _ => True
  | Query _ k => forall b, prog_ro (k b)
  | Exec _ _ => False
  end.
Fixpoint atomic_shape {A} (o : oprog A) : Prop :=
  match o with
  | ORet _ => True
  | OTxn p k => (prog_ro p /\ forall b, atomic_shape (k b)) \/ (forall b, exists a, k b = ORet a)
  end.

Lemma prog_ro_state {A} (p : prog A) : prog_ro p -> forall s, snd (prog_state p s) = s.
Proof.
  induction p as [a|B q k IH|B f k IH]; cbn; intros H s.
  - reflexivity.
  - apply IH. apply H.
  - contradiction.
Qed.

(* a failure point inside the operation: the operation fails and the state is untouched *)
Lemma orun_fuel_lt {A} (o : oprog A) : atomic_shape o -> forall k s, (k < onstmts o s)%nat ->
  orun o (Some k) s = (s, None, None).
Proof.
  induction o as [a|B p k0 IH]; intros Sh k s H.
  - cbn in H. lia.
  - cbn [orun onstmts] in *. destruct (prog_state p s) as [b s'] eqn:E.
    destruct (Nat.lt_ge_cases k (nstmts p s)) as [L|G].
    + rewrite run_fuel_lt by assumption. reflexivity.
    + rewrite run_fuel_ge by assumption. rewrite E.
      destruct Sh as [[Ro Sh]|Last].
      * pose proof (prog_ro_state p Ro s) as Hs. rewrite E in Hs. cbn in Hs. subst s'.
        apply IH; [apply Sh|lia].
      * destruct (Last b) as [a Ha]. rewrite Ha in H. cbn in H. lia.
Qed.

Lemma atomic_shape_ret {A} (a : A) : atomic_shape (@ORet St A a).
Proof. exact I. Qed.
End ProgFacts.
Arguments prog_ro {St A} p.
Arguments atomic_shape {St A} o.

(* ------------------------------------------------------------------ list lemmas for the NameServer methods *)
Definition lookup_view (wm : bool) (d : dict) (n : text) : text * (text * option tagset) :=
  match d_find n d with
  | Some (u, m) => (n, (u, if wm then Some m else None))
  | None => (n, ([], None))
  end.

Lemma lookup_view_keep wm P (d l : dict) :
  (forall kv, In kv l -> d_find (fst kv) d = Some (snd kv)) ->
  map (lookup_view wm d) (filter P (keys l)) = view wm (keep P l).
Proof.
  unfold keep, view. induction l as [|[k [u m]] l IH]; cbn; intros H; [reflexivity|].
  destruct (P k); cbn.
  - pose proof (H (k, (u, m)) (or_introl eq_refl)) as Hk. cbn in Hk.
    unfold lookup_view at 1. rewrite Hk. unfold view1 at 1. cbn [fst snd].
    f_equal. apply IH. intros kv Hkv. apply H. right. assumption.
  - apply IH. intros kv Hkv. apply H. right. assumption.
Qed.
Lemma lookup_view_all wm P (d : dict) : NoDup (keys d) ->
  map (lookup_view wm d) (filter P (keys d)) = view wm (keep P d).
Proof. intros ND. apply lookup_view_keep. intros [k e] H. apply d_find_In; assumption. Qed.

Lemma keys_view wm (d : dict) : map fst (view wm d) = keys d.
Proof. unfold view. rewrite map_map. apply map_ext. intros [k [u m]]. reflexivity. Qed.

Lemma remove_first_filter ns (l : list text) : NoDup l ->
  remove_first ns l = filter (fun n => negb (text_eqb n ns)) l.
Proof.
  induction l as [|y l IH]; cbn; intros ND; [reflexivity|]. inversion ND as [|? ? Hy ND']; subst.
  destruct (text_eqb y ns) eqn:E; cbn.
  - apply text_eqb_eq in E. subst. symmetry. clear IH ND ND'.
    induction l as [|z l IH]; cbn; [reflexivity|]. destruct (text_eqb z ns) eqn:E; cbn.
    + apply text_eqb_eq in E. subst. exfalso. apply Hy. left. reflexivity.
    + f_equal. apply IH. intros H. apply Hy. right. assumption.
  - f_equal. apply IH. assumption.
Qed.

Lemma keys_keep P (d : dict) : keys (keep P d) = filter P (keys d).
Proof. unfold keep. induction d as [|[k v] d IH]; cbn; [reflexivity|]. destruct (P k); cbn; congruence. Qed.

Lemma items_victims ns P (d : dict) : NoDup (keys d) ->
  remove_first ns (keys (keep P d)) = keys (keep (victim ns P) d).
Proof.
  intros ND. rewrite remove_first_filter by (apply keys_keep_NoDup; assumption).
  rewrite !keys_keep. unfold victim. clear ND. induction (keys d) as [|k l IH]; cbn; [reflexivity|].
  destruct (P k); cbn; [|assumption]. destruct (text_eqb k ns); cbn; congruence.
Qed.

Lemma d_del_absent n (d : dict) : d_has n d = false -> d_del n d = d.
Proof.
  intros H. unfold d_del. induction d as [|[k v] d IH]; cbn; [reflexivity|].
  unfold d_has in H. cbn in H. destruct (text_eqb k n) eqn:E; [discriminate|]. cbn. f_equal. apply IH. assumption.
Qed.
Lemma mem_remove_items_filter items (d : dict) :
  mem_remove_items items d = keep (fun k => negb (tmem k items)) d.
Proof.
  unfold mem_remove_items. revert d. induction items as [|i items IH]; intros d; cbn.
  - unfold keep. induction d as [|kv d IHd]; cbn; [reflexivity|]. f_equal. assumption.
  - replace (if d_has i d then d_del i d else d) with (d_del i d)
      by (destruct (d_has i d) eqn:E; [reflexivity|apply d_del_absent; assumption]).
    rewrite IH. unfold keep, d_del. clear IH. induction d as [|[k v] d IHd]; cbn; [reflexivity|].
    rewrite (text_eqb_sym i k). destruct (text_eqb k i); cbn; [assumption|].
    destruct (tmem k items); cbn; [assumption|]. f_equal. assumption.
Qed.
Lemma remove_victims ns P (d : dict) :
  mem_remove_items (keys (keep (victim ns P) d)) d = keep (fun n => negb (victim ns P n)) d.
Proof.
  rewrite mem_remove_items_filter. unfold keep at 1 3. apply filter_ext_in. intros [k v] H. cbn. f_equal.
  destruct (victim ns P k) eqn:V.
  - apply tmem_In. rewrite keys_keep. apply filter_In. split; [|assumption]. apply in_map_iff. exists (k, v). tauto.
  - apply tmem_false. rewrite keys_keep. intros H'. apply filter_In in H'. destruct H' as [_ H']. congruence.
Qed.

Lemma yp_filter_view P wm (d : dict) : yp_filter P wm (view true d) = view wm (keep_tags P d).
Proof.
  unfold yp_filter, view, keep_tags. induction d as [|[k [u m]] d IH]; cbn; [reflexivity|].
  unfold tags_of at 1. cbn. destruct (P m); cbn; [|assumption]. f_equal. assumption.
Qed.

Lemma Nlen_map {A B} (f : A -> B) l : Nlen (map f l) = Nlen l.
Proof. unfold Nlen. rewrite map_length. reflexivity. Qed.

(* ------------------------------------------------------------------ NameServer over a correct storage refines the map *)
Section Refine.
Variable St : Type.
Variable ns : text.
Variable st : storage St.
Variable ab : St -> dict.             (* abstraction function *)
Variable I : St -> Prop.              (* storage invariant *)

Record storage_ok : Prop := {
  ok_dict : forall s, I s -> dict_ok (ab s);
  ok_contains : forall n s, I s -> prog_state (st_contains St st n) s = (d_has n (ab s), s);
  ok_getitem : forall n s, I s -> prog_state (st_getitem St st n) s = (d_find n (ab s), s);
  ok_setitem : forall n u m s, I s -> NoDup m ->
     I (snd (prog_state (st_setitem St st n u m) s)) /\
     ab (snd (prog_state (st_setitem St st n u m) s)) = d_set n (u, m) (ab s);
  ok_delitem : forall n s, I s ->
     I (snd (prog_state (st_delitem St st n) s)) /\ ab (snd (prog_state (st_delitem St st n) s)) = d_del n (ab s);
  ok_len : forall s, I s -> prog_state (st_len St st) s = (Nlen (ab s), s);
  ok_iter : forall s, I s -> prog_state (st_iter St st) s = (keys (ab s), s);
  ok_everything : forall wm s, I s -> prog_state (st_everything St st wm) s = (view wm (ab s), s);
  ok_remove_items : forall items s, I s ->
     I (snd (prog_state (st_remove_items St st items) s)) /\
     ab (snd (prog_state (st_remove_items St st items) s)) = mem_remove_items items (ab s);
  ok_opt_prefix : forall f, st_opt_prefix St st = Some f -> forall x p wm s, I s ->
     prog_state (f (x :: p) wm) s = (view wm (keep (prefixb (x :: p)) (ab s)), s);
  ok_opt_meta : forall f, st_opt_meta St st = Some f -> forall (all : bool) x tags wm s, I s ->
     prog_state (f all (x :: tags) wm) s =
     (view wm (keep_tags (if all then subsetb (x :: tags) else meetsb (x :: tags)) (ab s)), s)
}.

Hypothesis OK : storage_ok.

Ltac txn := rewrite orun_txn_none.

Lemma collect_ok s wm P k : I s -> forall names acc, (forall n, In n names -> In n (keys (ab s))) ->
  orun (collect st wm P names acc k) None s = orun (k (acc ++ map (lookup_view wm (ab s)) (filter P names))) None s.
Proof.
  intros Is. induction names as [|n names IH]; intros acc Hn; cbn [collect filter map].
  - rewrite app_nil_r. reflexivity.
  - destruct (P n) eqn:Pn.
    + txn. rewrite (ok_getitem OK) by assumption. cbn [fst snd].
      assert (Hin : In n (keys (ab s))) by (apply Hn; left; reflexivity).
      apply d_has_In in Hin. unfold d_has in Hin. cbn [map]. unfold lookup_view at 1.
      destruct (d_find n (ab s)) as [[u m]|] eqn:E; [|discriminate].
      rewrite IH by (intros; apply Hn; right; assumption). rewrite <- app_assoc. reflexivity.
    + apply IH. intros; apply Hn; right; assumption.
Qed.

Lemma collect_all s wm P k : I s ->
  orun (collect st wm P (keys (ab s)) [] k) None s = orun (k (view wm (keep P (ab s)))) None s.
Proof.
  intros Is. rewrite collect_ok by auto. cbn [app]. rewrite lookup_view_all; [reflexivity|].
  apply (ok_dict OK). assumption.
Qed.

(* what NameServer.list hands to its continuation, or the error it raises *)
Definition list_res (d : dict) (prefix : option text) (rx : option regex) (wm : bool) : rdict + out :=
  match nonempty prefix, rx_truthy rx with
  | Some _, Some _ => inr OValueError
  | Some p, None => inl (view wm (keep (prefixb p) d))
  | None, Some (Rx _ None) => inr (ONamingError NBadRegex)
  | None, Some (Rx _ (Some l)) => inl (view wm (keep (fun n => tmem n l) d))
  | None, None => inl (view wm d)
  end.

Lemma list_k_ok s prefix rx wm k : I s ->
  orun (list_k st prefix rx wm k) None s =
  match list_res (ab s) prefix rx wm with
  | inl d => orun (k d) None s
  | inr e => (s, Some e, None)
  end.
Proof.
  intros Is. unfold list_k, list_res.
  destruct (nonempty prefix) as [p|] eqn:Ep; destruct (rx_truthy rx) as [[src [l|]]|] eqn:Er; try reflexivity.
  - destruct p as [|x p]; [destruct prefix as [[|? ?]|]; discriminate|].
    destruct (st_opt_prefix St st) as [f|] eqn:Eo.
    + txn. rewrite (ok_opt_prefix OK f Eo) by assumption. reflexivity.
    + txn. rewrite (ok_iter OK) by assumption. cbn [fst snd]. apply collect_all. assumption.
  - txn. rewrite (ok_iter OK) by assumption. cbn [fst snd]. apply collect_all. assumption.
  - txn. rewrite (ok_everything OK) by assumption. reflexivity.
Qed.

Lemma remove_items_k_ok s P : I s ->
  exists s', orun (remove_items_k ns st (view false (keep P (ab s)))) None s
             = (s', Some (OCount (Nlen (keep (victim ns P) (ab s)))), None)
             /\ I s' /\ ab s' = keep (fun n => negb (victim ns P n)) (ab s).
Proof.
  intros Is. unfold remove_items_k. rewrite keys_view.
  rewrite items_victims by (apply (ok_dict OK); assumption).
  txn. cbn [orun].
  destruct (ok_remove_items OK (keys (keep (victim ns P) (ab s))) s Is) as [H1 H2].
  eexists. split; [|split; [exact H1|]].
  - rewrite Nlen_map. reflexivity.
  - rewrite H2. apply remove_victims.
Qed.

Definition by_filter (d : dict) (prefix : option text) (rx : option regex) : dict * out :=
  match remove_filter prefix rx with
  | FNone => (d, OCount 0)
  | FBadRegex => (d, ONamingError NBadRegex)
  | FPrefix p => spec_remove_by ns (prefixb p) d
  | FRegex l => spec_remove_by ns (fun n => tmem n l) d
  end.

Lemma remove_rest_ok s prefix rx : I s ->
  exists s', orun (remove_rest ns st prefix rx) None s = (s', Some (snd (by_filter (ab s) prefix rx)), None)
             /\ I s' /\ ab s' = fst (by_filter (ab s) prefix rx).
Proof.
  intros Is. unfold remove_rest, by_filter, remove_filter.
  destruct (nonempty prefix) as [p|] eqn:Ep.
  - rewrite list_k_ok by assumption. unfold list_res.
    assert (E : nonempty (Some p) = Some p) by (destruct prefix as [[|? ?]|]; inversion Ep; reflexivity).
    rewrite E. cbn [rx_truthy]. unfold spec_remove_by. cbn [fst snd]. apply remove_items_k_ok. assumption.
  - destruct (rx_truthy rx) as [[src [l|]]|] eqn:Er.
    + rewrite list_k_ok by assumption. unfold list_res. cbn [nonempty].
      assert (E : rx_truthy (Some (Rx src (Some l))) = Some (Rx src (Some l)))
        by (destruct rx as [[[|? ?] ?]|]; inversion Er; reflexivity).
      rewrite E. unfold spec_remove_by. cbn [fst snd]. apply remove_items_k_ok. assumption.
    + rewrite list_k_ok by assumption. unfold list_res. cbn [nonempty].
      assert (E : rx_truthy (Some (Rx src None)) = Some (Rx src None))
        by (destruct rx as [[[|? ?] ?]|]; inversion Er; reflexivity).
      rewrite E. exists s. cbn. auto.
    + exists s. cbn. auto.
Qed.

Lemma name_given_none name : name_given quirks_none name = name.
Proof. destruct name as [[|? ?]|]; reflexivity. Qed.

Theorem ns_step_refines s op : I s ->
  exists s', ns_step ns quirks_none st None s op = (s', snd (spec_step ns (ab s) op))
             /\ I s' /\ ab s' = fst (spec_step ns (ab s) op).
Proof.
  intros Is. unfold ns_step. destruct op as [n u safe meta|name prefix rx|n meta|n wm|prefix rx wm|all any wm|].
  - (* register *)
    cbn [ns_prog spec_step].
    pose proof (ok_setitem OK n u (norm_meta meta) s Is (norm_meta_NoDup meta)) as [H1 H2].
    destruct safe; cbn [andb].
    + txn. rewrite (ok_contains OK) by assumption. cbn [fst snd].
      destruct (d_has n (ab s)).
      * exists s. cbn. auto.
      * txn. cbn. eexists. split; [reflexivity|]. split; assumption.
    + txn. cbn. eexists. split; [reflexivity|]. split; assumption.
  - (* remove *)
    cbn [ns_prog spec_step]. rewrite name_given_none. fold (by_filter (ab s) prefix rx).
    destruct name as [n|].
    + txn. rewrite (ok_contains OK) by assumption. cbn [fst snd].
      destruct (d_has n (ab s) && negb (text_eqb n ns)).
      * txn. cbn. destruct (ok_delitem OK n s Is) as [H1 H2]. eexists. split; [reflexivity|]. split; assumption.
      * destruct (remove_rest_ok s prefix rx Is) as [s' [E [H1 H2]]]. rewrite E. exists s'. cbn. auto.
    + destruct (remove_rest_ok s prefix rx Is) as [s' [E [H1 H2]]]. rewrite E. exists s'. cbn. auto.
  - (* set_metadata *)
    cbn [ns_prog spec_step]. txn. rewrite (ok_getitem OK) by assumption. cbn [fst snd].
    destruct (d_find n (ab s)) as [[u m]|].
    + txn. cbn. destruct (ok_setitem OK n u (norm_meta meta) s Is (norm_meta_NoDup meta)) as [H1 H2].
      eexists. split; [reflexivity|]. split; assumption.
    + exists s. cbn. auto.
  - (* lookup *)
    cbn [ns_prog spec_step]. txn. rewrite (ok_getitem OK) by assumption. cbn [fst snd].
    destruct (d_find n (ab s)) as [[u m]|]; exists s; cbn; auto.
  - (* list *)
    cbn [ns_prog spec_step]. rewrite list_k_ok by assumption. unfold list_res.
    destruct (nonempty prefix) as [p|]; destruct (rx_truthy rx) as [[src [l|]]|]; exists s; cbn; auto.
  - (* yplookup *)
    cbn [ns_prog spec_step].
    destruct (nonempty all) as [a|] eqn:Ea; destruct (nonempty any) as [b|] eqn:Eb; try (exists s; cbn; auto; fail).
    + destruct a as [|x a]; [destruct all as [[|? ?]|]; discriminate|].
      destruct (st_opt_meta St st) as [f|] eqn:Eo.
      * txn. rewrite (ok_opt_meta OK f Eo true) by assumption. exists s. cbn. auto.
      * txn. rewrite (ok_everything OK) by assumption. cbn [fst snd orun]. rewrite yp_filter_view. exists s. cbn. auto.
    + destruct b as [|x b]; [destruct any as [[|? ?]|]; discriminate|].
      destruct (st_opt_meta St st) as [f|] eqn:Eo.
      * txn. rewrite (ok_opt_meta OK f Eo false) by assumption. exists s. cbn. auto.
      * txn. rewrite (ok_everything OK) by assumption. cbn [fst snd orun]. rewrite yp_filter_view. exists s. cbn. auto.
  - (* count *)
    cbn [ns_prog spec_step]. txn. rewrite (ok_len OK) by assumption. exists s. cbn. auto.
Qed.

Theorem ns_run_refines h : forall s, I s ->
  I (fst (ns_run ns quirks_none st s h)) /\
  ab (fst (ns_run ns quirks_none st s h)) = fst (spec_run ns (ab s) h) /\
  snd (ns_run ns quirks_none st s h) = snd (spec_run ns (ab s) h).
Proof.
  induction h as [|op h IH]; intros s Is; cbn [ns_run spec_run].
  - cbn. auto.
  - destruct (ns_step_refines s op Is) as [s1 [E [I1 A1]]]. rewrite E.
    destruct (spec_step ns (ab s) op) as [d1 o1] eqn:Es. cbn [fst snd] in *.
    specialize (IH s1 I1). rewrite A1 in IH.
    destruct (ns_run ns quirks_none st s1 h) as [s2 os]. destruct (spec_run ns d1 h) as [d2 os'].
    cbn [fst snd] in *. destruct IH as [H1 [H2 H3]]. subst. auto.
Qed.
End Refine.

(* ------------------------------------------------------------------ MemoryStorage is a correct storage *)
Lemma mem_storage_ok : storage_ok dict mem_storage (fun d => d) dict_ok.
Proof.
  constructor; try (intros; reflexivity); try (intros; discriminate).
  - auto.
  - intros n u m s Hs Hm. cbn. split; [apply dict_ok_set; assumption|reflexivity].
  - intros n s Hs. cbn. split; [apply dict_ok_del; assumption|reflexivity].
  - intros items s Hs. cbn. split; [|reflexivity]. rewrite mem_remove_items_filter. apply dict_ok_keep. assumption.
Qed.

(* ------------------------------------------------------------------ SqlStorage is a correct storage *)
Local Open Scope N_scope.

Lemma filter_map_comm {A B} (g : A -> B) (f : B -> bool) l :
  map g (filter (fun x => f (g x)) l) = filter f (map g l).
Proof. induction l as [|x l IH]; cbn; [reflexivity|]. destruct (f (g x)); cbn; congruence. Qed.
Lemma NoDup_map_filter {A B} (f : A -> B) P l : NoDup (map f l) -> NoDup (map f (filter P l)).
Proof.
  induction l as [|x l IH]; cbn; intros ND; [constructor|]. inversion ND; subst.
  destruct (P x); cbn; [|auto]. constructor; [|auto].
  intros H. apply in_map_iff in H. destruct H as [y [E H]]. apply filter_In in H.
  match goal with H' : ~ In (f x) _ |- _ => apply H' end. apply in_map_iff. exists y. tauto.
Qed.
Lemma NoDup_map_eq {A B} (f : A -> B) l a b : NoDup (map f l) -> In a l -> In b l -> f a = f b -> a = b.
Proof.
  induction l as [|x l IH]; cbn; intros ND Ha Hb E; [tauto|]. inversion ND as [|? ? Hx ND']; subst.
  destruct Ha as [->|Ha]; destruct Hb as [->|Hb]; try reflexivity.
  - exfalso. apply Hx. rewrite E. apply in_map. assumption.
  - exfalso. apply Hx. rewrite <- E. apply in_map. assumption.
  - apply IH; assumption.
Qed.
Lemma NoDup_app_disj {A} (a b : list A) : NoDup a -> NoDup b -> (forall x, In x a -> ~ In x b) -> NoDup (a ++ b).
Proof.
  induction a as [|x a IH]; cbn; intros Na Nb D; [assumption|]. inversion Na; subst. constructor.
  - rewrite in_app_iff. intros [H|H]; [tauto|]. apply (D x); [left; reflexivity|assumption].
  - apply IH; [assumption|assumption|]. intros y Hy. apply D. right. assumption.
Qed.

Definition abs_rows (t : tables) (rows : list nrow) : dict := map (abs_row t) rows.
Lemma keys_abs_rows t rows : keys (abs_rows t rows) = map row_name rows.
Proof. unfold abs_rows. rewrite map_map. reflexivity. Qed.

Lemma abs_find_rows t n rows :
  d_find n (abs_rows t rows) =
  option_map (fun r => (row_uri r, q_tags (row_id r) t)) (find (fun r => text_eqb (row_name r) n) rows).
Proof.
  induction rows as [|r rows IH]; cbn; [reflexivity|].
  destruct (text_eqb (row_name r) n); [reflexivity|assumption].
Qed.
Lemma abs_find t n : d_find n (abs t) = option_map (fun r => (row_uri r, q_tags (row_id r) t)) (q_row n t).
Proof. apply abs_find_rows. Qed.
Lemma abs_has t n : d_has n (abs t) = match q_row n t with Some _ => true | None => false end.
Proof. unfold d_has. rewrite abs_find. destruct (q_row n t); reflexivity. Qed.

Lemma with_tags_state rows : forall acc t,
  prog_state (with_tags rows acc) t =
  (acc ++ map (fun r => (row_name r, (row_uri r, Some (q_tags (row_id r) t)))) rows, t).
Proof.
  induction rows as [|r rows IH]; intros acc t; cbn.
  - rewrite app_nil_r. reflexivity.
  - rewrite IH. rewrite <- app_assoc. reflexivity.
Qed.
Lemma rows_answer_state wm rf t : prog_state (rows_answer wm rf) t = (view wm (abs_rows t (rf t)), t).
Proof.
  unfold rows_answer. cbn. destruct wm.
  - rewrite with_tags_state. cbn. unfold view, abs_rows. rewrite map_map. reflexivity.
  - cbn. unfold view, abs_rows. rewrite map_map. reflexivity.
Qed.

Lemma q_tags_NoDup i t : NoDup (t_meta t) -> NoDup (q_tags i t).
Proof.
  unfold q_tags. induction (t_meta t) as [|[j m] l IH]; cbn; intros ND; [constructor|]. inversion ND as [|? ? Hx ND']; subst.
  destruct (N.eqb_spec j i) as [->|Hne]; cbn; [|auto]. constructor; [|auto].
  intros H. apply in_map_iff in H. destruct H as [[j' m'] [E H]]. cbn in E. subst m'.
  apply filter_In in H. destruct H as [H1 H2]. cbn in H2. apply N.eqb_eq in H2. subst. contradiction.
Qed.

Lemma inv_dict_ok t : inv t -> dict_ok (abs t).
Proof.
  intros [H1 [H2 [H3 H4]]]. split.
  - unfold abs. fold (abs_rows t (t_names t)). rewrite keys_abs_rows. assumption.
  - intros kv H. unfold abs in H. apply in_map_iff in H. destruct H as [r [<- _]]. cbn. apply q_tags_NoDup. assumption.
Qed.

(* prefix and metadata queries *)
Lemma abs_rows_keep t P rows :
  abs_rows t (filter (fun r => P (row_name r)) rows) = keep P (abs_rows t rows).
Proof. unfold abs_rows, keep. apply (filter_map_comm (abs_row t) (fun kv => P (fst kv))). Qed.
Lemma abs_rows_keep_tags t P rows :
  abs_rows t (filter (fun r => P (q_tags (row_id r) t)) rows) = keep_tags P (abs_rows t rows).
Proof. unfold abs_rows, keep_tags. apply (filter_map_comm (abs_row t) (fun kv => P (snd (snd kv)))). Qed.

Lemma hits_tags tags i t : hits tags i t = Nlen (filter (fun m => tmem m tags) (q_tags i t)).
Proof.
  unfold hits, q_tags, Nlen. f_equal. induction (t_meta t) as [|[j m] l IH]; cbn; [reflexivity|].
  destruct (j =? i); cbn; [|assumption]. destruct (tmem m tags); cbn; congruence.
Qed.

Lemma filter_length_le {A} (f : A -> bool) l : (length (filter f l) <= length l)%nat.
Proof. induction l as [|x l IH]; cbn; [lia|]. destruct (f x); cbn; lia. Qed.
Lemma filter_length_all {A} (f : A -> bool) l : length (filter f l) = length l <-> forall x, In x l -> f x = true.
Proof.
  induction l as [|x l IH]; cbn; [tauto|]. destruct (f x) eqn:E; cbn.
  - split.
    + intros H y [->|Hy]; [assumption|]. apply IH; [lia|assumption].
    + intros H. f_equal. apply IH. auto.
  - pose proof (filter_length_le f l) as Hle. split; [lia|]. intros H. rewrite (H x) in E by tauto. discriminate.
Qed.

Lemma inter_count (T G : list text) : NoDup T ->
  length (filter (fun m => tmem m G) T) = length (filter (fun g => tmem g T) (dedup G)).
Proof.
  intros NT. apply Permutation_length. apply NoDup_Permutation.
  - apply NoDup_filter. assumption.
  - apply NoDup_filter. apply dedup_NoDup.
  - intros x. rewrite !filter_In, dedup_In, !tmem_In. tauto.
Qed.

Lemma meta_all_subset tags T : NoDup T -> tags <> [] ->
  (let h := Nlen (filter (fun m => tmem m tags) T) in (0 <? h) && (h =? Nlen (dedup tags))) = subsetb tags T.
Proof.
  intros NT Hne. cbn zeta. unfold Nlen. rewrite inter_count by assumption.
  destruct (subsetb tags T) eqn:E.
  - assert (H : length (filter (fun g => tmem g T) (dedup tags)) = length (dedup tags)).
    { apply filter_length_all. intros x Hx. apply tmem_In. rewrite subsetb_spec in E. apply E. apply dedup_In. assumption. }
    rewrite H. rewrite N.eqb_refl, andb_true_r. apply N.ltb_lt.
    destruct tags as [|x tags]; [congruence|].
    assert (In x (dedup (x :: tags))) by (apply dedup_In; left; reflexivity).
    destruct (dedup (x :: tags)); cbn in *; [tauto|lia].
  - apply andb_false_iff. right. apply N.eqb_neq. intros H. apply Nat2N.inj in H.
    pose proof (proj1 (filter_length_all _ _) H) as H'. assert (subsetb tags T = true); [|congruence].
    apply subsetb_spec. intros x Hx. apply tmem_In. apply H'. apply dedup_In. assumption.
Qed.
Lemma meta_any_meets tags T :
  (0 <? Nlen (filter (fun m => tmem m tags) T)) = meetsb tags T.
Proof.
  destruct (meetsb tags T) eqn:E.
  - apply meetsb_spec in E. destruct E as [x [H1 H2]]. apply N.ltb_lt.
    assert (In x (filter (fun m => tmem m tags) T)) by (apply filter_In; split; [assumption|apply tmem_In; assumption]).
    unfold Nlen. destruct (filter (fun m => tmem m tags) T); cbn in *; [tauto|lia].
  - apply N.ltb_ge. unfold Nlen. destruct (filter (fun m => tmem m tags) T) as [|x l] eqn:F; [cbn; lia|].
    assert (Hx : In x (filter (fun m => tmem m tags) T)) by (rewrite F; left; reflexivity).
    apply filter_In in Hx. destruct Hx as [H1 H2]. apply tmem_In in H2.
    assert (meetsb tags T = true) by (apply meetsb_spec; exists x; tauto). congruence.
Qed.

(* effects of the writing statements *)
Definition t_del (i : N) (t : tables) : tables := snd (e_del_name i (snd (e_del_meta i t))).
Definition t_ins (n u : text) (ms : list text) (t : tables) : tables :=
  let i := max_id (t_names t) + 1 in
  {| t_names := t_names t ++ [(i, n, u)]; t_meta := t_meta t ++ map (pair i) ms |}.

Lemma del_by_id_state {A} i (k : prog tables A) t : prog_state (del_by_id i k) t = prog_state k (t_del i t).
Proof. reflexivity. Qed.
Lemma ins_tags_state {A} i ms (k : prog tables A) : forall t,
  prog_state (ins_tags i ms k) t = prog_state k {| t_names := t_names t; t_meta := t_meta t ++ map (pair i) ms |}.
Proof.
  induction ms as [|m ms IH]; intros t; cbn.
  - rewrite app_nil_r. destruct t; reflexivity.
  - rewrite IH. cbn. rewrite <- app_assoc. reflexivity.
Qed.

Lemma max_id_ge r l : In r l -> row_id r <= max_id l.
Proof.
  induction l as [|x l IH]; cbn; intros H; [tauto|]. destruct H as [->|H]; [apply N.le_max_l|].
  specialize (IH H). etransitivity; [exact IH|apply N.le_max_r].
Qed.

Lemma q_row_Some n t r : q_row n t = Some r -> In r (t_names t) /\ row_name r = n.
Proof. unfold q_row. intros H. apply find_some in H. rewrite text_eqb_eq in H. assumption. Qed.
Lemma q_row_None n t : q_row n t = None -> ~ In n (map row_name (t_names t)).
Proof.
  unfold q_row. intros H Hin. apply in_map_iff in Hin. destruct Hin as [r [E Hr]].
  pose proof (find_none _ _ H r Hr) as F. cbn in F. rewrite E, text_eqb_refl in F. discriminate.
Qed.

Lemma t_del_ok n t r : inv t -> q_row n t = Some r ->
  inv (t_del (row_id r) t) /\ abs (t_del (row_id r) t) = d_del n (abs t).
Proof.
  intros [H1 [H2 [H3 H4]]] Hq. apply q_row_Some in Hq. destruct Hq as [Hr Hn].
  set (i := row_id r).
  assert (Hiff : forall x, In x (t_names t) -> negb (row_id x =? i) = negb (text_eqb (row_name x) n)).
  { intros x Hx. f_equal. destruct (N.eqb_spec (row_id x) i) as [E|E].
    - assert (x = r) by (apply (NoDup_map_eq row_id (t_names t)); assumption). subst. symmetry. apply text_eqb_refl.
    - symmetry. apply text_eqb_neq. intros E'. apply E.
      assert (x = r) by (apply (NoDup_map_eq row_name (t_names t)); congruence). subst. reflexivity. }
  unfold t_del. cbn. split; [split; [|split; [|split]]|]; cbn.
  - apply NoDup_map_filter. assumption.
  - apply NoDup_map_filter. assumption.
  - intros mr Hm. apply filter_In in Hm. destruct Hm as [Hm Hne]. apply negb_true_iff, N.eqb_neq in Hne.
    specialize (H3 mr Hm). apply in_map_iff in H3. destruct H3 as [x [E Hx]].
    apply in_map_iff. exists x. split; [assumption|]. apply filter_In. split; [assumption|].
    apply negb_true_iff, N.eqb_neq. congruence.
  - apply NoDup_filter. assumption.
  - unfold abs. cbn. rewrite (filter_ext_in _ _ _ Hiff).
    unfold d_del. rewrite <- (filter_map_comm (abs_row t) (fun kv => negb (text_eqb (fst kv) n))). cbn.
    apply map_ext_in. intros x Hx. apply filter_In in Hx. destruct Hx as [Hx Hne].
    unfold abs_row. f_equal. f_equal. unfold q_tags. cbn. f_equal.
    rewrite <- Hiff in Hne by assumption. apply negb_true_iff, N.eqb_neq in Hne. clear H3 H4.
    induction (t_meta t) as [|[j m] l IH]; cbn; [reflexivity|].
    destruct (N.eqb_spec j i) as [->|Hj]; cbn.
    + destruct (N.eqb_spec i (row_id x)); [congruence|assumption].
    + destruct (j =? row_id x); [f_equal|]; assumption.
Qed.

Lemma t_ins_ok n u ms t : inv t -> ~ In n (map row_name (t_names t)) -> NoDup ms ->
  inv (t_ins n u ms t) /\ abs (t_ins n u ms t) = abs t ++ [(n, (u, ms))].
Proof.
  intros [H1 [H2 [H3 H4]]] Hn Hms. unfold t_ins. set (i := max_id (t_names t) + 1).
  assert (Hi : ~ In i (map row_id (t_names t))).
  { intros H. apply in_map_iff in H. destruct H as [x [E Hx]]. apply max_id_ge in Hx. subst i. lia. }
  assert (Hold : forall j, In j (map row_id (t_names t)) ->
            filter (fun mr : N * text => fst mr =? j) (map (pair i) ms) = []).
  { intros j Hj. induction ms as [|m ms' IH]; cbn; [reflexivity|].
    destruct (N.eqb_spec i j) as [E|E]; [subst; contradiction|]. apply IH. inversion Hms; assumption. }
  split; [split; [|split; [|split]]|]; cbn.
  - rewrite map_app. cbn. apply NoDup_app_snoc; assumption.
  - rewrite map_app. cbn. apply NoDup_app_snoc; assumption.
  - intros mr Hm. rewrite map_app, in_app_iff. apply in_app_or in Hm. destruct Hm as [Hm|Hm].
    + left. apply H3. assumption.
    + right. apply in_map_iff in Hm. destruct Hm as [m [<- _]]. cbn. tauto.
  - apply NoDup_app_disj; [assumption| |].
    + clear Hold. induction ms as [|m ms' IH]; cbn; [constructor|]. inversion Hms; subst. constructor; [|auto].
      intros H. apply in_map_iff in H. destruct H as [m' [E H]]. inversion E; subst. contradiction.
    + intros mr Hm Hm'. apply in_map_iff in Hm'. destruct Hm' as [m [<- _]]. apply H3 in Hm. cbn in Hm. contradiction.
  - unfold abs. cbn. rewrite map_app. cbn. f_equal.
    + apply map_ext_in. intros x Hx. unfold abs_row. f_equal. f_equal. unfold q_tags. cbn.
      rewrite filter_app, map_app. rewrite Hold by (apply in_map; assumption). cbn. rewrite app_nil_r. reflexivity.
    + unfold abs_row. cbn. f_equal. f_equal. f_equal. unfold q_tags. cbn. rewrite filter_app, map_app.
      replace (filter (fun mr : N * text => fst mr =? i) (t_meta t)) with (@nil (N * text)).
      * cbn. clear. induction ms as [|m ms IH]; cbn; [reflexivity|]. rewrite N.eqb_refl. cbn. f_equal. assumption.
      * symmetry. clear Hold. induction (t_meta t) as [|[j m] l IH]; cbn; [reflexivity|].
        destruct (N.eqb_spec j i) as [->|E].
        -- exfalso. apply Hi. apply (H3 (i, m)). left. reflexivity.
        -- apply IH; [|inversion H4; assumption]. intros mr Hm. apply H3. right. assumption.
Qed.

Lemma names_abs t : map row_name (t_names t) = keys (abs t).
Proof. unfold abs. rewrite map_map. reflexivity. Qed.

Lemma sql_setitem_state n u ms t : inv t -> NoDup ms ->
  inv (snd (prog_state (sql_setitem n u ms) t)) /\ abs (snd (prog_state (sql_setitem n u ms) t)) = d_set n (u, ms) (abs t).
Proof.
  intros Hi Hms. unfold sql_setitem, nop. cbn [prog_state]. unfold q_id.
  destruct (q_row n t) as [r|] eqn:Hq; cbn [option_map].
  - rewrite del_by_id_state. cbn [prog_state]. unfold e_ins_name.
    rewrite ins_tags_state. cbn [prog_state snd t_names t_meta].
    destruct (t_del_ok n t r Hi Hq) as [Hi' Ha'].
    assert (Hn : ~ In n (map row_name (t_names (t_del (row_id r) t)))).
    { rewrite names_abs, Ha'. rewrite d_del_keep. intros H. apply keys_keep_incl in H. destruct H as [_ H].
      rewrite text_eqb_refl in H. discriminate. }
    destruct (t_ins_ok n u ms _ Hi' Hn Hms) as [Hi2 Ha2]. unfold t_ins in *. split; [assumption|].
    rewrite Ha2, Ha'. reflexivity.
  - cbn [prog_state]. unfold e_ins_name. rewrite ins_tags_state. cbn [prog_state snd t_names t_meta].
    pose proof (q_row_None n t Hq) as Hn.
    destruct (t_ins_ok n u ms t Hi Hn Hms) as [Hi2 Ha2]. unfold t_ins in *. split; [assumption|].
    rewrite Ha2. unfold d_set. rewrite d_del_absent; [reflexivity|]. rewrite abs_has, Hq. reflexivity.
Qed.

Lemma sql_delitem_state n t : inv t ->
  inv (snd (prog_state (sql_delitem n) t)) /\ abs (snd (prog_state (sql_delitem n) t)) = d_del n (abs t).
Proof.
  intros Hi. unfold sql_delitem, nop. cbn [prog_state]. unfold q_id.
  destruct (q_row n t) as [r|] eqn:Hq; cbn [option_map].
  - rewrite del_by_id_state. cbn [prog_state snd]. apply t_del_ok; assumption.
  - cbn. split; [assumption|]. rewrite d_del_absent; [reflexivity|]. rewrite abs_has, Hq. reflexivity.
Qed.

Definition sql_remove_eff (items : list text) (t : tables) : tables :=
  fold_left (fun t n => match q_row n t with Some r => t_del (row_id r) t | None => t end) items t.
Lemma sql_remove_loop_state items (k : prog tables unit) : forall t,
  prog_state (sql_remove_loop items k) t = prog_state k (sql_remove_eff items t).
Proof.
  induction items as [|n items IH]; intros t; cbn [sql_remove_loop sql_remove_eff fold_left prog_state]; [reflexivity|].
  unfold q_id. destruct (q_row n t) as [r|]; cbn [option_map].
  - rewrite del_by_id_state. apply IH.
  - apply IH.
Qed.
Lemma sql_remove_eff_ok items : forall t, inv t ->
  inv (sql_remove_eff items t) /\ abs (sql_remove_eff items t) = mem_remove_items items (abs t).
Proof.
  unfold sql_remove_eff, mem_remove_items.
  induction items as [|n items IH]; intros t Hi; cbn [fold_left]; [auto|].
  rewrite abs_has. destruct (q_row n t) as [r|] eqn:Hq.
  - destruct (t_del_ok n t r Hi Hq) as [Hi' Ha']. destruct (IH _ Hi') as [H1 H2]. rewrite Ha' in H2. auto.
  - apply IH. assumption.
Qed.

Lemma q_prefix_none p t : q_prefix quirks_none p t = filter (fun r => prefixb p (row_name r)) (t_names t).
Proof. reflexivity. Qed.

Lemma sql_storage_ok : storage_ok tables (sql_storage quirks_none) abs inv.
Proof.
  constructor.
  - apply inv_dict_ok.
  - intros n s Hs. cbn. rewrite abs_has. reflexivity.
  - intros n s Hs. cbn. rewrite abs_find. unfold sql_getitem. cbn. destruct (q_row n s); reflexivity.
  - intros n u m s Hs Hm. apply sql_setitem_state; assumption.
  - intros n s Hs. apply sql_delitem_state; assumption.
  - intros s Hs. cbn. unfold abs. rewrite Nlen_map. reflexivity.
  - intros s Hs. cbn. rewrite names_abs. reflexivity.
  - intros wm s Hs. cbn [st_everything sql_storage]. rewrite rows_answer_state. reflexivity.
  - intros items s Hs. cbn [st_remove_items sql_storage]. unfold sql_remove_items, nop. cbn [prog_state].
    rewrite sql_remove_loop_state. cbn [prog_state snd]. apply sql_remove_eff_ok. assumption.
  - intros f Hf x p wm s Hs. cbn in Hf. inversion Hf; subst. rewrite rows_answer_state. rewrite q_prefix_none.
    rewrite abs_rows_keep. reflexivity.
  - intros f Hf all x tags wm s Hs. cbn in Hf. inversion Hf; subst. rewrite rows_answer_state.
    change (abs s) with (abs_rows s (t_names s)).
    f_equal. f_equal. unfold q_meta. cbn [q_sql_meta_all_dups quirks_none].
    destruct Hs as [H1 [H2 [H3 H4]]].
    destruct all.
    + rewrite <- abs_rows_keep_tags. f_equal. apply filter_ext. intros r. rewrite hits_tags.
      apply (meta_all_subset (x :: tags) (q_tags (row_id r) s)); [apply q_tags_NoDup; assumption|discriminate].
    + rewrite <- abs_rows_keep_tags. f_equal. apply filter_ext. intros r. rewrite hits_tags. apply meta_any_meets.
Qed.

(* ------------------------------------------------------------------ the two back-ends refine the map *)
Lemma mem_step_spec ns s op : dict_ok s ->
  mem_step ns quirks_none s op = spec_step ns s op /\ dict_ok (fst (spec_step ns s op)).
Proof.
  intros Hs. destruct (ns_step_refines dict ns mem_storage (fun d => d) dict_ok mem_storage_ok s op Hs) as [s' [E [H1 H2]]].
  unfold mem_step. rewrite E. subst s'. split; [|assumption]. destruct (spec_step ns s op); reflexivity.
Qed.

Lemma mem_run_spec ns h : forall s, dict_ok s ->
  mem_run ns quirks_none s h = spec_run ns s h /\ dict_ok (fst (spec_run ns s h)).
Proof.
  intros s Hs. pose proof (ns_run_refines dict ns mem_storage (fun d => d) dict_ok mem_storage_ok h s Hs) as [H1 [H2 H3]].
  unfold mem_run. split.
  - destruct (ns_run ns quirks_none mem_storage s h); destruct (spec_run ns s h); cbn in *; congruence.
  - rewrite <- H2. assumption.
Qed.

Lemma sql_step_spec ns t op : inv t ->
  inv (fst (sql_step ns quirks_none None t op)) /\
  abs (fst (sql_step ns quirks_none None t op)) = fst (spec_step ns (abs t) op) /\
  snd (sql_step ns quirks_none None t op) = snd (spec_step ns (abs t) op).
Proof.
  intros Ht. destruct (ns_step_refines tables ns (sql_storage quirks_none) abs inv sql_storage_ok t op Ht) as [s' [E [H1 H2]]].
  unfold sql_step. rewrite E. cbn. auto.
Qed.

Lemma sql_run_spec ns h t : inv t ->
  inv (fst (sql_run ns quirks_none t h)) /\
  abs (fst (sql_run ns quirks_none t h)) = fst (spec_run ns (abs t) h) /\
  snd (sql_run ns quirks_none t h) = snd (spec_run ns (abs t) h).
Proof. intros Ht. apply (ns_run_refines tables ns (sql_storage quirks_none) abs inv sql_storage_ok h t Ht). Qed.

Lemma backends_same ns h t : inv t ->
  snd (mem_run ns quirks_none (abs t) h) = snd (sql_run ns quirks_none t h) /\
  fst (mem_run ns quirks_none (abs t) h) = abs (fst (sql_run ns quirks_none t h)).
Proof.
  intros Ht. destruct (sql_run_spec ns h t Ht) as [_ [H2 H3]].
  destruct (mem_run_spec ns h (abs t) (inv_dict_ok t Ht)) as [E _]. rewrite E. split; congruence.
Qed.

Lemma inv_empty : inv tables_empty.
Proof. repeat split; cbn; try constructor. intros mr []. Qed.
Lemma dict_ok_empty : dict_ok [].
Proof. split; [constructor|intros kv []]. Qed.

(* ------------------------------------------------------------------ what the map guarantees *)
Lemma d_has_keep P n (d : dict) : d_has n (keep P d) = d_has n d && P n.
Proof. unfold d_has. rewrite d_find_keep. destruct (P n); destruct (d_find n d); reflexivity. Qed.
Lemma d_has_set n e k d : d_has k (d_set n e d) = text_eqb k n || d_has k d.
Proof. unfold d_has. rewrite d_find_set. destruct (text_eqb k n); reflexivity. Qed.

Lemma spec_ns_entry_kept ns s op : d_has ns s = true -> d_has ns (fst (spec_step ns s op)) = true.
Proof.
  intros H. destruct op as [n u safe meta|name prefix rx|n meta|n wm|prefix rx wm|all any wm|]; cbn [spec_step].
  - destruct (safe && d_has n s); cbn; [assumption|]. rewrite d_has_set, H. apply orb_true_r.
  - assert (F : forall P, d_has ns (fst (spec_remove_by ns P s)) = true).
    { intros P. unfold spec_remove_by. cbn. rewrite d_has_keep, H. unfold victim. rewrite text_eqb_refl. cbn.
      rewrite andb_false_r. reflexivity. }
    assert (G : d_has ns (fst (match remove_filter prefix rx with
                               | FNone => (s, OCount 0%N) | FBadRegex => (s, ONamingError NBadRegex)
                               | FPrefix p => spec_remove_by ns (prefixb p) s
                               | FRegex l => spec_remove_by ns (fun n => tmem n l) s end)) = true).
    { destruct (remove_filter prefix rx); auto. }
    destruct name as [n|]; [|assumption].
    destruct (d_has n s && negb (text_eqb n ns)) eqn:E; [|assumption]. cbn.
    rewrite d_del_keep, d_has_keep, H. cbn. apply andb_true_iff in E. destruct E as [_ E].
    rewrite text_eqb_sym. assumption.
  - destruct (d_find n s) as [[u m]|]; cbn; [|assumption]. rewrite d_has_set, H. apply orb_true_r.
  - destruct (d_find n s) as [[u m]|]; assumption.
  - destruct (nonempty prefix) as [p|]; destruct (rx_truthy rx) as [[src [l|]]|]; assumption.
  - destruct (nonempty all); destruct (nonempty any); assumption.
  - assumption.
Qed.

Lemma spec_run_ns_entry_kept ns h : forall s, d_has ns s = true -> d_has ns (fst (spec_run ns s h)) = true.
Proof.
  induction h as [|op h IH]; intros s H; cbn [spec_run]; [assumption|].
  pose proof (spec_ns_entry_kept ns s op H) as H1. destruct (spec_step ns s op) as [s1 o]. cbn in H1.
  specialize (IH s1 H1). destruct (spec_run ns s1 h). assumption.
Qed.

Lemma filter_partition_length {A} (f : A -> bool) l :
  (length (filter f l) + length (filter (fun x => negb (f x)) l) = length l)%nat.
Proof. induction l as [|x l IH]; cbn; [reflexivity|]. destruct (f x); cbn; lia. Qed.

Lemma d_del_length n (d : dict) : NoDup (keys d) -> d_has n d = true -> (length (d_del n d) + 1 = length d)%nat.
Proof.
  unfold d_del, d_has. induction d as [|[k v] d IH]; cbn; intros ND H; [discriminate|]. inversion ND as [|? ? Hk ND']; subst.
  destruct (text_eqb k n) eqn:E; cbn.
  - apply text_eqb_eq in E. subst.
    assert (F : filter (fun kv : text * entry => negb (text_eqb (fst kv) n)) d = d).
    { apply d_del_absent. unfold d_has. destruct (d_find n d) eqn:F; [|reflexivity].
      apply d_find_Some in F. exfalso. apply Hk. apply in_map_iff. exists (n, e). tauto. }
    rewrite F. lia.
  - specialize (IH ND' H). lia.
Qed.

Lemma spec_removal_count ns s name prefix rx : dict_ok s ->
  let r := spec_step ns s (OpRemove name prefix rx) in
  match snd r with
  | OCount c => Nlen s = (Nlen (fst r) + c)%N /\ forall n, d_find n (fst r) = d_find n s \/ d_find n (fst r) = None
  | _ => fst r = s
  end.
Proof.
  intros [ND _]. cbn zeta.
  assert (F : forall P, Nlen s = (Nlen (fst (spec_remove_by ns P s)) + Nlen (keep (victim ns P) s))%N /\
                forall n, d_find n (fst (spec_remove_by ns P s)) = d_find n s \/ d_find n (fst (spec_remove_by ns P s)) = None).
  { intros P. unfold spec_remove_by. cbn [fst]. split.
    - unfold keep, Nlen. pose proof (filter_partition_length (fun kv : text * entry => victim ns P (fst kv)) s). lia.
    - intros n. rewrite d_find_keep. destruct (negb (victim ns P n)); auto. }
  assert (G : match snd (match remove_filter prefix rx with
                               | FNone => (s, OCount 0%N) | FBadRegex => (s, ONamingError NBadRegex)
                               | FPrefix p => spec_remove_by ns (prefixb p) s
                               | FRegex l => spec_remove_by ns (fun n => tmem n l) s end) with
              | OCount c => Nlen s = (Nlen (fst (match remove_filter prefix rx with
                               | FNone => (s, OCount 0%N) | FBadRegex => (s, ONamingError NBadRegex)
                               | FPrefix p => spec_remove_by ns (prefixb p) s
                               | FRegex l => spec_remove_by ns (fun n => tmem n l) s end)) + c)%N /\
                  forall n, d_find n (fst (match remove_filter prefix rx with
                               | FNone => (s, OCount 0%N) | FBadRegex => (s, ONamingError NBadRegex)
                               | FPrefix p => spec_remove_by ns (prefixb p) s
                               | FRegex l => spec_remove_by ns (fun n => tmem n l) s end)) = d_find n s \/ 
                            d_find n (fst (match remove_filter prefix rx with
                               | FNone => (s, OCount 0%N) | FBadRegex => (s, ONamingError NBadRegex)
                               | FPrefix p => spec_remove_by ns (prefixb p) s
                               | FRegex l => spec_remove_by ns (fun n => tmem n l) s end)) = None
              | _ => fst (match remove_filter prefix rx with
                               | FNone => (s, OCount 0%N) | FBadRegex => (s, ONamingError NBadRegex)
                               | FPrefix p => spec_remove_by ns (prefixb p) s
                               | FRegex l => spec_remove_by ns (fun n => tmem n l) s end) = s
              end).
  { destruct (remove_filter prefix rx); cbn [fst snd].
    - split; [lia|auto].
    - apply F.
    - apply F.
    - reflexivity. }
  cbn [spec_step]. destruct name as [n|]; [|exact G].
  destruct (d_has n s && negb (text_eqb n ns)) eqn:E; [|exact G]. cbn [fst snd].
  apply andb_true_iff in E. destruct E as [E _]. split.
  - pose proof (d_del_length n s ND E). unfold Nlen. lia.
  - intros k. rewrite d_find_del. destruct (text_eqb k n); auto.
Qed.

Lemma spec_list_prefix_literal ns s x p wm n v : dict_ok s ->
  snd (spec_step ns s (OpList (Some (x :: p)) None wm)) =
    ODict (view wm (keep (prefixb (x :: p)) s)) /\
  (In (n, v) (keep (prefixb (x :: p)) s) <-> In (n, v) s /\ exists rest, n = (x :: p) ++ rest).
Proof.
  intros _. split; [reflexivity|]. unfold keep. rewrite filter_In. cbn [fst]. rewrite prefixb_spec. tauto.
Qed.

Lemma spec_lookup_literal ns s n u m : dict_ok s ->
  snd (spec_step ns s (OpLookup n true)) = OUri u (Some m) <-> In (n, (u, m)) s.
Proof.
  intros [ND _]. cbn [spec_step]. split.
  - destruct (d_find n s) as [[u' m']|] eqn:E; cbn; [|discriminate]. intros H. inversion H; subst. apply d_find_Some. assumption.
  - intros H. rewrite (d_find_In n (u, m) s ND H). reflexivity.
Qed.

(* ------------------------------------------------------------------ failure atomicity *)
Section Shape.
Variable St : Type.
Variable ns : text.
Variable q : quirks.
Variable st : storage St.

(* the methods NameServer uses for reading only read *)
Record storage_ro : Prop := {
  ro_contains : forall n, prog_ro (st_contains St st n);
  ro_getitem : forall n, prog_ro (st_getitem St st n);
  ro_len : prog_ro (st_len St st);
  ro_iter : prog_ro (st_iter St st);
  ro_everything : forall wm, prog_ro (st_everything St st wm);
  ro_opt_prefix : forall f, st_opt_prefix St st = Some f -> forall p wm, prog_ro (f p wm);
  ro_opt_meta : forall f, st_opt_meta St st = Some f -> forall all tags wm, prog_ro (f all tags wm)
}.
Hypothesis RO : storage_ro.

Lemma collect_shape wm P k : (forall d, atomic_shape (k d)) -> forall names acc, atomic_shape (collect st wm P names acc k).
Proof.
  intros Hk. induction names as [|n names IH]; intros acc; cbn [collect]; [apply Hk|].
  destruct (P n); [|apply IH]. cbn [atomic_shape]. left. split; [apply (ro_getitem RO)|].
  intros [[u m]|]; [apply IH|exact I].
Qed.

Lemma list_k_shape prefix rx wm k : (forall d, atomic_shape (k d)) -> atomic_shape (list_k st prefix rx wm k).
Proof.
  intros Hk. unfold list_k.
  destruct (nonempty prefix) as [p|]; destruct (rx_truthy rx) as [[src [l|]]|]; try exact I.
  - destruct (st_opt_prefix St st) as [f|] eqn:Eo; cbn [atomic_shape]; left; split.
    + apply (ro_opt_prefix RO f Eo).
    + assumption.
    + apply (ro_iter RO).
    + intros names. apply collect_shape. assumption.
  - cbn [atomic_shape]. left. split; [apply (ro_iter RO)|]. intros names. apply collect_shape. assumption.
  - cbn [atomic_shape]. left. split; [apply (ro_everything RO)|assumption].
Qed.

Lemma remove_items_k_shape d : atomic_shape (remove_items_k ns st d).
Proof. unfold remove_items_k. cbn [atomic_shape]. right. intros b. eexists. reflexivity. Qed.

Lemma remove_rest_shape prefix rx : atomic_shape (remove_rest ns st prefix rx).
Proof.
  unfold remove_rest. destruct (nonempty prefix) as [p|].
  - apply list_k_shape. apply remove_items_k_shape.
  - destruct (rx_truthy rx) as [r|]; [|exact I]. apply list_k_shape. apply remove_items_k_shape.
Qed.

Lemma ns_prog_shape op : atomic_shape (ns_prog ns q st op).
Proof.
  destruct op as [n u safe meta|name prefix rx|n meta|n wm|prefix rx wm|all any wm|]; cbn [ns_prog].
  - assert (S1 : atomic_shape (OTxn (st_setitem St st n u (norm_meta meta)) (fun _ : unit => ORet OOk))).
    { cbn [atomic_shape]. right. intros b. eexists. reflexivity. }
    destruct safe; [|exact S1]. cbn [atomic_shape]. left. split; [apply (ro_contains RO)|].
    intros [|]; [exact I|exact S1].
  - destruct (name_given q name) as [n|]; [|apply remove_rest_shape].
    cbn [atomic_shape]. left. split; [apply (ro_contains RO)|]. intros b.
    destruct (b && negb (text_eqb n ns)); [|apply remove_rest_shape].
    cbn [atomic_shape]. right. intros b'. eexists. reflexivity.
  - cbn [atomic_shape]. left. split; [apply (ro_getitem RO)|]. intros [[u m]|]; [|exact I].
    cbn [atomic_shape]. right. intros b'. eexists. reflexivity.
  - cbn [atomic_shape]. left. split; [apply (ro_getitem RO)|]. intros [[u m]|]; exact I.
  - apply list_k_shape. intros d. exact I.
  - destruct (nonempty all) as [a|]; destruct (nonempty any) as [b|]; try exact I.
    + destruct (st_opt_meta St st) as [f|] eqn:Eo; cbn [atomic_shape]; left; split;
        [apply (ro_opt_meta RO f Eo)|intros; exact I|apply (ro_everything RO)|intros; exact I].
    + destruct (st_opt_meta St st) as [f|] eqn:Eo; cbn [atomic_shape]; left; split;
        [apply (ro_opt_meta RO f Eo)|intros; exact I|apply (ro_everything RO)|intros; exact I].
  - cbn [atomic_shape]. left. split; [apply (ro_len RO)|]. intros; exact I.
Qed.

(* a failure point k: inside the operation => storage error and nothing changed;
   at or after its end => exactly the run without failure *)
Theorem ns_step_failure s op k :
  ((k < onstmts (ns_prog ns q st op) s)%nat -> ns_step ns q st (Some k) s op = (s, OStorageError)) /\
  ((onstmts (ns_prog ns q st op) s <= k)%nat -> ns_step ns q st (Some k) s op = ns_step ns q st None s op).
Proof.
  unfold ns_step. split; intros H.
  - rewrite (orun_fuel_lt St _ (ns_prog_shape op) k s H). reflexivity.
  - rewrite (orun_fuel_ge St _ k s H). destruct (orun (ns_prog ns q st op) None s) as [[s' r] f]. reflexivity.
Qed.
End Shape.

Lemma with_tags_ro rows : forall acc, prog_ro (with_tags rows acc).
Proof. induction rows as [|r rows IH]; intros acc; cbn; [exact I|]. intros b. apply IH. Qed.
Lemma rows_answer_ro wm rf : prog_ro (rows_answer wm rf).
Proof. unfold rows_answer. cbn. intros rs. destruct wm; [apply with_tags_ro|exact I]. Qed.

Lemma sql_storage_ro q : storage_ro tables (sql_storage q).
Proof.
  constructor.
  - intros n. cbn. intros b. exact I.
  - intros n. cbn. intros [r|]; cbn; [intros b; exact I|exact I].
  - cbn. intros b. exact I.
  - cbn. intros b. exact I.
  - intros wm. apply rows_answer_ro.
  - intros f Hf. cbn in Hf. inversion Hf; subst. intros p wm. apply rows_answer_ro.
  - intros f Hf. cbn in Hf. inversion Hf; subst. intros all tags wm. apply rows_answer_ro.
Qed.

Lemma sql_failure_atomic ns q t op k :
  ((k < sql_nstmts ns q t op)%nat -> sql_step ns q (Some k) t op = (t, OStorageError)) /\
  ((sql_nstmts ns q t op <= k)%nat -> sql_step ns q (Some k) t op = sql_step ns q None t op).
Proof. apply (ns_step_failure tables ns q (sql_storage q) (sql_storage_ro q)). Qed.

(* ------------------------------------------------------------------ corollaries *)
Lemma ns_run_app {St} ns q (st : storage St) h1 : forall h2 s,
  ns_run ns q st s (h1 ++ h2) =
  let (s1, o1) := ns_run ns q st s h1 in let (s2, o2) := ns_run ns q st s1 h2 in (s2, o1 ++ o2).
Proof.
  induction h1 as [|op h1 IH]; intros h2 s; cbn [ns_run app].
  - destruct (ns_run ns q st s h2). reflexivity.
  - destruct (ns_step ns q st None s op) as [s1 o]. rewrite IH.
    destruct (ns_run ns q st s1 h1) as [s2 o1]. destruct (ns_run ns q st s2 h2) as [s3 o2]. reflexivity.
Qed.

Lemma sql_reopen_same ns q h1 h2 t :
  sql_run ns q t (h1 ++ h2) =
  let (t1, o1) := sql_run ns q t h1 in let (t2, o2) := sql_run ns q (reopen t1) h2 in (t2, o1 ++ o2).
Proof. apply ns_run_app. Qed.

Lemma backends_same_fresh ns h :
  snd (mem_run ns quirks_none [] h) = snd (sql_run ns quirks_none tables_empty h) /\
  fst (mem_run ns quirks_none [] h) = abs (fst (sql_run ns quirks_none tables_empty h)).
Proof. apply (backends_same ns h tables_empty inv_empty). Qed.

Lemma sql_ns_entry_kept ns h t : inv t -> d_has ns (abs t) = true ->
  d_has ns (abs (fst (sql_run ns quirks_none t h))) = true.
Proof.
  intros Ht H. destruct (sql_run_spec ns h t Ht) as [_ [E _]]. rewrite E. apply spec_run_ns_entry_kept. assumption.
Qed.
Lemma mem_ns_entry_kept ns h s : dict_ok s -> d_has ns s = true ->
  d_has ns (fst (mem_run ns quirks_none s h)) = true.
Proof.
  intros Hs H. destruct (mem_run_spec ns h s Hs) as [E _]. rewrite E. apply spec_run_ns_entry_kept. assumption.
Qed.
