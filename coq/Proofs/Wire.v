(* C06 — proofs about the wire codec model. *)
From Coq Require Import List NArith ZArith Arith Bool Lia ZifyBool ZifyN.
Import ListNotations.
From V Require Import Model.Bytes Model.Wire Gen.GenProtocol Proofs.Bytes.
Local Open Scope N_scope.

Ltac Zify.zify_post_hook ::= Z.to_euclidean_division_equations.
Arguments be16 : simpl never.
Arguments be32 : simpl never.

(* ---------- facts about the generated constants (re-checked against protocol.py each run) *)
Lemma version_fits : protocol_version < 65536. Proof. reflexivity. Qed.
Lemma magic_fits : magic_number < 65536. Proof. reflexivity. Qed.
Lemma header_size_40 : header_size = 40. Proof. reflexivity. Qed.
(* the layout the model's [header]/[parse_header] implement is the generated one *)
Lemma header_layout_ok :
  header_layout = [(0,4); (1,2); (1,1); (1,1); (1,2); (1,2); (1,4); (1,4); (0,16); (1,2); (1,2)].
Proof. reflexivity. Qed.
Lemma flag_compressed_bit : flag_compressed = 2 ^ 1. Proof. reflexivity. Qed.
Lemma flag_corr_bit : flag_corr_id = 2 ^ 6. Proof. reflexivity. Qed.

Lemma Ok_inj {A} (a b : A) : Ok a = Ok b -> a = b.
Proof. intros H; congruence. Qed.

(* ---------- shapes *)
Lemma be16_shape n : exists a b, be16 n = [a; b]. Proof. do 2 eexists; reflexivity. Qed.
Lemma be32_shape n : exists a b c d, be32 n = [a; b; c; d]. Proof. do 4 eexists; reflexivity. Qed.

Lemma list16 {A} (l : list A) : length l = 16%nat ->
  exists a0 a1 a2 a3 a4 a5 a6 a7 a8 a9 a10 a11 a12 a13 a14 a15,
    l = [a0; a1; a2; a3; a4; a5; a6; a7; a8; a9; a10; a11; a12; a13; a14; a15].
Proof.
  intros H. do 16 (destruct l as [|? l]; [discriminate H|]). destruct l; [|discriminate H].
  do 16 eexists. reflexivity.
Qed.

Definition mk_hdr typ ser flags seq plen alen corr : hdr :=
  {| h_tag := tag_PYRO; h_ver := protocol_version; h_type := typ; h_ser := ser; h_flags := flags;
     h_seq := seq; h_dsize := plen; h_asize := alen; h_corr := corr; h_magic := magic_number |}.

Lemma header_split typ ser flags seq plen alen corr : length corr = 16%nat ->
  exists h6 h34, header typ ser flags seq plen alen corr = h6 ++ h34 /\
    Nlen h6 = 6 /\ Nlen h34 = header_size - 6 /\
    sub 0 4 h6 = tag_PYRO /\ sub 4 2 h6 = be16 protocol_version.
Proof.
  intros Hc. destruct (list16 corr Hc) as (c0&c1&c2&c3&c4&c5&c6&c7&c8&c9&c10&c11&c12&c13&c14&c15&->).
  unfold header.
  destruct (be16_shape protocol_version) as (v1&v0&Ev).
  destruct (be16_shape flags) as (f1&f0&Ef). destruct (be16_shape seq) as (s1&s0&Es).
  destruct (be32_shape plen) as (p3&p2&p1&p0&Ep). destruct (be32_shape alen) as (a3&a2&a1&a0&Ea).
  destruct (be16_shape 0) as (z1&z0&Ez). destruct (be16_shape magic_number) as (m1&m0&Em).
  rewrite Ev, Ef, Es, Ep, Ea, Ez, Em. unfold tag_PYRO.
  exists [80; 89; 82; 79; v1; v0].
  eexists. split; [cbn [app]; reflexivity|].
  repeat split.
Qed.

Lemma parse_header_header typ ser flags seq plen alen corr :
  length corr = 16%nat ->
  typ < 256 -> ser < 256 -> flags < 65536 -> seq < 65536 -> plen < 4294967296 -> alen < 4294967296 ->
  parse_header (header typ ser flags seq plen alen corr) = mk_hdr typ ser flags seq plen alen corr.
Proof.
  intros Hc Ht Hs Hf Hq Hp Ha.
  destruct (list16 corr Hc) as (c0&c1&c2&c3&c4&c5&c6&c7&c8&c9&c10&c11&c12&c13&c14&c15&->).
  unfold header, mk_hdr.
  pose proof (from_be_be16 protocol_version version_fits) as Hv.
  pose proof (from_be_be16 flags Hf) as Hfl. pose proof (from_be_be16 seq Hq) as Hsq.
  pose proof (from_be_be32 plen Hp) as Hpl. pose proof (from_be_be32 alen Ha) as Hal.
  pose proof (from_be_be16 magic_number magic_fits) as Hm.
  destruct (be16_shape protocol_version) as (v1&v0&Ev).
  destruct (be16_shape flags) as (f1&f0&Ef). destruct (be16_shape seq) as (s1&s0&Es).
  destruct (be32_shape plen) as (p3&p2&p1&p0&Ep). destruct (be32_shape alen) as (a3&a2&a1&a0&Ea).
  destruct (be16_shape 0) as (z1&z0&Ez). destruct (be16_shape magic_number) as (m1&m0&Em).
  rewrite Ev, Ef, Es, Ep, Ea, Ez, Em in *. unfold tag_PYRO, parse_header.
  cbn [app sub firstn skipn].
  rewrite Hv, Hfl, Hsq, Hpl, Hal, Hm, !from_be_1. reflexivity.
Qed.

Lemma header_length typ ser flags seq plen alen corr : length corr = 16%nat ->
  Nlen (header typ ser flags seq plen alen corr) = header_size.
Proof.
  intros Hc. destruct (list16 corr Hc) as (c0&c1&c2&c3&c4&c5&c6&c7&c8&c9&c10&c11&c12&c13&c14&c15&->).
  reflexivity.
Qed.

(* ---------- annotation chunks *)
Lemma Nlen_be32 n : Nlen (be32 n) = 4. Proof. reflexivity. Qed.

Lemma ann_size_cons k v anns : ann_size ((k, v) :: anns) = 8 + Nlen v + ann_size anns.
Proof. reflexivity. Qed.

Lemma ann_chunks_length anns chunks : ann_chunks anns = Ok chunks -> Nlen chunks = ann_size anns.
Proof.
  revert chunks; induction anns as [|[k v] anns IH]; intros chunks H.
  - cbn in H. inversion H. reflexivity.
  - rewrite ann_size_cons. cbn [ann_chunks] in H.
    destruct (Nlen k =? 4) eqn:Hk; cbn [negb] in H; [|discriminate].
    destruct (is_ascii k); cbn [negb] in H; [|discriminate].
    destruct (ann_chunks anns) as [bs|e]; [|discriminate]. apply Ok_inj in H; subst chunks.
    specialize (IH bs eq_refl). apply N.eqb_eq in Hk.
    rewrite !Nlen_app, Nlen_be32. lia.
Qed.

Lemma ann_size_0 anns : ann_size anns = 0 -> anns = [].
Proof. destruct anns as [|[k v] anns]; [reflexivity|]. rewrite ann_size_cons. lia. Qed.

Lemma dict_set_fresh d k v :
  ~ In k (map fst d) -> dict_set d k v = d ++ [(k, v)].
Proof.
  induction d as [|[k' v'] d IH]; intros Hn; cbn [dict_set app]; [reflexivity|].
  destruct (bytes_eqb k' k) eqn:E.
  - apply bytes_eqb_eq in E. subst. exfalso. apply Hn. left. reflexivity.
  - rewrite IH; [reflexivity|]. intros Hin. apply Hn. right. exact Hin.
Qed.

Lemma firstn_app_exact {A} (a b : list A) n : length a = n -> firstn n (a ++ b) = a.
Proof. intros <-. rewrite firstn_app, Nat.sub_diag, firstn_O, firstn_all, app_nil_r. reflexivity. Qed.
Lemma skipn_app_exact {A} (a b : list A) n : length a = n -> skipn n (a ++ b) = b.
Proof. intros <-. rewrite skipn_app, Nat.sub_diag, skipn_all. reflexivity. Qed.

(* the walk over well-formed chunks returns exactly the annotations that were encoded *)
Lemma ann_walk_chunks anns : forall chunks fuel tail acc,
  anns <> [] ->
  ann_chunks anns = Ok chunks ->
  ann_size anns < 4294967296 ->
  NoDup (map fst acc ++ map fst anns) ->
  (length anns <= length fuel)%nat ->
  ann_walk fuel (chunks ++ tail) (ann_size anns) acc = Ok (acc ++ anns, tail).
Proof.
  induction anns as [|[k v] anns IH]; intros chunks fuel tail acc Hne Hch Hsz Hnd Hfuel; [congruence|].
  cbn [ann_chunks] in Hch.
  destruct (Nlen k =? 4) eqn:Hk; cbn [negb] in Hch; [|discriminate].
  destruct (is_ascii k) eqn:Ha; cbn [negb] in Hch; [|discriminate].
  destruct (ann_chunks anns) as [bs|e] eqn:Hbs; [|discriminate]. apply Ok_inj in Hch; subst chunks.
  destruct fuel as [|f0 fuel]; [cbn in Hfuel; lia|].
  assert (Hk4 : length k = 4%nat) by (apply N.eqb_eq in Hk; unfold Nlen in Hk; lia).
  rewrite ann_size_cons in *.
  cbn [ann_walk].
  rewrite <- !app_assoc.
  rewrite (firstn_app_exact k _ 4 Hk4), Ha. cbn [negb].
  unfold sub. rewrite (skipn_app_exact k _ 4 Hk4).
  rewrite (firstn_app_exact (be32 (Nlen v)) _ 4 (be32_length _)).
  rewrite from_be_be32 by lia.
  replace (skipn 8 (k ++ be32 (Nlen v) ++ v ++ bs ++ tail)) with (v ++ bs ++ tail).
  2:{ rewrite (app_assoc k). symmetry. apply skipn_app_exact. rewrite app_length, Hk4, be32_length. reflexivity. }
  rewrite takeN_app.
  assert (Hdrop : dropN (8 + Nlen v) (k ++ be32 (Nlen v) ++ v ++ bs ++ tail) = bs ++ tail).
  { replace (k ++ be32 (Nlen v) ++ v ++ bs ++ tail) with ((k ++ be32 (Nlen v) ++ v) ++ bs ++ tail)
      by (rewrite <- !app_assoc; reflexivity).
    replace (8 + Nlen v) with (Nlen (k ++ be32 (Nlen v) ++ v)).
    - apply dropN_app.
    - rewrite !Nlen_app, Nlen_be32. apply N.eqb_eq in Hk. lia. }
  rewrite Hdrop.
  assert (Hfresh : ~ In k (map fst acc)).
  { cbn [map fst] in Hnd. apply NoDup_remove_2 in Hnd. intros Hin. apply Hnd. apply in_or_app. left. exact Hin. }
  rewrite (dict_set_fresh acc k v Hfresh).
  destruct (N.ltb_spec (8 + Nlen v + ann_size anns) (8 + Nlen v)) as [Hlt|_]; [lia|].
  destruct (N.eqb_spec (8 + Nlen v + ann_size anns) (8 + Nlen v)) as [Heq|Hneq].
  - assert (anns = []) by (apply ann_size_0; lia). subst anns.
    cbn [ann_chunks] in Hbs. apply Ok_inj in Hbs; subst bs. cbn [app]. reflexivity.
  - assert (Hne' : anns <> []) by (intros ->; cbn in Hneq; lia).
    replace (8 + Nlen v + ann_size anns - (8 + Nlen v)) with (ann_size anns) by lia.
    rewrite (IH bs fuel tail (acc ++ [(k, v)]) Hne' eq_refl); [rewrite <- app_assoc; reflexivity|lia| |cbn in Hfuel; lia].
    rewrite map_app. cbn [map fst]. rewrite <- app_assoc. cbn [app].
    cbn [map fst] in Hnd.
    (* NoDup (map fst acc ++ k :: map fst anns) -> NoDup (map fst acc ++ [k] ++ map fst anns) *)
    exact Hnd.
Qed.

(* ---------- flag bits *)
Ltac flagbits :=
  apply N.bits_inj; intros i;
  rewrite ?flag_compressed_bit, ?flag_corr_bit;
  rewrite ?N.land_spec, ?N.lor_spec, ?N.ldiff_spec, ?N.lor_spec, ?N.ldiff_spec, ?N.bits_0, ?N.pow2_bits_eqb;
  destruct (N.eqb_spec 1 i); destruct (N.eqb_spec 6 i); try lia;
  match goal with |- context [N.testbit ?f i] => destruct (N.testbit f i) | _ => idtac end; reflexivity.

Lemma land_clear f : N.land (N.ldiff f flag_compressed) flag_compressed = 0.
Proof. flagbits. Qed.
Lemma land_clear_corr f : N.land (N.lor (N.ldiff f flag_compressed) flag_corr_id) flag_compressed = 0.
Proof. flagbits. Qed.
Lemma land_set f : N.land (N.lor (N.ldiff f flag_compressed) flag_compressed) flag_compressed = flag_compressed.
Proof. flagbits. Qed.
Lemma land_set_corr f :
  N.land (N.lor (N.lor (N.ldiff f flag_compressed) flag_compressed) flag_corr_id) flag_compressed = flag_compressed.
Proof. flagbits. Qed.
Lemma ldiff_set f :
  N.ldiff (N.lor (N.ldiff f flag_compressed) flag_compressed) flag_compressed = N.ldiff f flag_compressed.
Proof. flagbits. Qed.
Lemma ldiff_set_corr f :
  N.ldiff (N.lor (N.lor (N.ldiff f flag_compressed) flag_compressed) flag_corr_id) flag_compressed
  = N.lor (N.ldiff f flag_compressed) flag_corr_id.
Proof. flagbits. Qed.
Lemma flag_compressed_nz : flag_compressed <> 0. Proof. discriminate. Qed.

(* ---------- the round trip *)
Definition compresses (c : wcfg) (m : smsg) : bool :=
  compression c && (compress_threshold <? Nlen (s_payload m)).
Definition sent_flags (m : smsg) : N :=
  let f := N.ldiff (s_flags m) flag_compressed in
  match s_corr m with Some _ => N.lor f flag_corr_id | None => f end.
Definition sent_corr (m : smsg) : bytes := match s_corr m with Some c => c | None => zero16 end.
Definition received (m : smsg) : rmsg :=
  {| r_type := s_type m; r_flags := sent_flags m; r_seq := s_seq m; r_ser := s_ser m;
     r_data := s_payload m; r_anns := s_anns m; r_corr := sent_corr m |}.
Definition accepts (acc : option (list N)) (t : N) : Prop :=
  match acc with Some (x :: l) => In t (x :: l) | _ => True end.

Lemma recv_n_app n (a b : bytes) : Nlen a = n -> recv_n n (a ++ b) = Some (a, b).
Proof.
  intros <-. unfold recv_n. rewrite Nlen_app.
  destruct (N.leb_spec (Nlen a) (Nlen a + Nlen b)) as [_|H]; [|lia].
  rewrite takeN_app, dropN_app. reflexivity.
Qed.

Lemma ann_size_ge anns : N.of_nat (length anns) <= ann_size anns.
Proof.
  induction anns as [|[k v] anns IH]; [cbn; lia|]. rewrite ann_size_cons. cbn [length]. lia.
Qed.

Lemma accepts_check acc t : accepts acc t ->
  match acc with Some ((_ :: _) as l) => negb (existsb (N.eqb t) l) | _ => false end = false.
Proof.
  destruct acc as [[|x l]|]; intros H; try reflexivity.
  apply negb_false_iff, existsb_exists. exists t. split; [exact H|apply N.eqb_refl].
Qed.

Lemma existsb_false_accepts_not acc t :
  match acc with Some ((_ :: _) as l) => negb (existsb (N.eqb t) l) | _ => false end = false -> accepts acc t.
Proof.
  destruct acc as [[|x l]|]; intros H; cbn; auto.
  apply negb_false_iff, existsb_exists in H. destruct H as (y & Hin & Hy). apply N.eqb_eq in Hy. subst. exact Hin.
Qed.

Theorem decode_encode c m z bs rest acc unz :
  NoDup (map fst (s_anns m)) ->
  (forall cid, s_corr m = Some cid -> length cid = 16%nat) ->
  accepts acc (s_type m) ->
  (compresses c m = true -> unz = Some (s_payload m)) ->
  encode c m z = Ok bs ->
  recv_stub c acc unz (bs ++ rest) = (Ok (received m), Nlen bs).
Proof.
  intros Hnd Hcorr Hacc Hunz Henc. unfold encode in Henc.
  fold (compresses c m) in Henc.
  set (pl := if compresses c m then z else s_payload m) in *.
  set (asz := ann_size (s_anns m)) in *.
  set (flags1 := if compresses c m then N.lor (N.ldiff (s_flags m) flag_compressed) flag_compressed
                 else N.ldiff (s_flags m) flag_compressed) in *.
  set (flags2 := match s_corr m with Some _ => N.lor flags1 flag_corr_id | None => flags1 end) in *.
  set (corr := match s_corr m with Some cid => cid | None => zero16 end) in *.
  destruct (N.ltb_spec (max_size c) (Nlen pl + asz)) as [|Hmax]; [discriminate|].
  destruct (fits8 (s_type m) && fits8 (s_ser m) && fits16 flags2 && fits16 (s_seq m)
            && fits32 (Nlen pl) && fits32 asz) eqn:Hfits; cbn [negb] in Henc; [|discriminate].
  repeat (apply andb_true_iff in Hfits; destruct Hfits as [Hfits ?]).
  unfold fits8, fits16, fits32 in *.
  destruct (ann_chunks (s_anns m)) as [chunks|e] eqn:Hch; [|discriminate].
  apply Ok_inj in Henc. subst bs.
  assert (Hclen : length corr = 16%nat).
  { unfold corr. destruct (s_corr m) as [cid|] eqn:E; [apply Hcorr; reflexivity|reflexivity]. }
  pose proof (ann_chunks_length _ _ Hch) as Hchl. fold asz in Hchl.
  (* total length *)
  assert (Hlen : Nlen (header (s_type m) (s_ser m) flags2 (s_seq m) (Nlen pl) asz corr ++ chunks ++ pl)
                 = header_size + asz + Nlen pl).
  { rewrite !Nlen_app, header_length, Hchl by exact Hclen. lia. }
  rewrite Hlen.
  destruct (header_split (s_type m) (s_ser m) flags2 (s_seq m) (Nlen pl) asz corr Hclen)
    as (h6 & h34 & Hsplit & Hl6 & Hl34 & Htag & Hver).
  pose proof (parse_header_header (s_type m) (s_ser m) flags2 (s_seq m) (Nlen pl) asz corr Hclen
                ltac:(lia) ltac:(lia) ltac:(lia) ltac:(lia) ltac:(lia) ltac:(lia)) as Hparse.
  rewrite Hsplit in Hparse |- *.
  unfold recv_stub.
  replace ((h6 ++ h34) ++ chunks ++ pl) with (h6 ++ h34 ++ chunks ++ pl) by (rewrite <- app_assoc; reflexivity).
  rewrite <- !app_assoc.
  rewrite (recv_n_app 6 h6 _ Hl6).
  rewrite Htag, Hver, !bytes_eqb_refl. cbn [negb].
  rewrite (recv_n_app (header_size - 6) h34 _ Hl34).
  rewrite Hparse.
  unfold check_header, mk_hdr. cbn [h_tag h_ver h_magic h_dsize h_asize h_type h_flags h_seq h_ser h_corr].
  rewrite bytes_eqb_refl, !N.eqb_refl. cbn [andb negb].
  destruct (N.ltb_spec (max_size c) (Nlen pl + asz)) as [|_]; [lia|].
  rewrite (accepts_check acc (s_type m) Hacc).
  rewrite (app_assoc chunks pl rest).
  rewrite (recv_n_app (asz + Nlen pl) (chunks ++ pl) rest) by (rewrite Nlen_app; lia).
  f_equal; try lia.
  (* add_payload *)
  unfold add_payload. cbn [h_tag h_ver h_magic h_dsize h_asize h_type h_flags h_seq h_ser h_corr].
  replace (Nlen (chunks ++ pl) =? Nlen pl + asz) with true by (symmetry; apply N.eqb_eq; rewrite Nlen_app; lia).
  cbn [negb].
  match goal with |- match ?X with _ => _ end = _ => assert (Hwalk : X = Ok (s_anns m, pl)) end.
  { destruct (N.eqb_spec asz 0) as [Hz|Hnz].
    - pose proof (ann_size_0 _ Hz) as Hnil. rewrite Hnil in Hch |- *. cbn in Hch. apply Ok_inj in Hch. subst chunks. reflexivity.
    - unfold asz. rewrite (ann_walk_chunks (s_anns m) chunks (chunks ++ pl) pl []); try assumption.
      + reflexivity.
      + intros Hnil. apply Hnz. unfold asz. rewrite Hnil. reflexivity.
      + fold asz. lia.
      + rewrite app_length. pose proof (ann_size_ge (s_anns m)) as Hge. fold asz in Hge.
        unfold Nlen in Hchl. lia. }
  rewrite Hwalk.
  unfold received, sent_flags, sent_corr. fold corr.
  unfold flags2, flags1, pl in *.
  destruct (compresses c m) eqn:Hcomp.
  - rewrite (Hunz eq_refl).
    destruct (s_corr m) as [cid|].
    + rewrite land_set_corr. destruct (N.eqb_spec flag_compressed 0) as [E|_]; [exfalso; exact (flag_compressed_nz E)|].
      cbn [negb]. rewrite ldiff_set_corr. reflexivity.
    + rewrite land_set. destruct (N.eqb_spec flag_compressed 0) as [E|_]; [exfalso; exact (flag_compressed_nz E)|].
      cbn [negb]. rewrite ldiff_set. reflexivity.
  - destruct (s_corr m) as [cid|].
    + rewrite land_clear_corr. cbn [N.eqb negb]. reflexivity.
    + rewrite land_clear. cbn [N.eqb negb]. reflexivity.
Qed.

(* ---------- size limits *)
Theorem too_large_sender c m z :
  max_size c < Nlen (if compresses c m then z else s_payload m) + ann_size (s_anns m) ->
  encode c m z = Err EProtocol.
Proof.
  intros H. unfold encode, compresses in *. cbv zeta. destruct (compression c && _); apply N.ltb_lt in H; rewrite H; reflexivity.
Qed.

Lemma takeN_takeN_dropN {A} a b (l : list A) : takeN a l ++ takeN b (dropN a l) = takeN (a + b) l.
Proof.
  unfold takeN, dropN. rewrite N2Nat.inj_add.
  revert l. induction (N.to_nat a) as [|n IH]; intros l; cbn [firstn skipn app Nat.add]; [reflexivity|].
  destruct l as [|x l]; [rewrite firstn_nil; reflexivity|]. cbn [firstn skipn app]. rewrite IH. reflexivity.
Qed.

(* what the receiver does with the first 40 bytes of any stream: a header that declares
   more than MAX_MESSAGE_SIZE is refused and nothing behind the header is consumed *)
Theorem too_large_receiver c acc unz stream :
  header_size <= Nlen stream ->
  max_size c < h_dsize (parse_header (takeN header_size stream)) + h_asize (parse_header (takeN header_size stream)) ->
  exists n, recv_stub c acc unz stream = (Err EProtocol, n) /\ n <= header_size.
Proof.
  intros Hlen Hbig. unfold recv_stub, recv_n. rewrite header_size_40 in *.
  destruct (N.leb_spec 6 (Nlen stream)) as [_|]; [|lia].
  destruct (negb (bytes_eqb (sub 0 4 (takeN 6 stream)) tag_PYRO)); [exists 6; split; [reflexivity|lia]|].
  destruct (negb (bytes_eqb (sub 4 2 (takeN 6 stream)) (be16 protocol_version))); [exists 6; split; [reflexivity|lia]|].
  assert (Hd : Nlen (dropN 6 stream) = Nlen stream - 6).
  { unfold Nlen, dropN. rewrite skipn_length. lia. }
  destruct (N.leb_spec (40 - 6) (Nlen (dropN 6 stream))) as [_|]; [|lia].
  replace (takeN 6 stream ++ takeN (40 - 6) (dropN 6 stream)) with (takeN 40 stream)
    by (rewrite takeN_takeN_dropN; reflexivity).
  destruct (negb (check_header c (parse_header (takeN 40 stream)))); [exists 40; split; [reflexivity|lia]|].
  destruct (N.ltb_spec (max_size c) (h_dsize (parse_header (takeN 40 stream)) + h_asize (parse_header (takeN 40 stream))));
    [exists 40; split; [reflexivity|lia]|lia].
Qed.

(* ---------- soundness of acceptance (partial: see Props/C06.v) *)
Lemma recv_n_some n s a b : recv_n n s = Some (a, b) -> s = a ++ b /\ Nlen a = n.
Proof.
  unfold recv_n. destruct (N.leb_spec n (Nlen s)) as [H|]; [|discriminate].
  intros E. injection E as <- <-. split; [symmetry; apply takeN_dropN|apply Nlen_takeN; exact H].
Qed.

(* an accepted stream starts with a 40-byte header carrying the right tag, version and
   magic, declares a size within the limit and of an accepted type, and exactly
   header + annotations + data bytes were consumed *)
Theorem decode_sound_partial c acc unz stream m n :
  recv_stub c acc unz stream = (Ok m, n) ->
  exists hb payload rest,
    stream = hb ++ payload ++ rest /\ Nlen hb = header_size /\
    let h := parse_header hb in
    h_tag h = tag_PYRO /\ h_ver h = protocol_version /\ h_magic h = magic_number /\
    h_dsize h + h_asize h <= max_size c /\ accepts acc (h_type h) /\
    Nlen payload = h_asize h + h_dsize h /\ n = header_size + h_asize h + h_dsize h /\
    add_payload h payload unz = Ok m.
Proof.
  unfold recv_stub. intros H.
  destruct (recv_n 6 stream) as [[h6 s1]|] eqn:E1; [|discriminate].
  destruct (negb (bytes_eqb (sub 0 4 h6) tag_PYRO)); [discriminate|].
  destruct (negb (bytes_eqb (sub 4 2 h6) (be16 protocol_version))); [discriminate|].
  destruct (recv_n (header_size - 6) s1) as [[h34 s2]|] eqn:E2; [|discriminate].
  destruct (check_header c (parse_header (h6 ++ h34))) eqn:Hck; cbn [negb] in H; [|discriminate].
  destruct (N.ltb_spec (max_size c) (h_dsize (parse_header (h6 ++ h34)) + h_asize (parse_header (h6 ++ h34)))) as [|Hmax];
    [discriminate|].
  match type of H with (if ?X then _ else _) = _ => destruct X eqn:Hacc end; [discriminate|].
  destruct (recv_n (h_asize (parse_header (h6 ++ h34)) + h_dsize (parse_header (h6 ++ h34))) s2) as [[payload rest]|] eqn:E3;
    [|discriminate].
  injection H as Hadd Hn.
  apply recv_n_some in E1, E2, E3. destruct E1 as [-> L1], E2 as [-> L2], E3 as [-> L3].
  exists (h6 ++ h34), payload, rest.
  unfold check_header in Hck. repeat (apply andb_true_iff in Hck; destruct Hck as [Hck ?]).
  apply bytes_eqb_eq in Hck.
  repeat split; try assumption.
  - rewrite <- app_assoc. reflexivity.
  - rewrite Nlen_app, L1, L2, header_size_40. reflexivity.
  - apply N.eqb_eq; assumption.
  - apply N.eqb_eq; assumption.
  - apply existsb_false_accepts_not. exact Hacc.
  - symmetry. exact Hn.
Qed.
