(* C05 — lemmas about Model/Containment.v.  Everything is parametric in the tables T;
   Props/C05.v instantiates T with the tables generated from the source tree. *)
From Coq Require Import List String Bool Arith Lia.
Import ListNotations.
From V Require Import Model.ContainmentDefs Model.Containment.
Local Open Scope string_scope.

(* ------------------------------------------------------------------ static part *)
Lemma mem_true_iff : forall c l, mem c l = true <-> In c l.
Proof.
  intros c l. unfold mem. rewrite existsb_exists. split.
  - intros [x [Hin Heq]]. apply String.eqb_eq in Heq. subst. exact Hin.
  - intros H. exists c. split; [exact H | apply String.eqb_refl].
Qed.

Lemma catch_all_matches : forall e cs, is_exception e = true -> mem "Exception" cs = true -> is_any e cs = true.
Proof.
  intros e cs He Hc. unfold is_any. apply existsb_exists. exists "Exception". split.
  - apply mem_true_iff. exact Hc.
  - exact He.
Qed.

Lemma safe_handlers_sound : forall ok hs rest e atrecv,
  is_exception e = true -> safe_handlers ok hs rest = true ->
  match first_match hs e atrecv with
  | Some act => if propagates act then rest = true else ok act = true
  | None => rest = true
  end.
Proof.
  intros ok hs rest e atrecv He. induction hs as [|[[cs g] act] hs IH]; simpl; intros H.
  - exact H.
  - destruct (is_any e cs && guard_ok g atrecv) eqn:Hm.
    + destruct (propagates act).
      * apply andb_true_iff in H. tauto.
      * apply andb_true_iff in H. tauto.
    + destruct (propagates act).
      * apply andb_true_iff in H. apply IH. tauto.
      * apply andb_true_iff in H. destruct H as [_ H].
        destruct (mem "Exception" cs && guard_ok g false && guard_ok g true) eqn:Hc.
        -- apply andb_true_iff in Hc. destruct Hc as [Hc Hg1]. apply andb_true_iff in Hc. destruct Hc as [Hc Hg0].
           rewrite (catch_all_matches e cs He Hc) in Hm.
           destruct atrecv; [rewrite Hg1 in Hm | rewrite Hg0 in Hm]; discriminate.
        -- apply IH. exact H.
Qed.

Lemma safe_in_sound : forall T n ok f start atrecv e,
  is_exception e = true -> safe_in T n ok f start = true ->
  exists ord act, route_in T n f start atrecv e = Caught ord act /\ ok act = true.
Proof.
  intros T n ok f. induction n as [|n IH]; intros start atrecv e He H; simpl in *.
  - discriminate.
  - destruct start as [ord|]; [|discriminate].
    destruct (find_site T f ord) as [s|]; [|discriminate].
    pose proof (safe_handlers_sound ok (s_handlers s) _ e atrecv He H) as Hs.
    destruct (first_match (s_handlers s) e atrecv) as [act|].
    + destruct (propagates act).
      * apply IH; assumption.
      * exists ord, act. split; [reflexivity | exact Hs].
    + apply IH; assumption.
Qed.

Lemma safe_sound : forall T ok f start e,
  is_exception e = true -> safe T ok f start = true ->
  exists ord act, route T f start e = Caught ord act /\ ok act = true.
Proof. intros. unfold route, route_at, safe in *. eapply safe_in_sound; eassumption. Qed.

Lemma ok_at_not_reply : forall f, ok_at f AReply = false.
Proof. destruct f; reflexivity. Qed.

(* containment along a path of frames: if one frame of the path is safe, no Exception subclass escapes the path *)
Lemma route_path_contained : forall T p e,
  is_exception e = true -> path_ok T p = true ->
  forall d, exists depth ord act, route_path T p d e = Contained depth ord act.
Proof.
  intros T p e He. induction p as [|fr p IH]; simpl; intros H d.
  - discriminate.
  - apply orb_true_iff in H. destruct H as [H|H].
    + unfold frame_safe in H. destruct (safe_sound T _ _ _ e He H) as [ord [act [Hr Hok]]].
      rewrite Hr. destruct act; try (eexists; eexists; eexists; reflexivity).
      rewrite ok_at_not_reply in Hok. discriminate.
    + destruct (route T (frame_fn fr) (frame_site T fr) e) as [ord act|].
      * destruct act; try (eexists; eexists; eexists; reflexivity). apply IH. exact H.
      * apply IH. exact H.
Qed.

Theorem containment_general : forall T,
  containment_ok T = true ->
  forall p, In p (all_paths T) -> forall e, is_exception e = true ->
  exists depth ord act, route_path T p 0 e = Contained depth ord act.
Proof.
  intros T H p Hin e He. unfold containment_ok in H. rewrite forallb_forall in H.
  apply route_path_contained; auto.
Qed.

(* ------------------------------------------------------------------ dynamic part *)
Definition wf_script (fs : list fault) : bool := forallb wf_fault fs.

Lemma wf_cons : forall f fs, wf_script (f :: fs) = true -> is_exception (f_exc f) = true /\ wf_script fs = true.
Proof. intros f fs H. simpl in H. apply andb_true_iff in H. exact H. Qed.

(* exceptions coming out of the function loops stem from the script, and the rest of the script stays well-formed *)
Lemma hs_loop_wf : forall T fs b r rep rest,
  wf_script fs = true -> hs_loop T fs b = (r, rep, rest) ->
  wf_script rest = true /\ (forall e, r = RExc e -> is_exception e = true).
Proof.
  intros T fs. induction fs as [|f fs IH]; intros b r rep rest Hwf H; simpl in H.
  - inversion H; subst. split; [reflexivity | intros; discriminate].
  - destruct (wf_cons _ _ Hwf) as [He Hfs].
    destruct (fn_eqb (f_fn f) FHandshake).
    + destruct (route_at T FHandshake (f_site f) (f_recv f) (f_exc f)) as [ord act|].
      * destruct act; try (inversion H; subst; split; [exact Hfs | intros e Hx; inversion Hx; subst; try exact He; discriminate]).
        eapply IH; eassumption.
      * inversion H; subst. split; [exact Hfs | intros e Hx; inversion Hx; subst; exact He].
    + inversion H; subst. split; [exact Hwf | intros; discriminate].
Qed.

Lemma xr_loop_wf : forall T fs r sent rest,
  wf_script fs = true -> xr_loop T fs = (r, sent, rest) ->
  wf_script rest = true /\ (forall e, r = RExc e -> is_exception e = true).
Proof.
  intros T fs. induction fs as [|f fs IH]; intros r sent rest Hwf H; simpl in H.
  - inversion H; subst. split; [reflexivity | intros; discriminate].
  - destruct (wf_cons _ _ Hwf) as [He Hfs].
    destruct (fn_eqb (f_fn f) FSendExc).
    + destruct (route_at T FSendExc (f_site f) (f_recv f) (f_exc f)) as [ord act|].
      * destruct act; try (inversion H; subst; split; [exact Hfs | intros e Hx; inversion Hx; subst; try exact He; discriminate]).
        eapply IH; eassumption.
      * inversion H; subst. split; [exact Hfs | intros e Hx; inversion Hx; subst; exact He].
    + inversion H; subst. split; [exact Hwf | intros; discriminate].
Qed.

Lemma hr_loop_wf : forall T q fs r rep rest,
  wf_script fs = true -> hr_loop T q fs = (r, rep, rest) ->
  wf_script rest = true /\ (forall e, r = RExc e -> is_exception e = true).
Proof.
  intros T q fs. induction fs as [|f fs IH]; intros r rep rest Hwf H; simpl in H.
  - inversion H; subst. split; [reflexivity | intros; discriminate].
  - destruct (wf_cons _ _ Hwf) as [He Hfs].
    destruct (fn_eqb (f_fn f) FHandleRequest).
    + destruct (route_at T FHandleRequest (f_site f) (f_recv f) (f_exc f)) as [ord act|].
      * destruct act;
          try (eapply IH; eassumption);
          try (inversion H; subst; split; [exact Hfs | intros e Hx; inversion Hx; subst; try exact He; discriminate]).
        (* AReply *)
        match type of H with context [if ?c then xr_loop T fs else _] => destruct c end.
        -- destruct (xr_loop T fs) as [[r1 sent] fs1] eqn:Hx.
           destruct (xr_loop_wf T fs r1 sent fs1 Hfs Hx) as [Hw1 He1].
           destruct r1 as [v|e2].
           ++ destruct (q_callback q || is_any (f_exc f) (rr_reraise (t_reply T))).
              ** destruct (route T FHandleRequest (outer_of T FHandleRequest ord) (f_exc f));
                   inversion H; subst; (split; [exact Hw1 | intros e Hy; inversion Hy; subst; exact He]).
              ** inversion H; subst. split; [exact Hw1 | intros; discriminate].
           ++ destruct (route T FHandleRequest (outer_of T FHandleRequest ord) e2);
                inversion H; subst; (split; [exact Hw1 | intros e Hy; inversion Hy; subst; apply He1; reflexivity]).
        -- destruct (q_callback q || is_any (f_exc f) (rr_reraise (t_reply T))).
           ++ destruct (route T FHandleRequest (outer_of T FHandleRequest ord) (f_exc f));
                inversion H; subst; (split; [exact Hfs | intros e Hy; inversion Hy; subst; exact He]).
           ++ inversion H; subst. split; [exact Hfs | intros; discriminate].
      * inversion H; subst. split; [exact Hfs | intros e Hx; inversion Hx; subst; exact He].
    + inversion H; subst. split; [exact Hwf | intros; discriminate].
Qed.

Lemma in_handler_wf : forall T f ord fs x rest,
  wf_script fs = true -> in_handler T f ord fs = (x, rest) ->
  wf_script rest = true /\ (forall e, x = Some e -> is_exception e = true).
Proof.
  intros T f ord fs x rest Hwf H. unfold in_handler in H.
  destruct (may_raise T f ord).
  - destruct fs as [|y fs].
    + inversion H; subst. split; [reflexivity | intros; discriminate].
    + destruct (wf_cons _ _ Hwf) as [He Hfs].
      destruct (fn_eqb (f_fn y) f).
      * destruct (route T f (outer_of T f ord) (f_exc y));
          inversion H; subst; (split; [exact Hfs | intros e Hx; inversion Hx; subst; exact He]).
      * inversion H; subst. split; [exact Hwf | intros; discriminate].
  - inversion H; subst. split; [exact Hwf | intros; discriminate].
Qed.

Lemma hook_call_wf : forall T f fs x rest,
  wf_script fs = true -> hook_call T f fs = (x, rest) ->
  wf_script rest = true /\ (forall e, x = Some e -> is_exception e = true).
Proof.
  intros T f fs x rest Hwf H. destruct fs as [|y fs]; simpl in H.
  - inversion H; subst. split; [reflexivity | intros; discriminate].
  - destruct (wf_cons _ _ Hwf) as [He Hfs].
    destruct (fn_eqb (f_fn y) f).
    + destruct (route T f (asite T f KClientDisconnect 0) (f_exc y)) as [ord act|].
      * eapply in_handler_wf; eassumption.
      * inversion H; subst. split; [exact Hfs | intros e Hx; inversion Hx; subst; exact He].
    + inversion H; subst. split; [exact Hwf | intros; discriminate].
Qed.

Lemma no_format_may_raise : forall T f, no_format T f = true -> forall ord, may_raise T f ord = false.
Proof.
  intros T f H ord. unfold no_format in H. unfold may_raise.
  induction (t_anchors T) as [|a l IH]; simpl in *.
  - reflexivity.
  - apply andb_true_iff in H. destruct H as [Ha Hl]. rewrite (IH Hl). rewrite orb_false_r.
    apply negb_true_iff in Ha.
    destruct (fn_eqb (a_fn a) f && ckind_eqb (a_kind a) KFormatExc); simpl in *.
    + destruct (a_handler a); [discriminate | reflexivity].
    + reflexivity.
Qed.

Lemma no_format_in_handler : forall T f, no_format T f = true -> forall ord fs, in_handler T f ord fs = (None, fs).
Proof. intros T f H ord fs. unfold in_handler. rewrite (no_format_may_raise T f H ord). reflexivity. Qed.

Section Safe.
Variable T : tables.
Hypothesis Hsafe : safe_tables T = true.

Lemma safe_formats : no_format T FMuxHandleReq = true /\ no_format T FMuxEvents = true.
Proof.
  pose proof Hsafe as H. unfold safe_tables in H. repeat rewrite andb_true_iff in H. tauto.
Qed.

Lemma safe_parts :
  safe T ok_swallow FWorkerRun (asite T FWorkerRun KJob 0) = true /\
  safe T ok_ends FJobDeny (asite T FJobDeny KHandshake 0) = true /\
  safe T ok_ends FMuxHandleConn (asite T FMuxHandleConn KHandshake 0) = true /\
  safe T ok_returns FMuxHandleReq (asite T FMuxHandleReq KHandleRequest 0) = true /\
  safe T ok_swallow FMuxEvents (asite T FMuxEvents KClientDisconnect 0) = true.
Proof.
  pose proof Hsafe as H. unfold safe_tables in H. repeat rewrite andb_true_iff in H. tauto.
Qed.

Lemma worker_survives_true : forall e, is_exception e = true -> worker_survives T e = true.
Proof.
  intros e He. destruct safe_parts as [H _]. destruct (safe_sound T _ _ _ e He H) as [ord [act [Hr Hok]]].
  unfold worker_survives. rewrite Hr. destruct act; try discriminate. reflexivity.
Qed.

Lemma thr_deny_alive : forall fs rep dies rest,
  wf_script fs = true -> thr_deny T fs = (rep, dies, rest) -> dies = false.
Proof.
  intros fs rep dies rest Hwf H. unfold thr_deny in H.
  destruct (hs_loop T fs false) as [[r rp] fs1] eqn:Hh.
  destruct (hs_loop_wf T fs false r rp fs1 Hwf Hh) as [_ He].
  destruct r as [v|e].
  - inversion H; reflexivity.
  - destruct safe_parts as [_ [Hd _]].
    destruct (safe_sound T _ _ _ e (He e eq_refl) Hd) as [ord [act [Hr Hok]]].
    rewrite Hr in H. inversion H; reflexivity.
Qed.

Lemma mux_connect_alive : forall fs rep lv dies rest,
  wf_script fs = true -> mux_connect T fs = (rep, lv, dies, rest) -> dies = false.
Proof.
  intros fs rep lv dies rest Hwf H. unfold mux_connect in H.
  destruct (hs_loop T fs false) as [[r rp] fs1] eqn:Hh.
  destruct (hs_loop_wf T fs false r rp fs1 Hwf Hh) as [_ He].
  destruct r as [v|e].
  - inversion H; reflexivity.
  - destruct safe_parts as [_ [_ [Hd _]]].
    destruct (safe_sound T _ _ _ e (He e eq_refl) Hd) as [ord [act [Hr Hok]]].
    rewrite Hr in H. inversion H; reflexivity.
Qed.

Lemma mux_hook_contained : forall fs x rest,
  wf_script fs = true -> hook_call T FMuxEvents fs = (x, rest) -> x = None.
Proof.
  intros fs x rest Hwf H. destruct fs as [|y fs]; simpl in H.
  - inversion H; reflexivity.
  - destruct (wf_cons _ _ Hwf) as [He _].
    destruct (fn_eqb (f_fn y) FMuxEvents).
    + destruct safe_parts as [_ [_ [_ [_ Hd]]]].
      destruct (safe_sound T _ _ _ (f_exc y) He Hd) as [ord [act [Hr Hok]]].
      rewrite Hr in H. destruct safe_formats as [_ Hf].
      rewrite (no_format_in_handler T FMuxEvents Hf) in H. inversion H; reflexivity.
    + inversion H; reflexivity.
Qed.

Lemma mux_request_alive : forall q fs rep lv hook dies rest,
  wf_script fs = true -> mux_request T q fs = (rep, lv, hook, dies, rest) -> dies = false.
Proof.
  intros q fs rep lv hook dies rest Hwf H. unfold mux_request in H.
  destruct (hr_loop T q fs) as [[r rp] fs1] eqn:Hh.
  destruct (hr_loop_wf T q fs r rp fs1 Hwf Hh) as [Hw1 He].
  destruct r as [v|e].
  - inversion H; reflexivity.
  - destruct safe_parts as [_ [_ [_ [Hd _]]]].
    destruct (safe_sound T _ _ _ e (He e eq_refl) Hd) as [ord [act [Hr Hok]]].
    rewrite Hr in H. destruct safe_formats as [Hf _].
    rewrite (no_format_in_handler T FMuxHandleReq Hf) in H.
    destruct (hook_call T FMuxEvents fs1) as [x fs2] eqn:Hk.
    pose proof (mux_hook_contained fs1 x fs2 Hw1 Hk) as Hx. subst x.
    destruct act; inversion H; reflexivity.
Qed.

(* the worker always gets back to the pool *)
Lemma thr_job_connect_back : forall fs rep lv back rest,
  wf_script fs = true -> thr_job_connect T fs = (rep, lv, back, rest) -> back = true.
Proof.
  intros fs rep lv back rest Hwf H. unfold thr_job_connect in H.
  destruct (hs_loop T fs false) as [[r rp] fs1] eqn:Hh.
  destruct (hs_loop_wf T fs false r rp fs1 Hwf Hh) as [_ He].
  destruct r as [[|]|e]; try (inversion H; reflexivity).
  destruct (route T FJobHandleConn (asite T FJobHandleConn KHandshake 0) e) as [ord act|].
  - destruct act; inversion H; reflexivity.
  - destruct (route T FJobCall (asite T FJobCall KHandleConnection 0) e).
    + inversion H; reflexivity.
    + inversion H. apply worker_survives_true. apply He. reflexivity.
Qed.

Lemma thr_finally_wf : forall fs fe hook rest,
  wf_script fs = true -> thr_finally T fs = (fe, hook, rest) -> forall e, fe = Some e -> is_exception e = true.
Proof.
  intros fs fe hook rest Hwf H. unfold thr_finally in H.
  destruct (chain_has_finally T (fuel T) FJobCall (asite T FJobCall KHandleRequest 0)).
  - destruct (hook_call T FJobCall fs) as [x fs1] eqn:Hk.
    destruct (hook_call_wf T FJobCall fs x fs1 Hwf Hk) as [_ Hx]. inversion H; subst. exact Hx.
  - inversion H; subst. intros; discriminate.
Qed.

Lemma thr_job_request_back : forall q fs rep lv hook back rest,
  wf_script fs = true -> thr_job_request T q fs = (rep, lv, hook, back, rest) -> back = true.
Proof.
  intros q fs rep lv hook back rest Hwf H. unfold thr_job_request in H.
  destruct (hr_loop T q fs) as [[r rp] fs1] eqn:Hh.
  destruct (hr_loop_wf T q fs r rp fs1 Hwf Hh) as [Hw1 He].
  destruct r as [v|e]; [inversion H; reflexivity|].
  destruct (route T FJobCall (asite T FJobCall KHandleRequest 0) e) as [ord act|].
  - destruct (in_handler T FJobCall ord fs1) as [hx fs1'] eqn:Hi.
    destruct (in_handler_wf T FJobCall ord fs1 hx fs1' Hw1 Hi) as [Hw1' Hhx].
    destruct (thr_finally T fs1') as [[fe hk] fs2] eqn:Hf.
    pose proof (thr_finally_wf fs1' fe hk fs2 Hw1' Hf) as Hfe.
    destruct hx as [e1|].
    + inversion H. apply worker_survives_true.
      destruct fe as [e2|]; [apply Hfe; reflexivity | apply Hhx; reflexivity].
    + destruct act; inversion H; try reflexivity;
        (destruct fe as [e2|]; [apply worker_survives_true; apply Hfe; reflexivity | reflexivity]).
  - destruct (thr_finally T fs1) as [[fe hk] fs2] eqn:Hf.
    pose proof (thr_finally_wf fs1 fe hk fs2 Hw1 Hf) as Hfe.
    inversion H. apply worker_survives_true.
    destruct fe as [e2|]; [apply Hfe; reflexivity | apply He; reflexivity].
Qed.

(* ---- one step *)
Lemma step_alive : forall srv psize s ev,
  wf_event ev = true -> alive s = true -> alive (fst (step T srv psize s ev)) = true.
Proof.
  intros srv psize s ev Hwf Ha. unfold step. unfold wf_event in Hwf.
  destruct (e_kind ev) as [|q].
  - destruct (has_conn (e_conn ev) (live s)); [exact Ha|].
    rewrite Ha. simpl. destruct srv.
    + destruct (Nat.ltb (busy s) psize).
      * destruct (thr_job_connect T (e_script ev)) as [[[rep lv] back] rest]. reflexivity.
      * destruct (thr_deny T (e_script ev)) as [[rep dies] rest] eqn:Hd.
        rewrite (thr_deny_alive _ _ _ _ Hwf Hd). reflexivity.
    + destruct (mux_connect T (e_script ev)) as [[[rep lv] dies] rest] eqn:Hd.
      rewrite (mux_connect_alive _ _ _ _ _ Hwf Hd). reflexivity.
  - destruct (negb (has_conn (e_conn ev) (live s))); [exact Ha|].
    destruct srv.
    + destruct (thr_job_request T q (e_script ev)) as [[[[rep lv] hook] back] rest]. exact Ha.
    + rewrite Ha. simpl.
      destruct (mux_request T q (e_script ev)) as [[[[rep lv] hook] dies] rest] eqn:Hd.
      rewrite (mux_request_alive _ _ _ _ _ _ _ Hwf Hd). reflexivity.
Qed.

Lemma has_conn_In : forall c l, has_conn c l = true <-> In c l.
Proof.
  intros c l. unfold has_conn. rewrite existsb_exists. split.
  - intros [x [Hin Heq]]. apply Nat.eqb_eq in Heq. subst. exact Hin.
  - intros H. exists c. split; [exact H | apply Nat.eqb_refl].
Qed.

Lemma remove_conn_In : forall c x l, In x (remove_conn c l) <-> In x l /\ x <> c.
Proof.
  intros c x l. unfold remove_conn. rewrite filter_In. rewrite negb_true_iff, Nat.eqb_neq. tauto.
Qed.

Lemma remove_conn_NoDup : forall c l, NoDup l -> NoDup (remove_conn c l).
Proof. intros. apply NoDup_filter. assumption. Qed.

Lemma remove_conn_length : forall c l, NoDup l -> In c l -> S (List.length (remove_conn c l)) = List.length l.
Proof.
  intros c l. induction l as [|x l IH]; intros Hnd Hin; simpl in *.
  - contradiction.
  - inversion Hnd as [|? ? Hx Hl]; subst.
    destruct (Nat.eqb x c) eqn:E; simpl.
    + apply Nat.eqb_eq in E. subst x.
      assert (remove_conn c l = l) as ->; [|reflexivity].
      unfold remove_conn. clear IH Hnd Hin Hl. induction l as [|y l IHl]; simpl; [reflexivity|].
      destruct (Nat.eqb y c) eqn:E2.
      * apply Nat.eqb_eq in E2. subst. exfalso. apply Hx. left. reflexivity.
      * simpl. f_equal. apply IHl. intros H. apply Hx. right. exact H.
    + f_equal. apply IH; [exact Hl|]. destruct Hin as [Hin|Hin]; [|exact Hin].
      apply Nat.eqb_neq in E. contradiction.
Qed.

Definition inv (srv : server) (s : state) : Prop :=
  alive s = true /\ NoDup (live s) /\ (srv = SThread -> busy s = List.length (live s)).

Lemma step_inv : forall srv psize s ev,
  wf_event ev = true -> inv srv s -> inv srv (fst (step T srv psize s ev)).
Proof.
  intros srv psize s ev Hwf [Ha [Hnd Hb]].
  split; [apply step_alive; assumption|].
  unfold step. unfold wf_event in Hwf.
  destruct (e_kind ev) as [|q].
  - destruct (has_conn (e_conn ev) (live s)) eqn:Hc; [simpl; tauto|].
    rewrite Ha. simpl.
    assert (~ In (e_conn ev) (live s)) as Hni.
    { intros Hin. apply has_conn_In in Hin. rewrite Hin in Hc. discriminate. }
    destruct srv.
    + destruct (Nat.ltb (busy s) psize).
      * destruct (thr_job_connect T (e_script ev)) as [[[rep lv] back] rest] eqn:Hj.
        rewrite (thr_job_connect_back _ _ _ _ _ Hwf Hj). simpl.
        destruct lv; simpl.
        -- split; [constructor; assumption | intros _; rewrite Hb; reflexivity].
        -- tauto.
      * destruct (thr_deny T (e_script ev)) as [[rep dies] rest]. simpl. tauto.
    + destruct (mux_connect T (e_script ev)) as [[[rep lv] dies] rest]. simpl.
      destruct lv; simpl.
      * split; [constructor; assumption | intros; discriminate].
      * split; [assumption | intros; discriminate].
  - destruct (negb (has_conn (e_conn ev) (live s))) eqn:Hc; [simpl; tauto|].
    apply negb_false_iff in Hc. apply has_conn_In in Hc.
    destruct srv.
    + destruct (thr_job_request T q (e_script ev)) as [[[[rep lv] hook] back] rest] eqn:Hj.
      rewrite (thr_job_request_back _ _ _ _ _ _ _ Hwf Hj). simpl.
      destruct lv; simpl; [tauto|].
      split; [apply remove_conn_NoDup; assumption|].
      intros _. rewrite Hb by reflexivity.
      rewrite <- (remove_conn_length (e_conn ev) (live s) Hnd Hc). reflexivity.
    + rewrite Ha. simpl.
      destruct (mux_request T q (e_script ev)) as [[[[rep lv] hook] dies] rest]. simpl.
      destruct lv; simpl.
      * split; [assumption | intros; discriminate].
      * split; [apply remove_conn_NoDup; assumption | intros; discriminate].
Qed.

Lemma run_from_inv : forall srv psize evs s,
  wf_events evs = true -> inv srv s -> inv srv (fst (run_from T srv psize s evs)).
Proof.
  intros srv psize evs. induction evs as [|ev evs IH]; intros s Hwf Hi; simpl.
  - exact Hi.
  - simpl in Hwf. apply andb_true_iff in Hwf. destruct Hwf as [Hev Hevs].
    pose proof (step_inv srv psize s ev Hev Hi) as H1.
    destruct (step T srv psize s ev) as [s1 o]. simpl in H1.
    specialize (IH s1 Hevs H1).
    destruct (run_from T srv psize s1 evs) as [s2 os]. exact IH.
Qed.

(* a connection that is still being served was reported open by its last observation *)
Lemma step_live : forall srv psize s ev c,
  In c (live (fst (step T srv psize s ev))) ->
  if Nat.eqb (o_conn (snd (step T srv psize s ev))) c then o_open (snd (step T srv psize s ev)) = true
  else In c (live s).
Proof.
  intros srv psize s ev c. unfold step.
  destruct (e_kind ev) as [|q].
  - destruct (has_conn (e_conn ev) (live s)) eqn:Hc.
    { simpl. intros H. destruct (Nat.eqb (e_conn ev) c); [reflexivity | exact H]. }
    assert (~ In (e_conn ev) (live s)) as Hni.
    { intros Hin. apply has_conn_In in Hin. rewrite Hin in Hc. discriminate. }
    destruct (negb (alive s)).
    { simpl. intros H. destruct (Nat.eqb (e_conn ev) c); [reflexivity | exact H]. }
    destruct srv.
    + destruct (Nat.ltb (busy s) psize).
      * destruct (thr_job_connect T (e_script ev)) as [[[rep lv] back] rest]. simpl.
        destruct (Nat.eqb (e_conn ev) c) eqn:E; destruct lv; simpl; intros H; try reflexivity; try exact H.
        -- apply Nat.eqb_eq in E. subst. contradiction.
        -- destruct H as [H|H]; [apply Nat.eqb_neq in E; contradiction | exact H].
      * destruct (thr_deny T (e_script ev)) as [[rep dies] rest]. simpl.
        destruct (Nat.eqb (e_conn ev) c) eqn:E; intros H; [|exact H].
        apply Nat.eqb_eq in E. subst. contradiction.
    + destruct (mux_connect T (e_script ev)) as [[[rep lv] dies] rest]. simpl.
      destruct (Nat.eqb (e_conn ev) c) eqn:E; destruct lv; simpl; intros H; try reflexivity; try exact H.
      * apply Nat.eqb_eq in E. subst. contradiction.
      * destruct H as [H|H]; [apply Nat.eqb_neq in E; contradiction | exact H].
  - destruct (negb (has_conn (e_conn ev) (live s))) eqn:Hc.
    { simpl. intros H. destruct (Nat.eqb (e_conn ev) c) eqn:E; [|exact H].
      apply Nat.eqb_eq in E. subst. apply has_conn_In in H. rewrite H in Hc. discriminate. }
    destruct srv.
    + destruct (thr_job_request T q (e_script ev)) as [[[[rep lv] hook] back] rest]. simpl.
      destruct (Nat.eqb (e_conn ev) c) eqn:E; destruct lv; simpl; intros H; try reflexivity; try exact H.
      * apply Nat.eqb_eq in E. subst. apply remove_conn_In in H. destruct H as [_ H]. contradiction.
      * apply remove_conn_In in H. tauto.
    + destruct (negb (alive s)).
      { simpl. intros H. destruct (Nat.eqb (e_conn ev) c); [reflexivity | exact H]. }
      destruct (mux_request T q (e_script ev)) as [[[[rep lv] hook] dies] rest]. simpl.
      destruct (Nat.eqb (e_conn ev) c) eqn:E; destruct lv; simpl; intros H; try reflexivity; try exact H.
      * apply Nat.eqb_eq in E. subst. apply remove_conn_In in H. destruct H as [_ H]. contradiction.
      * apply remove_conn_In in H. tauto.
Qed.

Lemma run_from_live_open : forall srv psize evs s c cur,
  (In c (live s) -> cur = true) ->
  In c (live (fst (run_from T srv psize s evs))) ->
  still_open c (snd (run_from T srv psize s evs)) cur = true.
Proof.
  intros srv psize evs. induction evs as [|ev evs IH]; intros s c cur Hcur Hin; simpl in *.
  - auto.
  - pose proof (step_live srv psize s ev c) as Hs.
    destruct (step T srv psize s ev) as [s1 o]. simpl in Hs.
    specialize (IH s1 c (if Nat.eqb (o_conn o) c then o_open o else cur)).
    destruct (run_from T srv psize s1 evs) as [s2 os]. simpl in *.
    apply IH; [|exact Hin].
    intros H1. specialize (Hs H1). destruct (Nat.eqb (o_conn o) c); [exact Hs | auto].
Qed.

(* ---- loop_survives *)
Theorem loop_survives : forall srv psize evs,
  wf_events evs = true ->
  let s := fst (run T srv psize evs) in
  let os := snd (run T srv psize evs) in
  alive s = true /\
  NoDup (live s) /\
  accounting srv s = List.length (live s) /\
  (forall c, In c (live s) -> still_open c os false = true).
Proof.
  intros srv psize evs Hwf. simpl.
  assert (inv srv init) as Hi.
  { split; [reflexivity | split; [constructor | intros; reflexivity]]. }
  destruct (run_from_inv srv psize evs init Hwf Hi) as [Ha [Hnd Hb]].
  split; [exact Ha | split; [exact Hnd | split]].
  - unfold accounting. destruct srv; [apply Hb; reflexivity | reflexivity].
  - intros c Hin. apply run_from_live_open; [|exact Hin]. simpl. contradiction.
Qed.

(* accounting returns to its pre-attack value: whatever the attack does, if afterwards the connections being
   served are again those of before, the accounting is that of before *)
Theorem accounting_restored : forall srv psize pre attack,
  wf_events pre = true -> wf_events attack = true ->
  let s0 := fst (run T srv psize pre) in
  let s1 := fst (run_from T srv psize s0 attack) in
  alive s1 = true /\
  (List.length (live s1) = List.length (live s0) -> accounting srv s1 = accounting srv s0).
Proof.
  intros srv psize pre attack Hp Hatt. simpl. unfold run.
  assert (inv srv init) as Hi.
  { split; [reflexivity | split; [constructor | intros; reflexivity]]. }
  pose proof (run_from_inv srv psize pre init Hp Hi) as H0.
  pose proof (run_from_inv srv psize attack _ Hatt H0) as H1.
  destruct H0 as [_ [_ Hb0]]. destruct H1 as [Ha1 [_ Hb1]].
  split; [exact Ha1|].
  intros Hl. unfold accounting. destruct srv; [|exact Hl].
  rewrite Hb0, Hb1 by reflexivity. exact Hl.
Qed.

(* ---- witness_unaffected *)
Lemma step_other : forall srv psize s ev w,
  Nat.eqb (e_conn ev) w = false ->
  has_conn w (live (fst (step T srv psize s ev))) = has_conn w (live s) /\
  o_conn (snd (step T srv psize s ev)) = e_conn ev.
Proof.
  intros srv psize s ev w Hne. unfold step.
  assert (forall l, has_conn w (e_conn ev :: l) = has_conn w l) as Hcons.
  { intros l. simpl. rewrite Nat.eqb_sym. rewrite Hne. reflexivity. }
  assert (forall l, has_conn w (remove_conn (e_conn ev) l) = has_conn w l) as Hrem.
  { intros l. apply eq_true_iff_eq. rewrite !has_conn_In, remove_conn_In.
    apply Nat.eqb_neq in Hne. intuition. }
  destruct (e_kind ev) as [|q].
  - destruct (has_conn (e_conn ev) (live s)); [simpl; tauto|].
    destruct (negb (alive s)); [simpl; tauto|].
    destruct srv.
    + destruct (Nat.ltb (busy s) psize).
      * destruct (thr_job_connect T (e_script ev)) as [[[rep lv] back] rest]. cbn [fst snd live o_conn mkobs].
        destruct lv; cbn [fst snd live o_conn mkobs]; [rewrite Hcons|]; tauto.
      * destruct (thr_deny T (e_script ev)) as [[rep dies] rest]. simpl. tauto.
    + destruct (mux_connect T (e_script ev)) as [[[rep lv] dies] rest]. cbn [fst snd live o_conn mkobs].
      destruct lv; cbn [fst snd live o_conn mkobs]; [rewrite Hcons|]; tauto.
  - destruct (negb (has_conn (e_conn ev) (live s))); [simpl; tauto|].
    destruct srv.
    + destruct (thr_job_request T q (e_script ev)) as [[[[rep lv] hook] back] rest]. cbn [fst snd live o_conn mkobs].
      destruct lv; cbn [fst snd live o_conn mkobs]; [|rewrite Hrem]; tauto.
    + destruct (negb (alive s)); [simpl; tauto|].
      destruct (mux_request T q (e_script ev)) as [[[[rep lv] hook] dies] rest]. cbn [fst snd live o_conn mkobs].
      destruct lv; cbn [fst snd live o_conn mkobs]; [|rewrite Hrem]; tauto.
Qed.

(* a request of w is answered from w's membership and the loop's liveness alone *)
Lemma step_own_request : forall srv psize s s' ev w,
  Nat.eqb (e_conn ev) w = true -> is_request ev = true ->
  alive s = true -> alive s' = true -> has_conn w (live s) = has_conn w (live s') ->
  snd (step T srv psize s ev) = snd (step T srv psize s' ev) /\
  has_conn w (live (fst (step T srv psize s ev))) = has_conn w (live (fst (step T srv psize s' ev))).
Proof.
  intros srv psize s s' ev w Hw Hreq Ha Ha' Hm. apply Nat.eqb_eq in Hw. unfold step.
  destruct (e_kind ev) as [|q] eqn:Hk; [unfold is_request in Hreq; rewrite Hk in Hreq; discriminate|].
  rewrite Hw. rewrite <- Hm.
  destruct (has_conn w (live s)) eqn:Hc; simpl.
  - assert (forall l, has_conn w (remove_conn w l) = false) as Hrem.
    { intros l. apply not_true_iff_false. rewrite has_conn_In, remove_conn_In. tauto. }
    destruct srv.
    + destruct (thr_job_request T q (e_script ev)) as [[[[rep lv] hook] back] rest]. simpl.
      destruct lv; simpl; [rewrite <- Hm, Hc | rewrite !Hrem]; tauto.
    + rewrite Ha, Ha'. simpl.
      destruct (mux_request T q (e_script ev)) as [[[[rep lv] hook] dies] rest]. simpl.
      destruct lv; simpl; [rewrite <- Hm, Hc | rewrite !Hrem]; tauto.
  - rewrite <- Hm, Hc. tauto.
Qed.

Theorem witness_unaffected : forall srv psize evs s s' w,
  wf_events evs = true ->
  (forall ev, In ev evs -> on_conn w ev = true -> is_request ev = true) ->
  alive s = true -> alive s' = true -> has_conn w (live s) = has_conn w (live s') ->
  obs_on w (snd (run_from T srv psize s evs)) =
  obs_on w (snd (run_from T srv psize s' (filter (on_conn w) evs))).
Proof.
  intros srv psize evs. induction evs as [|ev evs IH]; intros s s' w Hwf Hreq Ha Ha' Hm; simpl.
  - reflexivity.
  - simpl in Hwf. apply andb_true_iff in Hwf. destruct Hwf as [Hev Hevs].
    assert (forall x, In x evs -> on_conn w x = true -> is_request x = true) as Hreq'.
    { intros x Hx. apply Hreq. right. exact Hx. }
    destruct (on_conn w ev) eqn:Hon.
    + (* w's own request: same observation, related states *)
      destruct (step_own_request srv psize s s' ev w Hon (Hreq ev (or_introl eq_refl) Hon) Ha Ha' Hm) as [Ho Hl].
      pose proof (step_alive srv psize s ev Hev Ha) as Ha1.
      pose proof (step_alive srv psize s' ev Hev Ha') as Ha1'.
      simpl.
      destruct (step T srv psize s ev) as [s1 o]. destruct (step T srv psize s' ev) as [s1' o'].
      simpl in *. subst o'.
      specialize (IH s1 s1' w Hevs Hreq' Ha1 Ha1' Hl).
      destruct (run_from T srv psize s1 evs) as [s2 os].
      destruct (run_from T srv psize s1' (filter (on_conn w) evs)) as [s2' os'].
      simpl in *. unfold obs_on in *. simpl. rewrite IH. reflexivity.
    + (* somebody else's event: invisible on w, w stays where it is, the loop stays alive *)
      destruct (step_other srv psize s ev w Hon) as [Hl Hc].
      pose proof (step_alive srv psize s ev Hev Ha) as Ha1.
      destruct (step T srv psize s ev) as [s1 o]. simpl in *.
      assert (has_conn w (live s1) = has_conn w (live s')) as Hm1 by (rewrite Hl; exact Hm).
      specialize (IH s1 s' w Hevs Hreq' Ha1 Ha' Hm1).
      destruct (run_from T srv psize s1 evs) as [s2 os]. simpl in *.
      unfold obs_on in *. simpl. rewrite Hc. unfold on_conn in Hon. rewrite Hon. exact IH.
Qed.

End Safe.
