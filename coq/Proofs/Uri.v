(* C19 — lemmas about Model/Uri.v.  Strategy (DESIGN Appendix B): (i) [parse_wf]: whatever the parser accepts
   satisfies a well-formedness predicate listing what the matchers guarantee of each component;
   (ii) [parse_print]: for a well-formed, regular uri, parsing its text form gives it back. *)
From Coq Require Import List NArith ZArith Bool Lia Decimal DecimalZ DecimalPos Permutation.
Import ListNotations.
From V Require Import Model.Uri.
Local Open Scope N_scope.

(* ================= generic list / boolean facts ================= *)
Lemma memN_In c l : memN c l = true <-> In c l.
Proof.
  unfold memN. rewrite existsb_exists. split.
  - intros [x [H1 H2]]. apply N.eqb_eq in H2. subst. exact H1.
  - intros H. exists c. split; [exact H | apply N.eqb_refl].
Qed.
Lemma memN_false c l : memN c l = false <-> ~ In c l.
Proof.
  rewrite <- memN_In. destruct (memN c l); split; intros H.
  - discriminate.
  - exfalso. apply H. reflexivity.
  - discriminate.
  - reflexivity.
Qed.

Lemma text_eqb_eq a b : text_eqb a b = true <-> a = b.
Proof.
  revert b. induction a as [|x a IH]; destruct b as [|y b]; cbn; split; intros H; try congruence; try discriminate.
  - apply andb_prop in H. destruct H as [H1 H2]. apply N.eqb_eq in H1. apply IH in H2. congruence.
  - injection H as -> ->. rewrite N.eqb_refl. apply IH. reflexivity.
Qed.

Lemma span_app f h c t : Forall (fun x => f x = true) h -> f c = false -> span f (h ++ c :: t) = (h, c :: t).
Proof.
  induction 1 as [|x h Hx _ IH]; intros Hc; cbn.
  - rewrite Hc. reflexivity.
  - rewrite Hx, (IH Hc). reflexivity.
Qed.
Lemma span_all f h : Forall (fun x => f x = true) h -> span f h = (h, []).
Proof. induction 1 as [|x h Hx _ IH]; cbn; [reflexivity|]. rewrite Hx, IH. reflexivity. Qed.
Lemma span_spec f s a b : span f s = (a, b) ->
  s = a ++ b /\ Forall (fun x => f x = true) a /\ match b with c :: _ => f c = false | [] => True end.
Proof.
  revert a b. induction s as [|c s IH]; cbn; intros a b H.
  - injection H as <- <-. repeat split; constructor.
  - destruct (f c) eqn:Hc.
    + destruct (span f s) as [a' b'] eqn:Hs. injection H as <- <-.
      destruct (IH _ _ eq_refl) as [E [Fa Hb]]. subst s. repeat split; auto.
    + injection H as <- <-. repeat split; auto.
Qed.

(* ================= what [tables_ok] provides ================= *)
Section WithTables.
Variable T : tables.
Hypothesis TOK : tables_ok T = true.

Definition nonws (c : N) : Prop := is_ws T c = false.

Lemma tok_all : is_ws T 10 = true /\ is_ws T 44 = false /\ is_digit T 45 = false /\
  (forall c, In c (45 :: ascii_digits) -> is_intws T c = false) /\
  (forall c, In c ascii_digits -> digit_val T c = Some (c - 48)).
Proof.
  pose proof TOK as H. unfold tables_ok in H.
  apply andb_prop in H. destruct H as [H H4]. apply andb_prop in H. destruct H as [H H3].
  apply andb_prop in H. destruct H as [H H5]. apply negb_true_iff in H5.
  apply andb_prop in H. destruct H as [H1 H2]. apply negb_true_iff in H2.
  rewrite forallb_forall in H3, H4. repeat split; auto.
  - intros c Hc. apply H3 in Hc. apply negb_true_iff in Hc. exact Hc.
  - intros c Hc. apply H4 in Hc. destruct (digit_val T c); [|discriminate]. apply N.eqb_eq in Hc. congruence.
Qed.
Lemma tok_ws10 : is_ws T 10 = true. Proof. apply tok_all. Qed.
Lemma tok_ws44 : is_ws T 44 = false. Proof. apply tok_all. Qed.
Lemma tok_digit45 : is_digit T 45 = false. Proof. apply tok_all. Qed.
Lemma tok_intws c : In c (45 :: ascii_digits) -> is_intws T c = false. Proof. apply tok_all. Qed.
Lemma tok_digit c : In c ascii_digits -> digit_val T c = Some (c - 48). Proof. apply tok_all. Qed.

Lemma nonws_not10 c : nonws c -> c <> 10.
Proof. intros H E. subst. unfold nonws in H. rewrite tok_ws10 in H. discriminate. Qed.

(* ================= int(): canonical decimal text reads back ================= *)
Definition dchar (c : N) : Prop := In c (45 :: ascii_digits).

Lemma digits_dchar d : Forall (fun c => In c ascii_digits) (digits d).
Proof. induction d; cbn [digits]; constructor; auto; cbn; tauto. Qed.

Lemma text_of_Z_dchar z : Forall dchar (text_of_Z z).
Proof.
  unfold text_of_Z. destruct (Z.to_int z) as [d|d].
  - eapply Forall_impl; [|apply digits_dchar]. intros c H. right. exact H.
  - constructor; [left; reflexivity|]. eapply Forall_impl; [|apply digits_dchar]. intros c H. right. exact H.
Qed.

Lemma digits_nonnil d : d <> Nil -> digits d <> [].
Proof. destruct d; cbn; congruence. Qed.

Lemma to_int_cases z : exists d, d <> Nil /\ (Z.to_int z = Decimal.Pos d \/ Z.to_int z = Decimal.Neg d).
Proof.
  destruct z as [|p|p]; cbn.
  - exists (D0 Nil). split; [discriminate|left; reflexivity].
  - exists (Pos.to_uint p). split; [apply Unsigned.to_uint_nonnil|left; reflexivity].
  - exists (Pos.to_uint p). split; [apply Unsigned.to_uint_nonnil|right; reflexivity].
Qed.

Lemma text_of_Z_nonnil z : text_of_Z z <> [].
Proof.
  unfold text_of_Z. destruct (to_int_cases z) as [d [Hd [E|E]]]; rewrite E.
  - apply digits_nonnil, Hd.
  - discriminate.
Qed.

Lemma text_of_Z_nonneg z : (0 <= z)%Z -> exists d, d <> Nil /\ text_of_Z z = digits d /\ Z.of_uint d = z.
Proof.
  intros Hz. unfold text_of_Z. pose proof (DecimalZ.of_to z) as OT.
  destruct (to_int_cases z) as [d [Hd [E|E]]]; rewrite E in *.
  - exists d. repeat split; auto.
  - exfalso. destruct z; cbn in E; try discriminate. lia.
Qed.

Lemma scan_digits_canon d : forall prev, d <> Nil \/ prev = true -> scan_digits T (digits d) prev = Some d.
Proof.
  induction d; intros prev Hp;
  try (cbn [digits scan_digits];
       match goal with |- context [?c =? 95] => change (c =? 95) with false; cbv iota end;
       match goal with |- context [digit_val T ?c] => rewrite (tok_digit c) by (cbn; tauto) end;
       rewrite IHd by (right; reflexivity); reflexivity).
  cbn. destruct Hp as [Hp|Hp]; [congruence|]. rewrite Hp. reflexivity.
Qed.

Lemma dropws_id s : Forall (fun c => is_intws T c = false) s -> dropws T s = s.
Proof. destruct 1 as [|c s Hc _]; cbn; [reflexivity|]. rewrite Hc. reflexivity. Qed.
Lemma strip_id s : Forall (fun c => is_intws T c = false) s -> strip T s = s.
Proof.
  intros H. unfold strip. rewrite (dropws_id s H). rewrite dropws_id by (apply Forall_rev; exact H).
  apply rev_involutive.
Qed.

Lemma int_of_digits d : d <> Nil -> int_of_text T (digits d) = Some (Z.of_uint d).
Proof.
  intros Hd. unfold int_of_text. rewrite strip_id.
  2:{ eapply Forall_impl; [|apply digits_dchar]. intros c H. apply tok_intws. right. exact H. }
  assert (H : match digits d with
              | c :: b => if c =? 45 then (true, b) else if c =? 43 then (false, b) else (false, digits d)
              | [] => (false, digits d)
              end = (false, digits d)) by (destruct d; reflexivity).
  rewrite H. rewrite scan_digits_canon by (left; exact Hd). reflexivity.
Qed.

Theorem int_of_text_canon z : int_of_text T (text_of_Z z) = Some z.
Proof.
  pose proof (DecimalZ.of_to z) as OT. unfold text_of_Z.
  destruct (to_int_cases z) as [d [Hd [E|E]]]; rewrite E in *; cbn [Z.of_int] in OT.
  - rewrite int_of_digits by exact Hd. congruence.
  - unfold int_of_text. rewrite strip_id.
    2:{ constructor; [apply tok_intws; left; reflexivity|].
        eapply Forall_impl; [|apply digits_dchar]. intros c H. apply tok_intws. right. exact H. }
    change (45 =? 45) with true. cbv iota.
    rewrite scan_digits_canon by (left; exact Hd). congruence.
Qed.

(* ================= the regular-expression level ================= *)
Lemma span_proto p r : span is_letter (proto_text p ++ 58 :: r) = (proto_text p, 58 :: r).
Proof. destruct p; reflexivity. Qed.
Lemma proto_of_text p : proto_of_upper (map upper (proto_text p)) = Some p.
Proof. destruct p; reflexivity. Qed.

Lemma strip_nl_id r : ~ In 10 r -> strip_nl r = r.
Proof.
  induction r as [|c r IH]; intros H; [reflexivity|].
  cbn [strip_nl]. destruct r as [|c' r'].
  - destruct (N.eqb_spec c 10) as [E|E]; [|reflexivity]. exfalso. apply H. left. auto.
  - f_equal. apply IH. intros X. apply H. right. exact X.
Qed.

Lemma strip_nl_sub r c : In c (strip_nl r) -> In c r.
Proof.
  induction r as [|x r IH]; [auto|]. cbn [strip_nl]. destruct r as [|c' r'].
  - destruct (x =? 10); cbn; tauto.
  - intros [E|H]; [left; exact E|right; apply IH; exact H].
Qed.

(* '@' occurs only as the last character *)
Fixpoint at_only_last (r : text) : Prop :=
  match r with [] => True | c :: r' => (c = 64 -> r' = []) /\ at_only_last r' end.

Lemma split_rest_loc o l : Forall nonws o -> ~ In 64 o -> l <> [] ->
  split_rest T (o ++ 64 :: l) = Some (o, Some l).
Proof.
  intros Ho. induction Ho as [|c o Hc _ IH]; intros H64 Hl; simpl List.app; simpl split_rest.
  - destruct l; [congruence|reflexivity].
  - destruct (N.eqb_spec c 64) as [E|E]; [exfalso; apply H64; left; auto|].
    cbn [andb]. unfold nonws in Hc. rewrite Hc. rewrite IH; auto. intros X. apply H64. right. exact X.
Qed.

Lemma split_rest_noloc o : Forall nonws o -> at_only_last o -> split_rest T o = Some (o, None).
Proof.
  intros Ho. induction Ho as [|c o Hc _ IH]; intros Ha; simpl split_rest; [reflexivity|].
  destruct Ha as [Ha1 Ha2].
  replace ((c =? 64) && negb (is_nil o)) with false.
  2:{ destruct (N.eqb_spec c 64) as [E|E]; [|reflexivity]. rewrite (Ha1 E). reflexivity. }
  unfold nonws in Hc. rewrite Hc, IH; auto.
Qed.

Lemma split_rest_spec r : forall o loc, split_rest T r = Some (o, loc) ->
  Forall nonws o /\
  match loc with
  | Some l => ~ In 64 o /\ l <> [] /\ r = o ++ 64 :: l
  | None => at_only_last o /\ r = o
  end.
Proof.
  induction r as [|c r IH]; intros o loc H; simpl split_rest in H.
  - injection H as <- <-. cbn. auto.
  - destruct ((c =? 64) && negb (is_nil r)) eqn:E1.
    + injection H as <- <-. apply andb_prop in E1. destruct E1 as [E1 E2]. apply N.eqb_eq in E1. subst c.
      split; [constructor|]. repeat split; auto. destruct r; [discriminate|congruence].
    + destruct (is_ws T c) eqn:E2; [discriminate|].
      destruct (split_rest T r) as [[o' l']|] eqn:E3; [|discriminate]. injection H as <- <-.
      destruct (IH _ _ eq_refl) as [F R]. split; [constructor; auto|].
      destruct l' as [l|].
      * destruct R as [R1 [R2 R3]]. repeat split; auto; [|cbn; congruence].
        intros [X|X]; [|auto]. subst c. rewrite N.eqb_refl in E1. cbn in E1. apply negb_false_iff in E1.
        destruct r; [|discriminate]. cbn in E3. discriminate.
      * destruct R as [R1 R2]. repeat split; auto; [|cbn; congruence].
        intros X. subst c. rewrite N.eqb_refl in E1. cbn in E1. apply negb_false_iff in E1.
        destruct r; [|discriminate]. cbn in E3. congruence.
Qed.

(* what an object string is, with and without a location behind it *)
Definition objstr_ok (o : text) (has_loc : bool) : Prop :=
  o <> [] /\ Forall nonws o /\ (if has_loc then ~ In 64 (tl o) else at_only_last (tl o)).

Lemma split_obj_loc o l : objstr_ok o true -> l <> [] -> split_obj T (o ++ 64 :: l) = Some (o, Some l).
Proof.
  intros [H1 [H2 H3]] Hl. destruct o as [|c o]; [congruence|]. simpl List.app. simpl split_obj.
  inversion H2 as [|? ? Hc Ho]; subst. unfold nonws in Hc. rewrite Hc.
  rewrite split_rest_loc; auto.
Qed.
Lemma split_obj_noloc o : objstr_ok o false -> split_obj T o = Some (o, None).
Proof.
  intros [H1 [H2 H3]]. destruct o as [|c o]; [congruence|]. simpl split_obj.
  inversion H2 as [|? ? Hc Ho]; subst. unfold nonws in Hc. rewrite Hc.
  rewrite split_rest_noloc; auto.
Qed.
Lemma split_obj_spec r o loc : split_obj T r = Some (o, loc) ->
  match loc with
  | Some l => objstr_ok o true /\ l <> [] /\ r = o ++ 64 :: l
  | None => objstr_ok o false /\ r = o
  end.
Proof.
  destruct r as [|c r]; simpl split_obj; [discriminate|].
  destruct (is_ws T c) eqn:E; [discriminate|].
  destruct (split_rest T r) as [[o' l']|] eqn:E3; [|discriminate]. intros H. injection H as <- <-.
  destruct (split_rest_spec _ _ _ E3) as [F R]. destruct l' as [l|].
  - destruct R as [R1 [R2 R3]]. subst r. repeat split; auto; try discriminate; constructor; auto.
  - destruct R as [R1 R2]. subst r. repeat split; auto; try discriminate; constructor; auto.
Qed.

(* ================= tag lists ================= *)
Lemma split_comma_nonnil s : split_comma s <> [].
Proof. induction s as [|c s IH]; cbn; [discriminate|]. destruct (c =? 44); [discriminate|]. destruct (split_comma s); discriminate. Qed.

Lemma split_comma_single t : ~ In 44 t -> split_comma t = [t].
Proof.
  induction t as [|c t IH]; intros H; [reflexivity|]. simpl split_comma.
  destruct (N.eqb_spec c 44) as [E|E]; [exfalso; apply H; left; auto|].
  rewrite IH; [reflexivity|]. intros X. apply H. right. exact X.
Qed.
Lemma split_comma_app t rest : ~ In 44 t -> split_comma (t ++ 44 :: rest) = t :: split_comma rest.
Proof.
  induction t as [|c t IH]; intros H; simpl List.app; simpl split_comma.
  - reflexivity.
  - destruct (N.eqb_spec c 44) as [E|E]; [exfalso; apply H; left; auto|].
    rewrite IH; [reflexivity|]. intros X. apply H. right. exact X.
Qed.
Lemma split_join l : l <> [] -> (forall t, In t l -> ~ In 44 t) -> split_comma (join_comma l) = l.
Proof.
  induction l as [|t l IH]; intros Hn H; [congruence|]. simpl join_comma. destruct l as [|t' l'].
  - apply split_comma_single. apply H. left. reflexivity.
  - rewrite split_comma_app by (apply H; left; reflexivity). f_equal. apply IH; [discriminate|].
    intros x Hx. apply H. right. exact Hx.
Qed.
Lemma split_comma_chars s : forall t c, In t (split_comma s) -> In c t -> In c s /\ c <> 44.
Proof.
  induction s as [|x s IH]; intros t c Ht Hc; simpl split_comma in Ht.
  - destruct Ht as [<-|[]]. destruct Hc.
  - destruct (N.eqb_spec x 44) as [E|E].
    + destruct Ht as [<-|Ht]; [destruct Hc|]. destruct (IH _ _ Ht Hc). split; [right|]; auto.
    + destruct (split_comma s) as [|t0 ts] eqn:Es.
      * destruct Ht as [<-|[]]. destruct Hc as [<-|[]]. split; [left|]; auto.
      * destruct Ht as [<-|Ht].
        -- destruct Hc as [<-|Hc]; [split; [left|]; auto|]. destruct (IH t0 c (or_introl eq_refl) Hc). split; [right|]; auto.
        -- destruct (IH t c (or_intror Ht) Hc). split; [right|]; auto.
Qed.

Lemma join_Forall (P : N -> Prop) l : P 44 -> (forall t, In t l -> Forall P t) -> Forall P (join_comma l).
Proof.
  intros P44. induction l as [|t l IH]; intros H; [constructor|]. simpl join_comma. destruct l as [|t' l'].
  - apply H. left. reflexivity.
  - apply Forall_app. split; [apply H; left; reflexivity|]. constructor; [exact P44|].
    apply IH. intros x Hx. apply H. right. exact Hx.
Qed.
Lemma join_nil l : join_comma l = [] -> l = [] \/ l = [[]].
Proof.
  destruct l as [|t [|t' l']]; simpl join_comma; intros H; auto.
  - subst. auto.
  - exfalso. eapply app_cons_not_nil. symmetry. exact H.
Qed.

Lemma tagset_join l : l <> [] -> NoDup l -> (forall t, In t l -> ~ In 44 t) -> tagset (join_comma l) = l.
Proof. intros H1 H2 H3. unfold tagset. rewrite split_join by auto. apply nodup_fixed_point. exact H2. Qed.

(* ================= locations ================= *)
Definition wf_loc (L : uloc) : Prop :=
  match L with
  | LNone => True
  | LSock n => n <> [] /\ ~ In 58 n /\ ~ In 10 n
  | LHost h p => ~ In 10 h /\
                 ((~ In 58 h /\ starts_with [91] h = false) \/
                  (In 58 h /\ Forall (fun c => is_hexcolon c = true) h /\ (0 <= p)%Z))
  end.

Lemma sw_nil s : starts_with [] s = true.
Proof. destruct s; reflexivity. Qed.
Lemma sw_cons x p y s : starts_with (x :: p) (y :: s) = (x =? y) && starts_with p s.
Proof. reflexivity. Qed.

Lemma sock_prefix_host h t : ~ In 58 h -> h <> dot_slash_u -> starts_with sock_prefix (h ++ 58 :: t) = false.
Proof.
  intros H58 Hd. unfold sock_prefix, dot_slash_u in *.
  destruct h as [|a [|b [|c [|d h']]]]; simpl List.app; rewrite ?sw_cons.
  - reflexivity.
  - change (47 =? 58) with false. cbn [andb]. rewrite andb_false_r. reflexivity.
  - change (117 =? 58) with false. cbn [andb]. rewrite !andb_false_r. reflexivity.
  - destruct (N.eqb_spec 46 a); [|reflexivity]. destruct (N.eqb_spec 47 b); [|reflexivity].
    destruct (N.eqb_spec 117 c); [|reflexivity]. subst. congruence.
  - destruct (N.eqb_spec 58 d) as [E|E].
    + exfalso. apply H58. subst d. simpl. tauto.
    + rewrite !andb_false_r. reflexivity.
Qed.

Lemma dchar_facts c : dchar c -> c <> 10 /\ c <> 58 /\ c <> 64.
Proof. unfold dchar, ascii_digits. cbn. intros H. repeat destruct H as [<-|H]; try (repeat split; discriminate). destruct H. Qed.

Lemma digits_is_digit d : Forall (fun c => is_digit T c = true) (digits d).
Proof.
  eapply Forall_impl; [|apply digits_dchar]. intros c H. unfold is_digit. rewrite tok_digit by exact H. reflexivity.
Qed.

Lemma parse_loc_print L dp : wf_loc L -> regular_loc L -> L <> LNone ->
  exists l, loc_text quirks_none L = Some l /\ l <> [] /\ ~ In 10 l /\ parse_loc T l dp = Some L.
Proof.
  destruct L as [|n|h p]; intros W R NE; [congruence| |].
  - destruct W as [W1 [W2 W3]]. exists (sock_prefix ++ n). cbn [loc_text].
    destruct n as [|x n]; [congruence|]. cbn [is_nil]. repeat split; try discriminate.
    + intros X. apply in_app_or in X. destruct X as [X|X]; [|auto].
      unfold sock_prefix in X. cbn in X. repeat destruct X as [X|X]; try discriminate. destruct X.
    + unfold parse_loc. change (starts_with sock_prefix (sock_prefix ++ x :: n)) with true. cbv iota.
      change (skipn 4 (sock_prefix ++ x :: n)) with (x :: n). cbn [is_nil orb].
      apply memN_false in W2. rewrite W2. reflexivity.
  - destruct W as [W10 W]. cbn [loc_text quirks_none q_empty_host andb].
    pose proof (text_of_Z_dchar p) as DC. pose proof (text_of_Z_nonnil p) as NN.
    assert (N10 : ~ In 10 (text_of_Z p)).
    { intros X. rewrite Forall_forall in DC. apply DC in X. apply dchar_facts in X. tauto. }
    destruct W as [[W58 W91]|[W58 [WH WP]]].
    + apply memN_false in W58 as M. rewrite M. exists (h ++ 58 :: text_of_Z p). repeat split.
      * intros X. eapply app_cons_not_nil. symmetry. exact X.
      * intros X. apply in_app_or in X. destruct X as [X|[X|X]]; [auto|discriminate|auto].
      * unfold parse_loc. rewrite sock_prefix_host by auto.
        replace (starts_with [91] (h ++ 58 :: text_of_Z p)) with false
          by (destruct h; [reflexivity|exact (eq_sym W91)]).
        unfold partition_colon. rewrite span_app.
        2:{ rewrite Forall_forall. intros x Hx. apply negb_true_iff. apply N.eqb_neq. intros E. subst. auto. }
        2:{ reflexivity. }
        cbn [tl]. destruct (text_of_Z p) eqn:E; [congruence|]. cbn [is_nil]. rewrite <- E.
        rewrite int_of_text_canon. reflexivity.
    + apply memN_In in W58 as M. rewrite M.
      destruct (text_of_Z_nonneg p WP) as [d [Hd [Ed Ez]]].
      exists ((91 :: h ++ [93]) ++ 58 :: text_of_Z p). repeat split.
      * discriminate.
      * intros X. apply in_app_or in X. destruct X as [X|[X|X]]; [|discriminate|auto].
        destruct X as [X|X]; [discriminate|]. apply in_app_or in X. destruct X as [X|[X|[]]]; [auto|discriminate].
      * cbn [List.app]. rewrite <- app_assoc. cbn [List.app]. unfold parse_loc.
        change (starts_with sock_prefix (91 :: h ++ 93 :: 58 :: text_of_Z p)) with false. cbv iota.
        rewrite !sw_cons, !N.eqb_refl, sw_nil. cbn [andb].
        destruct h as [|a h']; [destruct W58|]. inversion WH as [|? ? Ha Hh' Heq].
        replace (starts_with [91] ((a :: h') ++ 93 :: 58 :: text_of_Z p)) with false.
        2:{ simpl List.app. rewrite sw_cons. destruct (N.eqb_spec 91 a) as [E|E]; [|reflexivity]. rewrite <- E in Ha. vm_compute in Ha. discriminate Ha. }
        cbn [tl]. unfold ipv6_match. rewrite span_app; [|exact WH|reflexivity].
        cbn [is_nil]. rewrite Ed. cbv iota. change (93 =? 93) with true. cbv iota. change (58 =? 58) with true. cbv iota. rewrite span_all by apply digits_is_digit.
        destruct (digits d) eqn:E; [exfalso; revert E; apply digits_nonnil; exact Hd|].
        cbn [is_nil]. rewrite <- E. rewrite int_of_digits by exact Hd. rewrite Ez. reflexivity.
Qed.

(* ================= what the parser guarantees ================= *)
Definition has_loc (L : uloc) : bool := match L with LNone => false | _ => true end.

Definition wf (u : uri) : Prop :=
  exists o, objstr_ok o (has_loc (u_loc u)) /\
    u_obj u = match u_proto u with PYROMETA => OTags (tagset o) | _ => OName o end /\
    wf_loc (u_loc u) /\ (u_proto u = PYRO -> u_loc u <> LNone).

Lemma dropws_Forall (P : N -> Prop) s : Forall P s -> Forall P (dropws T s).
Proof. induction 1 as [|c s Hc Hs IH]; cbn; [constructor|]. destruct (is_intws T c); auto. Qed.
Lemma strip_Forall (P : N -> Prop) s : Forall P s -> Forall P (strip T s).
Proof. intros H. unfold strip. apply Forall_rev, dropws_Forall, Forall_rev, dropws_Forall, H. Qed.

Lemma int_of_digit_text_nonneg s z :
  Forall (fun c => is_digit T c = true) s -> int_of_text T s = Some z -> (0 <= z)%Z.
Proof.
  intros F. unfold int_of_text. apply strip_Forall in F. destruct (strip T s) as [|c b].
  - cbn. discriminate.
  - destruct (N.eqb_spec c 45) as [E|E].
    + inversion F; subst. rewrite tok_digit45 in *. discriminate.
    + cbv iota. destruct (c =? 43); cbv iota beta; (destruct (scan_digits T _ false); [|discriminate]);
        intros H; injection H as <-; unfold Z.of_uint; apply N2Z.is_nonneg.
Qed.

Lemma in_skipn_in (x : N) n l : In x (skipn n l) -> In x l.
Proof. intros H. rewrite <- (firstn_skipn n l). apply in_or_app. right. exact H. Qed.

Lemma parse_loc_wf l dp L : ~ In 10 l -> (forall d, dp = Some d -> (0 <= d)%Z) ->
  parse_loc T l dp = Some L -> wf_loc L /\ L <> LNone.
Proof.
  intros H10 Hdp. unfold parse_loc. destruct (starts_with sock_prefix l) eqn:SP.
  - destruct (is_nil (skipn 4 l) || memN 58 (skipn 4 l)) eqn:E; [discriminate|].
    intros H. injection H as <-. apply orb_false_elim in E. destruct E as [E1 E2].
    assert (NN : skipn 4 l <> []) by (intros X; rewrite X in E1; discriminate E1).
    split; [|discriminate]. cbn [wf_loc]. split; [exact NN|]. split.
    + apply memN_false. exact E2.
    + intros X. apply H10. apply (in_skipn_in 10 4%nat l). exact X.
  - destruct (starts_with [91] l) eqn:B.
    + destruct (starts_with [91; 91] l); [discriminate|].
      destruct l as [|c0 l0]; [discriminate|]. cbn [tl].
      unfold ipv6_match. destruct (span is_hexcolon l0) as [h r] eqn:S.
      apply span_spec in S. destruct S as [S1 [S2 S3]].
      destruct (is_nil h) eqn:Nh; [discriminate|].
      assert (H10h : ~ In 10 h).
      { intros X. apply H10. right. rewrite S1. apply in_or_app. left. exact X. }
      assert (W : forall p, (In 58 h -> (0 <= p)%Z) -> wf_loc (LHost h p)).
      { intros p Hp. split; [exact H10h|]. destruct (memN 58 h) eqn:M.
        - right. apply memN_In in M. auto.
        - left. apply memN_false in M. split; [exact M|]. destruct h as [|a h']; [reflexivity|].
          rewrite sw_cons. inversion S2 as [|? ? Ha _]; subst. destruct (N.eqb_spec 91 a) as [E|E]; [|reflexivity].
          rewrite <- E in Ha. vm_compute in Ha. discriminate Ha. }
      assert (Dflt : match dp with Some d => Some (LHost h d) | None => None end = Some L -> wf_loc L /\ L <> LNone).
      { destruct dp as [d|]; [|discriminate]. intros H. injection H as <-. split; [|discriminate].
        apply W. intros _. apply Hdp. reflexivity. }
      destruct r as [|c r']; [discriminate|]. destruct (c =? 93); [|discriminate].
      destruct r' as [|c2 r'']; [exact Dflt|]. destruct (c2 =? 58); [|exact Dflt].
      destruct (span (is_digit T) r'') as [ds rest] eqn:SD. apply span_spec in SD. destruct SD as [_ [SD _]].
      destruct (is_nil ds); [exact Dflt|].
      destruct (int_of_text T ds) as [z|] eqn:IZ; [|discriminate]. intros H. injection H as <-.
      split; [|discriminate]. apply W. intros _. eapply int_of_digit_text_nonneg; eauto.
    + unfold partition_colon. destruct (span (fun c => negb (c =? 58)) l) as [h b] eqn:S.
      apply span_spec in S. destruct S as [S1 [S2 _]].
      assert (W : forall p, wf_loc (LHost h p)).
      { intros p. split.
        - intros X. apply H10. rewrite S1. apply in_or_app. left. exact X.
        - left. split.
          + intros X. rewrite Forall_forall in S2. apply S2 in X. rewrite N.eqb_refl in X. discriminate.
          + destruct h as [|a h']; [reflexivity|]. rewrite S1 in B. simpl List.app in B. rewrite sw_cons in *.
            rewrite sw_nil in *. exact B. }
      destruct (is_nil (tl b)).
      * destruct dp; [|discriminate]. intros H. injection H as <-. split; [apply W|discriminate].
      * destruct (int_of_text T (tl b)); [|discriminate]. intros H. injection H as <-. split; [apply W|discriminate].
Qed.

Lemma parse_wf ns s u : (0 <= ns)%Z -> parse T ns s = Some u -> wf u.
Proof.
  intros Hns. unfold parse. destruct (span is_letter s) as [letters rest].
  destruct rest as [|c r]; [discriminate|]. destruct (negb (c =? 58)); [discriminate|].
  destruct (proto_of_upper (map upper letters)) as [p|]; [|discriminate].
  destruct (memN 10 (strip_nl r)) eqn:M; [discriminate|]. apply memN_false in M.
  destruct (split_obj T (strip_nl r)) as [[o loc]|] eqn:SO; [|discriminate].
  apply split_obj_spec in SO. destruct loc as [l|].
  - destruct SO as [OK [Hl Hr]].
    destruct (parse_loc T l (match p with PYRO => None | _ => Some ns end)) as [L|] eqn:PL; [|discriminate].
    intros H. injection H as <-. apply parse_loc_wf in PL.
    + destruct PL as [WL NL]. exists o. cbn [u_loc u_obj u_proto].
      assert (HL : has_loc L = true) by (destruct L; [congruence|reflexivity|reflexivity]).
      rewrite HL. split; [exact OK|]. split; [destruct p; reflexivity|]. split; [exact WL|]. intros _. exact NL.
    + intros X. apply M. rewrite Hr. apply in_or_app. right. right. exact X.
    + intros d Hd. destruct p; [discriminate| |]; injection Hd as <-; exact Hns.
  - destruct SO as [OK Hr]. destruct p; [discriminate| |]; intros H; injection H as <-;
      exists o; cbn [u_loc u_obj u_proto has_loc wf_loc]; (split; [exact OK|split; [reflexivity|split; [exact I|discriminate]]]).
Qed.

(* ================= printing then parsing ================= *)
Lemma objstr_no10 o b : objstr_ok o b -> ~ In 10 o.
Proof. intros [_ [F _]] X. rewrite Forall_forall in F. apply F in X. apply nonws_not10 in X. congruence. Qed.

Lemma parse_text ns p o L :
  objstr_ok o (has_loc L) -> wf_loc L -> regular_loc L -> (p = PYRO -> L <> LNone) ->
  parse T ns (proto_text p ++ 58 :: o ++ match loc_text quirks_none L with Some l => 64 :: l | None => [] end)
  = Some {| u_proto := p; u_obj := match p with PYROMETA => OTags (tagset o) | _ => OName o end; u_loc := L |}.
Proof.
  intros OK WL RL PL. unfold parse. rewrite span_proto. change (negb (58 =? 58)) with false. cbv iota.
  rewrite proto_of_text. pose proof (objstr_no10 _ _ OK) as O10.
  destruct (has_loc L) eqn:HL.
  - assert (NL : L <> LNone) by (intros ->; discriminate).
    destruct (parse_loc_print L (match p with PYRO => None | _ => Some ns end) WL RL NL) as [l [E1 [E2 [E3 E4]]]].
    rewrite E1.
    assert (N10 : ~ In 10 (o ++ 64 :: l)).
    { intros X. apply in_app_or in X. destruct X as [X|[X|X]]; [auto|discriminate|auto]. }
    rewrite strip_nl_id by exact N10. apply memN_false in N10. rewrite N10.
    rewrite split_obj_loc by auto. rewrite E4. reflexivity.
  - destruct L; try discriminate. cbn [loc_text]. rewrite app_nil_r.
    rewrite strip_nl_id by exact O10. apply memN_false in O10. rewrite O10.
    rewrite split_obj_noloc by exact OK. destruct p; [exfalso; apply PL; reflexivity| |]; reflexivity.
Qed.

Lemma no64_at_only_last r : ~ In 64 r -> at_only_last r.
Proof.
  induction r as [|c r IH]; intros H; cbn; [exact I|]. split.
  - intros E. exfalso. apply H. left. exact E.
  - apply IH. intros X. apply H. right. exact X.
Qed.

Lemma in_tl (x : N) l : In x (tl l) -> In x l.
Proof. destruct l; cbn; auto. Qed.

Lemma parse_print ns u : wf u -> regular u -> forall u', reordering u u' ->
  parse T ns (print quirks_none u') = Some u'.
Proof.
  intros [o [OK [EO [WL PL]]]] [RL RO] u' RE. unfold reordering in RE.
  destruct u as [p obj L]. cbn [u_proto u_obj u_loc] in *. subst obj.
  destruct p.
  - subst u'. unfold print. cbn [u_proto u_obj u_loc obj_text]. rewrite (parse_text ns PYRO o L); auto.
  - subst u'. unfold print. cbn [u_proto u_obj u_loc obj_text]. rewrite (parse_text ns PYRONAME o L); auto.
  - destruct RE as [l' [PM ->]]. destruct RO as [RO1 RO2].
    unfold print, with_tags. cbn [u_proto u_obj u_loc obj_text].
    destruct OK as [OK1 [OK2 OK3]].
    assert (TF : forall t, In t l' -> Forall nonws t /\ ~ In 44 t /\ ~ In 64 t).
    { intros t Ht. apply (Permutation_in _ PM) in Ht. pose proof (RO2 _ Ht) as H64.
      unfold tagset in Ht. apply nodup_In in Ht. repeat split; auto.
      - rewrite Forall_forall. intros c Hc. destruct (split_comma_chars _ _ _ Ht Hc) as [Hin _].
        rewrite Forall_forall in OK2. apply OK2. exact Hin.
      - intros Hc. destruct (split_comma_chars _ _ _ Ht Hc) as [_ Hne]. congruence. }
    assert (NE : l' <> []).
    { intros ->. apply Permutation_nil in PM. unfold tagset in PM.
      pose proof (split_comma_nonnil o) as X. destruct (split_comma o) as [|t ts] eqn:E; [congruence|].
      assert (In t (nodup text_dec (t :: ts))) by (apply nodup_In; left; reflexivity).
      rewrite PM in H. destruct H. }
    assert (NE1 : l' <> [[]]).
    { intros ->. apply Permutation_length_1_inv in PM. auto. }
    assert (ND : NoDup l').
    { eapply Permutation_NoDup; [apply Permutation_sym; exact PM|]. apply NoDup_nodup. }
    assert (J64 : ~ In 64 (join_comma l')).
    { assert (F : Forall (fun c => c <> 64) (join_comma l')).
      { apply join_Forall; [discriminate|]. intros t Ht. rewrite Forall_forall. intros c Hc E. subst c.
        destruct (TF _ Ht) as [_ [_ X]]. auto. }
      intros X. rewrite Forall_forall in F. apply F in X. congruence. }
    assert (JOK : objstr_ok (join_comma l') (has_loc L)).
    { repeat split.
      - intros E. apply join_nil in E. destruct E; auto.
      - apply join_Forall; [exact tok_ws44|]. intros t Ht. apply TF. exact Ht.
      - destruct (has_loc L).
        + intros X. apply J64. apply in_tl. exact X.
        + apply no64_at_only_last. intros X. apply J64. apply in_tl. exact X. }
    rewrite (parse_text ns PYROMETA (join_comma l') L); auto; try discriminate.
    rewrite tagset_join; auto. intros t Ht. apply TF. exact Ht.
Qed.

Lemma reordering_eq u u' : reordering u u' -> uri_eq u' u.
Proof.
  unfold reordering, uri_eq. destruct u as [p obj L]. cbn [u_obj]. destruct obj as [n|l].
  - intros ->. cbn. auto.
  - intros [l' [PM ->]]. cbn. repeat split; auto.
    + intros H. eapply Permutation_in; eauto.
    + intros H. eapply Permutation_in; [apply Permutation_sym|]; eauto.
Qed.

Theorem reparse ns s u : (0 <= ns)%Z -> parse T ns s = Some u -> regular u ->
  forall u', reordering u u' -> parse T ns (print quirks_none u') = Some u' /\ uri_eq u' u.
Proof.
  intros Hns P R u' RE. split; [|apply reordering_eq; exact RE].
  eapply parse_print; eauto. eapply parse_wf; eauto.
Qed.

Theorem print_fixpoint ns s u : (0 <= ns)%Z -> parse T ns s = Some u -> regular u ->
  forall u', reordering u u' ->
  option_map (print quirks_none) (parse T ns (print quirks_none u')) = Some (print quirks_none u').
Proof. intros Hns P R u' RE. destruct (reparse ns s u Hns P R u' RE) as [E _]. rewrite E. reflexivity. Qed.

End WithTables.

(* ================= equality and hashing ================= *)
Lemma mem_text_In t l : mem_text t l = true <-> In t l.
Proof.
  unfold mem_text. rewrite existsb_exists. split.
  - intros [x [H1 H2]]. apply text_eqb_eq in H2. subst. exact H1.
  - intros H. exists t. split; [exact H|]. apply text_eqb_eq. reflexivity.
Qed.
Lemma incl_b_spec a b : incl_b a b = true <-> incl a b.
Proof.
  unfold incl_b, incl. rewrite forallb_forall. split; intros H x Hx.
  - apply mem_text_In. apply H. exact Hx.
  - apply mem_text_In. apply H. exact Hx.
Qed.

Lemma obj_eqb_spec a b : obj_eqb a b = true <-> obj_eq a b.
Proof.
  destruct a as [x|x], b as [y|y]; cbn; try (split; [discriminate|tauto]).
  - apply text_eqb_eq.
  - rewrite andb_true_iff, !incl_b_spec. unfold incl. split.
    + intros [H1 H2] t. split; auto.
    + intros H. split; intros t; apply H.
Qed.
Lemma loc_eqb_spec a b : loc_eqb a b = true <-> a = b.
Proof.
  destruct a as [|x|h p], b as [|y|h' p']; cbn; try (split; [discriminate|congruence]); try tauto.
  - rewrite text_eqb_eq. split; congruence.
  - rewrite andb_true_iff, text_eqb_eq, Z.eqb_eq. split; [intros [-> ->]; reflexivity|]. intros H. injection H. auto.
Qed.
Lemma proto_eqb_spec a b : proto_eqb a b = true <-> a = b.
Proof. destruct a, b; cbn; split; congruence. Qed.

Theorem uri_eqb_spec u v : uri_eqb u v = true <-> uri_eq u v.
Proof.
  unfold uri_eqb, uri_eq. rewrite !andb_true_iff, proto_eqb_spec, obj_eqb_spec, loc_eqb_spec. tauto.
Qed.

Theorem neq_location u v : u_loc u <> u_loc v -> uri_eqb u v = false.
Proof.
  intros H. destruct (uri_eqb u v) eqn:E; [|reflexivity]. apply uri_eqb_spec in E. destruct E as [_ [_ E]]. congruence.
Qed.

Lemma xor_fold_perm (h : text -> N) l l' : Permutation l l' ->
  fold_right (fun t acc => N.lxor (h t) acc) 0 l = fold_right (fun t acc => N.lxor (h t) acc) 0 l'.
Proof.
  induction 1; cbn; try congruence.
  rewrite <- !N.lxor_assoc. f_equal. apply N.lxor_comm.
Qed.

Theorem eq_hash h u v : uri_eq u v ->
  hash_key quirks_none h u = hash_key quirks_none h v /\ hash_key quirks_none h u <> None.
Proof.
  intros [E1 [E2 E3]]. unfold hash_key. destruct (u_obj u) as [x|x], (u_obj v) as [y|y]; cbn in E2; try tauto.
  - subst. rewrite E1, E3. split; [reflexivity|discriminate].
  - cbn [q_meta_unhashable quirks_none]. cbv iota. rewrite E1, E3. split; [|discriminate]. do 3 f_equal.
    apply xor_fold_perm. apply NoDup_Permutation; try apply NoDup_nodup.
    intros t. rewrite !nodup_In. apply E2.
Qed.

(* ================= field-wise equality and hashing (fields regenerated from the source) ================= *)
Definition field_eq (f : field) (u v : uri) : Prop :=
  match f with
  | FProto => u_proto u = u_proto v
  | FObj => obj_eq (u_obj u) (u_obj v)
  | FSock => sock_of (u_loc u) = sock_of (u_loc v)
  | FHost => host_of (u_loc u) = host_of (u_loc v)
  | FPort => port_of (u_loc u) = port_of (u_loc v)
  end.

Lemma opt_text_eqb_spec a b : opt_text_eqb a b = true <-> a = b.
Proof.
  destruct a as [x|], b as [y|]; cbn; try (split; [discriminate|congruence]); try tauto.
  rewrite text_eqb_eq. split; congruence.
Qed.
Lemma opt_Z_eqb_spec a b : opt_Z_eqb a b = true <-> a = b.
Proof.
  destruct a as [x|], b as [y|]; cbn; try (split; [discriminate|congruence]); try tauto.
  rewrite Z.eqb_eq. split; congruence.
Qed.
Lemma field_eqb_spec f u v : field_eqb f u v = true <-> field_eq f u v.
Proof.
  destruct f; cbn [field_eqb field_eq].
  - apply proto_eqb_spec.
  - apply obj_eqb_spec.
  - apply opt_text_eqb_spec.
  - apply opt_text_eqb_spec.
  - apply opt_Z_eqb_spec.
Qed.

Lemma mem_field_In f fs : mem_field f fs = true <-> In f fs.
Proof.
  unfold mem_field. rewrite existsb_exists. split.
  - intros [x [H1 H2]]. destruct f, x; try discriminate; exact H1.
  - intros H. exists f. split; [exact H|destruct f; reflexivity].
Qed.

Lemma loc_by_fields a b : sock_of a = sock_of b -> host_of a = host_of b -> port_of a = port_of b -> a = b.
Proof. destruct a, b; cbn; congruence. Qed.

Lemma uri_eq_fields u v : uri_eq u v <-> (forall f, field_eq f u v).
Proof.
  split.
  - intros [E1 [E2 E3]] f. destruct f; cbn; auto; rewrite E3; reflexivity.
  - intros H. split; [exact (H FProto)|]. split; [exact (H FObj)|].
    apply loc_by_fields; [exact (H FSock)|exact (H FHost)|exact (H FPort)].
Qed.

Theorem uri_eqb_on_spec fs : covers fs = true -> forall u v, uri_eqb_on fs u v = true <-> uri_eq u v.
Proof.
  intros C u v. unfold uri_eqb_on. rewrite forallb_forall, uri_eq_fields. split.
  - intros H f. apply field_eqb_spec. apply H. apply mem_field_In.
    unfold covers in C. rewrite forallb_forall in C. apply C. destruct f; cbn; tauto.
  - intros H f _. apply field_eqb_spec. apply H.
Qed.

Theorem neq_location_on fs : covers fs = true -> forall u v, u_loc u <> u_loc v -> uri_eqb_on fs u v = false.
Proof.
  intros C u v H. destruct (uri_eqb_on fs u v) eqn:E; [|reflexivity].
  apply (uri_eqb_on_spec fs C) in E. destruct E as [_ [_ E]]. congruence.
Qed.

Lemma field_key_eq h f u v : field_eq f u v ->
  field_key quirks_none h f u = field_key quirks_none h f v /\ field_key quirks_none h f u <> None.
Proof.
  destruct f; cbn [field_eq field_key]; intros E; try (rewrite E; split; [reflexivity|discriminate]).
  destruct (u_obj u) as [x|x], (u_obj v) as [y|y]; cbn in E; try tauto.
  - subst. split; [reflexivity|discriminate].
  - cbn [q_meta_unhashable quirks_none]. cbv iota. split; [|discriminate]. do 2 f_equal.
    apply xor_fold_perm. apply NoDup_Permutation; try apply NoDup_nodup.
    intros t. rewrite !nodup_In. apply E.
Qed.

(* equal (as far as __eq__ looks) URIs hash equal provided the hash covers no field that == ignores *)
Theorem eq_hash_on efs hfs : fields_incl hfs efs = true -> forall h u v, uri_eqb_on efs u v = true ->
  hash_key_on quirks_none h hfs u = hash_key_on quirks_none h hfs v /\ hash_key_on quirks_none h hfs u <> None.
Proof.
  intros I h u v E. unfold uri_eqb_on in E. rewrite forallb_forall in E.
  unfold fields_incl in I. rewrite forallb_forall in I.
  induction hfs as [|f hfs IH]; [split; [reflexivity|discriminate]|].
  assert (Hf : field_eq f u v).
  { apply field_eqb_spec, E, mem_field_In, I. left. reflexivity. }
  destruct (field_key_eq h f u v Hf) as [K1 K2].
  destruct IH as [IH1 IH2]; [intros x Hx; apply I; right; exact Hx|].
  cbn [hash_key_on]. rewrite <- K1, <- IH1.
  destruct (field_key quirks_none h f u); [|congruence].
  destruct (hash_key_on quirks_none h hfs u); [|congruence]. split; [reflexivity|discriminate].
Qed.

(* ================= transport by state; the name server store as a map ================= *)
Theorem state_roundtrip u : of_state (to_state u) = Some u.
Proof. destruct u as [p o L]. destruct L; reflexivity. Qed.

Lemma st_get_del s k : st_get (st_del s k) k = None.
Proof.
  induction s as [|[k' v] s IH]; [reflexivity|]. cbn [st_del]. destruct (text_eqb k k') eqn:E; [exact IH|].
  cbn [st_get]. rewrite E. exact IH.
Qed.
Lemma st_get_del_other s k k' : k' <> k -> st_get (st_del s k) k' = st_get s k'.
Proof.
  intros N. induction s as [|[k2 v] s IH]; [reflexivity|]. cbn [st_del st_get].
  destruct (text_eqb k k2) eqn:E.
  - apply text_eqb_eq in E. subst k2. destruct (text_eqb k' k) eqn:E2; [apply text_eqb_eq in E2; congruence|exact IH].
  - cbn [st_get]. rewrite IH. reflexivity.
Qed.
(* set k v; get k = v — also when k was present (overwrite) *)
Theorem st_get_set s k v : st_get (st_set s k v) k = Some v.
Proof. unfold st_set. cbn [st_get]. replace (text_eqb k k) with true by (symmetry; apply text_eqb_eq; reflexivity). reflexivity. Qed.
Theorem st_get_set_other s k v k' : k' <> k -> st_get (st_set s k v) k' = st_get s k'.
Proof.
  intros N. unfold st_set. cbn [st_get]. destruct (text_eqb k' k) eqn:E; [apply text_eqb_eq in E; congruence|].
  apply st_get_del_other. exact N.
Qed.
(* exactly one entry per name after a set: the overwritten text is gone from listings too *)
Theorem st_set_single s k v : forall w, In (k, w) (st_set s k v) -> w = v.
Proof.
  intros w [H|H]; [congruence|]. exfalso.
  assert (G : forall s, In (k, w) (st_del s k) -> False).
  { clear. induction s as [|[k' v'] s IH]; [intros []|]. cbn [st_del]. destruct (text_eqb k k') eqn:E; [exact IH|].
    intros [X|X]; [|auto]. injection X as -> _. rewrite (proj2 (text_eqb_eq k k) eq_refl) in E. discriminate. }
  eapply G. exact H.
Qed.

(* registering an accepted text (as a string, checked, or as the text form of a URI object, unchecked) and looking the
   name up gives the URI that text denotes — in any store, whether or not the name was registered before *)
Theorem store_lookup_string T ns s u st name tagged validate : parse T ns s = Some u ->
  ns_step T ns st (SReg name s tagged validate) = (st_set st name (s, tagged), ORegOk) /\
  snd (ns_step T ns (st_set st name (s, tagged)) (SLookup name)) = OLookup (Some u).
Proof.
  intros P. split; cbn [ns_step].
  - rewrite P. rewrite andb_false_r. reflexivity.
  - rewrite st_get_set. cbn [snd]. rewrite P. reflexivity.
Qed.

(* registering a URI object (its text form is stored) and looking it up gives that URI back *)
Theorem store_lookup_registered T (TOK : tables_ok T = true) ns s u : (0 <= ns)%Z -> parse T ns s = Some u -> regular u ->
  forall u', reordering u u' -> forall st name tagged,
  ns_step T ns st (SReg name (print quirks_none u') tagged false) = (st_set st name (print quirks_none u', tagged), ORegOk) /\
  snd (ns_step T ns (st_set st name (print quirks_none u', tagged)) (SLookup name)) = OLookup (Some u').
Proof.
  intros Hns P R u' RE st name tagged. destruct (reparse T TOK ns s u Hns P R u' RE) as [E _].
  apply store_lookup_string. exact E.
Qed.
