(* C20 — lemmas about the gateway model (Model/Gateway.v). *)
From Coq Require Import List NArith Bool Lia.
Import ListNotations.
From V Require Import Model.Gateway.
Local Open Scope N_scope.

(* ---------- equality tests ---------- *)
Lemma teqb_eq : forall a b, teqb a b = true <-> a = b.
Proof.
  induction a as [|x a IH]; destruct b as [|y b]; simpl; split; intro H; try discriminate; auto.
  - apply andb_true_iff in H. destruct H as [H1 H2]. apply N.eqb_eq in H1. apply IH in H2. congruence.
  - inversion H; subst. rewrite N.eqb_refl. simpl. apply IH. reflexivity.
Qed.
Lemma beqb_eq : forall a b, beqb a b = true <-> a = b.
Proof.
  induction a as [|x a IH]; destruct b as [|y b]; simpl; split; intro H; try discriminate; auto.
  - apply andb_true_iff in H. destruct H as [H1 H2]. apply N.eqb_eq in H1. apply IH in H2. congruence.
  - inversion H; subst. rewrite N.eqb_refl. simpl. apply IH. reflexivity.
Qed.
Lemma teqb_refl : forall a, teqb a a = true.
Proof. intro a. apply teqb_eq. reflexivity. Qed.

(* ---------- path lemmas ---------- *)
Lemma strip_prefix_app : forall pre p r, strip_prefix pre p = Some r -> p = pre ++ r.
Proof.
  induction pre as [|a pre IH]; intros p r H; simpl in *.
  - congruence.
  - destruct p as [|b p]; try discriminate.
    destruct (N.eqb_spec a b); try discriminate. subst. simpl. f_equal. auto.
Qed.

Lemma first_line_spec : forall p,
  exists tail, p = first_line p ++ tail /\ ~ In newline (first_line p) /\ (tail = [] \/ exists t', tail = newline :: t').
Proof.
  induction p as [|c p IH]; simpl.
  - exists []. simpl. intuition.
  - destruct (N.eqb_spec c newline).
    + subst. exists (newline :: p). simpl. split; [reflexivity|]. split; [tauto|]. right. eauto.
    + destruct IH as [tail [H1 [H2 H3]]]. exists tail. simpl. split; [congruence|]. split; [|assumption].
      intros [E|E]; [congruence|tauto].
Qed.

Lemma split_line_spec : forall l o m,
  split_line l = Some (o, m) -> l = o ++ slash :: m /\ o <> [] /\ m <> [].
Proof.
  induction l as [|c l IH]; intros o m H; simpl in H; try discriminate.
  destruct (split_line l) as [[o' m']|] eqn:E.
  - inversion H; subst. destruct (IH o' m eq_refl) as [H1 [H2 H3]]. subst l. simpl. split; [reflexivity|]. split; [discriminate|assumption].
  - destruct l as [|s [|x m'']]; try discriminate.
    destruct (N.eqb_spec s slash); try discriminate. inversion H; subst. simpl. split; [reflexivity|]. split; discriminate.
Qed.

Lemma in_app_not : forall (x : N) a b, ~ In x (a ++ b) -> ~ In x a /\ ~ In x b.
Proof. intros x a b H. split; intro; apply H; apply in_or_app; tauto. Qed.

Section P.
  Variable matches : text -> text -> bool.
  Variable K : consts.

  Lemma target_is_path_split : forall rq obj member,
    call_target K rq = Some (obj, member) ->
    exists tail, lstrip_slash (rq_path rq) = k_prefix K ++ obj ++ slash :: member ++ tail /\
                 obj <> [] /\ member <> [] /\ ~ In newline obj /\ ~ In newline member /\
                 (tail = [] \/ exists t', tail = newline :: t').
  Proof.
    intros rq obj member H. unfold call_target in H.
    destruct (strip_prefix (k_prefix K) (lstrip_slash (rq_path rq))) as [rest|] eqn:E; try discriminate.
    destruct rest as [|c rest]; try discriminate.
    apply strip_prefix_app in E. unfold split_path in H.
    destruct (first_line_spec (c :: rest)) as [tail [H1 [H2 H3]]].
    apply split_line_spec in H. destruct H as [H4 [H5 H6]].
    exists tail. rewrite E, H1, H4. rewrite H4 in H2.
    apply in_app_not in H2. destruct H2 as [H2 H7].
    split. { rewrite <- app_assoc. reflexivity. }
    repeat split; auto. intro X. apply H7. right. exact X.
  Qed.

  (* ---------- the key check decides [presents_key] ---------- *)
  Lemma key_check_ok : forall q cfg rq params,
    key_check K q cfg rq = KOk params ->
    presents_key K cfg rq /\
    params = (if key_configured cfg then remove_key (k_key K) (rq_params rq) else rq_params rq).
  Proof.
    intros q cfg rq params H. unfold key_check, presents_key, key_configured in *.
    destruct (cfg_key cfg) as [[|k0 k]|] eqn:E.
    - inversion H; subst. split; [|reflexivity]. intros k Hk Hn. inversion Hk; subst. congruence.
    - unfold presented_key in H.
      destruct (rq_keyhdr rq) as [|h hs] eqn:Eh.
      + destruct (assoc (k_key K) (rq_params rq)) as [[|v [|v2 vs]]|] eqn:Ea.
        * destruct (q_multi_key_crash q); discriminate.
        * destruct (beqb (utf8 v) (k0 :: k)) eqn:Eb; try discriminate. inversion H; subst.
          split; [|reflexivity]. intros k' Hk Hn. inversion Hk; subst. right. split; [reflexivity|].
          exists v. split; [reflexivity|]. apply beqb_eq. exact Eb.
        * destruct (q_multi_key_crash q); discriminate.
        * simpl in H. discriminate.
      + destruct (beqb (utf8 (h :: hs)) (k0 :: k)) eqn:Eb; try discriminate. inversion H; subst.
        split; [|reflexivity]. intros k' Hk Hn. inversion Hk; subst. left. split; [discriminate|]. apply beqb_eq. exact Eb.
    - inversion H; subst. split; [|reflexivity]. intros k Hk. discriminate.
  Qed.

  Lemma presents_key_check : forall q cfg rq,
    presents_key K cfg rq -> exists params, key_check K q cfg rq = KOk params.
  Proof.
    intros q cfg rq H. unfold key_check, presents_key in *.
    destruct (cfg_key cfg) as [[|k0 k]|] eqn:E; eauto.
    destruct (H (k0 :: k) eq_refl) as [[H1 H2]|[H1 [v [H2 H3]]]]; try discriminate.
    - unfold presented_key. destruct (rq_keyhdr rq) as [|h hs]; [congruence|].
      apply beqb_eq in H2. rewrite H2. eauto.
    - unfold presented_key. rewrite H1, H2. apply beqb_eq in H3. rewrite H3. eauto.
  Qed.

  Lemma key_check_denied_or_ok : forall q cfg rq,
    q_multi_key_crash q = false -> key_check K q cfg rq <> KCrash.
  Proof.
    intros q cfg rq Hq. unfold key_check.
    destruct (cfg_key cfg) as [[|k0 k]|]; try discriminate.
    destruct (presented_key K rq); [destruct (beqb _ _); discriminate|]. rewrite Hq. discriminate.
  Qed.

  Lemma exposedb_iff : forall cfg obj, exposedb matches cfg obj = true <-> exposed matches cfg obj.
  Proof.
    intros cfg obj. unfold exposedb, exposed. destruct (cfg_pattern cfg) as [|c p]; split; intro H; auto.
    - destruct H as [H|H]; [discriminate|assumption].
  Qed.

  (* route on a call target *)
  Lemma route_call_target : forall q cfg be rq obj member,
    call_target K rq = Some (obj, member) ->
    route matches K q cfg be rq =
      match method_class K (rq_method rq) with
      | MOther => (Resp 405 BNotAllowed false, [])
      | MPreflight => (Resp 200 BPreflight false, [])
      | MCall =>
        match key_check K q cfg rq with
        | KCrash => (Crash, [])
        | KDenied => (Resp 403 BForbiddenKey false, [])
        | KOk params =>
          if exposedb matches cfg obj then forward K q be rq obj member params
          else (Resp 403 BForbiddenObject false, [])
        end
      end.
  Proof.
    intros q cfg be rq obj member H. unfold call_target in H. unfold route.
    destruct (lstrip_slash (rq_path rq)) as [|c0 p0] eqn:El.
    - destruct (k_prefix K); simpl in H; discriminate.
    - destruct (strip_prefix (k_prefix K) (c0 :: p0)) as [rest|]; try discriminate.
      destruct rest as [|c rest]; try discriminate.
      destruct (method_class K (rq_method rq)); try reflexivity.
      unfold process. rewrite H. reflexivity.
  Qed.
End P.

Section Main.
  Variable matches : text -> text -> bool.
  Variable K : consts.

  (* ---------- facts about [forward], the only producer of backend actions for call requests ---------- *)
  Ltac fwd_cases H :=
    unfold forward, err in H;
    repeat match type of H with
    | context [if ?c then _ else _] => destruct c eqn:?
    | context [match ?x with _ => _ end] => destruct x eqn:?
    end.

  Lemma forward_actions : forall q be rq obj member params a,
    q_proxy_local q = false ->
    In a (snd (forward K q be rq obj member params)) ->
    a = AGetNS \/ a = ALookup obj \/
    exists uri, assoc obj (be_registry be) = Some uri /\
      (a = ANewProxy uri \/ a = AGetMeta uri \/ a = ARelease uri \/ a = AGetAttr uri member \/
       exists ow, a = AInvoke uri member (kwargs_of params) ow).
  Proof.
    intros q be rq obj member params a Hq H. unfold forward in H. rewrite Hq in H. simpl in H.
    destruct (negb (be_ns_ok be)). { simpl in H. intuition. }
    destruct (assoc obj (be_registry be)) as [uri|] eqn:Ea. 2:{ simpl in H. intuition. }
    assert (G : forall l, In a l ->
              (forall x, In x l -> x = AGetNS \/ x = ALookup obj \/ x = ANewProxy uri \/ x = AGetMeta uri \/ x = ARelease uri \/
                                   x = AGetAttr uri member \/ exists ow, x = AInvoke uri member (kwargs_of params) ow) ->
              a = AGetNS \/ a = ALookup obj \/
              exists uri0, Some uri = Some uri0 /\
                (a = ANewProxy uri0 \/ a = AGetMeta uri0 \/ a = ARelease uri0 \/ a = AGetAttr uri0 member \/
                 exists ow, a = AInvoke uri0 member (kwargs_of params) ow)).
    { intros l Hin Hall. destruct (Hall a Hin) as [X|[X|X]]; auto. right. right. exists uri. split; [reflexivity|]. exact X. }
    repeat match type of H with
    | context [if ?c then _ else _] => destruct c
    | context [match ?x with _ => _ end] => destruct x
    end;
    (eapply G; [exact H|]; simpl; intros x Hx;
     repeat (destruct Hx as [Hx|Hx]; [subst x; eauto 10|]); try contradiction).
  Qed.

  Lemma forward_counts : forall q be rq obj member params,
    (remote_calls (snd (forward K q be rq obj member params)) <= 1)%nat /\
    (length (filter is_lookup (snd (forward K q be rq obj member params))) <= 1)%nat.
  Proof.
    intros. unfold forward, remote_calls.
    repeat match goal with
    | |- context [if ?c then _ else _] => destruct c
    | |- context [match ?x with _ => _ end] => destruct x
    end; simpl; lia.
  Qed.

  Lemma forward_result : forall q be rq obj member params,
    q_proxy_local q = false ->
    faithful_result K be member (forward K q be rq obj member params).
  Proof.
    intros q be rq obj member params Hq. unfold forward, faithful_result, remote_calls, err. rewrite Hq. simpl.
    destruct (negb (be_ns_ok be)). { simpl. split; [reflexivity|lia]. }
    destruct (assoc obj (be_registry be)) as [uri|]. 2:{ simpl. split; [reflexivity|lia]. }
    destruct (rq_corr rq); try (simpl; split; [reflexivity|lia]);
    (destruct (be_meta be) as [md|] eqn:Em; [|simpl; split; [reflexivity|lia]];
     destruct (teqb member (k_meta K)) eqn:Et;
     [ simpl; split; [reflexivity|]; split; [apply teqb_eq; exact Et|]; split; [reflexivity|]; exists md; auto |];
     destruct (mem member (md_attrs md));
     [ destruct params; [|simpl; split; [reflexivity|lia]];
       destruct (be_reply be) eqn:Er; destruct (mem (k_oneway K) (split_on (k_sep K) (rq_options rq))); simpl;
       try (split; [reflexivity|lia]); try (split; reflexivity); try (left; repeat split; reflexivity); try (right; repeat split; reflexivity) |];
     destruct (mem member (md_methods md)); [|simpl; split; [reflexivity|lia]];
     destruct (mem py_self (map fst params)); [simpl; split; [reflexivity|lia]|];
     destruct (mem (k_oneway K) (split_on (k_sep K) (rq_options rq)) || mem member (md_oneway md)); simpl;
     [split; reflexivity|];
     destruct (be_reply be) eqn:Er; simpl;
     try (split; [reflexivity|lia]); try (left; repeat split; reflexivity); try (right; repeat split; reflexivity)).
  Qed.
End Main.

Section Top.
  Variable matches : text -> text -> bool.
  Variable K : consts.

  Lemma forward_nonempty : forall q be rq obj member params,
    snd (forward K q be rq obj member params) <> [].
  Proof.
    intros. unfold forward.
    repeat match goal with
    | |- context [if ?c then _ else _] => destruct c
    | |- context [match ?x with _ => _ end] => destruct x
    end; simpl; discriminate.
  Qed.

  (* any backend action for a call request => it was a GET/POST presenting the key for an exposed object *)
  Theorem no_traffic_unless_authorised : forall q cfg be rq obj member,
    call_target K rq = Some (obj, member) ->
    snd (route matches K q cfg be rq) <> [] ->
    authorised matches K cfg rq obj.
  Proof.
    intros q cfg be rq obj member Ht Hn. rewrite (route_call_target matches K q cfg be rq obj member Ht) in Hn.
    unfold authorised, is_call_method.
    destruct (method_class K (rq_method rq)); simpl in Hn; try congruence.
    destruct (key_check K q cfg rq) as [params| |] eqn:Ek; simpl in Hn; try congruence.
    destruct (exposedb matches cfg obj) eqn:Ee; simpl in Hn; try congruence.
    split; [reflexivity|]. split.
    - apply (key_check_ok K q cfg rq params Ek).
    - apply exposedb_iff. exact Ee.
  Qed.

  (* a call request that is not authorised is refused, with no backend action at all *)
  Theorem refusal_status : forall q cfg be rq obj member,
    q_multi_key_crash q = false ->
    call_target K rq = Some (obj, member) ->
    ~ authorised matches K cfg rq obj ->
    snd (route matches K q cfg be rq) = [] /\
    exists st b, fst (route matches K q cfg be rq) = Resp st b false /\
                 (st = 403 \/ st = 405 \/ (st = 200 /\ b = BPreflight)).
  Proof.
    intros q cfg be rq obj member Hq Ht Hna. rewrite (route_call_target matches K q cfg be rq obj member Ht).
    unfold authorised, is_call_method in Hna.
    destruct (method_class K (rq_method rq)) eqn:Em; simpl.
    - destruct (key_check K q cfg rq) as [params| |] eqn:Ek.
      + destruct (exposedb matches cfg obj) eqn:Ee.
        * exfalso. apply Hna. split; [reflexivity|]. split; [apply (key_check_ok K q cfg rq params Ek)|apply exposedb_iff; exact Ee].
        * simpl. split; [reflexivity|]. eauto 8.
      + simpl. split; [reflexivity|]. eauto 8.
      + exfalso. exact (key_check_denied_or_ok K q cfg rq Hq Ek).
    - split; [reflexivity|]. eauto 10.
    - split; [reflexivity|]. eauto 8.
  Qed.

  (* everything that is neither the index page nor a call request is answered locally *)
  Theorem non_call_no_traffic : forall q cfg be rq,
    call_target K rq = None -> is_index K rq = false ->
    snd (route matches K q cfg be rq) = [] /\ refusal (fst (route matches K q cfg be rq)).
  Proof.
    intros q cfg be rq Ht Hi. unfold call_target in Ht. unfold is_index in Hi. unfold route, refusal.
    destruct (lstrip_slash (rq_path rq)) as [|c0 p0] eqn:El.
    - simpl. split; [reflexivity|]. eauto 10.
    - destruct (strip_prefix (k_prefix K) (c0 :: p0)) as [rest|].
      + destruct rest as [|c rest]; try discriminate.
        destruct (method_class K (rq_method rq)); simpl.
        * unfold process. rewrite Ht. simpl. split; [reflexivity|]. eauto 10.
        * split; [reflexivity|]. eauto 10.
        * split; [reflexivity|]. eauto 10.
      + simpl. split; [reflexivity|]. eauto 10.
  Qed.

  (* authorised request: route = forward on exactly the parameters minus the key *)
  Lemma route_authorised : forall q cfg be rq obj member,
    call_target K rq = Some (obj, member) -> authorised matches K cfg rq obj ->
    route matches K q cfg be rq =
      forward K q be rq obj member (if key_configured cfg then remove_key (k_key K) (rq_params rq) else rq_params rq).
  Proof.
    intros q cfg be rq obj member Ht [Hm [Hk He]]. rewrite (route_call_target matches K q cfg be rq obj member Ht).
    unfold is_call_method in Hm. rewrite Hm.
    destruct (presents_key_check K q cfg rq Hk) as [params Hp]. rewrite Hp.
    apply exposedb_iff in He. rewrite He.
    destruct (key_check_ok K q cfg rq params Hp) as [_ Hpar]. rewrite Hpar. reflexivity.
  Qed.

  Theorem forward_faithful : forall q cfg be rq obj member a,
    q_proxy_local q = false ->
    call_target K rq = Some (obj, member) -> authorised matches K cfg rq obj ->
    In a (snd (route matches K q cfg be rq)) ->
    faithful_action K cfg be rq obj member a.
  Proof.
    intros q cfg be rq obj member a Hq Ht Ha Hin.
    rewrite (route_authorised q cfg be rq obj member Ht Ha) in Hin.
    unfold faithful_action, forwarded_params. apply (forward_actions matches K q be rq obj member _ a Hq Hin).
  Qed.

  Theorem forward_once : forall q cfg be rq obj member,
    call_target K rq = Some (obj, member) ->
    (remote_calls (snd (route matches K q cfg be rq)) <= 1)%nat /\
    (length (filter is_lookup (snd (route matches K q cfg be rq))) <= 1)%nat.
  Proof.
    intros q cfg be rq obj member Ht. rewrite (route_call_target matches K q cfg be rq obj member Ht).
    destruct (method_class K (rq_method rq)); try (unfold remote_calls; simpl; split; lia).
    destruct (key_check K q cfg rq); try (unfold remote_calls; simpl; split; lia).
    destruct (exposedb matches cfg obj); try (unfold remote_calls; simpl; split; lia).
    apply forward_counts.
  Qed.

  Theorem forward_result_faithful : forall q cfg be rq obj member,
    q_proxy_local q = false ->
    call_target K rq = Some (obj, member) -> authorised matches K cfg rq obj ->
    faithful_result K be member (route matches K q cfg be rq).
  Proof.
    intros q cfg be rq obj member Hq Ht Ha. rewrite (route_authorised q cfg be rq obj member Ht Ha).
    apply forward_result. exact Hq.
  Qed.

  (* liveness: an authorised request for an existing method of a registered object is invoked, with exactly
     the parameters, and its reply is what the client gets *)
  Theorem forward_method_invoked : forall q cfg be rq obj member uri md,
    call_target K rq = Some (obj, member) -> authorised matches K cfg rq obj ->
    be_ns_ok be = true -> assoc obj (be_registry be) = Some uri -> rq_corr rq <> CorrInvalid ->
    be_meta be = Some md -> teqb member (k_meta K) = false ->
    mem member (md_attrs md) = false -> mem member (md_methods md) = true ->
    mem py_self (map fst (rq_params rq)) = false ->
    let ow := mem (k_oneway K) (split_on (k_sep K) (rq_options rq)) || mem member (md_oneway md) in
    snd (route matches K q cfg be rq) =
      [AGetNS; ALookup obj; ANewProxy uri; AGetMeta uri; AInvoke uri member (forwarded_params K cfg rq) ow; ARelease uri] /\
    fst (route matches K q cfg be rq) =
      (if ow then Resp 200 BEmpty true else
         match be_reply be with
         | RRaise c => Resp 500 (BError (EBackend c)) false
         | ROk d => Resp 200 (BRaw d) true
         | RExc d => Resp 500 (BRaw d) false
         end).
  Proof.
    intros q cfg be rq obj member uri md Ht Ha Hns Hreg Hcorr Hmd Hmeta Hattr Hmeth Hself ow.
    rewrite (route_authorised q cfg be rq obj member Ht Ha).
    assert (Hself' : mem py_self (map fst (if key_configured cfg then remove_key (k_key K) (rq_params rq) else rq_params rq)) = false).
    { destruct (key_configured cfg); [|exact Hself].
      unfold mem in *. apply not_true_is_false. intro X. apply existsb_exists in X. destruct X as [x [X1 X2]].
      apply in_map_iff in X1. destruct X1 as [kv [X1 X3]]. unfold remove_key in X3. apply filter_In in X3. destruct X3 as [X3 _].
      assert (Y : existsb (teqb py_self) (map fst (rq_params rq)) = true).
      { apply existsb_exists. exists x. split; [|exact X2]. apply in_map_iff. exists kv. auto. }
      congruence. }
    unfold forward, forwarded_params, err. rewrite Hns, Hreg, Hmd, Hmeta, Hattr, Hmeth, Hself'. simpl.
    destruct (rq_corr rq); try congruence; fold ow; destruct ow; split; reflexivity.
  Qed.
End Top.

(* ---------- the index page ---------- *)
Lemma insert_sorted_in : forall x y l, In y (insert_sorted x l) -> y = x \/ In y l.
Proof.
  induction l as [|z l IH]; simpl; intro H.
  - destruct H as [H|H]; auto.
  - destruct (tleb x z); simpl in H.
    + destruct H as [H|H]; auto.
    + destruct H as [H|H]; auto. destruct (IH H); auto.
Qed.
Lemma sort_texts_in : forall l y, In y (sort_texts l) -> In y l.
Proof.
  induction l as [|x l IH]; simpl; intros y H; auto.
  apply insert_sorted_in in H. destruct H; auto.
Qed.
Lemma insert_sorted_length : forall x l, length (insert_sorted x l) = S (length l).
Proof. induction l as [|z l IH]; simpl; auto. destruct (tleb x z); simpl; auto. Qed.
Lemma sort_texts_length : forall l, length (sort_texts l) = length l.
Proof. induction l as [|x l IH]; simpl; auto. rewrite insert_sorted_length. auto. Qed.
Lemma firstn_in' : forall {A} n (l : list A) x, In x (firstn n l) -> In x l.
Proof.
  induction n as [|n IH]; destruct l as [|y l]; simpl; intros x H; try contradiction.
  destruct H as [H|H]; [left; exact H|right; apply IH; exact H].
Qed.

Section Index.
  Variable matches : text -> text -> bool.
  Variable K : consts.

  Lemma index_names_in : forall cfg be n,
    In n (index_names matches K cfg be) -> In n (map fst (be_registry be)) /\ exposed matches cfg n.
  Proof.
    intros cfg be n H. unfold index_names in H. apply sort_texts_in in H. apply firstn_in' in H.
    apply filter_In in H. destruct H as [H1 H2]. split; [exact H1|]. apply exposedb_iff. exact H2.
  Qed.

  Lemma index_names_bound : forall cfg be, (length (index_names matches K cfg be) <= k_index_limit K)%nat.
  Proof. intros. unfold index_names. rewrite sort_texts_length. apply firstn_le_length. Qed.

  Lemma homepage_actions : forall cfg be a,
    In a (snd (homepage matches K cfg be)) -> index_action matches cfg be a.
  Proof.
    intros cfg be a H. unfold homepage in H. unfold index_action.
    destruct (be_ns_ok be); simpl in H.
    - destruct H as [H|[H|H]]; auto.
      apply in_app_or in H. destruct H as [H|H].
      + apply in_map_iff in H. destruct H as [n [H1 H2]]. right. right. exists n.
        destruct (index_names_in cfg be n H2). auto.
      + apply in_flat_map in H. destruct H as [n [H1 H2]]. right. right. exists n.
        destruct (index_names_in cfg be n H1). simpl in H2. intuition.
    - destruct H as [H|H]; auto. contradiction.
  Qed.

  (* the keyless exception: only the name-server listing for the configured pattern, and look-ups / binds of
     registered names that match it (at most ten) *)
  Theorem index_only_exposed : forall q cfg be rq a,
    is_index K rq = true ->
    In a (snd (route matches K q cfg be rq)) -> index_action matches cfg be a.
  Proof.
    intros q cfg be rq a Hi H. unfold is_index in Hi. unfold route in H.
    destruct (lstrip_slash (rq_path rq)) as [|c0 p0]. { simpl in H. contradiction. }
    destruct (strip_prefix (k_prefix K) (c0 :: p0)) as [[|c rest]|]; try discriminate.
    destruct (method_class K (rq_method rq)); simpl in H; try contradiction.
    apply homepage_actions. exact H.
  Qed.
End Index.

(* ---------- the two defective variants violate the statements (concrete witnesses) ---------- *)
From V Require Import Gen.GenGateway Harness.H20.
From Coq Require Import String.

Definition w_all (_ _ : text) : bool := true.
Definition w_be : backend :=
  {| be_ns_ok := true; be_registry := [(t "http.obj", t "PYRO:o0@h:400")];
     be_meta := Some {| md_methods := [t "echo"]; md_attrs := [t "value"]; md_oneway := [] |};
     be_meta_exc := 0; be_reply := ROk [49]; be_local_void := [t "_pyroRelease"] |}.
Definition w_rq_multikey : request :=
  {| rq_method := Some (t "GET"); rq_path := t "/pyro/http.obj/echo";
     rq_params := [(t "$key", [t "secret"; t "secret"])]; rq_keyhdr := []; rq_options := []; rq_corr := CorrNone |}.
Definition w_cfg_key : config := {| cfg_key := Some (utf8 (t "secret")); cfg_pattern := t "http\." |}.
Definition w_rq_local : request :=
  {| rq_method := Some (t "GET"); rq_path := t "/pyro/http.obj/_pyroRelease";
     rq_params := []; rq_keyhdr := []; rq_options := []; rq_corr := CorrNone |}.
Definition w_cfg_nokey : config := {| cfg_key := None; cfg_pattern := t "http\." |}.

Lemma multi_key_refuted :
  exists cfg be rq obj member,
    call_target gen_consts rq = Some (obj, member) /\
    ~ authorised w_all gen_consts cfg rq obj /\
    fst (route w_all gen_consts {| q_multi_key_crash := true; q_proxy_local := false |} cfg be rq) = Crash.
Proof.
  exists w_cfg_key, w_be, w_rq_multikey, (t "http.obj"), (t "echo").
  split; [vm_compute; reflexivity|]. split; [|vm_compute; reflexivity].
  intros [_ [H _]]. specialize (H _ eq_refl).
  destruct H as [[H _]|[_ [v [H _]]]].
  - vm_compute. discriminate.
  - apply H. reflexivity.
  - vm_compute in H. discriminate.
Qed.

Lemma proxy_local_refuted :
  exists cfg be rq obj member,
    call_target gen_consts rq = Some (obj, member) /\
    authorised w_all gen_consts cfg rq obj /\
    ~ faithful_result gen_consts be member
        (route w_all gen_consts {| q_multi_key_crash := false; q_proxy_local := true |} cfg be rq).
Proof.
  exists w_cfg_nokey, w_be, w_rq_local, (t "http.obj"), (t "_pyroRelease").
  split; [vm_compute; reflexivity|]. split.
  - split; [vm_compute; reflexivity|]. split; [intros k H; discriminate|right; reflexivity].
  - vm_compute. intros [_ H]. discriminate.
Qed.

(* the same two requests under the repaired behaviour *)
Lemma witnesses_repaired :
  route w_all gen_consts quirks_none w_cfg_key w_be w_rq_multikey = (Resp 403 BForbiddenKey false, []) /\
  fst (route w_all gen_consts quirks_none w_cfg_nokey w_be w_rq_local) = Resp 500 (BError EAttribute) false.
Proof. split; vm_compute; reflexivity. Qed.
